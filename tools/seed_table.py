#!/usr/bin/env python3
"""Prints a markdown table (seed | what it does | caught by) from seeded/*/meta.json and a run_all.sh log."""
import json, glob, os, re, sys
log = sys.argv[1] if len(sys.argv) > 1 else None
caught = {}
if log and os.path.exists(log):
    for l in open(log):
        m = re.match(r'seed (C\d+-\w): (.*)', l)
        if m:
            caught[m.group(1)] = m.group(2).strip()
only = sys.argv[2] if len(sys.argv) > 2 else ''
print('| seed | what it does | caught by |')
print('|------|--------------|-----------|')
for d in sorted(glob.glob('/verif/seeded/C*-*')):
    sid = os.path.basename(d)
    if only and not re.search(only, sid):
        continue
    try:
        meta = json.load(open(os.path.join(d, 'meta.json')))
    except Exception:
        continue
    s = re.sub(r'\s+', ' ', meta.get('summary', '')).strip().replace('|', '/')
    if len(s) > 230:
        s = s[:227] + '...'
    c = caught.get(sid, '?')
    c = re.sub(r'C\d+:CAUGHT\[(.*?)\]', lambda m: m.group(0).split(':')[0] + ' ' + re.sub(r'\s*rule \w+ matched.*?written for,?', '', m.group(1)), c)
    print(f'| {sid} | {s} | {c} |')
