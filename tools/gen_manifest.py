#!/usr/bin/env python3
"""Regenerates /verif/MANIFEST.json from the table below (claimed checks) and properties.jsonl.
Every property that is not claimed is listed under not_applicable with its reason."""
import json, os
V = os.path.dirname(os.path.dirname(os.path.abspath(__file__)))
props = [json.loads(l) for l in open(os.path.join(V, 'properties.jsonl'))]

# id -> (technique, level text, level note)
CLAIMED = {
 "C06": ("G6/G16 map-range order rule + E5 field-based may-taint analysis (writes to memory outliving the call / input bytes) + G8 call-graph reachability of clock/randomness, over go/ssa of every function reachable from ParseStatic/ParseRealtime",
         "Structural sufficient conditions for determinism and history-freedom, decided for every path of the code (hence every input, option value and call history): no map-iteration order reaches a result, no write to state that outlives the call or to the input, no nondeterminism source is reachable. Level 'other': static analysis of the source; not a behavioural proof of the libraries underneath.",
         "Trusts go/ssa, determinism of the standard library and protobuf runtime; field-based alias model; per-key objects of id-keyed maps are distinct. Known finding D12 (nyctalerts elevator state) is reported as KNOWN-FINDING, not hidden."),
 "C18": ("E5 field-based may-taint analysis ('who writes shared memory') over go/ssa + call-graph checks (no goroutines/sync inside, G8)",
         "A call that writes only memory it allocated cannot race: every write site reachable from the parse entry points, the hashing/walking/getter accessors and ExportToCsv is classified; writes through addresses derived from parameters, receivers or package-level variables fail. Holds for every schedule because it is a property of the code, not of an execution.",
         "Trusts the listed library entry points' documented concurrency safety (regexp, text/template.Execute, proto.HasExtension/GetExtension); callers do not mutate inputs concurrently; hash.Hash is a per-call output. Known finding D12 is reported."),
 "C13": ("type-directed field-coverage and encoder-shape analysis of the hasher on go/ssa (H1-H4), fixed-size rule G15 per generic instantiation",
         "Structural sufficient condition for injectivity of the hash input over all pairs of values: every data field reaches a self-delimiting, presence-preserving encoder of the kind its type demands; excluded fields are never read; primitives write length/presence before payload; flush discipline keeps the byte order. Not a proof about the hash function or encoding/binary.",
         "Trusts encoding/binary.Write (fixed-width little endian) and hash.Hash.Write as a byte stream; struct definitions are the oracle for coverage."),
 "C20": ("text/template/parse trees of the embedded templates + go/types field resolution + E4 decision tables of the helper closures + E5 taint for 'journal unmodified'",
         "Decides, for every journal, the shape of the export: header/cell agreement by field name and type-directed formatter, one row per range element with exactly ',' separators and one newline, no row filters, correct template-to-field wiring, nil -> empty cell, direction table inverse of the decoder. Not decided: text/template's execution semantics; CSV metacharacters (excluded by the property).",
         "Trusts text/template to execute the parsed tree as documented."),
 "C10": ("CFG summary of OptionalColumn.Read/ReadOr composed with E4 decision tables of the enum decoders, compared against the GTFS default table; E7 flag-directed phi resolution for the arrival/departure fill-in; dominance rule for the inheritance pass",
         "Decides for every default-bearing column and both ways of omitting a value (column absent, cell blank) that the field takes the GTFS default; that under each validity combination the stored arrival/departure comes from a valid side; and that the inheritance option's stores are guarded and touch only WheelchairBoarding. Decided from the code for all rows at once; numeric parsing itself is not covered.",
         "Oracle table transcribed from the GTFS reference (DESIGN Appendix A.2); trusts that rows flow through the decoders found (C01 covers bindings)."),
 "C05": ("E1 forward guard-fact dataflow on go/ssa with interprocedural summaries (nil), E2 goal-directed bounds prover, CFG loop classification (G4), call-graph SCCs (G5), csv typestate contract, proto2/extension/regexp lemmas",
         "For every module function reachable from the entry points the property names, every dereference, interface invoke, index/slice expression, integer division, plain type assertion, panic and loop is an obligation that is proved on all paths or fails the check; one invariant-based slice bound is a reviewed exception (listed in the evidence, not covered). This is a sound-by-construction static argument over the module's code modulo the stated library lemmas; it is not a proof about the libraries.",
         "Entry contracts (non-nil options/receivers/hash); proto.Unmarshal guarantees required fields and non-nil repeated elements; HasExtension lemma; library results non-nil when err == nil; encoding/csv equal field counts; finite inputs for the driver loops. Field-based alias model for kills."),
 "C19": ("exhaustive CFG path enumeration of the directory source's retry loop and listing loop (iterator protocol), dominance checks for the sort, call-chain check of the CLI wiring",
         "Decides on every path through NewDirectoryGtfsrtSource and Next (fault edges included) that every entry is listed once, names are sorted before use, the stream ends exactly on an empty list, each trip around the loop consumes exactly the front name, read and parse failures continue, and a success returns the parse of exactly that file. Holds for every directory content and fault pattern because the enumeration covers all CFG paths; os/sort/ParseRealtime behaviour itself is trusted (C05 covers ParseRealtime's totality).",
         "Trusts os.ReadDir/os.ReadFile/sort.Strings/filepath.Join as documented; journal equality over histories is C14/C15's subject."),
 "C07": ("path enumeration over the entity loop's CFG (merge on every path), dominance/guard rules for accumulator creation and the no-id list, shape check of mergeTrip/mergeVehicle, G6/G16 sort rule, E4 return-path tables of the entity parsers",
         "Structural necessary conditions of order-independent merging, uniqueness and sortedness, decided on every path of ParseRealtime: each is a statement about the only code that creates, merges, sorts and copies out the entries, so it holds for every message and every entity permutation. Not decided: commutativity for conflicting duplicates (excluded by the property).",
         "Accumulator entries of distinct keys are distinct objects; sort.Slice sorts; TripID.Less totality is checked as field coverage (G16), not as an order-theoretic proof."),
 "C04": ("provenance and dominance rules for every store to Trip.Vehicle / Vehicle.Trip, pairing rule for the association tables, path enumeration of the both-present region, E4 return-path tables of the entity parsers",
         "Decides the link mechanism structurally for every feed and entity order: links are stored only between accumulator entries and only after all merging is done, every expressed association is recorded on every path and resolved, and copies are taken after linking. Content equality behind the links follows from these plus C07; it is not separately computed.",
         "Feeds associate each trip with at most one vehicle (property's quantifier); accumulator entries of distinct keys are distinct objects."),
 "C01": ("E3 backward provenance (binding extraction) of every result field to CSV columns compared with the GTFS column table; E4 decision tables of the enum decoders against the GTFS digits; polynomial normal form of the time formula; syntax-tree reading of the file table; dominance rules for reader configuration and pre-allocation; E5 taint for package-level state",
         "Structural necessary conditions of faithful transcription, decided for every archive: which column reaches which field through which decoder, what each decoder's table is, how times and dates are formed and in which zone, which file is parsed by which function in which order, and that presentation (column order, extra columns/files, BOM, quoting) is left to a CSV reader configured only with library defaults. The value round trip itself (numeric parsing, zip/csv decoding) is not decided.",
         "Oracle tables transcribed from the GTFS reference (DESIGN Appendix A.1/A.2); strconv, encoding/csv, archive/zip, x/text BOM override and time.ParseInLocation behave as documented."),
 "C02": ("E3 backward provenance of every realtime field to gtfs-realtime.proto fields compared with the wire table; use-site rule for time.Unix/time.Date zones; polynomial normal form of the start time; E4 decision tables of the direction decoder, timezoneOrUTC and the nil-preserving converters; merge/guard rules shared with C07/C04; E5 taint for package-level state",
         "Structural necessary conditions of faithful transcription of the wire, decided for every message and timezone option: field-to-field bindings, allowed transformers, zone of every constructed instant, units, literal in-message flags, absent-stays-absent converters, one entry per descriptor. Numeric ranges and protobuf decoding are not decided.",
         "Oracle transcribed from gtfs-realtime.proto (DESIGN Appendix A.3); the time package's zone arithmetic and the protobuf runtime are trusted."),
 "C03": ("pointer-provenance resolution over go/ssa (phis, id maps, cells) against the result's own collections, growth-discipline and single-writer rules, id-map key/value agreement, E1 facts at entity appends, acyclic-by-construction rule for Stop.Parent (guarded writer + bounded ancestor test shape) and loop classification of Stop.Root",
         "Referential closure and the forest property are decided as invariants of the only code that creates the pointers, hence for every archive including malformed ones: every reference is an element address of the result's own slice taken after the slice stopped growing; required references are non-nil at the append; no store to Parent can close a cycle, so Root terminates. The arithmetic inside the ancestor walk is checked in shape only.",
         "Slices handed from one phase to the next are not re-allocated afterwards (single writer phase is checked); Go's append semantics."),
 "C08": ("dominance/post-dominance and path rules for the per-group sorts, comparator analysis of every sort.Slice closure (indexes the sorted slice, one key, <), tail-append rule for file-order collections, guard rule for the capacity pre-allocation, path-resolved coherence of the loop-carried trip cache, G6 for map-built output",
         "Decides the ordering mechanism for every feed and every permutation of the rows: which collections are sorted, by which key, after all rows are read, for every group; which collections only ever grow at the tail; that interleaved rows cannot lose earlier rows or be attributed to the wrong trip. sort.Slice itself is trusted.",
         "Distinct sequence numbers within a trip/shape (property's quantifier); sort.Slice sorts according to its comparator."),
 "C09": ("exhaustive CFG path enumeration of every row loop (reject paths have no persistent effects: stores, outer map updates, effectful calls by mod-set, changed loop-carried values), slice-identity taint for the csv reader's reused record (G9), E3 bindings of the warning's fields, increment rule for the row counter",
         "Decides inertness structurally for all ten row loops and all positions of an invalid row: a `continue` path cannot have written anything that outlives the iteration. Warnings take file, 1-based record number and a copy of the row from the file's accessors. Which inputs are classified invalid is not decided here.",
         "Accept path = the lexically last block of the loop body; logging, warning accumulation and the csv layer's per-row state are exempt by name."),
}
REASON_TODO = "check under construction in this session (static rule set designed in DESIGN.md section 3, not yet implemented); not claimed until it runs clean on the unchanged tree"
NOT_APPLICABLE = {}

checks = []
for pid, (tech, text, note) in sorted(CLAIMED.items()):
    checks.append({"property_id": pid, "quick_cmd": "./check.sh %s quick" % pid, "thorough_cmd": "./check.sh %s thorough" % pid,
                   "evidence_file": "/verif/evidence/%s.json" % pid, "replay_cmd_template": "./bin/gtfscheck -replay {path}",
                   "engine": "gtfscheck", "level_claimed": {"category": "other", "text": text, "design_ref": "DESIGN.md section 3 " + pid},
                   "level_note": note, "technique": tech})
na = [{"property_id": p["id"], "reason": NOT_APPLICABLE.get(p["id"], REASON_TODO)} for p in props if p["id"] not in CLAIMED]
m = {"version": 1, "setup_cmd": "sh ./setup.sh",
     "hooks": {"guard": "verif", "enable": "none needed: static analysis reads /repo's sources as they are (the thorough tier also loads the tree with -tags verif)",
               "baseline_off_cmd": "cd /repo && GOFLAGS=-mod=mod GOPROXY=off GOSUMDB=off GOTOOLCHAIN=local go test -vet=off -count=1 ./...",
               "source_commits": [], "add_only": True},
     "engines": [{"name": "gtfscheck", "path": "/verif/checker", "serves_properties": sorted(CLAIMED),
                  "kind_free_text": "repository-specific static analyser: go/packages + go/ssa + VTA call graph; rules enumerate their instances from the current source and decide each as an obligation keyed rule|function|construct"}],
     "checks": checks, "not_applicable": na,
     "notes": "Technique family: static analysis. All claims are level 'other' (structural necessary/sufficient conditions decided from the source on every run). known-findings.txt lists recorded defects (open) and repaired ones (fixed)."}
json.dump(m, open(os.path.join(V, 'MANIFEST.json'), 'w'), indent=1)
print("claimed:", sorted(CLAIMED), "not_applicable:", [x["property_id"] for x in na])
