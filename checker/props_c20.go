package main

func init() {
	register(&PropSpec{
		ID: "C20",
		Explain: "Decides the structure of the export for every journal: both embedded templates are parsed (text/template/parse) together with the Go code that executes them. " +
			"(T0) templates parse with the declared funcMap (template.Must cannot panic); (T1) header line then a range over the trips (stop times: a nested range over .StopTimes), no else branches, no output between or after; " +
			"(T2) each row is single-action cells separated by exactly ',' and terminated by exactly one newline, as many cells as header columns, no if/with/break that could filter rows; " +
			"(T3) each cell shows the field whose snake_case name is the header name, through the type-directed formatter (string/int bare, *string NullableString, time.Time .Unix, *time.Time NullableUnix, DirectionID FormatDirectionID), stop-time rows keyed by $trip.TripUID; " +
			"(T4) ExportToCsv executes the trips template into TripsCsv and the stop-times template into StopTimesCsv over journal.Trips; (T5) nullable helpers return \"\" exactly on the nil edge and the value otherwise, FormatDirectionID's table is the inverse of the static direction decoder with blank for unspecified; " +
			"(G7) neither ExportToCsv nor the helpers write memory reachable from the journal. Not decided: text/template itself; CSV metacharacters in values (excluded by the property).",
		Assumptions: []string{"text/template executes the parse tree as documented (range in slice order, trim markers as parsed)"},
		Rules: []Rule{
			{Name: "T", Doc: "template structure, header/cell agreement, formatter table, wiring, helper tables", MinInstances: 17, Run: runTemplates},
			{Name: "G7", Doc: "export does not modify the journal", MinInstances: 1, Run: func(c *Ctx) {
				roots := c.anchors("journal:(*Journal).ExportToCsv")
				roots = append(roots, c.funcMapClosures()...)
				fns, reach := c.scope(roots, scopeOpts{})
				var tr []taintRoot
				for _, f := range roots {
					for i := range f.Params {
						tr = append(tr, taintRoot{f, i, TRecv})
					}
				}
				runG7(c, "G7", tr, fns, reach, TRecv|TGlobal, "exporting must not modify the journal or shared template state")
			}},
		},
	})
}
