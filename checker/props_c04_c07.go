package main

import "golang.org/x/tools/go/ssa"

func init() {
	register(&PropSpec{
		ID: "C07",
		Explain: "Decides structural necessary conditions of order-independent merging in ParseRealtime, for every message: " +
			"(MERGE) every trip / identified vehicle returned by an entity parser, and every alert-referenced trip, is merged on every path into the accumulator looked up under its own id; accumulators are created only when absent and as zero values; mergeTrip/mergeVehicle always take the identifier and replace the whole entry exactly on the incoming value's IsEntityInMessage edge, otherwise write nothing else (own entity wins, wherever it appears); " +
			"(UNIQ) Realtime.Trips and the identified part of Realtime.Vehicles are appended only inside the range over the id-keyed accumulator (one entry per key), and only vehicles on the ID == nil edge bypass it; " +
			"(G6/G16) both are sorted afterwards by a comparator that is total on the key type (TripID.Less consults every field); (ORDER) alerts are tail-appended once per entity in index order and never sorted. " +
			"(EXTV) the NYCT extension puts the derived vehicle descriptor, unmodified, on every kind of entity on every path, so the trip update and the vehicle position of one trip merge under one vehicle identifier whatever their order. (GUARD) the vehicle identifier holds identifying wire fields only and every time of one message carries one Location object (see C04). (SCAN) no loop that does something per entity is left by a break (an entity of no known kind does not end the message); the sort comparators are chains of stages in which a field compared only `when flag` is qualified by the flag of the stage directly before it (otherwise the order is not total). Not decided: commutativity of the loop body for conflicting duplicates (excluded by the property). The identifier comparators call nothing that converts what they compare; an absent start time / date is the zero value, so identifiers that say the same are one map key.",
		Rules: []Rule{
			{Name: "A3", Doc: "identifier fields of trips and vehicles are bound to their own wire fields: entities are merged by the identifier that was sent", MinInstances: 35, Run: runWireTable},
			{Name: "SCAN", Doc: "a loop that does something for each element is not left early (no break out of a processing loop)", MinInstances: 1, Run: func(c *Ctx) { runFullScan(c, realtimeFns(c), "SCAN") }},
			{Name: "MERGE", Doc: "merge discipline, uniqueness, alert order", MinInstances: 7, Run: runMergeRules},
			{Name: "G6", Doc: "map-built output sorted by a total key comparator", MinInstances: 1, Run: func(c *Ctx) {
				var fns []*ssa.Function
				for _, f := range c.anchors("gtfs:ParseRealtime") {
					fns = append(fns, c.regionOf(f)...) // the copy-out and its sort may live in helpers
				}
				runG6(c, fns)
				runComparatorPlain(c, "G6")
			}},
			{Name: "GUARD", Doc: "entity parsers return nil only for absent wire fields", MinInstances: 2, Run: runParserGuards},
			{Name: "LINK", Doc: "the links between trips and vehicles are part of the order-independent result: link discipline as in C04 (links stored after the entity loop, from association tables)", MinInstances: 5, Run: runLinkRules},
			{Name: "TID", Doc: "a start time / start date of a trip identifier is dropped only when absent or not matching its pattern (hours past 23 are valid): two runs of one trip_id stay two trips", MinInstances: 2, Run: func(c *Ctx) { runStartAcceptance(c, "TID") }},
			{Name: "EXTV", Doc: "an extension that derives the vehicle of an entity gives the trip update and the vehicle position of one trip the same descriptor (they merge under it)", MinInstances: 1, Run: runSameVehicleForBothEntities},
		},
	})
	register(&PropSpec{
		ID: "C04",
		Explain: "Decides the link mechanism of ParseRealtime structurally: (LINK) every store to Trip.Vehicle / Vehicle.Trip targets and stores accumulator entries (never a temporary copy of a parsed entity) and happens after the entity loop, so no later merge can erase it; the two association tables are updated together with swapped key and value; on every path where an entity yields both a trip and a vehicle the pair is recorded; every association table is resolved in a loop over the accumulators; within a resolution iteration the links are stored before the entry is copied into the result; " +
			"each association table is written under the same test that decides where the vehicle itself is kept (the table that keeps the parsed vehicle only under vehicle.ID == nil, the id-keyed ones only under vehicle.ID != nil); no path of one trip around the entity loop on which the entity yields both a trip and a vehicle returns to the loop head without passing one of the link-table updates; (GUARD) the entity parsers return a nil trip/vehicle only when the wire field is absent, so every expression of an association reaches the tables; an identifier object is produced only for a descriptor that identifies something (every non-nil result of the descriptor-to-VehicleID conversion has ruled out the all-empty identifier), so empty descriptors do not share one identified entry; the identifier (the map key that unifies the mentions of a vehicle) is built from the descriptor's id, label and licence plate only; no Location constructor (time.LoadLocation, FixedZone) can run more than once per message, because trip identifiers carry a time.Time and are compared with == (which compares the Location pointer). " +
			"Equality of the content reached through the links with the list entries follows from the copies being taken after the links are stored (checked) plus C07. Not decided: feeds with several vehicles per trip (excluded). (EXTV) an extension that derives the vehicle of an entity puts the same descriptor on the trip update and the vehicle position, on every path, so both link to one vehicle. The parts of a trip identifier are stored under nil tests of the descriptor only and an absent part is the zero value; the parser's tables only grow (no delete).",
		Rules: []Rule{
			{Name: "A3", Doc: "identifier fields of trips and vehicles are bound to their own wire fields: which entities are one vehicle (and get linked) is decided on id, label and licence plate as sent", MinInstances: 35, Run: runWireTable},
			{Name: "LINK", Doc: "trip<->vehicle link discipline", MinInstances: 5, Run: runLinkRules},
			{Name: "TID", Doc: "a start time / start date of a trip identifier is dropped only when absent or not matching its pattern (hours past 23 are valid): trips that differ in start time keep separate entries and separate vehicles", MinInstances: 2, Run: func(c *Ctx) { runStartAcceptance(c, "TID") }},
			{Name: "MERGE", Doc: "the objects the cross pointers lead to are the accumulators, one per whole identifier: every parsed trip / identified vehicle is merged into the entry looked up under its own id (a shortened or re-derived key lets two vehicles share one entry, and both trips then point at the same vehicle)", MinInstances: 7, Run: runMergeRules},
			{Name: "GUARD", Doc: "entity parsers return nil only for absent wire fields", MinInstances: 2, Run: runParserGuards},
			{Name: "EXTV", Doc: "an extension that derives the vehicle of an entity gives the trip update and the vehicle position of one trip the same descriptor: both link to one vehicle", MinInstances: 1, Run: runSameVehicleForBothEntities},
		},
	})
}
