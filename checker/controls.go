package main

func runControls(spec *PropSpec) string { return "" }
