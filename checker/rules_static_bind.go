package main

// C01 / C11: static column table (A1), decoder tables (A2), file table (A5), time formulas.

import (
	"fmt"
	"go/ast"
	"go/constant"
	"go/token"
	"go/types"
	"sort"
	"strings"

	"golang.org/x/tools/go/ssa"
)

type colOracle struct {
	typ, field string
	cols       []string
	kind       string
}

// DESIGN Appendix A.1, transcribed from the GTFS reference (not from the code).
var staticOracle = []colOracle{
	{"gtfs.Agency", "Id", []string{"agency_id"}, "verbatim"},
	{"gtfs.Agency", "Name", []string{"agency_name"}, "verbatim"},
	{"gtfs.Agency", "Url", []string{"agency_url"}, "verbatim"},
	{"gtfs.Agency", "Timezone", []string{"agency_timezone"}, "verbatim"},
	{"gtfs.Agency", "Language", []string{"agency_lang"}, "verbatim"},
	{"gtfs.Agency", "Phone", []string{"agency_phone"}, "verbatim"},
	{"gtfs.Agency", "FareUrl", []string{"agency_fare_url"}, "verbatim"},
	{"gtfs.Agency", "Email", []string{"agency_email"}, "verbatim"},

	{"gtfs.Route", "Id", []string{"route_id"}, "verbatim"},
	{"gtfs.Route", "Color", []string{"route_color"}, "verbatim"},
	{"gtfs.Route", "TextColor", []string{"route_text_color"}, "verbatim"},
	{"gtfs.Route", "ShortName", []string{"route_short_name"}, "verbatim"},
	{"gtfs.Route", "LongName", []string{"route_long_name"}, "verbatim"},
	{"gtfs.Route", "Description", []string{"route_desc"}, "verbatim"},
	{"gtfs.Route", "Type", []string{"route_type"}, "enum"},
	{"gtfs.Route", "Url", []string{"route_url"}, "verbatim"},
	{"gtfs.Route", "SortOrder", []string{"route_sort_order"}, "int?"},
	{"gtfs.Route", "ContinuousPickup", []string{"continuous_pickup"}, "enum"},
	{"gtfs.Route", "ContinuousDropOff", []string{"continuous_drop_off"}, "enum"},

	{"gtfs.Stop", "Id", []string{"stop_id"}, "verbatim"},
	{"gtfs.Stop", "Code", []string{"stop_code"}, "verbatim"},
	{"gtfs.Stop", "Name", []string{"stop_name"}, "verbatim"},
	{"gtfs.Stop", "Description", []string{"stop_desc"}, "verbatim"},
	{"gtfs.Stop", "ZoneId", []string{"zone_id"}, "verbatim"},
	{"gtfs.Stop", "Longitude", []string{"stop_lon"}, "float?"},
	{"gtfs.Stop", "Latitude", []string{"stop_lat"}, "float?"},
	{"gtfs.Stop", "Url", []string{"stop_url"}, "verbatim"},
	{"gtfs.Stop", "Type", []string{"location_type", "parent_station"}, "enum"},
	{"gtfs.Stop", "Timezone", []string{"stop_timezone"}, "verbatim"},
	{"gtfs.Stop", "WheelchairBoarding", []string{"wheelchair_boarding"}, "enum"},
	{"gtfs.Stop", "PlatformCode", []string{"platform_code"}, "verbatim"},
	{"gtfs.Stop", "Parent", []string{"parent_station", "stop_id"}, "ref:stops"},

	{"gtfs.Transfer", "From", []string{"from_stop_id"}, "ref:stops"},
	{"gtfs.Transfer", "To", []string{"to_stop_id"}, "ref:stops"},
	{"gtfs.Transfer", "Type", []string{"transfer_type"}, "enum"},
	{"gtfs.Transfer", "MinTransferTime", []string{"min_transfer_time"}, "int?"},

	{"gtfs.Service", "Id", []string{"service_id"}, "verbatim"},
	{"gtfs.Service", "Monday", []string{"monday"}, "bool1"},
	{"gtfs.Service", "Tuesday", []string{"tuesday"}, "bool1"},
	{"gtfs.Service", "Wednesday", []string{"wednesday"}, "bool1"},
	{"gtfs.Service", "Thursday", []string{"thursday"}, "bool1"},
	{"gtfs.Service", "Friday", []string{"friday"}, "bool1"},
	{"gtfs.Service", "Saturday", []string{"saturday"}, "bool1"},
	{"gtfs.Service", "Sunday", []string{"sunday"}, "bool1"},
	{"gtfs.Service", "StartDate", []string{"start_date", "date"}, "date"},
	{"gtfs.Service", "EndDate", []string{"end_date", "date"}, "date"},

	{"gtfs.ScheduledTrip", "Route", []string{"route_id"}, "ref:routes"},
	{"gtfs.ScheduledTrip", "Service", []string{"service_id"}, "ref:services"},
	{"gtfs.ScheduledTrip", "ID", []string{"trip_id"}, "verbatim"},
	{"gtfs.ScheduledTrip", "Headsign", []string{"trip_headsign"}, "verbatim"},
	{"gtfs.ScheduledTrip", "ShortName", []string{"trip_short_name"}, "verbatim"},
	{"gtfs.ScheduledTrip", "DirectionId", []string{"direction_id"}, "enum"},
	{"gtfs.ScheduledTrip", "BlockID", []string{"block_id"}, "verbatim"},
	{"gtfs.ScheduledTrip", "WheelchairAccessible", []string{"wheelchair_accessible"}, "enum"},
	{"gtfs.ScheduledTrip", "BikesAllowed", []string{"bikes_allowed"}, "enum"},
	{"gtfs.ScheduledTrip", "Shape", []string{"shape_id"}, "ref:Shapes"},

	{"gtfs.ScheduledStopTime", "Stop", []string{"stop_id"}, "ref:stops"},
	{"gtfs.ScheduledStopTime", "Headsign", []string{"stop_headsign"}, "verbatim"},
	{"gtfs.ScheduledStopTime", "ArrivalTime", []string{"arrival_time", "departure_time"}, "hms"},
	{"gtfs.ScheduledStopTime", "DepartureTime", []string{"arrival_time", "departure_time"}, "hms"},
	{"gtfs.ScheduledStopTime", "StopSequence", []string{"stop_sequence"}, "int"},
	{"gtfs.ScheduledStopTime", "PickupType", []string{"pickup_type"}, "enum"},
	{"gtfs.ScheduledStopTime", "DropOffType", []string{"drop_off_type"}, "enum"},
	{"gtfs.ScheduledStopTime", "ContinuousPickup", []string{"continuous_pickup"}, "enum"},
	{"gtfs.ScheduledStopTime", "ContinuousDropOff", []string{"continuous_drop_off"}, "enum"},
	{"gtfs.ScheduledStopTime", "ShapeDistanceTraveled", []string{"shape_dist_traveled"}, "float?"},
	{"gtfs.ScheduledStopTime", "ExactTimes", []string{"timepoint"}, "bool1"},

	{"gtfs.ShapePoint", "Latitude", []string{"shape_pt_lat"}, "float"},
	{"gtfs.ShapePoint", "Longitude", []string{"shape_pt_lon"}, "float"},
	{"gtfs.ShapePoint", "Distance", []string{"shape_dist_traveled"}, "float?"},
	{"gtfs.Shape", "ID", []string{"shape_id"}, "verbatim"},

	{"gtfs.Frequency", "StartTime", []string{"start_time"}, "hms"},
	{"gtfs.Frequency", "EndTime", []string{"end_time"}, "hms"},
	{"gtfs.Frequency", "Headway", []string{"headway_secs"}, "seconds"},
	{"gtfs.Frequency", "ExactTimes", []string{"exact_times"}, "enum"},
}

var kindCalls = map[string][]string{
	"verbatim": {},
	// module decoders are named by what they convert (signature class), not by their identifier
	"float?":  {"(string)→(*float64)"},
	"float":   {"(string)→(*float64)"},
	"int?":    {"(string)→(*int32)"},
	"int":     {"strconv.Atoi"},
	"date":    {"(string)→(time.Time,error)"},
	"hms":     {"(string)→(time.Duration,bool)"},
	"seconds": {"(string)→(*int32)"},
}

// enum digit tables (GTFS reference): column -> digit -> constant name in package gtfs
var enumOracle = map[string]map[string]string{
	"route_type": {"0": "RouteType_Tram", "1": "RouteType_Subway", "2": "RouteType_Rail", "3": "RouteType_Bus", "4": "RouteType_Ferry", "5": "RouteType_CableTram",
		"6": "RouteType_AerialLift", "7": "RouteType_Funicular", "11": "RouteType_TrolleyBus", "12": "RouteType_Monorail"},
	"continuous_pickup":     {"0": "PickupDropOffPolicy_Yes", "1": "PickupDropOffPolicy_No", "2": "PickupDropOffPolicy_PhoneAgency", "3": "PickupDropOffPolicy_CoordinateWithDriver"},
	"continuous_drop_off":   {"0": "PickupDropOffPolicy_Yes", "1": "PickupDropOffPolicy_No", "2": "PickupDropOffPolicy_PhoneAgency", "3": "PickupDropOffPolicy_CoordinateWithDriver"},
	"pickup_type":           {"0": "PickupDropOffPolicy_Yes", "1": "PickupDropOffPolicy_No", "2": "PickupDropOffPolicy_PhoneAgency", "3": "PickupDropOffPolicy_CoordinateWithDriver"},
	"drop_off_type":         {"0": "PickupDropOffPolicy_Yes", "1": "PickupDropOffPolicy_No", "2": "PickupDropOffPolicy_PhoneAgency", "3": "PickupDropOffPolicy_CoordinateWithDriver"},
	"location_type":         {"0": "StopType_Stop", "1": "StopType_Station", "2": "StopType_EntranceOrExit", "3": "StopType_GenericNode", "4": "StopType_BoardingArea"},
	"wheelchair_boarding":   {"0": "WheelchairBoarding_NotSpecified", "1": "WheelchairBoarding_Possible", "2": "WheelchairBoarding_NotPossible"},
	"wheelchair_accessible": {"0": "WheelchairBoarding_NotSpecified", "1": "WheelchairBoarding_Possible", "2": "WheelchairBoarding_NotPossible"},
	"bikes_allowed":         {"0": "BikesAllowed_NotSpecified", "1": "BikesAllowed_Allowed", "2": "BikesAllowed_NotAllowed"},
	"transfer_type":         {"0": "TransferType_Recommended", "1": "TransferType_Timed", "2": "TransferType_RequiresTime", "3": "TransferType_NotPossible"},
	"direction_id":          {"0": "DirectionID_False", "1": "DirectionID_True"},
	"exact_times":           {"0": "FrequencyBased", "1": "ScheduleBased"},
}

func staticParseFns(c *Ctx) []*ssa.Function {
	fns, _ := c.scope(c.anchors("gtfs:ParseStatic"), scopeOpts{})
	return fns
}

func runColumnTable(c *Ctx, onlyTypes map[string]bool) {
	p := c.P
	fns := staticParseFns(c)
	b := newBinder(c, resultCarriers...)
	fnSet := map[*ssa.Function]bool{}
	for _, f := range fns {
		fnSet[f] = true
	}
	byField := map[string][]fieldStore{}
	for _, o := range staticOracle {
		if _, done := byField[o.typ]; !done {
			for _, fs := range collectFieldStores(fns, o.typ) {
				byField[o.typ+"."+fs.field] = append(byField[o.typ+"."+fs.field], fs)
			}
			byField[o.typ] = nil
		}
	}
	decoders := map[string]map[*ssa.Function]bool{} // column -> decoder functions seen
	for _, o := range staticOracle {
		if onlyTypes != nil && !onlyTypes[o.typ] {
			continue
		}
		key := o.typ + "." + o.field
		stores := byField[key]
		if len(stores) == 0 {
			c.Violated("A1", "gtfs", key, "-", "field "+key+" is never assigned by the static parser (column "+strings.Join(o.cols, "/")+" is lost)")
			continue
		}
		for _, fs := range stores {
			expr := b.bind(fs.store.Val)
			if strings.Contains(expr, "param:") {
				// the store sits in a helper: describe the value in the terms of the parse function that calls it
				expr = b.bindInContext(fs.fn, fs.store.Val, fnSet, 0)
			}
			fname := shortName(fs.fn)
			pos := p.ipos(fs.store)
			// the inheritance pass legitimately stores the parent's value
			leaves := []string{}
			for _, l := range leavesOf(expr) {
				if strings.HasPrefix(l, "col:") {
					leaves = append(leaves, strings.TrimPrefix(l, "col:"))
				}
			}
			// leaves must be a non-empty subset of the oracle's columns (either of several for merged fields), and contain the primary one
			okLeaves := len(leaves) > 0
			for _, l := range leaves {
				found := false
				for _, oc := range o.cols {
					if oc == l {
						found = true
					}
				}
				if !found {
					okLeaves = false
				}
			}
			if !okLeaves {
				c.Violated("A1", fname, key, pos, fmt.Sprintf("%s is filled from column(s) %v; the GTFS reference binds it to %v (expression: %s)", key, leaves, o.cols, clip(expr, 200)))
				continue
			}
			calls := callsOf(expr)
			kind := o.kind
			var bad string
			switch {
			case strings.HasPrefix(kind, "ref:"):
				coll := strings.TrimPrefix(kind, "ref:")
				if !strings.Contains(expr, "lookup(") && !strings.Contains(expr, "&param:") {
					bad = "reference is not resolved through an id lookup"
				}
				_ = coll // which collection the pointer points into is decided by G13 (C03)
			case kind == "enum":
				var dec []string
				for _, cl := range calls {
					dec = append(dec, cl)
				}
				if len(dec) != 1 {
					bad = fmt.Sprintf("enum column must pass through exactly one decoder, found %v", dec)
				} else {
					// resolve the decoder function
					if call, ok := fs.store.Val.(*ssa.Call); ok {
						if cal := staticCallee(call); cal != nil {
							col := o.cols[0]
							if decoders[col] == nil {
								decoders[col] = map[*ssa.Function]bool{}
							}
							decoders[col][cal] = true
						}
					}
				}
			case kind == "bool1":
				// s == "1"
				ok := strings.Contains(expr, `== const:"1"`) && len(calls) == 0
				if !ok && len(calls) == 1 {
					// a helper closure: its table must be s == "1"
					if call, isCall := fs.store.Val.(*ssa.Call); isCall {
						var cal *ssa.Function
						if mc, isMC := call.Call.Value.(*ssa.MakeClosure); isMC {
							cal = mc.Fn.(*ssa.Function)
						} else {
							cal = staticCallee(call)
						}
						if isCellEqualsOne(cal) {
							ok = true
						}
					}
					// the decoded flag may have been parked in a local (array) before it is stored: the helper is the
					// one function of the package the expression names
					if !ok {
						var named []*ssa.Function
						for _, g := range c.P.ModFns {
							if g.Parent() == nil && g.Name() == calls[0] && fnPkgPath(g) == modPath {
								named = append(named, g)
							}
						}
						if len(named) == 1 && isCellEqualsOne(named[0]) && expr == calls[0]+"(col:"+o.cols[0]+")" {
							ok = true
						}
					}
				}
				if !ok {
					bad = "flag column must be decoded as cell == \"1\""
				}
			default:
				allowed := kindCalls[kind]
				for _, cl := range calls {
					if !b.classAllowed(cl, allowed) {
						bad = fmt.Sprintf("value passes through %s %s, which is not a transformer allowed for a %s column (%v)", cl, b.classOf[cl], kind, allowed)
					}
				}
				if len(allowed) > 0 && len(calls) == 0 {
					bad = fmt.Sprintf("%s column is stored without its decoder (%v)", kind, allowed)
				}
				if kind == "seconds" && !strings.Contains(expr, "* const:1000000000") {
					bad = "seconds are not scaled by time.Second"
				}
				if kind == "verbatim" && expr != "col:"+o.cols[0] && expr != "col:"+o.cols[0]+"|d" {
					bad = "text column is not stored verbatim"
				}
			}
			if bad != "" {
				c.Violated("A1", fname, key, pos, bad+" (expression: "+clip(expr, 200)+")")
			} else {
				c.Proved("A1", fname, key, pos, key+" <- "+clip(expr, 120))
			}
		}
	}
	// A2: decoder tables against the GTFS digits
	cols := []string{}
	for col := range decoders {
		cols = append(cols, col)
	}
	sort.Strings(cols)
	for _, col := range cols {
		for dec := range decoders[col] {
			checkDecoderTable(c, col, dec)
		}
	}
}

func clip(s string, n int) string {
	if len(s) > n {
		return s[:n] + "…"
	}
	return s
}

func checkDecoderTable(c *Ctx, col string, dec *ssa.Function) {
	p := c.P
	oracle := enumOracle[col]
	fname := shortName(dec)
	if oracle == nil {
		c.Undecided("A2", fname, "decoder for "+col, p.pos(dec.Pos()), "no digit oracle for column "+col)
		return
	}
	tb, err := c.extractTableComposed(dec, 0)
	if err != nil {
		// a decoder written as a search in a constant table is the same table
		if lt, ok := c.lookupLoopTable(dec); ok {
			tb, err = lt, nil
		}
	}
	if err != nil {
		c.Undecided("A2", fname, "decoder for "+col, p.pos(dec.Pos()), "decoder is not a decision table: "+err.Error())
		return
	}
	var probs []string
	digits := []string{}
	for d := range oracle {
		digits = append(digits, d)
	}
	sort.Strings(digits)
	for _, d := range digits {
		want := c.constOf("gtfs", oracle[d])
		assign := map[string]string{dec.Params[0].Name(): "\"" + d + "\""}
		// extra boolean parameters must not matter for explicit digits, except location_type 0 (stop/platform)
		for _, prm := range dec.Params[1:] {
			if bt, ok := prm.Type().Underlying().(*types.Basic); ok && bt.Kind() == types.Bool {
				assign[prm.Name()] = "false"
			}
		}
		got, why := tb.lookup(assign, 0)
		if got == "" {
			probs = append(probs, fmt.Sprintf("%q: %s", d, why))
			continue
		}
		if got != want {
			probs = append(probs, fmt.Sprintf("%q decodes to %s, GTFS says %s (%s)", d, got, oracle[d], want))
		}
	}
	c.Check(len(probs) == 0, "A2", fname, "digit table for "+col, p.pos(dec.Pos()), fmt.Sprintf("%d digits decode to the GTFS constants", len(digits)), strings.Join(probs, "; "))
}

// ---------------------------------------------------------------- time formulas

// runTimeFormulas: parseGtfsTimeToDuration returns (3600*h + 60*m + s) * time.Second with no modulo; parseTime uses
// layout 20060102 in the given location; the location handed to the calendar parsers is the first agency's zone or UTC.
func runTimeFormulas(c *Ctx) {
	p := c.P
	if f := c.anchor("gtfs:parseGtfsTimeToDuration"); f != nil {
		fname := shortName(f)
		var rets []*ssa.Return
		for _, b := range f.Blocks {
			if r, ok := b.Instrs[len(b.Instrs)-1].(*ssa.Return); ok {
				if k, isC := r.Results[1].(*ssa.Const); isC {
					if bv, _ := constBool(k); !bv {
						continue
					}
				}
				rets = append(rets, r)
			}
		}
		ok := len(rets) == 1
		why := "exactly one successful return expected"
		if ok {
			poly, perr := polyOf(rets[0].Results[0], 0)
			if perr != "" {
				ok, why = false, perr
			} else {
				// three distinct terms with the coefficients of hours, minutes, seconds; when the terms are the elements
				// of the array the pieces are accumulated in, they are elements 0, 1, 2 in that order
				want := map[string]int64{"piece[0]": 3600 * 1e9, "piece[1]": 60 * 1e9, "piece[2]": 1e9}
				ok = len(poly) == len(want)
				indexed := false
				for k := range poly {
					if strings.HasPrefix(k, "piece[") {
						indexed = true
					}
				}
				if indexed {
					for k, v := range want {
						if poly[k] != v {
							ok = false
						}
					}
				} else {
					seen := map[int64]bool{}
					for k, v := range poly {
						if k == "" {
							ok = false
						}
						seen[v] = true
					}
					ok = ok && seen[3600*1e9] && seen[60*1e9] && seen[1e9]
				}
				why = fmt.Sprintf("result is %v; expected 3600e9*hours + 60e9*minutes + 1e9*seconds (hours are not reduced modulo 24)", poly)
			}
		}
		c.Check(ok, "TIME", fname, "H:MM:SS as seconds", p.pos(f.Pos()), "returns (3600*h + 60*m + s) * time.Second, linear in the three pieces", why)
		// the pieces are accumulated in base 10 from the digits, separated by ':'
		okDigits := false
		for _, b := range f.Blocks {
			for _, in := range b.Instrs {
				if st, isSt := in.(*ssa.Store); isSt {
					if bo, isBo := st.Val.(*ssa.BinOp); isBo && bo.Op == token.ADD {
						if mul, isMul := bo.X.(*ssa.BinOp); isMul && mul.Op == token.MUL {
							if k, isC := constInt(mul.X); isC && k == 10 {
								okDigits = true
							}
							if k, isC := constInt(mul.Y); isC && k == 10 {
								okDigits = true
							}
						}
					}
				}
			}
		}
		c.Check(okDigits, "TIME", fname, "decimal accumulation", p.pos(f.Pos()), "piece = 10*piece + digit", "pieces are not accumulated as decimal numbers")
	}
	// dates: every time.ParseInLocation of the static parser uses layout 20060102, on a cell of the file, in a
	// location that is ultimately the first agency's zone (time.LoadLocation of Agencies[0].Timezone) or UTC --
	// however the text and the location travel there (parameters, a parameter struct, a captured variable)
	b := newBinder(c)
	nParse := 0
	for _, fn := range staticParseFns(c) {
		for _, blk := range fn.Blocks {
			for _, in := range blk.Instrs {
				call, isCall := in.(*ssa.Call)
				if !isCall || calleeName(call) != "time.ParseInLocation" {
					continue
				}
				nParse++
				layout, _ := constString(call.Call.Args[0])
				c.Check(layout == "20060102", "TIME", shortName(fn), "YYYYMMDD layout", p.ipos(call), "time.ParseInLocation(\"20060102\", ...)", "dates are parsed with layout "+layout+", not 20060102")
				var zones []string
				okZone := true
				for _, lf := range c.valueLeaves(call.Call.Args[2]) {
					exprs := []string{b.bind(lf)}
					// a helper that loads the named zone and falls back itself: what it can return, in terms of its argument
					if hc, isCall := lf.(*ssa.Call); isCall {
						if h := hc.Call.StaticCallee(); h != nil && !hc.Call.IsInvoke() && c.P.isModuleFn(h) && len(h.Blocks) > 0 && h.Signature.Results().Len() == 1 && len(h.Params) == len(hc.Call.Args) {
							var args []string
							for _, a := range hc.Call.Args {
								args = append(args, b.bind(a))
							}
							sub := b.withArgs(h, args)
							exprs = nil
							eachReturned(h, 0, func(rv ssa.Value, at *ssa.BasicBlock, ret *ssa.Return) {
								exprs = append(exprs, sub.bind(rv))
							})
						}
					}
					for _, e := range exprs {
						zones = append(zones, clip(e, 80))
						isUTC := e == "global:UTC"
						isAgency := strings.Contains(e, "time.LoadLocation(") && strings.Contains(e, ".Agencies[const:0].Timezone")
						if !isUTC && !isAgency {
							okZone = false
						}
					}
				}
				sort.Strings(zones)
				zones = dedup(zones)
				hasAgency := false
				for _, z := range zones {
					if strings.Contains(z, "time.LoadLocation(") {
						hasAgency = true
					}
				}
				c.Check(okZone && hasAgency, "TIME", shortName(fn), "dates in the first agency's zone", p.ipos(call), "the location is time.LoadLocation(Agencies[0].Timezone), or UTC", "calendar dates are not interpreted in the first agency's timezone with UTC fallback: the location can be "+strings.Join(zones, " | "))
			}
		}
	}
	if nParse == 0 {
		c.Violated("TIME", "gtfs", "date parsing", "-", "the static parser no longer parses dates with time.ParseInLocation")
	}
	// the first agency's zone is taken whenever there is an agency: the only condition on the number of agencies under
	// which time.LoadLocation(Agencies[0].Timezone) runs is that the list is not empty
	for _, fn := range staticParseFns(c) {
		for _, blk := range fn.Blocks {
			for _, in := range blk.Instrs {
				call, isCall := in.(*ssa.Call)
				if !isCall || calleeName(call) != "time.LoadLocation" || !strings.Contains(b.bind(call.Call.Args[0]), ".Agencies[const:0].Timezone") {
					continue
				}
				okCount, why := true, ""
				nLen := 0
				for _, ce := range dominatingConds(blk) {
					if ce.Composite {
						continue
					}
					cond, val := normalizeCond(ce.Cond, ce.Val)
					bo, ok := cond.(*ssa.BinOp)
					if !ok {
						continue
					}
					lx, isLen := lenOf(bo.X)
					if !isLen || !strings.Contains(b.bind(lx), ".Agencies") {
						continue
					}
					nLen++
					k, isK := constInt(bo.Y)
					nonEmpty := isK && k == 0 && ((bo.Op == token.EQL && !val) || (bo.Op == token.NEQ && val) || (bo.Op == token.GTR && val) || (bo.Op == token.LEQ && !val))
					if !nonEmpty {
						okCount, why = false, "the zone of the first agency is taken under `"+canon(cond)+"` = "+fmt.Sprint(val)+", which is not `there is an agency`"
					}
				}
				c.Check(okCount && nLen > 0, "TIME", shortName(fn), "first agency's zone taken whenever there is an agency", p.ipos(call), "LoadLocation(Agencies[0].Timezone) runs under len(Agencies) != 0 and no other condition on their number", "feeds with several agencies (or none of the tested count) get UTC instead of the first agency's zone: "+why)
			}
		}
	}
	// the zone name is handed to the loader as it was read, and whether the loader is asked does not depend on what
	// the name looks like: names without a slash (Japan, Singapore, EST) are valid zone names, and a trimmed or folded
	// name is not the one the feed gave
	for _, fn := range staticParseFns(c) {
		for _, blk := range fn.Blocks {
			for _, in := range blk.Instrs {
				call, isCall := in.(*ssa.Call)
				if !isCall || calleeName(call) != "time.LoadLocation" {
					continue
				}
				arg := call.Call.Args[0]
				why := ""
				if computedByCall(arg, 0) {
					why = "the name is passed through a function before it is looked up"
				}
				// ... and it is the first agency's: no other agency's zone takes part in deciding the zone of the dates
				{
					within := map[*ssa.Function]bool{}
					for _, g := range staticParseFns(c) {
						within[g] = true
					}
					if e := b.bindInContext(fn, arg, within, 0); !strings.Contains(e, "[const:0].Timezone") && !strings.Contains(e, "[const:0]).Timezone") {
						why = "the zone that is looked up is not the first agency's (" + clip(e, 80) + ")"
					}
				}
				// the root of the name: through normalising calls back to what was read
				root := arg
				for i := 0; i < 6; i++ {
					if cl, ok := root.(*ssa.Call); ok && len(cl.Call.Args) > 0 {
						root = cl.Call.Args[0]
						continue
					}
					break
				}
				var reads func(v ssa.Value, d int) bool
				reads = func(v ssa.Value, d int) bool {
					if v == nil || d > 8 {
						return false
					}
					if v == root || v == arg {
						return true
					}
					switch x := v.(type) {
					case *ssa.Call:
						for _, a := range x.Call.Args {
							if reads(a, d+1) {
								return true
							}
						}
					case *ssa.BinOp:
						return reads(x.X, d+1) || reads(x.Y, d+1)
					case *ssa.UnOp:
						return reads(x.X, d+1)
					case *ssa.Phi:
						for _, e := range x.Edges {
							if reads(e, d+1) {
								return true
							}
						}
					}
					return false
				}
				for _, ce := range dominatingConds(blk) {
					if ce.Composite {
						continue
					}
					if reads(ce.Cond, 0) {
						why = "whether the loader is asked depends on a test of the name (" + p.ipos(ce.If) + ")"
					}
				}
				c.Check(why == "", "TIME", shortName(fn), "the zone name is looked up as read", p.ipos(call), "time.LoadLocation is handed the name itself, under no condition on the name", why+": a valid zone name can end up as UTC, and every calendar date is then midnight in the wrong zone")
			}
		}
	}
	// dates are produced by nothing else: time.Date normalises impossible dates (30 February becomes 2 March) instead of
	// rejecting them, time.Unix is not a civil date at all
	nOther := 0
	for _, fn := range staticParseFns(c) {
		for _, blk := range fn.Blocks {
			for _, in := range blk.Instrs {
				if call, isCall := in.(*ssa.Call); isCall {
					switch calleeName(call) {
					case "time.Date", "time.Unix", "time.Parse", "(time.Time).AddDate":
						nOther++
						c.Violated("TIME", shortName(fn), "date built by "+calleeName(call), p.ipos(call), "the static parser builds an instant with "+calleeName(call)+" instead of time.ParseInLocation(\"20060102\", ...): impossible dates are normalised rather than rejected, or the zone is lost")
					}
				}
			}
		}
	}
	if nOther == 0 {
		c.Proved("TIME", "gtfs", "dates only from ParseInLocation", "-", "no time.Date / time.Unix / time.Parse / AddDate in the static parser")
	}
}

// isCellEqualsOne: the function is `func(s string) bool { return s == "1" }`.
func isCellEqualsOne(cal *ssa.Function) bool {
	if cal == nil || len(cal.Blocks) != 1 || len(cal.Params) != 1 {
		return false
	}
	ret, isRet := cal.Blocks[0].Instrs[len(cal.Blocks[0].Instrs)-1].(*ssa.Return)
	if !isRet || len(ret.Results) != 1 {
		return false
	}
	bo, isBo := ret.Results[0].(*ssa.BinOp)
	if !isBo || bo.Op != token.EQL || bo.X != ssa.Value(cal.Params[0]) {
		return false
	}
	s, isS := constString(bo.Y)
	return isS && s == "1"
}

// polyEnv: while the body of an arithmetic helper is read, its parameters stand for the polynomials of the arguments.
var polyEnv []map[*ssa.Parameter]map[string]int64

func polyOf(v ssa.Value, d int) (map[string]int64, string) {
	if d > 20 {
		return nil, "expression too deep"
	}
	if k, ok := constInt(v); ok {
		return map[string]int64{"": k}, ""
	}
	if prm, ok := v.(*ssa.Parameter); ok {
		for i := len(polyEnv) - 1; i >= 0; i-- {
			if pm, has := polyEnv[i][prm]; has {
				return pm, ""
			}
		}
	}
	resIdx := 0
	callV := v
	if ex, isEx := v.(*ssa.Extract); isEx {
		if c2, isCall := ex.Tuple.(*ssa.Call); isCall {
			if cal := c2.Call.StaticCallee(); cal != nil && strings.HasPrefix(fnPkgPath(cal), modPath) && !isProtoPkg(fnPkgPath(cal)) {
				callV, resIdx = c2, ex.Index // one of several results of a module helper
			}
		}
	}
	if call, ok := callV.(*ssa.Call); ok && !call.Call.IsInvoke() && len(polyEnv) < 3 {
		// a module helper that only does the arithmetic (single return of an expression over its parameters)
		if cal := call.Call.StaticCallee(); cal != nil && len(cal.Blocks) >= 1 && strings.HasPrefix(fnPkgPath(cal), modPath) && len(cal.Params) == len(call.Call.Args) {
			// the return that computes the value: the only one, or -- for a (values..., ok) helper with early
			// `return 0, .., false` exits -- the only one whose result is not a constant
			var ret *ssa.Return
			nRet := 0
			for _, cb := range cal.Blocks {
				r, isRet := cb.Instrs[len(cb.Instrs)-1].(*ssa.Return)
				if !isRet || resIdx >= len(r.Results) {
					continue
				}
				if _, isConst := r.Results[resIdx].(*ssa.Const); isConst && len(cal.Blocks) > 1 {
					continue
				}
				ret = r
				nRet++
			}
			if nRet != 1 || (len(cal.Blocks) > 1 && callV == v) {
				ret = nil
			}
			if isRet := ret != nil; isRet && resIdx < len(ret.Results) && (len(ret.Results) == 1 || callV != v) {
				env := map[*ssa.Parameter]map[string]int64{}
				okArgs := true
				for i, a := range call.Call.Args {
					pa, e := polyOf(a, d+1)
					if e != "" {
						okArgs = false
						break
					}
					env[cal.Params[i]] = pa
				}
				if okArgs {
					polyEnv = append(polyEnv, env)
					savedSubst := descrSubst
					ns := map[ssa.Value]string{}
					for k, v := range savedSubst {
						ns[k] = v
					}
					for i, a := range call.Call.Args {
						ns[cal.Params[i]] = descr(a)
					}
					descrSubst = ns
					res, e := polyOf(ret.Results[resIdx], d+1)
					descrSubst = savedSubst
					polyEnv = polyEnv[:len(polyEnv)-1]
					if e == "" {
						return res, ""
					}
				}
			}
		}
	}
	switch x := v.(type) {
	case *ssa.Convert:
		return polyOf(x.X, d+1)
	case *ssa.ChangeType:
		return polyOf(x.X, d+1)
	case *ssa.BinOp:
		a, e1 := polyOf(x.X, d+1)
		b, e2 := polyOf(x.Y, d+1)
		if e1 != "" {
			return nil, e1
		}
		if e2 != "" {
			return nil, e2
		}
		switch x.Op {
		case token.ADD, token.SUB:
			out := map[string]int64{}
			for k, c := range a {
				out[k] += c
			}
			for k, c := range b {
				if x.Op == token.ADD {
					out[k] += c
				} else {
					out[k] -= c
				}
			}
			for k, c := range out {
				if c == 0 {
					delete(out, k)
				}
			}
			return out, ""
		case token.MUL:
			// one side must be constant
			ca, okA := onlyConst(a)
			cb, okB := onlyConst(b)
			switch {
			case okA:
				out := map[string]int64{}
				for k, c := range b {
					out[k] = c * ca
				}
				return out, ""
			case okB:
				out := map[string]int64{}
				for k, c := range a {
					out[k] = c * cb
				}
				return out, ""
			}
			return nil, "non-linear product"
		default:
			return nil, "operator " + x.Op.String() + " in the time formula (e.g. a modulo would fold times past 24:00:00)"
		}
	case *ssa.UnOp:
		if x.Op == token.MUL {
			// load of pieces[k]
			if ia, ok := x.X.(*ssa.IndexAddr); ok {
				if k, isC := constInt(ia.Index); isC {
					// an element of a local array (whatever the array is called)
					return map[string]int64{fmt.Sprintf("piece[%d]", k): 1}, ""
				}
			}
			return map[string]int64{descr(x): 1}, ""
		}
	case *ssa.Extract, *ssa.Parameter, *ssa.Phi, *ssa.Call:
		return map[string]int64{descr(v): 1}, ""
	}
	return nil, fmt.Sprintf("unexpected %T in the time formula", v)
}

func onlyConst(m map[string]int64) (int64, bool) {
	if len(m) == 0 {
		return 0, true
	}
	if len(m) == 1 {
		if c, ok := m[""]; ok {
			return c, true
		}
	}
	return 0, false
}

// ---------------------------------------------------------------- A5 file table

type fileRow struct {
	name     string
	optional bool
	action   *ast.FuncLit
	post     *ast.FuncLit
	calls    []string // parse functions called by the action
	callees  []*ssa.Function
	reads    []string // result fields / shared maps read
	writes   []string // result fields / shared maps written
	pos      token.Pos
}

// rangedTableLiteral: the composite literal a range statement runs over: written in place (`range []T{...}`), or
// assigned once to the local variable that is ranged over (`tables := []T{...}; for _, t := range tables`). Only
// literals whose elements contain function literals count (the file table).
func rangedTableLiteral(fd *ast.FuncDecl, rs *ast.RangeStmt) *ast.CompositeLit {
	hasFuncs := func(cl *ast.CompositeLit) bool {
		has := false
		ast.Inspect(cl, func(m ast.Node) bool {
			if _, isFL := m.(*ast.FuncLit); isFL {
				has = true
			}
			return !has
		})
		return has
	}
	if cl, ok := rs.X.(*ast.CompositeLit); ok {
		if hasFuncs(cl) {
			return cl
		}
		return nil
	}
	id, ok := rs.X.(*ast.Ident)
	if !ok {
		return nil
	}
	var found *ast.CompositeLit
	n := 0
	ast.Inspect(fd, func(m ast.Node) bool {
		switch x := m.(type) {
		case *ast.AssignStmt:
			for i, l := range x.Lhs {
				if li, isId := l.(*ast.Ident); isId && li.Name == id.Name && i < len(x.Rhs) {
					n++
					if cl, isCL := x.Rhs[i].(*ast.CompositeLit); isCL && hasFuncs(cl) {
						found = cl
					}
				}
			}
		case *ast.ValueSpec:
			for i, nm := range x.Names {
				if nm.Name == id.Name {
					n++
					if i < len(x.Values) {
						if cl, isCL := x.Values[i].(*ast.CompositeLit); isCL && hasFuncs(cl) {
							found = cl
						}
					}
				}
			}
		}
		return true
	})
	if n != 1 {
		return nil
	}
	return found
}

// runFileTable reads the composite literal that drives ParseStatic.
func runFileTable(c *Ctx) {
	p := c.P
	pk := p.ByPath[modPath]
	var fd *ast.FuncDecl
	for _, f := range pk.Syntax {
		for _, d := range f.Decls {
			if x, ok := d.(*ast.FuncDecl); ok && x.Name.Name == "ParseStatic" && x.Recv == nil {
				fd = x
			}
		}
	}
	if fd == nil {
		c.Undecided("A5", "gtfs.ParseStatic", "file table", "-", "ParseStatic not found in the syntax")
		return
	}
	var rows []fileRow
	ast.Inspect(fd, func(n ast.Node) bool {
		rs, ok := n.(*ast.RangeStmt)
		if !ok {
			return true
		}
		cl := rangedTableLiteral(fd, rs)
		if cl == nil {
			return true
		}
		for _, el := range cl.Elts {
			ecl, ok := el.(*ast.CompositeLit)
			if !ok {
				continue
			}
			row := fileRow{pos: ecl.Pos()}
			for _, kv := range ecl.Elts {
				k, ok := kv.(*ast.KeyValueExpr)
				if !ok {
					continue
				}
				// the row's fields by the type of their value (the field names of this local struct are free): the
				// file constant, the optional flag, the per-file action func(*csv.File) ..., the parameterless post-step
				tv, hasT := pk.TypesInfo.Types[k.Value]
				if !hasT {
					continue
				}
				switch {
				case typeName(tv.Type) == "constants.StaticFile" && tv.Value != nil:
					row.name = strings.Trim(tv.Value.ExactString(), "\"")
				case tv.Value != nil && tv.Value.Kind() == constant.Bool:
					row.optional = constant.BoolVal(tv.Value)
				default:
					if fl, isFL := k.Value.(*ast.FuncLit); isFL {
						if sig, isSig := tv.Type.Underlying().(*types.Signature); isSig {
							if sig.Params().Len() == 0 {
								row.post = fl
							} else {
								row.action = fl
							}
						}
					}
				}
			}
			for _, fl := range []*ast.FuncLit{row.action, row.post} {
				if fl == nil {
					continue
				}
				ast.Inspect(fl, func(n ast.Node) bool {
					switch x := n.(type) {
					case *ast.CallExpr:
						id, ok := x.Fun.(*ast.Ident)
						if sel, isSel := x.Fun.(*ast.SelectorExpr); isSel {
							id, ok = sel.Sel, true // a method call (opts.parseStops(file))
						}
						if ok {
							if fo, isFn := pk.TypesInfo.Uses[id].(*types.Func); isFn && fo.Pkg() != nil && fo.Pkg().Path() == modPath {
								row.calls = append(row.calls, id.Name)
								if sf := p.SSA.FuncValue(fo); sf != nil {
									row.callees = append(row.callees, sf)
								}
								for _, a := range x.Args {
									row.reads = append(row.reads, types.ExprString(a))
								}
							}
						}
					case *ast.AssignStmt:
						for _, l := range x.Lhs {
							row.writes = append(row.writes, types.ExprString(l))
						}
					}
					return true
				})
			}
			rows = append(rows, row)
		}
		return false
	})
	if len(rows) == 0 {
		c.Undecided("A5", "gtfs.ParseStatic", "file table", p.pos(fd.Pos()), "the composite literal driving the parse was not found (range over a []struct literal)")
		return
	}
	// each file is handled by the function that reads that file's own columns (whatever the function is called)
	want := map[string]struct {
		fn       string // a column only this file has
		optional bool
	}{
		"agency.txt": {"agency_timezone", false}, "routes.txt": {"route_type", false}, "stops.txt": {"stop_lat", false},
		"transfers.txt": {"from_stop_id", true}, "calendar.txt": {"start_date", true}, "calendar_dates.txt": {"exception_type", true},
		"shapes.txt": {"shape_pt_lat", true}, "trips.txt": {"direction_id", false}, "frequencies.txt": {"headway_secs", true},
		"stop_times.txt": {"stop_sequence", false},
	}
	seen := map[string]int{}
	for i, r := range rows {
		seen[r.name] = i
		w, known := want[r.name]
		key := "file " + r.name
		if !known {
			c.Note("A5: file table row %q has no oracle entry (unchecked)", r.name)
			continue
		}
		ok := false
		if r.action != nil {
			for _, cal := range r.callees {
				for _, g := range c.regionOf(cal) {
					if readsColumn(g, w.fn) {
						ok = true
					}
				}
			}
		}
		c.Check(ok, "A5", "gtfs.ParseStatic", key+" parsed by its own reader", p.pos(r.pos), "the row's Action calls the function that reads column "+w.fn, fmt.Sprintf("%s is handled by %v, none of which reads its column %s, or it has no Action", r.name, r.calls, w.fn))
		c.Check(r.optional == w.optional, "A5", "gtfs.ParseStatic", key+" optional="+fmt.Sprint(w.optional), p.pos(r.pos), "presence requirement as in GTFS", fmt.Sprintf("%s optional=%v, GTFS says optional=%v", r.name, r.optional, w.optional))
	}
	for name := range want {
		if _, ok := seen[name]; !ok {
			c.Violated("A5", "gtfs.ParseStatic", "file "+name, p.pos(fd.Pos()), name+" is no longer in the file table: its rows are lost")
		}
	}
	// phase order: a phase that reads result.X / a shared map comes after the phase that writes it
	deps := [][2]string{
		{"agency.txt", "routes.txt"}, {"agency.txt", "calendar.txt"}, {"agency.txt", "calendar_dates.txt"},
		{"stops.txt", "transfers.txt"}, {"stops.txt", "stop_times.txt"},
		{"calendar.txt", "calendar_dates.txt"}, {"calendar_dates.txt", "trips.txt"}, {"shapes.txt", "trips.txt"}, {"routes.txt", "trips.txt"},
		{"trips.txt", "frequencies.txt"}, {"trips.txt", "stop_times.txt"},
	}
	for _, d := range deps {
		i, ok1 := seen[d[0]]
		j, ok2 := seen[d[1]]
		if !ok1 || !ok2 {
			continue
		}
		c.Check(i < j, "A5", "gtfs.ParseStatic", "phase "+d[0]+" before "+d[1], p.pos(rows[j].pos), "definitions precede their uses", d[1]+" is parsed before "+d[0]+", whose entities it references")
	}
	// Services are materialised (PostProcess of the calendar_dates row, which also runs when the file is absent) before trips
	if i, ok := seen["calendar_dates.txt"]; ok {
		okPost := rows[i].post != nil
		c.Check(okPost, "A5", "gtfs.ParseStatic", "services materialised after calendar_dates", p.pos(rows[i].pos), "PostProcess on the calendar_dates row builds Static.Services", "no PostProcess builds Static.Services after both calendar files")
	}
	// member lookup by exact name through a map filled from all reader.File entries
	fn := c.anchor("gtfs:ParseStatic")
	if fn != nil {
		okMap := false
		for _, g := range c.regionOf(fn) { // the index may be built by a helper
			for _, b := range g.Blocks {
				for _, in := range b.Instrs {
					if mu, ok := in.(*ssa.MapUpdate); ok && strings.Contains(canon(mu.Key), ".Name") && strings.Contains(mu.Map.Type().String(), "zip.File") {
						if ld, ok := mu.Value.(*ssa.UnOp); ok {
							if ia, ok := ld.X.(*ssa.IndexAddr); ok {
								if r, _ := isRangeIndexOver(ia.Index, ia.X); r {
									okMap = true
								}
							}
						}
					}
				}
			}
		}
		c.Check(okMap, "A5", "gtfs.ParseStatic", "zip members indexed by exact name", p.pos(fn.Pos()), "every member of the archive is entered under its name: member order and extra files cannot matter", "zip members are not looked up by exact name through a map of all members")
	}
}

// ---------------------------------------------------------------- one entity per accepted row

// runOneAppendPerRow: in every NextRow loop, a trip around the loop appends at most one entity to the loop's
// result collection, and every path that is not a reject path appends exactly one.
func runOneAppendPerRow(c *Ctx) {
	p := c.P
	for _, fn := range staticParseFns(c) {
		if fn.Parent() != nil || fnPkgPath(fn) != modPath {
			continue
		}
		for _, l := range naturalLoops(fn) {
			iff, ok := l.Header.Instrs[len(l.Header.Instrs)-1].(*ssa.If)
			if !ok {
				continue
			}
			call, ok := iff.Cond.(*ssa.Call)
			if !ok || calleeName(call) != "(*"+modPath+"/csv.File).NextRow" {
				continue
			}
			fname := shortName(fn)
			// count entity appends / map stores per path
			maxN, minAccept := 0, 1<<30
			nPaths := pathsWithin(l.Header.Succs[0], l, func(path []*ssa.BasicBlock, back bool) {
				if !back {
					return
				}
				n := 0
				rejected := false
				for i, b := range path {
					for _, in := range b.Instrs {
						switch x := in.(type) {
						case *ssa.Call:
							if isBuiltin(x, "append") && isEntityAppend(x) {
								n++
							}
						case *ssa.MapUpdate:
							if st := structOf(x.Value.Type()); st != nil && strings.HasPrefix(typeName(x.Value.Type()), "gtfs.") {
								n++
							}
						}
					}
					// a path is a reject path if it leaves a block through a branch that jumps straight back to the header
					if i == len(path)-1 && len(b.Succs) == 2 {
						rejected = true
					}
					if i == len(path)-1 && len(b.Succs) == 1 && len(b.Instrs) > 0 {
						// `continue` after logging: block ends with a jump to the header and contains a log call or nothing else
						for _, in := range b.Instrs {
							if cl, isCall := in.(*ssa.Call); isCall {
								n := calleeName(cl)
								if strings.HasPrefix(n, "log.") || strings.HasPrefix(n, "fmt.Print") {
									rejected = true
								}
							}
						}
					}
				}
				if n > maxN {
					maxN = n
				}
				if !rejected && n < minAccept {
					minAccept = n
				}
			})
			if nPaths == 0 {
				continue
			}
			c.Check(maxN <= 1, "ROW", fname, "at most one entity per row", p.pos(fn.Pos()), fmt.Sprintf("no path through the row loop (%d paths) appends more than one entity", nPaths), fmt.Sprintf("a single row can append %d entities", maxN))
		}
	}
}

// isEntityAppend: append of one struct value of a gtfs type (an entity), not of strings/warnings/time values.
func isEntityAppend(call *ssa.Call) bool {
	sl, ok := call.Type().Underlying().(*types.Slice)
	if !ok {
		return false
	}
	n := namedOf(sl.Elem())
	if n == nil || n.Obj().Pkg() == nil || n.Obj().Pkg().Path() != modPath {
		return false
	}
	_, isStruct := n.Underlying().(*types.Struct)
	return isStruct
}

// ---------------------------------------------------------------- A4 reader discipline

func runReaderDiscipline(c *Ctx) {
	p := c.P
	bom := c.anchor("csv:BOMAwareCSVReader")
	nw := c.anchor("csv:New")
	if bom == nil || nw == nil {
		return
	}
	// every encoding/csv.NewReader of the library is created over transform.NewReader(reader, unicode.BOMOverride(...)),
	// whichever function creates it
	var bare []string
	n := 0
	for _, fn := range p.ModFns {
		pk := fnPkgPath(fn)
		if strings.HasSuffix(pk, "/cmd") || strings.HasSuffix(pk, "/performance") || strings.Contains(pk, "/internal/") {
			continue
		}
		for _, b := range fn.Blocks {
			for _, in := range b.Instrs {
				call, ok := in.(*ssa.Call)
				if !ok || calleeName(call) != "encoding/csv.NewReader" {
					continue
				}
				n++
				bd := newBinder(c)
				expr := bd.bind(call.Call.Args[0])
				if !(strings.Contains(expr, "transform.NewReader(") && strings.Contains(expr, "unicode.BOMOverride(")) {
					bare = append(bare, shortName(fn)+" at "+p.ipos(call)+" reads "+clip(expr, 80))
				}
			}
		}
	}
	// the bytes of a file are never fetched with a bare Read: one Read may return fewer bytes than the buffer holds
	// (a deflated zip member of more than ~32 KiB comes in pieces), so a single call truncates the file
	var rawReads []string
	for _, fn := range p.ModFns {
		pk := fnPkgPath(fn)
		if strings.HasSuffix(pk, "/cmd") || strings.HasSuffix(pk, "/performance") || strings.Contains(pk, "/internal/") || isProtoPkg(pk) {
			continue
		}
		for _, b := range fn.Blocks {
			for _, in := range b.Instrs {
				call, ok := in.(*ssa.Call)
				if !ok || !call.Call.IsInvoke() || call.Call.Method.Name() != "Read" {
					continue
				}
				if sig, isSig := call.Call.Method.Type().(*types.Signature); isSig && sig.Params().Len() == 1 && sig.Params().At(0).Type().String() == "[]byte" {
					rawReads = append(rawReads, shortName(fn)+" at "+p.ipos(call))
				}
			}
		}
	}
	c.Check(len(rawReads) == 0, "A4", "gtfs", "file bytes are not fetched with a single Read", "-", "no direct io.Reader.Read call in the library (readers are handed to encoding/csv, io.ReadAll, ...)", "a reader is read with one bare Read call ("+strings.Join(rawReads, "; ")+"): for a compressed or large member this returns only the first piece and the rest of the file is silently lost")
	c.Check(len(bare) == 0 && n > 0, "A4", "csv", "CSV bytes pass through the BOM-aware transformer", p.pos(bom.Pos()),
		fmt.Sprintf("all %d encoding/csv.NewReader calls read from transform.NewReader(reader, unicode.BOMOverride(...))", n),
		"a CSV reader is created without the BOM transformer ("+strings.Join(bare, "; ")+"): a byte-order mark ends up inside the first header name, or quoting after a BOM fails")
	// csv.New reads the header and all rows through such a reader: the *encoding/csv.Reader it keeps in the File
	bd := newBinder(c)
	okNew, nR := true, 0
	for _, fs := range collectFieldStores(c.regionOf(nw), "csv.File") {
		if strings.HasSuffix(fs.store.Val.Type().String(), "encoding/csv.Reader") {
			nR++
			e := bd.bind(fs.store.Val)
			if !(strings.Contains(e, "BOMAwareCSVReader(") || (strings.Contains(e, "transform.NewReader(") && strings.Contains(e, "unicode.BOMOverride("))) {
				okNew = false
			}
		}
	}
	c.Check(okNew && nR > 0, "A4", shortName(nw), "File reads through BOMAwareCSVReader", p.pos(nw.Pos()), "the File's *csv.Reader is BOMAwareCSVReader(reader)", "csv.New does not read the file through BOMAwareCSVReader")
}
