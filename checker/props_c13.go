package main

func init() {
	register(&PropSpec{
		ID: "C13",
		Explain: "Decides a structural sufficient condition for injectivity of the hash input plus field coverage, for all pairs of values at once: " +
			"(H1) every field of Trip/TripID/StopTimeUpdate/StopTimeEvent (for vehicles: Vehicle/VehicleID/Position and the trip) reaches an encoder call, and the excluded fields (Trip.Vehicle, IsEntityInMessage) are never read by the hasher; " +
			"(H2) the encoder matches the field's type (string -> length-prefixed string, *T -> presence-prefixed encoder, time -> Unix seconds so zone presentation is ignored, slice -> length then every element by a range loop, pointer-to-struct -> presence flag then fields); " +
			"(H2) also: what is handed to an encoder is computed for the element at hand -- a variable that can keep its value from a previous trip around a loop is not accepted as a source; (SCAN) no loop of the hasher that encodes something per element is left by a break (a `break` for a `continue` after a missing arrival skips the departure); (H3) the primitives are self-delimiting (length before bytes, presence flag on every path -- written by the number encoder, the method whose own body calls binary.Write, or by a helper whose whole body is number(<its parameter>), with the nil test on the typed pointer -- value only on the non-nil edge); " +
			"(H4) flush discipline (direct hash writes only in flush/string, flush between buffered length and direct write, final flush); (G15) every value reaching binary.Write has a fixed size; (H5) on the way into the hash no numeric value is converted to a type that cannot hold it (float to integer, a narrower integer or float); determinism via no map range / clock in the hasher. " +
			"The destination binary.Write encodes into takes everything it is handed (a growable standard buffer, or a writer of the module that repeats its copy for the rest of its argument); the hasher never compares time.Time values as structs. " +
			"Not decided: encoding/binary and the hash function themselves. No numeric helper between a field and its encoder answers a constant on one path and its argument on another (folding distinct values into one).",
		Assumptions: []string{"hash.Hash implementations consume Write calls as a byte stream"},
		Rules: []Rule{
			{Name: "SCAN", Doc: "a loop that does something for each element is not left early (no break out of a processing loop)", MinInstances: 1, Run: func(c *Ctx) { runFullScan(c, hashFns(c), "SCAN") }},
			{Name: "H", Doc: "hash coverage and encoding discipline (H1-H4, G15)", MinInstances: 28, Run: runHash},
			{Name: "G6", Doc: "no map range in the hasher", Run: func(c *Ctx) {
				fns, _ := c.scope(c.anchors("gtfs:(*Trip).Hash", "gtfs:(*Vehicle).Hash"), scopeOpts{})
				runG6(c, fns)
				c.Stats["hasher functions"] = len(fns)
			}},
			{Name: "G8", Doc: "no clock/randomness in the hasher", MinInstances: 1, Run: func(c *Ctx) {
				runG8(c, c.anchors("gtfs:(*Trip).Hash", "gtfs:(*Vehicle).Hash"))
			}},
		},
	})
}
