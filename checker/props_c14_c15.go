package main

import "golang.org/x/tools/go/ssa"

func init() {
	register(&PropSpec{
		ID: "C14",
		Explain: "The alignment semantics over all histories is NOT decided (it quantifies over sequences of feeds). Decided are structural necessary conditions of it, on every path of the code: " +
			"(MARK) stop times and trips are marked past only while unmarked, with the feed's time; (UPD) StopTime.update assigns every field on every path, from the update's stop id, arrival, departure and track, the feed time, and clears MarkedPast; " +
			"(PART) Trip.update partitions the trip's current list against this update's stop time updates; entries before the first updated stop are only marked past; every aligned entry is refreshed by StopTime.update on every path; the list is trimmed to len(past)+len(updated); the remaining updates are appended at the tail in order; createPartition precedes every return of an applied update (an update without stop time updates is partitioned too); between createPartition and the end of the mark / refresh loops the list is not given another backing array, directly or by a helper called in between (the partition points into it); in the pairing loop of createPartition the outcome `stop ids differ` leaves the loop; createPartition searches the update's first stop in the whole list by stop id only, past is the prefix before it, aligned pairs point into the journal's own list, new is the tail of the updates. " +
			"These are the places where each clause of the property is implemented; breaking one breaks the behaviour, but their conjunction is not claimed to imply it. (GET) the nil-safe getters the journal reads updates through answer their field or the zero value and write nothing; (UID) the entry an update is aligned against is kept under a UID that drops exactly the first six characters of the trip id. (JTR) every trip update of every feed reaches update-or-create of its entry.",
		Rules: []Rule{
			{Name: "JTR", Doc: "every trip update of every feed reaches the update of its entry (created when absent, whatever the update carries): an update that is skipped leaves the list without the stops of that feed", MinInstances: 10, Run: runJournalTrips},
			{Name: "UID", Doc: "the updates of a trip are aligned against the list of the entry kept under its UID: the UID drops the six-character origin-time prefix of the trip id and nothing else, so distinct trips of one start instant keep distinct lists", MinInstances: 1, Run: func(c *Ctx) { runUIDSuffix(c, "UID") }},
			{Name: "GET", Doc: "the journal reads arrival, departure and vehicle of an update through the nil-safe getters of the realtime types: each answers what its field points to or the zero value, and writes nothing", MinInstances: 3, Run: func(c *Ctx) { runPlainGetters(c, "GET") }},
			{Name: "ACCT", Doc: "an update is applied unless the trip is assigned and the update carries no vehicle (tested on the vehicle itself); the stop times of an applied update are always processed", MinInstances: 1, Run: func(c *Ctx) {
				if tu := c.anchor("journal:(*Trip).update"); tu != nil {
					runTripUpdateShape(c, tu, newBinder(c))
				}
			}},
			{Name: "SCAN", Doc: "a loop that does something for each element is not left early (no break out of a processing loop)", MinInstances: 1, Run: func(c *Ctx) { runFullScan(c, journalFns(c), "SCAN") }},
			{Name: "JST", Doc: "journal stop times: mark-once, update coverage, partition application", MinInstances: 9, Run: runJournalStopTimes},
		},
	})
	register(&PropSpec{
		ID: "C15",
		Explain: "The accounting semantics over all histories and windows is NOT decided. Decided are structural necessary conditions, on every path of the code: " +
			"(UID) the UID used as map key and the UID recorded in the entry are built identically from (StartDate.Add(StartTime), trip id) as unix start + id without its 6-character prefix; " +
			"(ACCT) every trip of a feed is applied by Trip.update and recorded as present on every path of the per-trip loop; entries are created only when absent; trips of the previous feed absent from the current one are marked past with the current feed's time and the present-set is replaced each feed; selection skips exactly on start before window, window end before start, or never assigned; Trip.update returns before any store for an assigned trip updated without a vehicle and otherwise records identifier fields, vehicle id, assignment, last-observed, clears MarkedPast and counts the update on every path; marking a trip past visits all its stops; " +
			"(G6) the result is built from sorted UIDs. Not claimed: that these imply the accounting over histories. (GET) as in C14: a getter that fills a field in would make every update look assigned. (MARK) the nil test of MarkedPast is the only condition of the stamp. (UID) the suffix is the id without its first six characters. (NYCT, LINK) the stale filter the directory source applies drops only unassigned trips, and the links that decide whether an update carries a vehicle are never deleted.",
		Rules: []Rule{
			{Name: "NYCT", Doc: "the directory source filters stale unassigned trips before the journal sees a feed: the filter drops a trip only when it is unassigned (decision table of the stale test, guards of its call)", MinInstances: 9, Run: runNyctTrips},
			{Name: "LINK", Doc: "whether an update carries a vehicle is decided by the trip<->vehicle links of the parsed feed: link discipline of ParseRealtime (both association tables written together, no entry of another trip removed)", MinInstances: 5, Run: runLinkRules},
			{Name: "UID", Doc: "one entry per distinct (start instant, trip-id suffix): the suffix is the id without its first six characters", MinInstances: 1, Run: func(c *Ctx) { runUIDSuffix(c, "UID") }},
			{Name: "GET", Doc: "the journal reads the vehicle of an update through the nil-safe getters of the realtime types: each answers what its field points to or the zero value, and writes nothing (a getter that fills the field in makes every update look assigned)", MinInstances: 3, Run: func(c *Ctx) { runPlainGetters(c, "GET") }},
			{Name: "SCAN", Doc: "a loop that does something for each element is not left early (no break out of a processing loop)", MinInstances: 1, Run: func(c *Ctx) { runFullScan(c, journalFns(c), "SCAN") }},
			{Name: "JTR", Doc: "journal trip accounting", MinInstances: 10, Run: runJournalTrips},
			{Name: "MARK", Doc: "mark once", MinInstances: 1, Run: func(c *Ctx) { markOnce(c, "journal:(*Trip).markPast"); markOnce(c, "journal:(*StopTime).markPast") }},
			{Name: "G6", Doc: "output order from sorted keys", MinInstances: 1, Run: func(c *Ctx) {
				var fns []*ssa.Function
				for _, f := range c.anchors("journal:BuildJournal") {
					for _, g := range c.regionOf(f) {
						if fnPkgPath(g) == fnPkgPath(f) {
							fns = append(fns, g) // the copy-out and its sort may live in helpers
						}
					}
				}
				runG6(c, fns)
			}},
		},
	})
}
