package main

func init() {
	register(&PropSpec{
		ID: "C03",
		Explain: "Decides referential closure for every archive as statements about the only code that creates the cross-reference pointers: " +
			"(G13) every pointer stored in Route.Agency, Stop.Parent, Transfer.From/To, ScheduledTrip.Route/Service/Shape, ScheduledStopTime.Stop resolves (through phis, id maps and local cells) to element addresses &S[i] of the result's own collection S, never the address of a copy; the address is taken only after S stopped growing (not inside the loop that appends to it) and each result collection is written by a single phase; id maps pair each element's own id with its own address (same index); the index map of stops satisfies the index-map lemma (C05 G2); " +
			"at every append of an entity the references GTFS requires are non-nil (E1 facts at the append site); " +
			"(FOREST) only parseStops stores Stop.Parent, every non-nil store is dominated by the negative outcome of a bounded ancestor test on exactly the two nodes being linked, so no store can close a cycle, and Stop.Root's walk along Parent terminates. " +
			"A reference taken by position (`&agencies[0]`, the sole agency) is used only on paths on which an id cell of the row was found blank. Not decided: correctness of the ancestor walk beyond its checked shape (bounded counter, compares with the node being linked, answers true when the bound is hit). The row a parser reads is the row of the file (csv reader configured with ReuseRecord only, the row layer hands out the current record) and the accessors answer cells as read, so a reference is resolved from the id its own row gives, compared with ids read the same way. Files without a byte order mark reach the csv reader undecoded (encoding.Nop fallback), so ids are compared as written.",
		Rules: []Rule{
			{Name: "A4", Doc: "the row a parser reads is the row of the file: the csv reader is configured to recycle its record and nothing else, and the row layer hands out the cells of the current record (a reference is resolved from what its own row says)", MinInstances: 1, Run: func(c *Ctx) { runReaderDiscipline(c); csvSideObligations(c) }},
			{Name: "G13", Doc: "result-pointer provenance, growth discipline, id-map agreement", MinInstances: 8, Run: runRefRules},
			{Name: "PHASE", Doc: "a result collection is not sorted after addresses of its elements were kept", MinInstances: 1, Run: func(c *Ctx) { runSortAfterAddress(c, "PHASE") }},
			{Name: "LOOPVAR", Doc: "no pointer to a per-loop (go 1.18) iteration variable is kept as a reference: it would point at a copy, and at the last element's", MinInstances: 0, Run: func(c *Ctx) { runLoopVarAlias(c, staticParseFns(c), "LOOPVAR") }},
			{Name: "REJECT", Doc: "no value (in particular no resolved reference) is carried from one row to the next on a path that rejects the row: a later row cannot inherit an earlier row's reference", MinInstances: 7, Run: runRejectInert},
			{Name: "CACHE", Doc: "a lookup cache carried across rows is coherent: pointer and key change together", MinInstances: 1, Run: runCacheCoherence},
			{Name: "REQ", Doc: "required references non-nil at append", MinInstances: 1, Run: runRequiredRefs},
			{Name: "FOREST", Doc: "parent links form a forest; Root terminates", MinInstances: 2, Run: runForest},
		},
	})
}
