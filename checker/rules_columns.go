package main

// Column resolution for the csv layer and the C10 default rule.

import (
	"fmt"
	"go/constant"
	"go/token"
	"go/types"
	"sort"
	"strings"

	"golang.org/x/tools/go/ssa"
)

type colInfo struct {
	name     string
	required bool
	ctor     *ssa.Call
	file     ssa.Value
}

func isColumnCtor(call *ssa.Call) (required bool, ok bool) {
	switch calleeName(call) {
	case "(*" + modPath + "/csv.File).RequiredColumn":
		return true, true
	case "(*" + modPath + "/csv.File).OptionalColumn":
		return false, true
	}
	return false, false
}

// resolveProg: the loaded program, for following a column object that a helper receives as a parameter to its call
// sites (set once after loading).
var resolveProg *Program

// paramArgs: what the call sites of prm's function pass for prm (nil when there is no caller or the program is unknown).
func paramArgs(prm *ssa.Parameter) []ssa.Value {
	fn := prm.Parent()
	if resolveProg == nil || fn == nil {
		return nil
	}
	idx := -1
	for i, q := range fn.Params {
		if q == prm {
			idx = i
		}
	}
	var out []ssa.Value
	for _, e := range resolveProg.Callers(fn) {
		args := e.Site.Common().Args
		if idx < 0 || idx >= len(args) {
			return nil
		}
		out = append(out, args[idx])
	}
	return out
}

// resolveColumn finds the column a Required/OptionalColumn value denotes.
func resolveColumn(v ssa.Value, depth int) (*colInfo, string) {
	if depth > 10 {
		return nil, "too deep"
	}
	switch x := v.(type) {
	case *ssa.Parameter:
		// a column object handed to a helper: the same column at every call site
		args := paramArgs(x)
		if len(args) == 0 {
			return nil, "column parameter without a call site"
		}
		var res *colInfo
		for _, a := range args {
			ci, why := resolveColumn(a, depth+1)
			if ci == nil {
				return nil, why
			}
			if res != nil && res.name != ci.name {
				return nil, "column parameter receives several columns"
			}
			res = ci
		}
		return res, ""
	case *ssa.Call:
		if req, ok := isColumnCtor(x); ok {
			name, isConst := constString(x.Call.Args[1])
			if !isConst {
				// name from a literal slice indexed by a range index: handled by the array case
				return nil, "column name is not a constant"
			}
			return &colInfo{name: name, required: req, ctor: x, file: x.Call.Args[0]}, ""
		}
		return nil, "not a column constructor: " + trimMod(calleeName(x))
	case *ssa.Index:
		// an element of a copy of the local column array (`for i, col := range cols`: the array is copied once, after
		// it was filled)
		ld, ok := x.X.(*ssa.UnOp)
		if !ok || ld.Op != token.MUL {
			return nil, "column array value of unknown origin"
		}
		arr, ok := ld.X.(*ssa.Alloc)
		if !ok {
			return nil, "column array is not a local array"
		}
		at, isArr := deref(arr.Type()).Underlying().(*types.Array)
		if !isArr {
			return nil, "column array is not an array"
		}
		if k, isConst := constInt(x.Index); isConst {
			return columnArrayElem(arr, k, nil)
		}
		n, isR := rangeIndexConst(x.Index)
		inside := (isR && n <= at.Len()) || func() bool { ok, _ := isRangeIndexOver(x.Index, x.X); return ok }()
		if !inside || depth > 2 {
			return nil, "column array indexed by a non-constant"
		}
		var names []string
		var first *colInfo
		for kk := int64(0); kk < at.Len(); kk++ {
			ci, why := columnArrayElem(arr, kk, nil)
			if ci == nil {
				return nil, why
			}
			if first == nil {
				first = ci
			} else if first.required != ci.required {
				return nil, "column array mixes required and optional columns"
			}
			names = append(names, ci.name)
		}
		if first == nil {
			return nil, "empty column array"
		}
		return &colInfo{name: strings.Join(names, "|"), required: first.required, ctor: first.ctor, file: first.file}, ""
	case *ssa.Field:
		// a column object kept in an unexported field of a struct of the module (a value receiver's field)
		return resolveColumnField(x.X.Type(), x.Field, depth)
	case *ssa.UnOp:
		if x.Op != token.MUL {
			return nil, "unexpected unary op"
		}
		if fa, isFA := x.X.(*ssa.FieldAddr); isFA {
			if _, isArr := deref(fa.Type()).Underlying().(*types.Array); !isArr {
				return resolveColumnField(fa.X.Type(), fa.Field, depth)
			}
		}
		switch a := x.X.(type) {
		case *ssa.Alloc:
			var res *colInfo
			for _, r := range *a.Referrers() {
				if st, ok := r.(*ssa.Store); ok && st.Addr == a {
					ci, why := resolveColumn(st.Val, depth+1)
					if ci == nil {
						return nil, why
					}
					if res != nil && res.name != ci.name {
						return nil, "variable holds several columns"
					}
					res = ci
				}
			}
			if res == nil {
				return nil, "no column stored in variable"
			}
			return res, ""
		case *ssa.FreeVar:
			return nil, "captured column variable"
		case *ssa.IndexAddr:
			arr, ok := a.X.(*ssa.Alloc)
			if fv, isFV := a.X.(*ssa.FreeVar); isFV && !ok {
				// the column array of the enclosing function, captured by a closure
				if par := fv.Parent().Parent(); par != nil {
					idx := freeVarIndex(fv.Parent(), fv)
					for _, pb := range par.Blocks {
						for _, pin := range pb.Instrs {
							if mc, isMC := pin.(*ssa.MakeClosure); isMC && mc.Fn == ssa.Value(fv.Parent()) && idx >= 0 && idx < len(mc.Bindings) {
								arr, ok = mc.Bindings[idx].(*ssa.Alloc)
							}
						}
					}
				}
			}
			if prm, isPrm := a.X.(*ssa.Parameter); isPrm && !ok {
				// a pointer to the caller's column array
				if args := paramArgs(prm); len(args) == 1 {
					arr, ok = args[0].(*ssa.Alloc)
				}
			}
			if !ok {
				return nil, "column array is not a local array"
			}
			k, isConst := constInt(a.Index)
			if !isConst {
				// indexed by a loop index that stays inside the array: one of the array's columns, all of which must
				// resolve
				at, isArr := deref(arr.Type()).Underlying().(*types.Array)
				n, isR := rangeIndexConst(a.Index)
				inside := isArr && ((isR && n <= at.Len()) || func() bool { ok, _ := isRangeIndexOver(a.Index, a.X); return ok }())
				if prm, isPrm := a.Index.(*ssa.Parameter); isPrm && isArr && !inside {
					// the index is handed in by the callers, each with a constant inside the array
					if args := paramArgs(prm); len(args) > 0 {
						inside = true
						for _, av := range args {
							if k, isC := constInt(av); !isC || k < 0 || k >= at.Len() {
								inside = false
							}
						}
					}
				}
				if !inside || depth > 2 {
					return nil, "column array indexed by a non-constant"
				}
				var names []string
				var first *colInfo
				saved := idxSubst
				for kk := int64(0); kk < at.Len(); kk++ {
					ns := map[ssa.Value]int64{}
					for k2, v2 := range saved {
						ns[k2] = v2
					}
					ns[a.Index] = kk
					idxSubst = ns
					ci, why := resolveColumn(v, depth+1)
					idxSubst = saved
					if ci == nil {
						return nil, why
					}
					if first == nil {
						first = ci
					} else if first.required != ci.required {
						return nil, "column array mixes required and optional columns"
					}
					names = append(names, ci.name)
				}
				if first == nil {
					return nil, "empty column array"
				}
				return &colInfo{name: strings.Join(names, "|"), required: first.required, ctor: first.ctor, file: first.file}, ""
			}
			return columnArrayElem(arr, k, a)
		}
	}
	return nil, fmt.Sprintf("unrecognised column expression %T", v)
}

// resolveColumnField: the column kept in field idx of struct type t: every store the module makes into that field
// (over all instances) must put the same column there.
func resolveColumnField(t types.Type, idx int, depth int) (*colInfo, string) {
	if resolveProg == nil {
		return nil, "column kept in a struct field"
	}
	vals, ok := resolveProg.fieldStoresOf(t, idx)
	if !ok || len(vals) == 0 {
		return nil, "column kept in a field that code outside the module can set, or that is never set"
	}
	var res *colInfo
	for _, v := range vals {
		ci, why := resolveColumn(v, depth+1)
		if ci == nil {
			return nil, why
		}
		if res != nil && res.name != ci.name {
			return nil, "field holds several columns"
		}
		res = ci
	}
	return res, ""
}

// columnArrayElem: the column that element k of the local column array holds: the constructor stored there directly,
// or by the loop `arr[i] = f.RequiredColumn(names[i])` over a literal list of names.
func columnArrayElem(arr *ssa.Alloc, k int64, skip *ssa.IndexAddr) (*colInfo, string) {
	// stores dayColumns[i] = f.RequiredColumn(lit[i]) inside a range over a literal
	for _, r := range *arr.Referrers() {
		ia, ok := r.(*ssa.IndexAddr)
		if !ok || (skip != nil && ia == skip) {
			continue
		}
		for _, r2 := range *ia.Referrers() {
			st, ok := r2.(*ssa.Store)
			if !ok || st.Addr != ia {
				continue
			}
			call, ok := st.Val.(*ssa.Call)
			if !ok {
				continue
			}
			req, isCtor := isColumnCtor(call)
			if !isCtor {
				continue
			}
			if kk, isC := constInt(ia.Index); isC {
				if kk != k {
					continue
				}
				if name, ok := constString(call.Call.Args[1]); ok {
					return &colInfo{name: name, required: req, ctor: call, file: call.Call.Args[0]}, ""
				}
				continue
			}
			// name = *(&lit[j]) with j the same value as the store index -- or names[j] of an array variable that is
			// ranged over by value (the array is copied, the copy indexed)
			var litX, litIdx ssa.Value
			if ld, ok := call.Call.Args[1].(*ssa.UnOp); ok {
				if la, ok := ld.X.(*ssa.IndexAddr); ok {
					litX, litIdx = la.X, la.Index
				}
			}
			if ix, ok := call.Call.Args[1].(*ssa.Index); ok {
				if ld, ok := ix.X.(*ssa.UnOp); ok && ld.Op == token.MUL {
					if al, ok := ld.X.(*ssa.Alloc); ok {
						litX, litIdx = al, ix.Index
					}
				}
			}
			if litX == nil || litIdx != ia.Index {
				continue
			}
			la := struct{ X ssa.Value }{litX}
			rangesOver := func() bool {
				if ok, _ := isRangeIndexOver(ia.Index, la.X); ok {
					return true
				}
				if ix, ok := call.Call.Args[1].(*ssa.Index); ok {
					if ok, _ := isRangeIndexOver(ia.Index, ix.X); ok {
						return true
					}
				}
				return false
			}
			if !rangesOver() {
				// or a counter that visits 0..n-1 with n the length of the column array
				n, isCounter := rangeIndexConst(ia.Index)
				at, isArr := deref(arr.Type()).Underlying().(*types.Array)
				if !isCounter || !isArr || n != at.Len() {
					continue
				}
			}
			lit := literalStrings(la.X)
			if lit == nil || int(k) >= len(lit) {
				return nil, "column names do not come from a literal list"
			}
			// the array must be as long as the literal so that index k is filled by element k
			if at, ok := deref(arr.Type()).Underlying().(*types.Array); ok && int(at.Len()) != len(lit) {
				return nil, "column array and name list differ in length"
			}
			return &colInfo{name: lit[k], required: req, ctor: call, file: call.Call.Args[0]}, ""
		}
	}
	// the array variable is a copy of a whole array value: a parameter (what the callers pass) or what a constructor
	// helper of the module returned (its own local array, filled there)
	var res *colInfo
	nWhole := 0
	for _, r := range *arr.Referrers() {
		st, ok := r.(*ssa.Store)
		if !ok || st.Addr != ssa.Value(arr) {
			continue
		}
		nWhole++
		ci, why := columnArrayValueElem(st.Val, k, 0)
		if ci == nil {
			return nil, why
		}
		if res != nil && res.name != ci.name {
			return nil, "column array variable holds several arrays"
		}
		res = ci
	}
	if res != nil && nWhole > 0 {
		return res, ""
	}
	return nil, "no constructor stored into the column array"
}

// columnArrayValueElem: element k of a column array value (not an address).
func columnArrayValueElem(v ssa.Value, k int64, depth int) (*colInfo, string) {
	if depth > 6 {
		return nil, "too deep"
	}
	agree := func(vals []ssa.Value) (*colInfo, string) {
		var res *colInfo
		for _, a := range vals {
			ci, why := columnArrayValueElem(a, k, depth+1)
			if ci == nil {
				return nil, why
			}
			if res != nil && res.name != ci.name {
				return nil, "column array value comes from several arrays"
			}
			res = ci
		}
		if res == nil {
			return nil, "column array value of unknown origin"
		}
		return res, ""
	}
	switch x := v.(type) {
	case *ssa.Parameter:
		return agree(paramArgs(x))
	case *ssa.UnOp:
		if al, ok := x.X.(*ssa.Alloc); ok && x.Op == token.MUL {
			return columnArrayElem(al, k, nil)
		}
	case *ssa.Call:
		cal := x.Call.StaticCallee()
		if cal == nil || x.Call.IsInvoke() || resolveProg == nil || !resolveProg.isModuleFn(cal) || len(cal.Blocks) == 0 {
			return nil, "column array returned by an unknown function"
		}
		var rets []ssa.Value
		for _, blk := range cal.Blocks {
			if ret, ok := blk.Instrs[len(blk.Instrs)-1].(*ssa.Return); ok && len(ret.Results) == 1 {
				rets = append(rets, ret.Results[0])
			}
		}
		return agree(rets)
	}
	return nil, "column array value of unknown origin"
}

// literalStrings returns the elements of a []string{...} literal (go/ssa: array alloc, constant-index stores, slice).
func literalStrings(v ssa.Value) []string {
	var arr *ssa.Alloc
	switch x := v.(type) {
	case *ssa.Slice:
		arr, _ = x.X.(*ssa.Alloc)
	case *ssa.Alloc:
		arr = x // an array variable initialised by a literal
	}
	if arr == nil {
		return nil
	}
	at, ok := deref(arr.Type()).Underlying().(*types.Array)
	if !ok {
		return nil
	}
	out := make([]string, at.Len())
	n := 0
	for _, r := range *arr.Referrers() {
		ia, ok := r.(*ssa.IndexAddr)
		if !ok {
			continue
		}
		k, isC := constInt(ia.Index)
		if !isC {
			// reading an element at a computed index is fine; writing one is not a literal any more
			for _, r2 := range *ia.Referrers() {
				if st, ok := r2.(*ssa.Store); ok && st.Addr == ssa.Value(ia) {
					return nil
				}
			}
			continue
		}
		if k < 0 || k >= at.Len() {
			return nil
		}
		for _, r2 := range *ia.Referrers() {
			if st, ok := r2.(*ssa.Store); ok && st.Addr == ssa.Value(ia) {
				s, isS := constString(st.Val)
				if !isS {
					return nil
				}
				out[k] = s
				n++
			}
		}
	}
	if n != len(out) {
		return nil
	}
	return out
}

type readSite struct {
	fn     *ssa.Function
	call   *ssa.Call
	col    *colInfo
	method string    // Read | ReadOr
	def    string    // constant default for ReadOr ("" for Read)
	defOK  bool      // default is a constant
	defVal ssa.Value // the default argument
}

func columnReadSites(c *Ctx, fns []*ssa.Function) []readSite {
	// the readers' own implementation (one reader written in terms of another) is not a read site of the parser
	var outside []*ssa.Function
	for _, fn := range fns {
		if fnPkgPath(fn) != pkgPathOf("csv") {
			outside = append(outside, fn)
		}
	}
	fns = outside
	var out []readSite
	for _, fn := range fns {
		for _, b := range fn.Blocks {
			for _, in := range b.Instrs {
				call, ok := in.(*ssa.Call)
				if !ok {
					continue
				}
				name := calleeName(call)
				var method string
				switch name {
				case "(" + modPath + "/csv.OptionalColumn).Read", "(" + modPath + "/csv.RequiredColumn).Read":
					method = "Read"
				case "(" + modPath + "/csv.OptionalColumn).ReadOr":
					method = "ReadOr"
				default:
					continue
				}
				ci, why := resolveColumn(call.Call.Args[0], 0)
				if ci == nil {
					c.Undecided("COL", shortName(fn), "column of "+method+" call", c.P.ipos(call), "cannot tell which column is read: "+why)
					continue
				}
				rs := readSite{fn: fn, call: call, col: ci, method: method, defOK: true}
				if method == "ReadOr" {
					rs.defVal = call.Call.Args[1]
					rs.def, rs.defOK = constString(call.Call.Args[1])
				}
				out = append(out, rs)
			}
		}
	}
	return out
}

// optSummary: behaviour of OptionalColumn.Read / ReadOr for {absent column, blank cell, value}
// as one of "default" (the ReadOr argument), "cell", "empty" (constant "").
type optSummary struct {
	absent, blank, value string
	table                string
}

// csvRolesGlobal: the csv package's private names by role, set by the rule that needs them (see csvroles.go).
var csvRolesGlobal = &csvRoles{curRow: "currentRow", hdrMap: "headerMap", rowType: "csv.row", cells: "cells", colIndex: "i"}

func summariseOptionalRead(c *Ctx, spec string) (*optSummary, string) {
	csvRolesGlobal = c.csvRoleNames()
	f := c.anchor(spec)
	if f == nil {
		return nil, "anchor"
	}
	return summariseOptionalFn(c, f, 0)
}

func summariseOptionalFn(c *Ctx, f *ssa.Function, depth int) (*optSummary, string) {
	tb, err := extractTableV(f)
	if err != nil {
		return nil, err.Error()
	}
	// one reader written in terms of the other's *result* (`if cell := c.Read(); cell != "" { return cell }; return
	// dflt`): the sibling yields "" for an absent column and for a blank cell, so the `== ""` row is both of those
	if len(tb.rows) == 2 && depth < 2 {
		var sib *ssa.Call
		var eqRow, neRow *trow
		nCmp := 0
		for _, blk := range f.Blocks {
			for _, in := range blk.Instrs {
				bo, ok := in.(*ssa.BinOp)
				if !ok || (bo.Op != token.EQL && bo.Op != token.NEQ) {
					continue
				}
				call, isCall := bo.X.(*ssa.Call)
				ks, isS := constString(bo.Y)
				if isCall && isS && ks == "" {
					sib = call
					nCmp++
				}
			}
		}
		if nCmp != 1 {
			sib = nil
		}
		for i := range tb.rows {
			r := &tb.rows[i]
			if sib == nil || len(r.conds) != 1 || r.conds[0].opaque || r.conds[0].konst != `""` || !strings.HasPrefix(r.conds[0].subj, "call:") {
				sib = nil
				break
			}
			if r.conds[0].neg {
				neRow = r
			} else {
				eqRow = r
			}
		}
		if sib != nil && eqRow != nil && neRow != nil {
			cal := sib.Call.StaticCallee()
			if cal != nil && len(sib.Call.Args) == 1 && sib.Call.Args[0] == ssa.Value(f.Params[0]) && cal.Signature.Recv() != nil && f.Signature.Recv() != nil &&
				typeName(cal.Signature.Recv().Type()) == typeName(f.Signature.Recv().Type()) && neRow.vals[0] == ssa.Value(sib) {
				inner, why := summariseOptionalFn(c, cal, depth+1)
				if inner == nil {
					return nil, "tests the result of " + cal.Name() + ", which cannot be summarised: " + why
				}
				if inner.absent == "empty" && inner.blank == "empty" && inner.value == "cell" {
					res := ""
					switch v := eqRow.vals[0].(type) {
					case *ssa.Parameter:
						res = "default"
					case *ssa.Const:
						if cs, ok := constString(v); ok && cs == "" {
							res = "empty"
						}
					}
					if res != "" {
						return &optSummary{table: tb.String() + " => " + inner.table, absent: res, blank: res, value: "cell"}, ""
					}
				}
			}
		}
	}
	s := &optSummary{table: tb.String()}
	set := func(slot *string, v string) string {
		if *slot != "" && *slot != v {
			return "ambiguous: " + *slot + " vs " + v
		}
		*slot = v
		return ""
	}
	for _, r := range tb.rows {
		absent, blank := "unknown", "unknown"
		for _, a := range r.conds {
			switch classifyColumnAtom(a) {
			case "absent":
				absent = fmt.Sprint(!a.neg)
			case "present":
				absent = fmt.Sprint(a.neg)
			case "blank":
				blank = fmt.Sprint(!a.neg)
			default:
				return nil, "condition outside {column absent, cell blank}: " + a.String()
			}
		}
		var res string
		switch v := r.vals[0].(type) {
		case *ssa.Parameter:
			res = "default"
		case *ssa.Const:
			if s, ok := constString(v); ok && s == "" {
				res = "empty"
			} else {
				return nil, "returns an unexpected constant"
			}
		case *ssa.UnOp:
			if ia, ok := v.X.(*ssa.IndexAddr); ok && strings.HasSuffix(canon(ia.X), "."+csvRolesGlobal.cells+")") {
				res = "cell"
			} else {
				return nil, "returns an unexpected load"
			}
		case *ssa.Call:
			// one reader written in terms of the other (Read() = ReadOr("")): compose the summaries
			cal := v.Call.StaticCallee()
			if cal == nil || depth > 1 || len(r.conds) != 0 || len(tb.rows) != 1 || len(v.Call.Args) != 2 || v.Call.Args[0] != ssa.Value(f.Params[0]) ||
				cal.Signature.Recv() == nil || typeName(cal.Signature.Recv().Type()) != typeName(f.Signature.Recv().Type()) {
				return nil, "returns an unexpected expression " + canon(r.vals[0])
			}
			inner, why := summariseOptionalFn(c, cal, depth+1)
			if inner == nil {
				return nil, "delegates to " + cal.Name() + ", which cannot be summarised: " + why
			}
			def := ""
			switch a := v.Call.Args[1].(type) {
			case *ssa.Parameter:
				def = "default"
			case *ssa.Const:
				if cs, ok := constString(a); ok && cs == "" {
					def = "empty"
				}
			}
			if def == "" {
				return nil, "delegates to " + cal.Name() + " with a default that is neither its own parameter nor \"\""
			}
			sub := func(x string) string {
				if x == "default" {
					return def
				}
				return x
			}
			return &optSummary{table: tb.String() + " => " + inner.table, absent: sub(inner.absent), blank: sub(inner.blank), value: sub(inner.value)}, ""
		default:
			return nil, "returns an unexpected expression " + canon(r.vals[0])
		}
		if absent == "true" {
			if e := set(&s.absent, res); e != "" {
				return nil, e
			}
			continue
		}
		if absent == "unknown" {
			return nil, "row does not test column presence"
		}
		// column present
		if blank == "true" || blank == "unknown" {
			bres := res
			if res == "cell" {
				bres = "empty"
			}
			if e := set(&s.blank, bres); e != "" {
				return nil, e
			}
		}
		if blank == "false" || blank == "unknown" {
			if e := set(&s.value, res); e != "" {
				return nil, e
			}
		}
	}
	return s, ""
}

// extractTableV is extractTable keeping the condition values for classification.
func extractTableV(f *ssa.Function) (*dtable, error) { return extractTable(f) }

func classifyColumnAtom(a atom) string {
	v := a.v
	if v == nil {
		return "?"
	}
	if u, ok := v.(*ssa.UnOp); ok && u.Op == token.NOT {
		v = u.X
	}
	b, ok := v.(*ssa.BinOp)
	if !ok {
		return "?"
	}
	isIndexField := func(x ssa.Value) bool {
		ld, ok := x.(*ssa.UnOp)
		if !ok || ld.Op != token.MUL {
			return false
		}
		fa, ok := ld.X.(*ssa.FieldAddr)
		return ok && fieldName(fa.X.Type(), fa.Field) == csvRolesGlobal.colIndex
	}
	isCell := func(x ssa.Value) bool {
		ld, ok := x.(*ssa.UnOp)
		if !ok || ld.Op != token.MUL {
			return false
		}
		ia, ok := ld.X.(*ssa.IndexAddr)
		return ok && strings.HasSuffix(canon(ia.X), "."+csvRolesGlobal.cells+")")
	}
	if isIndexField(b.X) {
		if k, ok := constInt(b.Y); ok {
			switch {
			case (b.Op == token.EQL || b.Op == token.NEQ) && k == -1:
				return "absent" // equality atom: its polarity decides
			case b.Op == token.LSS && k == 0, b.Op == token.LEQ && k == -1:
				return "absent"
			case b.Op == token.GEQ && k == 0, b.Op == token.GTR && k == -1:
				return "present"
			}
		}
	}
	if (b.Op == token.EQL || b.Op == token.NEQ) && isCell(b.X) {
		if s, ok := constString(b.Y); ok && s == "" {
			return "blank" // the atom's own polarity says whether the equality holds (== taken true, != taken false, ...)
		}
	}
	return "?"
}

// ---------------------------------------------------------------- C10 defaults

type defaultOracle struct {
	column string
	// expected field value(s): constant key(s) "const:..." ; for location_type two (no parent / parent)
	expect []string
	doc    string
}

func runDefaults(c *Ctx) {
	p := c.P
	fns, _ := c.scope(c.anchors("gtfs:ParseStatic"), scopeOpts{})
	sumRead, why1 := summariseOptionalRead(c, "csv:(OptionalColumn).Read")
	sumReadOr, why2 := summariseOptionalRead(c, "csv:(OptionalColumn).ReadOr")
	if sumRead == nil {
		c.Undecided("DEF", "(csv.OptionalColumn).Read", "summary", "-", "cannot summarise OptionalColumn.Read as {absent, blank, value} -> {default, cell, empty}: "+why1)
		return
	}
	if sumReadOr == nil {
		c.Undecided("DEF", "(csv.OptionalColumn).ReadOr", "summary", "-", "cannot summarise OptionalColumn.ReadOr: "+why2)
		return
	}
	c.Check(sumRead.value == "cell" && sumReadOr.value == "cell", "DEF", "csv.OptionalColumn", "written value is returned verbatim", "-",
		"Read/ReadOr return the cell for a non-blank cell", "Read/ReadOr do not return the cell content for a written value")
	c.Note("OptionalColumn.Read: absent->%s blank->%s value->%s", sumRead.absent, sumRead.blank, sumRead.value)
	c.Note("OptionalColumn.ReadOr: absent->%s blank->%s value->%s", sumReadOr.absent, sumReadOr.blank, sumReadOr.value)

	k := func(pkg, name string) string { return c.constOf(pkg, name) }
	oracle := []defaultOracle{
		{"route_color", []string{"const:\"FFFFFF\""}, "route colour defaults to white"},
		{"route_text_color", []string{"const:\"000000\""}, "route text colour defaults to black"},
		{"pickup_type", []string{k("gtfs", "PickupDropOffPolicy_Yes")}, "regular pickup"},
		{"drop_off_type", []string{k("gtfs", "PickupDropOffPolicy_Yes")}, "regular drop-off"},
		{"continuous_pickup", []string{k("gtfs", "PickupDropOffPolicy_No")}, "no continuous pickup"},
		{"continuous_drop_off", []string{k("gtfs", "PickupDropOffPolicy_No")}, "no continuous drop-off"},
		{"timepoint", []string{"const:true"}, "times are exact"},
		{"transfer_type", []string{k("gtfs", "TransferType_Recommended")}, "recommended transfer"},
		{"exact_times", []string{k("gtfs", "FrequencyBased")}, "frequency-based"},
		{"direction_id", []string{k("gtfs", "DirectionID_Unspecified")}, "unspecified direction"},
		{"wheelchair_boarding", []string{k("gtfs", "WheelchairBoarding_NotSpecified")}, "no wheelchair information"},
		{"wheelchair_accessible", []string{k("gtfs", "WheelchairBoarding_NotSpecified")}, "no wheelchair information"},
		{"bikes_allowed", []string{k("gtfs", "BikesAllowed_NotSpecified")}, "no bike information"},
		{"location_type", []string{k("gtfs", "StopType_Stop"), k("gtfs", "StopType_Platform")}, "stop (platform when it has a parent station)"},
	}
	byCol := map[string][]readSite{}
	for _, rs := range columnReadSites(c, fns) {
		byCol[rs.col.name] = append(byCol[rs.col.name], rs)
	}
	c.Stats["DEF column read sites"] = 0
	for _, v := range byCol {
		c.Stats["DEF column read sites"] += len(v)
	}
	// a field that takes a default-bearing column is written from that column only: a later store that overrides
	// what was decoded ("the text colour equals the route colour, use a contrasting one") also overrides the default
	{
		wanted := map[string]bool{}
		for _, o := range oracle {
			wanted[o.column] = true
		}
		dest := map[string]map[ssa.Value]bool{} // "Type.field" -> values that are what the column decodes to
		destCol := map[string]string{}
		note := func(st *ssa.Store, src ssa.Value, col string) {
			fa, ok := st.Addr.(*ssa.FieldAddr)
			if !ok {
				return
			}
			k := typeName(fa.X.Type()) + "." + fieldName(fa.X.Type(), fa.Field)
			if dest[k] == nil {
				dest[k] = map[ssa.Value]bool{}
			}
			dest[k][src] = true
			destCol[k] = col
		}
		for col, sites := range byCol {
			if !wanted[col] {
				continue
			}
			for _, rs := range sites {
				if rs.call.Referrers() == nil {
					continue
				}
				for _, r := range *rs.call.Referrers() {
					switch x := r.(type) {
					case *ssa.Store:
						note(x, rs.call, col)
					case *ssa.BinOp, *ssa.Call:
						xv := x.(ssa.Value)
						if xv.Referrers() != nil {
							for _, r2 := range *xv.Referrers() {
								if st, ok := r2.(*ssa.Store); ok {
									note(st, xv, col)
								}
							}
						}
					}
				}
			}
		}
		for _, fn := range fns {
			for _, blk := range fn.Blocks {
				for _, in := range blk.Instrs {
					st, ok := in.(*ssa.Store)
					if !ok {
						continue
					}
					fa, ok := st.Addr.(*ssa.FieldAddr)
					if !ok {
						continue
					}
					k := typeName(fa.X.Type()) + "." + fieldName(fa.X.Type(), fa.Field)
					srcs, tracked := dest[k]
					if !tracked || srcs[st.Val] || k == "gtfs.Stop.WheelchairBoarding" {
						continue // (the inheritance pass has its own rule)
					}
					c.Violated("DEF", shortName(fn), destCol[k]+" [overridden]", p.ipos(st), "the field that takes "+destCol[k]+" ("+k+") is assigned again from something other than the decoded cell: the value the column (or its default) stands for can be replaced")
				}
			}
		}
	}
	for _, o := range oracle {
		sites := byCol[o.column]
		if len(sites) == 0 {
			c.Undecided("DEF", "gtfs", o.column, "-", "no read of default-bearing column "+o.column+" found: the column is no longer parsed or is read in an unrecognised way")
			continue
		}
		for _, rs := range sites {
			fname := shortName(rs.fn)
			pos := p.ipos(rs.call)
			sum := sumRead
			if rs.method == "ReadOr" {
				sum = sumReadOr
			}
			if rs.col.required {
				c.Violated("DEF", fname, o.column, pos, "default-bearing optional column is read as a required column: rows without it are rejected")
				continue
			}
			if !rs.defOK {
				c.Undecided("DEF", fname, o.column, pos, "default passed to ReadOr is not a constant")
				continue
			}
			cellFor := func(kind string) string {
				switch kind {
				case "default":
					return rs.def
				default:
					return ""
				}
			}
			absentCell, blankCell := cellFor(sum.absent), cellFor(sum.blank)
			// a decode that runs only when the file has the column: without the column the field keeps its zero value
			skipped, zero, pwhy := skippedWhenAbsent(c, rs)
			if pwhy != "" {
				c.Undecided("DEF", fname, o.column+" [column absent]", pos, "the decode of "+o.column+" is guarded by a test of the column object that cannot be summarised: "+pwhy)
				continue
			}
			// consumer of the read
			for _, variant := range []struct{ what, cell string }{{"column absent", absentCell}, {"cell blank", blankCell}} {
				got, why := evalConsumer(c, rs.call, variant.cell)
				key := o.column + " [" + variant.what + "]"
				if skipped && variant.what == "column absent" && got != nil {
					okZ := len(o.expect) == 1 && o.expect[0] == zero
					c.Check(okZ, "DEF", fname, key, pos,
						fmt.Sprintf("the decode is skipped when the file has no %s column; the field keeps its zero value %s = GTFS default (%s)", o.column, zero, o.doc),
						fmt.Sprintf("the decode of %s runs only when the file has the column: without it the field keeps its zero value %s, but the GTFS default is %s (%s); a blank cell in a present column yields the default, so absent and blank differ", o.column, zero, strings.Join(o.expect, "/"), o.doc))
					continue
				}
				if got == nil {
					c.Undecided("DEF", fname, key, pos, "cannot follow the value read from "+o.column+" to a field: "+why)
					continue
				}
				okAll := len(got) == len(o.expect)
				if okAll {
					sort.Strings(got)
					exp := append([]string{}, o.expect...)
					sort.Strings(exp)
					for i := range got {
						if got[i] != exp[i] {
							okAll = false
						}
					}
				}
				c.Check(okAll, "DEF", fname, key, pos,
					fmt.Sprintf("%s.%s yields %q for the cell, field becomes %s = GTFS default (%s)", rs.method, o.column, variant.cell, strings.Join(got, "/"), o.doc),
					fmt.Sprintf("with %s, %s(%q) hands %q to the field computation, which yields %s; the GTFS default is %s (%s)", variant.what, rs.method, rs.def, variant.cell, strings.Join(got, "/"), strings.Join(o.expect, "/"), o.doc))
			}
		}
	}
}

// skippedWhenAbsent: the read of a column (or the use of what it returns) is controlled by a condition computed from
// the same column object by something other than a cell read (`if col.Present() { x.F = decode(col.ReadOr("")) }`),
// and that condition excludes the read when the file does not have the column. Returns the zero constant of the
// value the field would have received. why != "" when such a guard exists but cannot be summarised.
func skippedWhenAbsent(c *Ctx, rs readSite) (skipped bool, zero string, why string) {
	blocks := map[*ssa.BasicBlock]bool{rs.call.Block(): true}
	var resT types.Type = rs.call.Type()
	if refs := rs.call.Referrers(); refs != nil {
		for _, r := range *refs {
			switch x := r.(type) {
			case *ssa.Store:
				blocks[x.Block()] = true
			case *ssa.BinOp:
				resT = x.Type()
				blocks[x.Block()] = true
			case *ssa.Call:
				blocks[x.Block()] = true
				resT = x.Type()
				if rr := x.Referrers(); rr != nil {
					for _, r2 := range *rr {
						if st, ok := r2.(*ssa.Store); ok {
							blocks[st.Block()] = true
						}
					}
				}
			}
		}
	}
	recvCol := rs.col
	for blk := range blocks {
		for d := blk.Idom(); d != nil; d = d.Idom() {
			iff, ok := d.Instrs[len(d.Instrs)-1].(*ssa.If)
			if !ok || len(d.Succs) != 2 {
				continue
			}
			want := true
			switch {
			case d.Succs[0] != d.Succs[1] && len(d.Succs[0].Preds) == 1 && d.Succs[0].Dominates(blk):
				want = true
			case d.Succs[0] != d.Succs[1] && len(d.Succs[1].Preds) == 1 && d.Succs[1].Dominates(blk):
				want = false
			default:
				continue
			}
			cv := iff.Cond
			for {
				u, ok := cv.(*ssa.UnOp)
				if !ok || u.Op != token.NOT {
					break
				}
				cv, want = u.X, !want
			}
			call, ok := cv.(*ssa.Call)
			if !ok {
				continue
			}
			callee := staticCallee(call)
			if callee == nil || len(call.Call.Args) == 0 {
				continue
			}
			// a test of a column object
			colArg := -1
			for i, a := range call.Call.Args {
				if strings.HasSuffix(typeName(a.Type()), "csv.OptionalColumn") {
					colArg = i
				}
			}
			if colArg < 0 {
				continue
			}
			ci, _ := resolveColumn(call.Call.Args[colArg], 0)
			if ci == nil || ci.name != recvCol.name {
				continue // a test of another column does not depend on this one's presence
			}
			res, ok := predicateWhenAbsent(callee, colArg)
			if !ok {
				return false, "", "the result of " + shortName(callee) + " for an absent column is not apparent (expected a comparison of the column index with a constant)"
			}
			if res != want {
				skipped = true
			}
		}
	}
	if !skipped {
		return false, "", ""
	}
	switch b := resT.Underlying().(type) {
	case *types.Basic:
		switch {
		case b.Info()&types.IsString != 0:
			zero = "const:\"\""
		case b.Info()&types.IsBoolean != 0:
			zero = "const:false"
		case b.Info()&types.IsNumeric != 0:
			zero = "const:0"
		}
	}
	if zero == "" {
		return false, "", "the zero value of " + resT.String() + " is not a constant"
	}
	return true, zero, ""
}

// predicateWhenAbsent: what a boolean function of a column object returns when the column is absent.
func predicateWhenAbsent(f *ssa.Function, colArg int) (bool, bool) {
	if len(f.Blocks) == 0 || f.Signature.Results().Len() != 1 {
		return false, false
	}
	if len(f.Blocks) == 1 {
		ret, ok := f.Blocks[0].Instrs[len(f.Blocks[0].Instrs)-1].(*ssa.Return)
		if !ok || len(ret.Results) != 1 {
			return false, false
		}
		v, neg := ret.Results[0], false
		for {
			u, ok := v.(*ssa.UnOp)
			if !ok || u.Op != token.NOT {
				break
			}
			v, neg = u.X, !neg
		}
		switch classifyColumnAtom(atom{v: v}) {
		case "absent":
			if bo := v.(*ssa.BinOp); bo.Op == token.NEQ {
				neg = !neg
			}
			return !neg, true
		case "present":
			return neg, true
		}
		return false, false
	}
	tb, err := extractTable(f)
	if err != nil {
		return false, false
	}
	res, seen := false, false
	for _, r := range tb.rows {
		absent := "unknown"
		for _, a := range r.conds {
			switch classifyColumnAtom(a) {
			case "absent":
				absent = fmt.Sprint(!a.neg)
			case "present":
				absent = fmt.Sprint(a.neg)
			default:
				return false, false
			}
		}
		if absent == "false" {
			continue
		}
		k, ok := r.vals[0].(*ssa.Const)
		if !ok || k.Value == nil || k.Value.Kind() != constant.Bool {
			return false, false
		}
		bv := constant.BoolVal(k.Value)
		if seen && bv != res {
			return false, false
		}
		res, seen = bv, true
	}
	return res, seen
}

// evalConsumer determines the constant(s) the field takes when the read call returns
// the given cell string: the value flows either directly into a field, into `== const`,
// or into a decoder function whose decision table is extracted.
func evalConsumer(c *Ctx, call *ssa.Call, cell string) ([]string, string) {
	refs := call.Referrers()
	if refs == nil {
		return nil, "result unused"
	}
	var out []string
	for _, r := range *refs {
		switch x := r.(type) {
		case *ssa.DebugRef:
			continue
		case *ssa.Store:
			out = append(out, "const:\""+cell+"\"")
		case *ssa.BinOp:
			if x.Op == token.EQL || x.Op == token.NEQ {
				other := x.Y
				if other == ssa.Value(call) {
					other = x.X
				}
				if s, ok := constString(other); ok {
					res := (cell == s) == (x.Op == token.EQL)
					out = append(out, fmt.Sprintf("const:%v", res))
					continue
				}
			}
			return nil, "compared with a non-constant"
		case *ssa.Call:
			callee := staticCallee(x)
			if callee == nil || !c.P.fnIndex[callee] {
				return nil, "passed to " + trimMod(calleeName(x))
			}
			tb, err := c.extractTableComposed(callee, 0)
			if err != nil {
				return nil, "decoder " + shortName(callee) + " is not a decision table: " + err.Error()
			}
			// which parameter receives the cell?
			idx := -1
			for i, a := range x.Call.Args {
				if a == ssa.Value(call) {
					idx = i
				}
			}
			if idx < 0 {
				return nil, "argument position not found"
			}
			assign := map[string]string{callee.Params[idx].Name(): "\"" + cell + "\""}
			// other boolean parameters: enumerate both values
			var bools []string
			for i, prm := range callee.Params {
				if i == idx {
					continue
				}
				if b, ok := prm.Type().Underlying().(*types.Basic); ok && b.Kind() == types.Bool {
					bools = append(bools, prm.Name())
				} else {
					return nil, "decoder " + shortName(callee) + " has a non-boolean extra parameter"
				}
			}
			n := 1 << len(bools)
			seen := map[string]bool{}
			for m := 0; m < n; m++ {
				for bi, bn := range bools {
					assign[bn] = fmt.Sprint(m&(1<<bi) != 0)
				}
				res, why := tb.lookup(assign, 0)
				if res == "" {
					return nil, "decoder " + shortName(callee) + ": " + why
				}
				if !seen[res] {
					seen[res] = true
					out = append(out, res)
				}
			}
		default:
			return nil, fmt.Sprintf("used by %T", r)
		}
	}
	if len(out) == 0 {
		return nil, "no consumer"
	}
	return out, ""
}
