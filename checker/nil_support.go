package main

// Support analyses for the E1 guard-fact engine: mod-sets, map/slice origins,
// getter recognition, proto lemmas.

import (
	"go/ast"
	"go/token"
	"go/types"
	"reflect"
	"strings"

	"golang.org/x/tools/go/ssa"
)

// ------------------------------------------------------------ mod-sets

// modSets computes for every module function the set of memory-cell classes
// (storeCell vocabulary) it may write, transitively through module callees.
// "*" means anything (unknown external callee receiving pointers).
func (p *Program) modSets() map[*ssa.Function]map[string]bool {
	direct := map[*ssa.Function]map[string]bool{}
	callees := map[*ssa.Function][]*ssa.Function{}
	for _, fn := range p.ModFns {
		ms := map[string]bool{}
		for _, b := range fn.Blocks {
			for _, in := range b.Instrs {
				switch x := in.(type) {
				case *ssa.Store:
					if _, isAlloc := addrRoot(x.Addr).(*ssa.Alloc); isAlloc {
						// a store into an object allocated by this very call: invisible to the caller's facts
						ms["local"] = true
						continue
					}
					ms[storeCell(x.Addr)] = true
					// whole-struct store also writes every field of the struct
					if st, isStruct := x.Val.Type().Underlying().(*types.Struct); isStruct {
						tn := typeName(x.Val.Type())
						for i := 0; i < st.NumFields(); i++ {
							ms[tn+"."+st.Field(i).Name()] = true
						}
					}
				case *ssa.MapUpdate:
					ms["map:"+x.Map.Type().Underlying().String()] = true
				case ssa.CallInstruction:
					cc := x.Common()
					if _, isB := cc.Value.(*ssa.Builtin); isB {
						if b := cc.Value.(*ssa.Builtin); b.Name() == "delete" {
							ms["map:"+cc.Args[0].Type().Underlying().String()] = true
						}
						if b := cc.Value.(*ssa.Builtin); b.Name() == "copy" {
							ms["elem:"+cc.Args[0].Type().Underlying().(*types.Slice).Elem().String()] = true
						}
						continue
					}
					cs := p.Callees(x)
					if len(cs) == 0 {
						name := calleeName(x)
						for _, w := range externalWrites(name, x) {
							ms[w] = true
						}
						continue
					}
					for _, cal := range cs {
						if p.fnIndex[cal] {
							callees[fn] = append(callees[fn], cal)
						} else {
							name := cal.String()
							if cc.IsInvoke() {
								name = calleeName(x)
							}
							for _, w := range externalWrites(name, x) {
								ms[w] = true
							}
						}
					}
				}
			}
		}
		direct[fn] = ms
	}
	// transitive closure
	for changed := true; changed; {
		changed = false
		for fn, cs := range callees {
			for _, cal := range cs {
				for k := range direct[cal] {
					if !direct[fn][k] {
						direct[fn][k] = true
						changed = true
					}
				}
			}
		}
	}
	return direct
}

// externalWrites names the cell classes an external call may write: for callees in
// the externals table, the pointee types of the written arguments; for unknown
// callees receiving pointer-like arguments, "*".
func externalWrites(name string, call ssa.CallInstruction) []string {
	info, ok := externals[extName(name)]
	args := allArgs(call)
	if !ok {
		for _, a := range args {
			if refLike(a.Type()) {
				return []string{"*"}
			}
		}
		return nil
	}
	var out []string
	for _, w := range info.Writes {
		if w < len(args) {
			out = append(out, writtenClasses(args[w])...)
		}
	}
	return out
}

func writtenClasses(a ssa.Value) []string {
	if mi, ok := a.(*ssa.MakeInterface); ok {
		a = mi.X
	}
	t := a.Type()
	switch u := t.Underlying().(type) {
	case *types.Pointer:
		return []string{"type:" + typeName(u.Elem())}
	case *types.Slice:
		return []string{"elem:" + u.Elem().String(), "type:" + typeName(u.Elem())}
	case *types.Interface:
		return []string{"type:" + typeName(t)}
	}
	return []string{"type:" + typeName(t)}
}

// killsClass: does a mod-set write the given cell class?
func modKills(ms map[string]bool, class string) bool {
	if ms["*"] || ms[class] {
		return true
	}
	// "type:T" kills every field of T and ptr:T
	for k := range ms {
		if strings.HasPrefix(k, "type:") {
			tn := strings.TrimPrefix(k, "type:")
			if strings.HasPrefix(class, tn+".") || class == "ptr:"+tn || strings.HasSuffix(class, "."+tn) {
				return true
			}
		}
	}
	return false
}

// ------------------------------------------------------------ getters

// getterField recognises `func (x *T) GetF() U { if x != nil { return x.F }; return <zero> }`
// and returns the field index.
func getterField(fn *ssa.Function) (int, bool) {
	if fn == nil || len(fn.Params) != 1 || len(fn.Blocks) < 2 || len(fn.Blocks) > 3 {
		return 0, false
	}
	recv := fn.Params[0]
	if _, ok := recv.Type().Underlying().(*types.Pointer); !ok {
		return 0, false
	}
	b0 := fn.Blocks[0]
	iff, ok := b0.Instrs[len(b0.Instrs)-1].(*ssa.If)
	if !ok {
		return 0, false
	}
	bo, ok := iff.Cond.(*ssa.BinOp)
	if !ok || bo.X != ssa.Value(recv) || !isNilConst(bo.Y) {
		return 0, false
	}
	nonNilBlock := b0.Succs[0]
	if bo.Op == token.EQL {
		nonNilBlock = b0.Succs[1]
	} else if bo.Op != token.NEQ {
		return 0, false
	}
	ret, ok := nonNilBlock.Instrs[len(nonNilBlock.Instrs)-1].(*ssa.Return)
	if !ok || len(ret.Results) != 1 {
		return 0, false
	}
	ld, ok := ret.Results[0].(*ssa.UnOp)
	if !ok || ld.Op != token.MUL {
		return 0, false
	}
	fa, ok := ld.X.(*ssa.FieldAddr)
	if !ok || fa.X != ssa.Value(recv) {
		return 0, false
	}
	return fa.Field, true
}

// ------------------------------------------------------------ proto lemmas

// protoRequired reports whether field idx of a generated proto struct is proto2 `required`
// (struct tag `protobuf:"...,req,..."`).
func protoRequired(t types.Type, idx int) bool {
	st := structOf(t)
	n := namedOf(t)
	if st == nil || n == nil || n.Obj().Pkg() == nil || !isProtoPkg(n.Obj().Pkg().Path()) {
		return false
	}
	tag := reflect.StructTag(st.Tag(idx)).Get("protobuf")
	for _, part := range strings.Split(tag, ",") {
		if part == "req" {
			return true
		}
	}
	return false
}

// protoRepeatedMsgField: field idx is a repeated message field ([]*Msg).
func protoRepeatedMsgField(t types.Type, idx int) bool {
	st := structOf(t)
	n := namedOf(t)
	if st == nil || n == nil || n.Obj().Pkg() == nil || !isProtoPkg(n.Obj().Pkg().Path()) {
		return false
	}
	sl, ok := st.Field(idx).Type().Underlying().(*types.Slice)
	if !ok {
		return false
	}
	_, ok = sl.Elem().Underlying().(*types.Pointer)
	return ok
}

// extensionTypes reads the generated extTypes literals of the proto package:
// E_<Name> variable -> asserted Go type (e.g. E_MercuryAlert -> *MercuryAlert).
func (p *Program) extensionTypes() map[string]string {
	out := map[string]string{}
	pk := p.ByPath[modPath+"/proto"]
	if pk == nil {
		return out
	}
	// 1. literal arrays: file_xxx_extTypes = []protoimpl.ExtensionInfo{ {ExtensionType: (*T)(nil), ...}, ...}
	lits := map[string][]string{}
	for _, f := range pk.Syntax {
		ast.Inspect(f, func(n ast.Node) bool {
			vs, ok := n.(*ast.ValueSpec)
			if !ok || len(vs.Names) != 1 || len(vs.Values) != 1 {
				return true
			}
			cl, ok := vs.Values[0].(*ast.CompositeLit)
			if !ok || !strings.HasSuffix(vs.Names[0].Name, "_extTypes") {
				return true
			}
			var ts []string
			for _, el := range cl.Elts {
				ecl, ok := el.(*ast.CompositeLit)
				if !ok {
					continue
				}
				t := "?"
				for _, kv := range ecl.Elts {
					k, ok := kv.(*ast.KeyValueExpr)
					if !ok {
						continue
					}
					if id, ok := k.Key.(*ast.Ident); ok && id.Name == "ExtensionType" {
						t = types.ExprString(k.Value)
					}
				}
				ts = append(ts, t)
			}
			lits[vs.Names[0].Name] = ts
			return true
		})
	}
	// 2. E_X = &file_xxx_extTypes[k]
	for _, f := range pk.Syntax {
		ast.Inspect(f, func(n ast.Node) bool {
			vs, ok := n.(*ast.ValueSpec)
			if !ok {
				return true
			}
			for i, nm := range vs.Names {
				if !strings.HasPrefix(nm.Name, "E_") || i >= len(vs.Values) {
					continue
				}
				ue, ok := vs.Values[i].(*ast.UnaryExpr)
				if !ok {
					continue
				}
				ie, ok := ue.X.(*ast.IndexExpr)
				if !ok {
					continue
				}
				arr, ok := ie.X.(*ast.Ident)
				if !ok {
					continue
				}
				bl, ok := ie.Index.(*ast.BasicLit)
				if !ok {
					continue
				}
				k := 0
				for _, ch := range bl.Value {
					k = k*10 + int(ch-'0')
				}
				if ts := lits[arr.Name]; k < len(ts) {
					// "(*MercuryAlert)(nil)" -> "*MercuryAlert"
					t := ts[k]
					t = strings.TrimSuffix(t, "(nil)")
					t = strings.TrimPrefix(t, "(")
					t = strings.TrimSuffix(t, ")")
					out[nm.Name] = t
				}
			}
			return true
		})
	}
	return out
}

// ------------------------------------------------------------ origins of maps / slices

// valueOrigins resolves a map- or slice-typed value back to the instructions that create
// it (MakeMap, MakeSlice, literal allocs, nil constants), following phis, parameters (to all
// call sites), captured variables and local cells.  Unknown sources are reported as "?" origins.
type originSet map[ssa.Value]bool

func (p *Program) valueOrigins(v ssa.Value) originSet {
	out := originSet{}
	seen := map[ssa.Value]bool{}
	var rec func(v ssa.Value, d int)
	rec = func(v ssa.Value, d int) {
		if v == nil || seen[v] {
			return
		}
		seen[v] = true
		if d > 40 {
			out[unknownOrigin] = true
			return
		}
		switch x := v.(type) {
		case *ssa.MakeMap, *ssa.MakeSlice:
			out[v] = true
		case *ssa.Const:
			out[v] = true // nil map/slice
		case *ssa.Phi:
			for _, e := range x.Edges {
				rec(e, d+1)
			}
		case *ssa.Parameter:
			fn := x.Parent()
			idx := -1
			for i, prm := range fn.Params {
				if prm == x {
					idx = i
				}
			}
			edges := p.Callers(fn)
			if len(edges) == 0 {
				out[unknownOrigin] = true
			}
			for _, e := range edges {
				if false {
					out[unknownOrigin] = true
					continue
				}
				args := allArgs(e.Site)
				off := len(fn.Params) - len(args)
				if idx-off >= 0 && idx-off < len(args) {
					rec(args[idx-off], d+1)
				} else {
					out[unknownOrigin] = true
				}
			}
		case *ssa.FreeVar:
			// address of a captured cell: origins are what is stored in the cell
			fn := x.Parent()
			idx := freeVarIndex(fn, x)
			found := false
			if par := fn.Parent(); par != nil {
				for _, b := range par.Blocks {
					for _, in := range b.Instrs {
						if mc, ok := in.(*ssa.MakeClosure); ok && mc.Fn == ssa.Value(fn) && idx < len(mc.Bindings) {
							rec(mc.Bindings[idx], d+1)
							found = true
						}
					}
				}
			}
			if !found {
				out[unknownOrigin] = true
			}
		case *ssa.Alloc:
			// a cell holding the map/slice: everything stored into it
			n := 0
			for _, r := range *x.Referrers() {
				if st, ok := r.(*ssa.Store); ok && st.Addr == ssa.Value(x) {
					rec(st.Val, d+1)
					n++
				}
			}
			if n == 0 {
				out[x] = true
			}
			// the cell may also be written inside closures that capture it
			for _, r := range *x.Referrers() {
				if mc, ok := r.(*ssa.MakeClosure); ok {
					cl := mc.Fn.(*ssa.Function)
					for i, bnd := range mc.Bindings {
						if bnd != ssa.Value(x) {
							continue
						}
						fv := cl.FreeVars[i]
						for _, r2 := range *fv.Referrers() {
							if st, ok := r2.(*ssa.Store); ok && st.Addr == ssa.Value(fv) {
								rec(st.Val, d+1)
							}
						}
					}
				}
			}
		case *ssa.UnOp:
			if x.Op == token.MUL {
				switch a := x.X.(type) {
				case *ssa.Alloc, *ssa.FreeVar:
					rec(a, d+1)
				case *ssa.FieldAddr:
					// an unexported field of a struct type of the module: only the module's own field stores (and
					// copies of whole structs, which carry what such a store put there) can have put a value in it
					if vals, ok := p.unexportedFieldStores(a); ok {
						for _, sv := range vals {
							rec(sv, d+1)
						}
					} else {
						out[unknownOrigin] = true
					}
				default:
					out[unknownOrigin] = true
				}
			} else {
				out[unknownOrigin] = true
			}
		case *ssa.Call:
			if isBuiltin(x, "append") {
				rec(x.Call.Args[0], d+1)
				return
			}
			// result of a module function: origins of its returned values
			cs := p.Callees(x)
			if len(cs) == 0 {
				out[unknownOrigin] = true
			}
			for _, cal := range cs {
				if !p.fnIndex[cal] {
					out[unknownOrigin] = true
					continue
				}
				for _, b := range cal.Blocks {
					if ret, ok := b.Instrs[len(b.Instrs)-1].(*ssa.Return); ok && len(ret.Results) > 0 {
						rec(ret.Results[0], d+1)
					}
				}
			}
		case *ssa.Extract:
			if call, ok := x.Tuple.(*ssa.Call); ok {
				for _, cal := range p.Callees(call) {
					if !p.fnIndex[cal] {
						out[unknownOrigin] = true
						continue
					}
					for _, b := range cal.Blocks {
						if ret, ok := b.Instrs[len(b.Instrs)-1].(*ssa.Return); ok && x.Index < len(ret.Results) {
							rec(ret.Results[x.Index], d+1)
						}
					}
				}
				if len(p.Callees(call)) == 0 {
					out[unknownOrigin] = true
				}
			} else {
				out[unknownOrigin] = true
			}
		case *ssa.Slice:
			rec(x.X, d+1)
		case *ssa.ChangeType:
			rec(x.X, d+1)
		default:
			out[unknownOrigin] = true
		}
	}
	rec(v, 0)
	return out
}

var unknownOrigin ssa.Value = &ssa.Const{}

func (o originSet) intersects(b originSet) bool {
	for k := range o {
		if k == unknownOrigin {
			continue
		}
		if _, isConst := k.(*ssa.Const); isConst {
			continue
		}
		if b[k] {
			return true
		}
	}
	return false
}

func (o originSet) unknown() bool { return o[unknownOrigin] }

// loadSets: for every module function the classes of memory cells it (or a module function it calls) may read.
func (p *Program) loadSets() map[*ssa.Function]map[string]bool {
	if p.loadMemo != nil {
		return p.loadMemo
	}
	direct := map[*ssa.Function]map[string]bool{}
	callees := map[*ssa.Function][]*ssa.Function{}
	for _, fn := range p.ModFns {
		ms := map[string]bool{}
		for _, b := range fn.Blocks {
			for _, in := range b.Instrs {
				switch x := in.(type) {
				case *ssa.UnOp:
					if x.Op == token.MUL {
						if _, isAlloc := addrRoot(x.X).(*ssa.Alloc); isAlloc {
							continue
						}
						ms[storeCell(x.X)] = true
					}
				case ssa.CallInstruction:
					if _, isB := x.Common().Value.(*ssa.Builtin); isB {
						continue
					}
					for _, cal := range p.Callees(x) {
						if p.fnIndex[cal] {
							callees[fn] = append(callees[fn], cal)
						}
					}
				}
			}
		}
		direct[fn] = ms
	}
	for changed := true; changed; {
		changed = false
		for fn, cs := range callees {
			for _, cal := range cs {
				for k := range direct[cal] {
					if !direct[fn][k] {
						direct[fn][k] = true
						changed = true
					}
				}
			}
		}
	}
	p.loadMemo = direct
	return direct
}

// unexportedFieldStores: every value the module stores into the (unexported) field that fa addresses, over all
// instances of the struct type (field-based). ok=false for exported fields, fields of types declared outside the
// module, and unnamed struct types: code that is not analysed may write those.
func (p *Program) unexportedFieldStores(fa *ssa.FieldAddr) ([]ssa.Value, bool) {
	return p.fieldStoresOf(fa.X.Type(), fa.Field)
}

// fieldStoresOf: as unexportedFieldStores, for field number idx of the (pointer to a) named struct type t.
func (p *Program) fieldStoresOf(t types.Type, idx int) ([]ssa.Value, bool) {
	n := namedOf(t)
	st := structOf(t)
	if n == nil || st == nil || n.Obj().Pkg() == nil || !strings.HasPrefix(n.Obj().Pkg().Path(), modPath) || idx >= st.NumFields() {
		return nil, false
	}
	f := st.Field(idx)
	if f.Exported() && n.Obj().Exported() {
		return nil, false
	}
	key := n.Obj().Pkg().Path() + "." + n.Obj().Name() + "." + f.Name()
	if p.fieldStoreIdx == nil {
		p.fieldStoreIdx = map[string][]ssa.Value{}
		for _, fn := range p.ModFns {
			for _, b := range fn.Blocks {
				for _, in := range b.Instrs {
					s, ok := in.(*ssa.Store)
					if !ok {
						continue
					}
					a, ok := s.Addr.(*ssa.FieldAddr)
					if !ok {
						continue
					}
					n2 := namedOf(a.X.Type())
					st2 := structOf(a.X.Type())
					if n2 == nil || st2 == nil || n2.Obj().Pkg() == nil || a.Field >= st2.NumFields() {
						continue
					}
					k := n2.Obj().Pkg().Path() + "." + n2.Obj().Name() + "." + st2.Field(a.Field).Name()
					p.fieldStoreIdx[k] = append(p.fieldStoreIdx[k], s.Val)
				}
			}
		}
	}
	return p.fieldStoreIdx[key], true
}
