package main

// E2 / G2: goal-directed bounds prover. Every index, slice and string-index expression is in
// bounds; every integer division has a non-zero constant divisor.

import (
	"fmt"
	"go/constant"
	"go/token"
	"go/types"
	"regexp/syntax"
	"strings"

	"golang.org/x/tools/go/ssa"
)

type boundsProver struct {
	c     *Ctx
	e     *nilEngine
	depth int
	// induction hypotheses of the upper-bound proofs in progress: loop-header phi -> the bound being proved for it
	ubAssume    map[*ssa.Phi]int64
	minLenDepth int
	reDepth     int
}

// sameSeq: a and b denote the same sequence value (same SSA value, or loads of the same cell with no
// intervening write; a getter call on the same receiver as the field load).
func (bp *boundsProver) sameSeq(a, b ssa.Value) bool {
	if a == b {
		return true
	}
	na, nb := normSeq(a), normSeq(b)
	return na != "" && na == nb
}

// normSeq: canonical form of a sequence expression; getters are normalised to the field they return.
func normSeq(v ssa.Value) string {
	switch x := v.(type) {
	case *ssa.Call:
		if cal := x.Call.StaticCallee(); cal != nil && len(x.Call.Args) == 1 {
			if fi, ok := getterField(cal); ok {
				return "*(" + canon(x.Call.Args[0]) + "." + fieldName(cal.Params[0].Type(), fi) + ")"
			}
		}
		return ""
	case *ssa.UnOp:
		if x.Op == token.MUL {
			return canon(x)
		}
	case *ssa.Parameter, *ssa.Phi, *ssa.Extract, *ssa.Slice, *ssa.MakeSlice:
		return v.Name() + "@" + fmt.Sprint(v.Parent())
	case *ssa.Field:
		return canon(x)
	}
	return ""
}

// seqWritten: between the definition of one sequence expression and the use of an equal one the underlying cell
// may have been rewritten.  Strings and SSA values are immutable; for loads we require that no store to
// the same cell class can execute between `from` and `to`.
func (bp *boundsProver) loadStable(a, b ssa.Value, use ssa.Instruction) bool {
	la, okA := a.(*ssa.UnOp)
	lb, okB := b.(*ssa.UnOp)
	if a == b {
		return true
	}
	var cls string
	switch {
	case okA && la.Op == token.MUL:
		cls = storeCell(la.X)
	case okB && lb.Op == token.MUL:
		cls = storeCell(lb.X)
	default:
		// getter vs field load etc.: derive the class from whichever is a load / getter
		if call, ok := a.(*ssa.Call); ok {
			if cal := call.Call.StaticCallee(); cal != nil {
				if fi, ok := getterField(cal); ok {
					cls = typeName(cal.Params[0].Type()) + "." + fieldName(cal.Params[0].Type(), fi)
				}
			}
		}
	}
	if cls == "" {
		return true
	}
	// the earlier of the two values
	var first ssa.Instruction
	if ia, ok := a.(ssa.Instruction); ok {
		first = ia
	}
	if ib, ok := b.(ssa.Instruction); ok {
		if first == nil || dominatesInstr(ib, first) {
			first = ib
		}
	}
	if first == nil {
		return true
	}
	return !bp.mayWriteBetween(first, use, cls)
}

// mayWriteBetween: some instruction that may write cell class cls can execute after `from` and before `to`
// without `from` being executed again in between.
func (bp *boundsProver) mayWriteBetween(from, to ssa.Instruction, cls string) bool {
	writes := func(in ssa.Instruction) bool {
		switch x := in.(type) {
		case *ssa.Store:
			if storeCell(x.Addr) == cls {
				return true
			}
			if st, ok := x.Val.Type().Underlying().(*types.Struct); ok {
				tn := typeName(x.Val.Type())
				for i := 0; i < st.NumFields(); i++ {
					if tn+"."+st.Field(i).Name() == cls {
						return true
					}
				}
			}
		case ssa.CallInstruction:
			cc := x.Common()
			if _, isB := cc.Value.(*ssa.Builtin); isB {
				return false
			}
			cs := bp.c.P.Callees(x)
			if len(cs) == 0 {
				ms := map[string]bool{}
				for _, w := range externalWrites(calleeName(x), x) {
					ms[w] = true
				}
				return modKills(ms, cls)
			}
			for _, cal := range cs {
				if bp.c.P.fnIndex[cal] {
					if modKills(bp.e.mods[cal], cls) {
						return true
					}
				} else {
					name := cal.String()
					if cc.IsInvoke() {
						name = calleeName(x)
					}
					ms := map[string]bool{}
					for _, w := range externalWrites(name, x) {
						ms[w] = true
					}
					if modKills(ms, cls) {
						return true
					}
				}
			}
		}
		return false
	}
	fb, tb := from.Block(), to.Block()
	// instructions after `from` in its block
	scan := func(b *ssa.BasicBlock, after, before ssa.Instruction) bool {
		started := after == nil
		for _, in := range b.Instrs {
			if in == before {
				return false
			}
			if started && writes(in) {
				return true
			}
			if in == after {
				started = true
			}
		}
		return false
	}
	if fb == tb && dominatesInstr(from, to) {
		return scan(fb, from, to)
	}
	if scan(fb, from, nil) {
		return true
	}
	// blocks strictly between: reachable from fb's successors without re-entering fb, and reaching tb
	stop := map[*ssa.BasicBlock]bool{fb: true}
	reach := blockReach(fb, stop, false)
	for b := range reach {
		if b == tb {
			continue
		}
		if b != tb && !canReachAvoiding(b, tb, fb) {
			continue
		}
		for _, in := range b.Instrs {
			if writes(in) {
				return true
			}
		}
	}
	if reach[tb] {
		// tb entered from elsewhere: instructions before `to`
		if scan(tb, nil, to) {
			return true
		}
		// tb on a cycle that avoids fb: instructions after `to` may run before `to` executes again
		if canReachAvoiding(tb, tb, fb) && blockReach(tb, stop, false)[tb] {
			for _, in := range tb.Instrs {
				if writes(in) {
					return true
				}
			}
		}
	}
	return false
}

func canReachAvoiding(from, to, avoid *ssa.BasicBlock) bool {
	if from == to {
		return true
	}
	return blockReach(from, map[*ssa.BasicBlock]bool{avoid: true}, false)[to]
}

// lenOf: v = len(x) ?
func lenOf(v ssa.Value) (ssa.Value, bool) {
	if call, ok := v.(*ssa.Call); ok && isBuiltin(call, "len") {
		return call.Call.Args[0], true
	}
	return nil, false
}

// constLen: statically known length of a sequence value.
func (bp *boundsProver) constLen(x ssa.Value) (int64, bool) {
	switch t := x.Type().Underlying().(type) {
	case *types.Array:
		return t.Len(), true
	case *types.Pointer:
		if a, ok := t.Elem().Underlying().(*types.Array); ok {
			return a.Len(), true
		}
	}
	switch v := x.(type) {
	case *ssa.Const:
		if v.Value != nil && v.Value.Kind() == constant.String {
			return int64(len(constant.StringVal(v.Value))), true
		}
	case *ssa.Slice:
		if v.Low == nil && v.High == nil {
			if n, ok := bp.constLen(v.X); ok {
				return n, true
			}
		}
	case *ssa.MakeSlice:
		if k, ok := constInt(v.Len); ok {
			return k, true
		}
	}
	return 0, false
}

// minLen: a lower bound on len(x) that holds at instruction `at`.
func (bp *boundsProver) minLen(x ssa.Value, at ssa.Instruction) int64 {
	if n, ok := bp.constLen(x); ok {
		return n
	}
	best := int64(0)
	// a helper's slice parameter (not reassigned: SSA value) is at least as long as what every call site hands it
	if prm, ok := x.(*ssa.Parameter); ok && bp.minLenDepth < 3 {
		idx := paramIndex(prm)
		callers := bp.c.P.Callers(prm.Parent())
		if idx >= 0 && len(callers) > 0 {
			least := int64(-1)
			bp.minLenDepth++
			for _, e := range callers {
				if e.Site == nil || e.Site.Common().IsInvoke() || e.Site.Common().StaticCallee() == nil || idx >= len(e.Site.Common().Args) {
					least = 0
					break
				}
				n := bp.minLen(e.Site.Common().Args[idx], e.Site)
				if least < 0 || n < least {
					least = n
				}
			}
			bp.minLenDepth--
			if least > best {
				best = least
			}
		}
	}
	// a field of a helper's pointer parameter (receiver), not written in the helper before this point: at least as
	// long as every call site knows the argument's field to be (a `len(s.list) > 0` test the call is made under)
	if ld, ok := x.(*ssa.UnOp); ok && ld.Op == token.MUL && bp.minLenDepth < 3 {
		if fa, isFA := ld.X.(*ssa.FieldAddr); isFA {
			if prm, isPrm := fa.X.(*ssa.Parameter); isPrm && len(prm.Parent().Blocks) > 0 && len(prm.Parent().Blocks[0].Instrs) > 0 {
				entry := prm.Parent().Blocks[0].Instrs[0]
				idx := paramIndex(prm)
				callers := bp.c.P.Callers(prm.Parent())
				cls := storeCell(fa)
				if idx >= 0 && len(callers) > 0 && (entry == ssa.Instruction(ld) || !bp.mayWriteBetween(entry, ld, cls)) {
					least := int64(-1)
					for _, e := range callers {
						n := int64(0)
						if e.Site != nil && !e.Site.Common().IsInvoke() && e.Site.Common().StaticCallee() != nil && idx < len(e.Site.Common().Args) {
							n = bp.fieldMinLenAt(e.Site.Common().Args[idx], fa.Field, e.Site, cls)
						}
						if least < 0 || n < least {
							least = n
						}
					}
					if least > best {
						best = least
					}
				}
			}
		}
	}
	// L-re: result of FindStringSubmatch on a constant regexp, known non-nil here
	if call, ok := x.(*ssa.Call); ok && calleeName(call) == "(*regexp.Regexp).FindStringSubmatch" {
		if n, ok := bp.regexpGroups(call.Call.Args[0]); ok {
			for _, ce := range dominatingConds(at.Block()) {
				if nonNilCond(ce, x) {
					if int64(n+1) > best {
						best = int64(n + 1)
					}
				}
			}
		}
	}
	for _, ce := range dominatingConds(at.Block()) {
		bo, ok := ce.Cond.(*ssa.BinOp)
		if !ok {
			continue
		}
		ly, okL := lenOf(bo.X)
		k, okK := constInt(bo.Y)
		if !okL || !okK {
			continue
		}
		if !bp.sameSeq(ly, x) || !bp.loadStable(ly, x, at) {
			continue
		}
		op := bo.Op
		if !ce.Val {
			op = negateOp(op)
		}
		var lb int64 = -1
		switch op {
		case token.EQL:
			lb = k
		case token.NEQ:
			if k == 0 {
				lb = 1
			}
		case token.GTR:
			lb = k + 1
		case token.GEQ:
			lb = k
		}
		if lb > best {
			best = lb
		}
	}
	return best
}

// fieldMinLenAt: a lower bound of len(obj.field) at the call site, from a dominating comparison of that length with a
// constant and no write to the field's class between the compared load and the site.
func (bp *boundsProver) fieldMinLenAt(obj ssa.Value, field int, site ssa.Instruction, cls string) int64 {
	best := int64(0)
	for _, ce := range dominatingConds(site.Block()) {
		bo, ok := ce.Cond.(*ssa.BinOp)
		if !ok {
			continue
		}
		ly, okL := lenOf(bo.X)
		k, okK := constInt(bo.Y)
		if !okL || !okK {
			continue
		}
		ld, isLd := ly.(*ssa.UnOp)
		if !isLd || ld.Op != token.MUL {
			continue
		}
		fa, isFA := ld.X.(*ssa.FieldAddr)
		if !isFA || fa.X != obj || fa.Field != field || bp.mayWriteBetween(ld, site, cls) {
			continue
		}
		op := bo.Op
		if !ce.Val {
			op = negateOp(op)
		}
		var lb int64 = -1
		switch op {
		case token.EQL:
			lb = k
		case token.NEQ:
			if k == 0 {
				lb = 1
			}
		case token.GTR:
			lb = k + 1
		case token.GEQ:
			lb = k
		}
		if lb > best {
			best = lb
		}
	}
	return best
}

func negateOp(op token.Token) token.Token {
	switch op {
	case token.EQL:
		return token.NEQ
	case token.NEQ:
		return token.EQL
	case token.LSS:
		return token.GEQ
	case token.GEQ:
		return token.LSS
	case token.GTR:
		return token.LEQ
	case token.LEQ:
		return token.GTR
	}
	return op
}

// regexpGroups: number of capture groups of a package-level regexp compiled from a constant pattern.
func (bp *boundsProver) regexpGroups(re ssa.Value) (int, bool) {
	// a regexp handed to a helper: the fewest groups any call site passes
	if prm, isPrm := re.(*ssa.Parameter); isPrm && bp.reDepth < 3 {
		fn := prm.Parent()
		idx := -1
		for i, q := range fn.Params {
			if q == prm {
				idx = i
			}
		}
		callers := bp.c.P.Callers(fn)
		if idx < 0 || len(callers) == 0 {
			return 0, false
		}
		least := -1
		bp.reDepth++
		defer func() { bp.reDepth-- }()
		for _, e := range callers {
			args := e.Site.Common().Args
			if idx >= len(args) {
				return 0, false
			}
			n, ok := bp.regexpGroups(args[idx])
			if !ok {
				return 0, false
			}
			if least < 0 || n < least {
				least = n
			}
		}
		return least, least >= 0
	}
	ld, ok := re.(*ssa.UnOp)
	if !ok || ld.Op != token.MUL {
		return 0, false
	}
	g, ok := ld.X.(*ssa.Global)
	if !ok {
		return 0, false
	}
	pat, ok := bp.c.globalRegexpPattern(g)
	if !ok {
		return 0, false
	}
	rx, err := syntax.Parse(pat, syntax.Perl)
	if err != nil {
		return 0, false
	}
	return rx.MaxCap(), true
}

// globalRegexpPattern: the constant pattern a package-level *regexp.Regexp is compiled from (assigned once, in init).
func (c *Ctx) globalRegexpPattern(g *ssa.Global) (string, bool) {
	if g.Pkg == nil {
		return "", false
	}
	initFn := g.Pkg.Func("init")
	pat, n := "", 0
	for _, fn := range c.P.ModFns {
		for _, b := range fn.Blocks {
			for _, in := range b.Instrs {
				st, ok := in.(*ssa.Store)
				if !ok || st.Addr != ssa.Value(g) {
					continue
				}
				n++
				if fn != initFn {
					return "", false
				}
				call, ok := st.Val.(*ssa.Call)
				if !ok || calleeName(call) != "regexp.MustCompile" {
					return "", false
				}
				s, ok := constString(call.Call.Args[0])
				if !ok {
					return "", false
				}
				pat = s
			}
		}
	}
	return pat, n == 1
}

type relGoal int

const (
	ltLen relGoal = iota // v < len(x)
	leLen                // v <= len(x)
)

// proveLen: v < len(x) (or <=) holds at instruction `at`.
func (bp *boundsProver) proveLen(v ssa.Value, x ssa.Value, goal relGoal, at ssa.Instruction, atBlock *ssa.BasicBlock, seen map[ssa.Value]bool, d int) bool {
	if d > bp.depth {
		return false
	}
	if atBlock == nil {
		atBlock = at.Block()
	}
	// constants against the minimum length
	if k, ok := constInt(v); ok {
		if k < 0 {
			return false
		}
		if goal == leLen && k == 0 {
			return true
		}
		ml := bp.minLenAt(x, at, atBlock)
		if goal == ltLen {
			return k < ml
		}
		return k <= ml
	}
	// len(x') itself
	if lx, ok := lenOf(v); ok && goal == leLen && bp.sameSeq(lx, x) && bp.loadStable(lx, x, at) {
		return true
	}
	// x loaded from a field of a local object that only ever holds one make([]T, n) stored before this point
	if lv := localFieldMake(x, at); lv != nil {
		x = lv
	}
	// x built by make([]T, n): compare with n
	if ms, ok := x.(*ssa.MakeSlice); ok {
		if ly, ok := lenOf(ms.Len); ok {
			if bp.proveLen(v, ly, goal, at, atBlock, seen, d+1) {
				return true
			}
		}
	}
	// x built by a helper that returns make([]T, len(<field of its parameter>)): compare with that field of the argument
	if call, ok := x.(*ssa.Call); ok {
		if norm, cls, ok := bp.helperMakeLen(call); ok {
			if rx := rangeIndexSeq(v); rx != nil && normSeq(rx) == norm && !bp.mayWriteBetween(call, at, cls) {
				return true
			}
		}
	}
	// range index over the same sequence
	if ok, _ := isRangeIndexOver(v, x); ok {
		return true
	}
	if rx := rangeIndexSeq(v); rx != nil && bp.sameSeq(rx, x) && bp.loadStable(rx, x, at) {
		return true
	}
	// range index over a literal as long as the array
	if rx := rangeIndexSeq(v); rx != nil {
		if n1, ok1 := bp.constLen(rx); ok1 {
			if n2, ok2 := bp.constLen(x); ok2 && n1 <= n2 {
				return true
			}
		}
	}
	// dominating comparisons
	for _, ce := range dominatingConds(atBlock) {
		bo, ok := ce.Cond.(*ssa.BinOp)
		if !ok {
			continue
		}
		op := bo.Op
		if !ce.Val {
			op = negateOp(op)
		}
		if bo.X == v || sameLenCall(bo.X, v) || sameArith(bo.X, v, 0) {
			if ly, ok := lenOf(bo.Y); ok && bp.sameSeq(ly, x) && bp.loadStable(ly, x, at) {
				if op == token.LSS || (op == token.LEQ && goal == leLen) {
					return true
				}
			}
			// v < n where x = make([]T, n)
			if ms, ok := x.(*ssa.MakeSlice); ok && bo.Y == ms.Len && (op == token.LSS || (op == token.LEQ && goal == leLen)) {
				return true
			}
			// v < w and w <= len(x) (w a number a helper computed from x: a count of its leading elements, an index into it)
			if _, isLen := lenOf(bo.Y); !isLen && bo.X == v && !seen[bo.Y] {
				switch bo.Y.(type) {
				case *ssa.Call, *ssa.Extract:
					if op == token.LSS && bp.proveLen(bo.Y, x, leLen, at, atBlock, seen, d+1) {
						return true
					}
					if op == token.LEQ && bp.proveLen(bo.Y, x, goal, at, atBlock, seen, d+1) {
						return true
					}
				}
			}
		}
		if bo.Y == v {
			if ly, ok := lenOf(bo.X); ok && bp.sameSeq(ly, x) && bp.loadStable(ly, x, at) {
				if op == token.GTR || (op == token.GEQ && goal == leLen) {
					return true
				}
			}
		}
	}
	// a constant upper bound of v against the minimum length of x known here
	if ml := bp.minLenAt(x, at, atBlock); ml > 0 {
		k := ml - 1
		if goal == leLen {
			k = ml
		}
		if bp.ubConst(v, k, atBlock, nil, map[ssa.Value]bool{}, d+1) {
			return true
		}
	}
	// v = len(S) for a list S that starts empty and only grows by one element under a check that there is room
	if sv, ok := lenOf(v); ok && goal == leLen {
		if bp.grownWithin(sv, x, at, map[ssa.Value]bool{}, 0) {
			return true
		}
	}
	switch w := v.(type) {
	case *ssa.Phi:
		if seen[w] {
			return false
		}
		seen[w] = true
		defer delete(seen, w)
		for i, ed := range w.Edges {
			if ed == ssa.Value(w) {
				continue
			}
			pred := w.Block().Preds[i]
			var last ssa.Instruction = pred.Instrs[len(pred.Instrs)-1]
			// the edge's own branch condition holds too: evaluate at a virtual point on the edge
			if !bp.proveLenOnEdge(ed, x, goal, last, pred, w.Block(), seen, d+1) {
				return false
			}
		}
		return true
	case *ssa.BinOp:
		if w.Op == token.ADD {
			// w = a + 1 with a < len  =>  w <= len
			if one, ok := constInt(w.Y); ok && one == 1 && goal == leLen {
				if bp.proveLen(w.X, x, ltLen, at, atBlock, seen, d+1) {
					return true
				}
			}
			// k + i with i ranging over x[k:]
			for _, pair := range [][2]ssa.Value{{w.X, w.Y}, {w.Y, w.X}} {
				base, i := pair[0], pair[1]
				if rx := rangeIndexSeq(i); rx != nil {
					if sl, ok := rx.(*ssa.Slice); ok && sl.Low == base && sl.High == nil && bp.sameSeq(sl.X, x) {
						return true
					}
				}
			}
		}
		// L-str: i = strings.LastIndex(s, sep); i+1 <= len(s)
		if w.Op == token.ADD && goal == leLen {
			if k, ok := constInt(w.Y); ok {
				if call, ok := w.X.(*ssa.Call); ok {
					switch calleeName(call) {
					case "strings.LastIndex", "strings.Index":
						if sep, ok := constString(call.Call.Args[1]); ok && int64(len(sep)) >= k && bp.sameSeq(call.Call.Args[0], x) {
							return true
						}
					case "strings.LastIndexByte", "strings.IndexByte":
						// a byte found at i: i+1 <= len(s); not found: -1+1 = 0
						if k <= 1 && bp.sameSeq(call.Call.Args[0], x) {
							return true
						}
					}
				}
			}
		}
	case *ssa.Convert:
		return bp.proveLen(w.X, x, goal, at, atBlock, seen, d+1)
	case *ssa.Call:
		return bp.proveLenOfCall(w, 0, x, goal, at, d)
	case *ssa.Extract:
		if call, ok := w.Tuple.(*ssa.Call); ok {
			return bp.proveLenOfCall(call, w.Index, x, goal, at, d)
		}
	}
	return false
}

func (bp *boundsProver) minLenAt(x ssa.Value, at ssa.Instruction, atBlock *ssa.BasicBlock) int64 {
	if atBlock == at.Block() {
		return bp.minLen(x, at)
	}
	// evaluate with the dominating conditions of another block (phi edge)
	last := atBlock.Instrs[len(atBlock.Instrs)-1]
	return bp.minLen(x, last)
}

// proveLenOnEdge proves the goal for value v on the CFG edge pred -> succ (the edge's branch outcome is known).
func (bp *boundsProver) proveLenOnEdge(v, x ssa.Value, goal relGoal, last ssa.Instruction, pred, succ *ssa.BasicBlock, seen map[ssa.Value]bool, d int) bool {
	if iff, ok := last.(*ssa.If); ok && pred.Succs[0] != pred.Succs[1] {
		val := pred.Succs[0] == succ
		if bo, ok := iff.Cond.(*ssa.BinOp); ok {
			op := bo.Op
			if !val {
				op = negateOp(op)
			}
			if bo.X == v || sameArith(bo.X, v, 0) {
				if ly, ok := lenOf(bo.Y); ok && bp.sameSeq(ly, x) {
					if op == token.LSS || (op == token.LEQ && goal == leLen) {
						return true
					}
				}
			}
		}
	}
	return bp.proveLen(v, x, goal, last, pred, seen, d)
}

// rangeIndexSeq: if idx visits 0, 1, .., len(s)-1 in order -- the index of `for i := range s` (go/ssa: phi(-1, idx) + 1
// tested against len(s)) or the counter of `for i := 0; i < len(s); i++` (phi(0, i+1) tested in the loop header) --
// return s.
func rangeIndexSeq(idx ssa.Value) ssa.Value {
	if s := rangeFormSeq(idx); s != nil {
		return s
	}
	return counterFormSeq(idx)
}

func rangeFormSeq(idx ssa.Value) ssa.Value {
	add, ok := idx.(*ssa.BinOp)
	if !ok || add.Op != token.ADD {
		return nil
	}
	phi, ok := add.X.(*ssa.Phi)
	if !ok {
		return nil
	}
	if one, ok := constInt(add.Y); !ok || one != 1 {
		return nil
	}
	start := false
	for _, ed := range phi.Edges {
		if k, ok := constInt(ed); ok && k == -1 {
			start = true
		} else if ed != idx {
			return nil
		}
	}
	if !start {
		return nil
	}
	for _, r := range *idx.Referrers() {
		if cmp, ok := r.(*ssa.BinOp); ok && cmp.Op == token.LSS && cmp.X == idx {
			if lx, ok := lenOf(cmp.Y); ok {
				return lx
			}
		}
	}
	return nil
}

func counterFormSeq(idx ssa.Value) ssa.Value {
	phi, ok := idx.(*ssa.Phi)
	if !ok || len(phi.Edges) != 2 {
		return nil
	}
	zero, step := false, false
	for _, ed := range phi.Edges {
		if k, ok := constInt(ed); ok && k == 0 {
			zero = true
		} else if add, ok := ed.(*ssa.BinOp); ok && add.Op == token.ADD && add.X == idx {
			if one, ok := constInt(add.Y); ok && one == 1 {
				step = true
			}
		}
	}
	if !zero || !step {
		return nil
	}
	blk := phi.Block()
	iff, ok := blk.Instrs[len(blk.Instrs)-1].(*ssa.If)
	if !ok {
		return nil
	}
	cmp, ok := iff.Cond.(*ssa.BinOp)
	if !ok || cmp.Op != token.LSS || cmp.X != idx {
		return nil
	}
	if lx, ok := lenOf(cmp.Y); ok {
		return lx
	}
	return nil
}

// rangeIndexConst: idx visits 0, 1, .., n-1 for a constant n: the index of `for i := range arr` over an array (or
// `for i := range n`), or the counter of `for i := 0; i < n; i++`. Inside the loop body 0 <= idx <= n-1; the range
// form's idx is only ever used inside the body (the header tests it before the body is entered).
func rangeIndexConst(idx ssa.Value) (int64, bool) {
	if add, ok := idx.(*ssa.BinOp); ok && add.Op == token.ADD {
		phi, ok := add.X.(*ssa.Phi)
		if !ok {
			return 0, false
		}
		if one, ok := constInt(add.Y); !ok || one != 1 {
			return 0, false
		}
		start := false
		for _, ed := range phi.Edges {
			if k, ok := constInt(ed); ok && k == -1 {
				start = true
			} else if ed != idx {
				return 0, false
			}
		}
		if !start {
			return 0, false
		}
		// the comparison that guards the body: idx < n as the terminator of idx's own block
		blk := add.Block()
		if iff, ok := blk.Instrs[len(blk.Instrs)-1].(*ssa.If); ok {
			if cmp, ok := iff.Cond.(*ssa.BinOp); ok && cmp.Op == token.LSS && cmp.X == idx {
				if n, ok := constInt(cmp.Y); ok && n >= 0 {
					return n, true
				}
			}
		}
		return 0, false
	}
	// counter form: phi(0, i+1) tested `i < n` in the loop header
	if phi, ok := idx.(*ssa.Phi); ok && len(phi.Edges) == 2 {
		zero, step := false, false
		for _, ed := range phi.Edges {
			if k, ok := constInt(ed); ok && k == 0 {
				zero = true
			} else if add, ok := ed.(*ssa.BinOp); ok && add.Op == token.ADD && add.X == idx {
				if one, ok := constInt(add.Y); ok && one == 1 {
					step = true
				}
			}
		}
		if zero && step {
			blk := phi.Block()
			if iff, ok := blk.Instrs[len(blk.Instrs)-1].(*ssa.If); ok {
				if cmp, ok := iff.Cond.(*ssa.BinOp); ok && cmp.Op == token.LSS && cmp.X == idx {
					if n, ok := constInt(cmp.Y); ok && n >= 0 {
						return n, true
					}
				}
			}
		}
	}
	return 0, false
}

// geZero: v >= 0 at the given point.
func (bp *boundsProver) geZero(v ssa.Value, atBlock *ssa.BasicBlock, seen map[ssa.Value]bool, d int) bool {
	if d > bp.depth {
		return false
	}
	if k, ok := constInt(v); ok {
		return k >= 0
	}
	if lo, _, ok := bp.paramConstRange(v); ok {
		return lo >= 0
	}
	if _, ok := lenOf(v); ok {
		return true
	}
	if rangeIndexSeq(v) != nil {
		return true
	}
	if _, ok := rangeIndexConst(v); ok {
		return true
	}
	// the index functions of package strings answer -1 or a position: not -1 means >= 0
	if call, ok := v.(*ssa.Call); ok {
		switch calleeName(call) {
		case "strings.Index", "strings.LastIndex", "strings.IndexByte", "strings.LastIndexByte", "strings.IndexRune", "strings.IndexAny", "strings.LastIndexAny":
			for _, ce := range dominatingConds(atBlock) {
				bo, ok := ce.Cond.(*ssa.BinOp)
				if !ok || bo.X != v {
					continue
				}
				k, isK := constInt(bo.Y)
				if isK && k == -1 && ((bo.Op == token.NEQ && ce.Val) || (bo.Op == token.EQL && !ce.Val)) {
					return true
				}
			}
		}
	}
	if b, ok := v.Type().Underlying().(*types.Basic); ok && b.Info()&types.IsUnsigned != 0 {
		return true
	}
	for _, ce := range dominatingConds(atBlock) {
		bo, ok := ce.Cond.(*ssa.BinOp)
		if !ok || bo.X != v {
			continue
		}
		k, ok := constInt(bo.Y)
		if !ok {
			continue
		}
		op := bo.Op
		if !ce.Val {
			op = negateOp(op)
		}
		if (op == token.GEQ && k >= 0) || (op == token.GTR && k >= -1) || (op == token.EQL && k >= 0) {
			return true
		}
	}
	switch w := v.(type) {
	case *ssa.Phi:
		if seen[w] {
			return true // coinduction is sound for lower bounds of counters that only grow: every edge is checked
		}
		seen[w] = true
		for i, ed := range w.Edges {
			if !bp.geZero(ed, w.Block().Preds[i], seen, d+1) {
				return false
			}
		}
		return true
	case *ssa.BinOp:
		switch w.Op {
		case token.ADD, token.MUL:
			return bp.geZero(w.X, atBlock, seen, d+1) && bp.geZero(w.Y, atBlock, seen, d+1)
		case token.QUO, token.REM:
			if k, ok := constInt(w.Y); ok && k > 0 {
				return bp.geZero(w.X, atBlock, seen, d+1)
			}
		}
	case *ssa.Convert:
		return bp.geZero(w.X, atBlock, seen, d+1)
	case *ssa.Call:
		// a module helper (e.g. an extracted search): every value it returns is >= 0
		if rets := bp.helperReturns(w, 0); rets != nil && !seen[w] {
			seen[w] = true
			defer delete(seen, w)
			for _, r := range rets {
				if !bp.geZero(r.val, r.ret.Block(), map[ssa.Value]bool{}, d+1) {
					return false
				}
			}
			return true
		}
	case *ssa.Extract:
		if call, ok := w.Tuple.(*ssa.Call); ok && !seen[w] {
			if rets := bp.helperReturns(call, w.Index); rets != nil {
				seen[w] = true
				defer delete(seen, w)
				for _, r := range rets {
					if !bp.geZero(r.val, r.ret.Block(), map[ssa.Value]bool{}, d+1) {
						return false
					}
				}
				return true
			}
		}
	}
	return false
}

type helperRet struct {
	val ssa.Value
	ret *ssa.Return
}

// helperReturns: the values a statically called module function returns in result position idx (nil if the callee is
// not a module function with a body, or is recursive through this call's own function).
func (bp *boundsProver) helperReturns(call *ssa.Call, idx int) []helperRet {
	cal := call.Call.StaticCallee()
	if cal == nil || call.Call.IsInvoke() || !bp.c.P.isModuleFn(cal) || len(cal.Blocks) == 0 || cal == call.Parent() {
		return nil
	}
	var out []helperRet
	for _, b := range cal.Blocks {
		if ret, ok := b.Instrs[len(b.Instrs)-1].(*ssa.Return); ok {
			if idx >= len(ret.Results) {
				return nil
			}
			out = append(out, helperRet{ret.Results[idx], ret})
		}
	}
	return out
}

// proveLenOfCall: v = f(args) (result idx) and x is the same sequence as args[j]: inside f every returned value
// satisfies the goal against parameter j. Requires that f does not re-slice or reassign that parameter (SSA: the
// parameter value is immutable; a slice header passed by value cannot change length in the caller).
func (bp *boundsProver) proveLenOfCall(call *ssa.Call, idx int, x ssa.Value, goal relGoal, at ssa.Instruction, d int) bool {
	rets := bp.helperReturns(call, idx)
	if rets == nil {
		return false
	}
	cal := call.Call.StaticCallee()
	for j, a := range call.Call.Args {
		if j >= len(cal.Params) || !(bp.sameSeq(a, x) && bp.loadStable(a, x, at)) {
			continue
		}
		ok := true
		for _, r := range rets {
			if !bp.proveLen(r.val, cal.Params[j], goal, r.ret, nil, map[ssa.Value]bool{}, d+1) {
				ok = false
				break
			}
		}
		if ok {
			return true
		}
	}
	return false
}

// ubConst: v <= k at the point.
func (bp *boundsProver) ubConst(v ssa.Value, k int64, atBlock *ssa.BasicBlock, edgeTo *ssa.BasicBlock, seen map[ssa.Value]bool, d int) bool {
	if d > bp.depth {
		return false
	}
	if c, ok := constInt(v); ok {
		return c <= k
	}
	if _, hi, ok := bp.paramConstRange(v); ok {
		return hi <= k
	}
	if rx := rangeIndexSeq(v); rx != nil {
		if n, ok := bp.constLen(rx); ok && n-1 <= k {
			return true
		}
	}
	if n, ok := rangeIndexConst(v); ok && n-1 <= k {
		return true
	}
	conds := dominatingConds(atBlock)
	if edgeTo != nil {
		if iff, ok := atBlock.Instrs[len(atBlock.Instrs)-1].(*ssa.If); ok && atBlock.Succs[0] != atBlock.Succs[1] {
			conds = append(conds, condEdge{Cond: iff.Cond, Val: atBlock.Succs[0] == edgeTo, If: iff})
		}
	}
	for _, ce := range conds {
		bo, ok := ce.Cond.(*ssa.BinOp)
		if !ok || bo.X != v {
			continue
		}
		c, ok := constInt(bo.Y)
		if !ok {
			continue
		}
		op := bo.Op
		if !ce.Val {
			op = negateOp(op)
		}
		if (op == token.LEQ && c <= k) || (op == token.LSS && c-1 <= k) || (op == token.EQL && c <= k) {
			return true
		}
		// v != k+1 is known: v <= k+1 suffices (the counter that stops one short of the limit)
		if op == token.NEQ && c == k+1 && !seen[bo] {
			seen[bo] = true
			ok := bp.ubConst(v, k+1, atBlock, edgeTo, seen, d+1)
			delete(seen, bo)
			if ok {
				return true
			}
		}
	}
	switch w := v.(type) {
	case *ssa.BinOp:
		// x + c <= k  <=  x <= k - c   (no wrap-around: c small and k small, int arithmetic)
		if w.Op == token.ADD {
			if c, ok := constInt(w.Y); ok && c >= 0 && c < 1<<20 && k < 1<<40 {
				return bp.ubConst(w.X, k-c, atBlock, edgeTo, seen, d+1)
			}
		}
	case *ssa.Phi:
		if seen[w] {
			// induction: the bound being proved for this phi may be assumed for its value in the iteration at hand
			if a, ok := bp.ubAssume[w]; ok && a <= k {
				return true
			}
			return false
		}
		seen[w] = true
		defer delete(seen, w)
		if bp.ubAssume == nil {
			bp.ubAssume = map[*ssa.Phi]int64{}
		}
		if _, nested := bp.ubAssume[w]; !nested {
			bp.ubAssume[w] = k
			defer delete(bp.ubAssume, w)
		}
		for i, ed := range w.Edges {
			if ed == ssa.Value(w) {
				continue
			}
			if !bp.ubConst(ed, k, w.Block().Preds[i], w.Block(), seen, d+1) {
				return false
			}
		}
		return true
	case *ssa.Convert:
		return bp.ubConst(w.X, k, atBlock, edgeTo, seen, d+1)
	}
	return false
}

func runG2(c *Ctx, e *nilEngine) {
	p := c.P
	depth := 6
	if c.Tier == "thorough" {
		depth = 20
	}
	bp := &boundsProver{c: c, e: e, depth: depth}
	n, trivial := 0, 0
	for _, f := range e.fns {
		fname := shortName(f)
		contract := csvContractFns[f.String()]
		for _, b := range f.Blocks {
			for _, in := range b.Instrs {
				var seq, idx ssa.Value
				what := ""
				switch x := in.(type) {
				case *ssa.IndexAddr:
					seq, idx, what = x.X, x.Index, "index"
				case *ssa.Index:
					seq, idx, what = x.X, x.Index, "index"
				case *ssa.Slice:
					n++
					if x.Low == nil && x.High == nil && x.Max == nil {
						trivial++
						continue
					}
					ok, why := bp.sliceOK(x)
					construct := "slice " + descr(x.X) + "[" + descrOrEmpty(x.Low) + ":" + descrOrEmpty(x.High) + "]"
					if contract != "" {
						c.Proved("G2", fname, construct, p.ipos(in), "by contract: "+contract)
						continue
					}
					if ok {
						c.Proved("G2", fname, construct, p.ipos(in), why)
					} else {
						o := c.Violated("G2", fname, construct, p.ipos(in), "slice bounds not proven: "+why)
						if c.partitionTrimException(x) {
							o.Exception = partitionTrimReason
						}
						c.applyException(o)
					}
					continue
				case *ssa.BinOp:
					if x.Op == token.QUO || x.Op == token.REM {
						if bt, ok := x.Type().Underlying().(*types.Basic); ok && bt.Info()&types.IsInteger != 0 {
							n++
							k, isC := constInt(x.Y)
							c.Check(isC && k != 0, "G2", fname, "divide "+descr(x.X)+x.Op.String()+descr(x.Y), p.ipos(in), "non-zero constant divisor", "integer division by a value that is not a non-zero constant")
						}
					}
					continue
				case *ssa.MakeSlice:
					n++
					ok := bp.geZero(x.Len, b, map[ssa.Value]bool{}, 0) && bp.geZero(x.Cap, b, map[ssa.Value]bool{}, 0)
					if ok {
						trivial++
					} else {
						o := c.Violated("G2", fname, "make "+descr(x.Len), p.ipos(in), "make with a size that is not proven non-negative")
						c.applyException(o)
					}
					continue
				default:
					continue
				}
				n++
				// constant index into an array of known length, or a variadic/literal array
				if k, ok := constInt(idx); ok {
					if l, ok := bp.constLen(seq); ok && k >= 0 && k < l {
						trivial++
						continue
					}
				}
				construct := what + " " + descr(seq) + "[" + descr(idx) + "]"
				if contract != "" {
					c.Proved("G2", fname, construct, p.ipos(in), "by contract: "+contract+" (L-csv: every record has the header's field count)")
					continue
				}
				lo := bp.geZero(idx, b, map[ssa.Value]bool{}, 0)
				hi := false
				if l, ok := bp.constLen(seq); ok {
					hi = bp.ubConst(idx, l-1, b, nil, map[ssa.Value]bool{}, 0)
				}
				if !hi {
					hi = bp.proveLen(idx, seq, ltLen, in, nil, map[ssa.Value]bool{}, 0)
				}
				// index-map lemma: the index was read from a map that only ever stores positions of elements
				// appended to this very slice
				if !(lo && hi) && bp.indexMapLemma(idx, seq, in) {
					lo, hi = true, true
				}
				// L-sort: inside the less closure of sort.Slice(x, less) the parameters index x
				if !(lo && hi) && bp.sortClosureIndex(f, seq, idx) {
					lo, hi = true, true
				}
				if lo && hi {
					c.Proved("G2", fname, construct, p.ipos(in), "0 <= index < len by E2 (range index, dominating comparison, constant against known length, or lemma)")
				} else {
					miss := "upper bound"
					if !lo {
						miss = "lower bound"
					}
					o := c.Violated("G2", fname, construct, p.ipos(in), fmt.Sprintf("%s: %s of the index is not established on every path (no range loop over the same sequence, no dominating comparison with its length, no lemma)", instrString(in), miss))
					c.applyException(o)
				}
			}
		}
	}
	c.Stats["G2 index/slice/division/make sites"] = n
	c.Stats["G2 trivially in bounds (constant index into fixed array, full slice)"] = trivial
}

func descrOrEmpty(v ssa.Value) string {
	if v == nil {
		return ""
	}
	return descr(v)
}

// sliceOK: 0 <= low <= high <= len/cap
func (bp *boundsProver) sliceOK(x *ssa.Slice) (bool, string) {
	seen := func() map[ssa.Value]bool { return map[ssa.Value]bool{} }
	b := x.Block()
	if x.Max != nil {
		return false, "3-index slice"
	}
	// high <= len
	if x.High != nil {
		if !bp.proveLen(x.High, x.X, leLen, x, nil, seen(), 0) {
			// high = len(past)+len(updated) style sums are not handled
			return false, "high bound " + descr(x.High) + " <= len(" + descr(x.X) + ") not established"
		}
		if !bp.geZero(x.High, b, seen(), 0) {
			return false, "high bound may be negative"
		}
	}
	if x.Low != nil {
		if !bp.geZero(x.Low, b, seen(), 0) {
			return false, "low bound " + descr(x.Low) + " may be negative"
		}
		if x.High == nil {
			if !bp.proveLen(x.Low, x.X, leLen, x, nil, seen(), 0) {
				return false, "low bound " + descr(x.Low) + " <= len(" + descr(x.X) + ") not established"
			}
		} else {
			// low <= high: constants, or low == 0
			lk, okL := constInt(x.Low)
			hk, okH := constInt(x.High)
			switch {
			case okL && lk == 0:
			case okL && okH && lk <= hk:
			default:
				return false, "low <= high not established"
			}
		}
	}
	return true, "0 <= low <= high <= len by E2"
}

// indexMapLemma: idx = m[k] (comma-ok, ok known true, or a key known present) where every store into m is
// m[k'] = len(s) immediately followed by s = append(s, one element), s only ever grows by append, and seq is
// the value of s after the loop that fills m.  Then 0 <= idx < len(seq).
func (bp *boundsProver) indexMapLemma(idx, seq ssa.Value, at ssa.Instruction) bool {
	var m ssa.Value
	switch x := idx.(type) {
	case *ssa.Extract:
		lk, ok := x.Tuple.(*ssa.Lookup)
		if !ok || x.Index != 0 {
			return false
		}
		// ok must be known true here
		okTrue := false
		for _, ce := range dominatingConds(at.Block()) {
			c := ce.Cond
			val := ce.Val
			if u, isNot := c.(*ssa.UnOp); isNot && u.Op == token.NOT {
				c, val = u.X, !val
			}
			if ex, isEx := c.(*ssa.Extract); isEx && ex.Tuple == x.Tuple && ex.Index == 1 && val {
				okTrue = true
			}
		}
		if !okTrue {
			return false
		}
		m = lk.X
	default:
		return false
	}
	// the lookup may sit in a helper that receives both the map and the slice from the function that built them:
	// move to the (single) call site
	for hop := 0; hop < 3; hop++ {
		pm, isPM := m.(*ssa.Parameter)
		ps, isPS := seq.(*ssa.Parameter)
		if !isPM || !isPS || pm.Parent() != ps.Parent() {
			break
		}
		g := pm.Parent()
		callers := bp.c.P.Callers(g)
		if len(callers) != 1 || hasDelete(g, pm) || hasMapUpdate(g, pm) {
			return false
		}
		site, isInstr := callers[0].Site.(ssa.Instruction)
		args := callers[0].Site.Common().Args
		im, is := paramIndex(pm), paramIndex(ps)
		if !isInstr || im < 0 || is < 0 || im >= len(args) || is >= len(args) {
			return false
		}
		m, seq, at = args[im], args[is], site
	}
	if ld, isLd := m.(*ssa.UnOp); isLd && ld.Op == token.MUL {
		if fa, isFA := ld.X.(*ssa.FieldAddr); isFA {
			return bp.indexMapLemmaField(fa, seq, at)
		}
	}
	mk, ok := m.(*ssa.MakeMap)
	if !ok {
		return false
	}
	fn := mk.Parent()
	// the map was filled by ranging over the very sequence that is indexed: every stored value is an index of a
	// `for i := range seq` (seq is one SSA value: its length cannot have changed in between)
	{
		n, all := 0, true
		for _, b := range fn.Blocks {
			for _, in := range b.Instrs {
				mu, isMU := in.(*ssa.MapUpdate)
				if !isMU || mu.Map != m {
					continue
				}
				n++
				if r, _ := isRangeIndexOver(mu.Value, seq); !r {
					all = false
				}
			}
		}
		if n > 0 && all && !hasDelete(fn, m) {
			// the map does not leave the function before the lookup other than as a read-only argument: updates
			// elsewhere would be through a parameter of a callee
			escapes := false
			for _, r := range *mk.Referrers() {
				switch x := r.(type) {
				case *ssa.MapUpdate, *ssa.Lookup, *ssa.Range, *ssa.DebugRef:
				case *ssa.Call:
					if !isBuiltin(x, "len") {
						if cal := x.Call.StaticCallee(); cal == nil || !bp.c.P.isModuleFn(cal) {
							escapes = true
						} else {
							for i, a := range x.Call.Args {
								if a == m && i < len(cal.Params) && (hasMapUpdate(cal, cal.Params[i]) || hasDelete(cal, cal.Params[i])) {
									escapes = true
								}
							}
						}
					}
				default:
					escapes = true
				}
			}
			if !escapes {
				return true
			}
		}
	}
	// the slice variable's append chain
	chain := map[ssa.Value]bool{}
	var grow func(v ssa.Value, d int) bool
	grow = func(v ssa.Value, d int) bool {
		if chain[v] {
			return true
		}
		if d > 20 {
			return false
		}
		switch x := v.(type) {
		case *ssa.Const:
			if x.Value == nil {
				chain[v] = true
				return true
			}
		case *ssa.Phi:
			chain[v] = true
			for _, ed := range x.Edges {
				if !grow(ed, d+1) {
					return false
				}
			}
			return true
		case *ssa.Call:
			if isBuiltin(x, "append") {
				chain[v] = true
				return grow(x.Call.Args[0], d+1)
			}
		case *ssa.MakeSlice:
			chain[v] = true
			return true
		}
		return false
	}
	if !grow(seq, 0) {
		return false
	}
	seqPhi, ok := seq.(*ssa.Phi)
	if !ok {
		return false
	}
	loops := naturalLoops(fn)
	var loop *Loop
	for _, l := range loops {
		if l.Header == seqPhi.Block() {
			loop = l
		}
	}
	if loop == nil || loop.Blocks[at.Block()] {
		return false // the use must come after the loop that fills the map
	}
	n := 0
	for _, b := range fn.Blocks {
		for i, in := range b.Instrs {
			mu, ok := in.(*ssa.MapUpdate)
			if !ok || mu.Map != m {
				continue
			}
			n++
			if !loop.Blocks[b] {
				return false
			}
			s0, ok := lenOf(mu.Value)
			if !ok || !chain[s0] {
				return false
			}
			// followed in the same block by append(s0, one element) that is part of the chain
			found := false
			for _, in2 := range b.Instrs[i+1:] {
				if call, ok := in2.(*ssa.Call); ok && isBuiltin(call, "append") && call.Call.Args[0] == s0 && chain[call] {
					found = true
				}
			}
			if !found {
				return false
			}
		}
	}
	// no other use of the map that could change it (delete, escape)
	return n > 0 && !hasDelete(fn, m)
}

// paramConstRange: v is a parameter of a module function (or local closure) that every call site passes a constant
// for: the smallest and largest of them.
func (bp *boundsProver) paramConstRange(v ssa.Value) (lo, hi int64, ok bool) {
	prm, isPrm := v.(*ssa.Parameter)
	if !isPrm || prm.Parent() == nil {
		return 0, 0, false
	}
	idx := paramIndex(prm)
	callers := bp.c.P.Callers(prm.Parent())
	if idx < 0 || len(callers) == 0 {
		return 0, 0, false
	}
	first := true
	for _, e := range callers {
		args := e.Site.Common().Args
		if idx >= len(args) {
			return 0, 0, false
		}
		k, isC := args[idx].(*ssa.Const)
		if !isC || k.Value == nil {
			return 0, 0, false
		}
		kv, isInt := constInt(k)
		if !isInt {
			return 0, 0, false
		}
		if first || kv < lo {
			lo = kv
		}
		if first || kv > hi {
			hi = kv
		}
		first = false
	}
	return lo, hi, !first
}

// indexMapLemmaField: the index map is kept in an unexported field of a bookkeeping object (only ever made fresh by
// the module) and filled by a method `record(.., index)`; every value ever stored in it is, at the call that passes it,
// len(s) immediately followed by s = append(s, one element), inside the loop that builds s; the sequence indexed is
// the value of s after that loop, handed to the function of the lookup by its single call site. Then 0 <= idx < len(seq).
func (bp *boundsProver) indexMapLemmaField(fa *ssa.FieldAddr, seq ssa.Value, at ssa.Instruction) bool {
	p := bp.c.P
	vals, ok := p.unexportedFieldStores(fa)
	if !ok || len(vals) == 0 {
		return false
	}
	for _, v := range vals {
		if _, isMk := v.(*ssa.MakeMap); !isMk {
			return false
		}
	}
	key := typeName(fa.X.Type()) + "." + fieldName(fa.X.Type(), fa.Field)
	sameField := func(v ssa.Value) bool {
		ld, ok := v.(*ssa.UnOp)
		if !ok || ld.Op != token.MUL {
			return false
		}
		f2, ok := ld.X.(*ssa.FieldAddr)
		return ok && typeName(f2.X.Type())+"."+fieldName(f2.X.Type(), f2.Field) == key
	}
	// the sequence as the function that builds it sees it
	seqFn := at.Parent()
	if ps, isPS := seq.(*ssa.Parameter); isPS {
		callers := p.Callers(ps.Parent())
		is := paramIndex(ps)
		if len(callers) != 1 || is < 0 {
			return false
		}
		site, isInstr := callers[0].Site.(ssa.Instruction)
		args := callers[0].Site.Common().Args
		if !isInstr || is >= len(args) {
			return false
		}
		seq, at, seqFn = args[is], site, callers[0].Caller
	}
	// every update of the map, as a (block, position, value) in seqFn
	type usite struct {
		b   *ssa.BasicBlock
		i   int
		val ssa.Value
	}
	var sites []usite
	posOf := func(in ssa.Instruction) int {
		for i, x := range in.Block().Instrs {
			if x == in {
				return i
			}
		}
		return -1
	}
	for _, g := range p.ModFns {
		for _, b := range g.Blocks {
			for _, in := range b.Instrs {
				switch x := in.(type) {
				case *ssa.Call:
					if isBuiltin(x, "delete") && len(x.Call.Args) > 0 && sameField(x.Call.Args[0]) {
						return false
					}
				case *ssa.MapUpdate:
					if !sameField(x.Map) {
						continue
					}
					if prm, isPrm := x.Value.(*ssa.Parameter); isPrm && g != seqFn {
						k := paramIndex(prm)
						callers := p.Callers(g)
						if k < 0 || len(callers) == 0 {
							return false
						}
						for _, e := range callers {
							site, isInstr := e.Site.(ssa.Instruction)
							args := e.Site.Common().Args
							if !isInstr || e.Caller != seqFn || k >= len(args) {
								return false
							}
							sites = append(sites, usite{site.Block(), posOf(site), args[k]})
						}
						continue
					}
					if g != seqFn {
						return false
					}
					sites = append(sites, usite{b, posOf(x), x.Value})
				}
			}
		}
	}
	if len(sites) == 0 {
		return false
	}
	// the append chain of the sequence
	chain := map[ssa.Value]bool{}
	var grow func(v ssa.Value, d int) bool
	grow = func(v ssa.Value, d int) bool {
		if chain[v] {
			return true
		}
		if d > 20 {
			return false
		}
		switch x := v.(type) {
		case *ssa.Const:
			if x.Value == nil {
				chain[v] = true
				return true
			}
		case *ssa.Phi:
			chain[v] = true
			for _, ed := range x.Edges {
				if !grow(ed, d+1) {
					return false
				}
			}
			return true
		case *ssa.Call:
			if isBuiltin(x, "append") {
				chain[v] = true
				return grow(x.Call.Args[0], d+1)
			}
		case *ssa.MakeSlice:
			chain[v] = true
			return true
		}
		return false
	}
	seqPhi, isPhi := seq.(*ssa.Phi)
	if !isPhi || !grow(seq, 0) {
		return false
	}
	var loop *Loop
	for _, l := range naturalLoops(seqFn) {
		if l.Header == seqPhi.Block() {
			loop = l
		}
	}
	if loop == nil || loop.Blocks[at.Block()] {
		return false
	}
	for _, us := range sites {
		if us.i < 0 || !loop.Blocks[us.b] {
			return false
		}
		s0, ok := lenOf(us.val)
		if !ok || !chain[s0] {
			return false
		}
		found := false
		for _, in2 := range us.b.Instrs[us.i+1:] {
			if call, ok := in2.(*ssa.Call); ok && isBuiltin(call, "append") && call.Call.Args[0] == s0 && chain[call] {
				found = true
			}
		}
		if !found {
			return false
		}
	}
	return true
}

// sortClosureIndex: f is the `less` closure passed to sort.Slice(x, less), seq is a load of the captured x,
// idx is one of the closure's two parameters.
func (bp *boundsProver) sortClosureIndex(f *ssa.Function, seq, idx ssa.Value) bool {
	prm, ok := idx.(*ssa.Parameter)
	if !ok || f.Parent() == nil || len(f.Params) != 2 {
		return false
	}
	_ = prm
	// find the MakeClosure and the sort call using it
	for _, b := range f.Parent().Blocks {
		for _, in := range b.Instrs {
			mc, ok := in.(*ssa.MakeClosure)
			if !ok || mc.Fn != ssa.Value(f) {
				continue
			}
			for _, r := range *mc.Referrers() {
				call, ok := r.(*ssa.Call)
				if !ok {
					continue
				}
				name := calleeName(call)
				if name != "sort.Slice" && name != "sort.SliceStable" {
					continue
				}
				target := sortTarget(call)
				// seq inside the closure: load of a free variable (cell) [optionally .field]; target outside: load of the bound cell
				sc := canon(seq)
				tc := canon(target)
				for i, fv := range f.FreeVars {
					bound := mc.Bindings[i]
					sc = strings.ReplaceAll(sc, fv.Name(), canon(bound))
				}
				if sc == tc {
					return true
				}
			}
		}
	}
	return false
}

func hasMapUpdate(fn *ssa.Function, m ssa.Value) bool {
	for _, b := range fn.Blocks {
		for _, in := range b.Instrs {
			if mu, ok := in.(*ssa.MapUpdate); ok && mu.Map == m {
				return true
			}
		}
	}
	return false
}

// helperMakeLen: call invokes a module function every return of which is one make([]T, len(L)) with L a field (or
// getter) of one of its parameters, or the parameter itself. Returns the caller-side canonical form of L (as normSeq
// spells it) and the cell class of that field.
func (bp *boundsProver) helperMakeLen(call *ssa.Call) (string, string, bool) {
	h := call.Call.StaticCallee()
	if h == nil || call.Call.IsInvoke() || len(h.Blocks) == 0 || !bp.c.P.isModuleFn(h) || len(h.Params) != len(call.Call.Args) {
		return "", "", false
	}
	var ms *ssa.MakeSlice
	for _, b := range h.Blocks {
		ret, ok := b.Instrs[len(b.Instrs)-1].(*ssa.Return)
		if !ok {
			continue
		}
		if len(ret.Results) != 1 {
			return "", "", false
		}
		m, ok := ret.Results[0].(*ssa.MakeSlice)
		if !ok || (ms != nil && ms != m) {
			return "", "", false
		}
		ms = m
	}
	if ms == nil {
		return "", "", false
	}
	L, ok := lenOf(ms.Len)
	if !ok {
		return "", "", false
	}
	// L through a local: `entities := msg.GetEntity()` is the call itself; a phi or cell is not followed
	for i, pa := range h.Params {
		pn := canon(pa)
		switch x := L.(type) {
		case *ssa.Parameter:
			if x == pa {
				return normSeq(call.Call.Args[i]), "", normSeq(call.Call.Args[i]) != ""
			}
		case *ssa.Call:
			if cal := x.Call.StaticCallee(); cal != nil && len(x.Call.Args) == 1 && x.Call.Args[0] == ssa.Value(pa) {
				if fi, ok := getterField(cal); ok {
					f := fieldName(cal.Params[0].Type(), fi)
					return "*(" + canon(call.Call.Args[i]) + "." + f + ")", typeName(cal.Params[0].Type()) + "." + f, true
				}
			}
		case *ssa.UnOp:
			if fa, ok := x.X.(*ssa.FieldAddr); ok && fa.X == ssa.Value(pa) {
				f := fieldName(fa.X.Type(), fa.Field)
				return "*(" + canon(call.Call.Args[i]) + "." + f + ")", typeName(fa.X.Type()) + "." + f, true
			}
		}
		_ = pn
	}
	return "", "", false
}

// localFieldMake: x is a load of field f of a local object (an Alloc of this function); every store to that field of
// that object stores the same MakeSlice value, that store precedes `at` on every path, and the field's address is used
// for nothing but loads and those stores (no append through it, no escape of the field address). Returns the MakeSlice.
func localFieldMake(x ssa.Value, at ssa.Instruction) *ssa.MakeSlice {
	ld, ok := x.(*ssa.UnOp)
	if !ok || ld.Op != token.MUL {
		return nil
	}
	fa, ok := ld.X.(*ssa.FieldAddr)
	if !ok {
		return nil
	}
	al, ok := fa.X.(*ssa.Alloc)
	if !ok {
		return nil
	}
	var ms *ssa.MakeSlice
	var theStore *ssa.Store
	for _, r := range *al.Referrers() {
		fa2, ok := r.(*ssa.FieldAddr)
		if !ok || fa2.Field != fa.Field {
			continue
		}
		for _, r2 := range *fa2.Referrers() {
			switch u := r2.(type) {
			case *ssa.Store:
				if u.Addr != ssa.Value(fa2) {
					return nil // the field's address is stored somewhere
				}
				m, isMake := u.Val.(*ssa.MakeSlice)
				if !isMake || (ms != nil && ms != m) {
					return nil
				}
				ms, theStore = m, u
			case *ssa.UnOp, *ssa.DebugRef:
			default:
				return nil
			}
		}
	}
	if ms == nil || theStore == nil || !instrBefore(theStore, at) {
		return nil
	}
	return ms
}

// sameLenCall: two len() calls on the identical SSA value (slices and strings are values: equal operand, equal length).
// sameArith: two arithmetic expressions over the very same SSA values (a + b written twice: go/ssa does not merge
// them): equal whenever both are defined.
func sameArith(a, b ssa.Value, d int) bool {
	if a == b {
		return true
	}
	if d > 3 {
		return false
	}
	x, ok1 := a.(*ssa.BinOp)
	y, ok2 := b.(*ssa.BinOp)
	if !ok1 || !ok2 || x.Op != y.Op {
		return false
	}
	switch x.Op {
	case token.ADD, token.SUB, token.MUL:
	default:
		return false
	}
	if sameArith(x.X, y.X, d+1) && sameArith(x.Y, y.Y, d+1) {
		return true
	}
	if x.Op != token.SUB && sameArith(x.X, y.Y, d+1) && sameArith(x.Y, y.X, d+1) {
		return true
	}
	return false
}

func sameLenCall(a, b ssa.Value) bool {
	la, ok1 := lenOf(a)
	lb, ok2 := lenOf(b)
	return ok1 && ok2 && la == lb
}

// grownWithin: len(S) <= len(x) because S is nil / empty, or a phi of such values, or append(S', one element) at a
// point where len(S') < len(x) is known (a dominating comparison on the identical S'), S' itself satisfying the same.
func (bp *boundsProver) grownWithin(S, x ssa.Value, at ssa.Instruction, seen map[ssa.Value]bool, d int) bool {
	if d > 8 {
		return false
	}
	if seen[S] {
		return true // induction over the loop that grows S
	}
	seen[S] = true
	switch w := S.(type) {
	case *ssa.Const:
		return w.Value == nil
	case *ssa.MakeSlice:
		k, ok := constInt(w.Len)
		return ok && k == 0
	case *ssa.Phi:
		for _, ed := range w.Edges {
			if !bp.grownWithin(ed, x, at, seen, d+1) {
				return false
			}
		}
		return true
	case *ssa.Call:
		if !isBuiltin(w, "append") {
			// S is what a helper of the module built: the same argument inside the helper, with the parameter that
			// receives x standing for x (every list the helper can return starts empty and grows within that parameter)
			h := w.Call.StaticCallee()
			if h == nil || w.Call.IsInvoke() || len(h.Blocks) == 0 || h.Signature.Results().Len() != 1 || len(h.Params) != len(w.Call.Args) || fnPkgPath(h) != fnPkgPath(w.Parent()) {
				return false
			}
			k := -1
			for i, a := range w.Call.Args {
				if a == x || bp.sameSeq(a, x) {
					k = i
				}
			}
			if k < 0 {
				return false
			}
			n := 0
			for _, hb := range h.Blocks {
				ret, isRet := hb.Instrs[len(hb.Instrs)-1].(*ssa.Return)
				if !isRet {
					continue
				}
				n++
				if !bp.grownWithin(ret.Results[0], h.Params[k], ret, map[ssa.Value]bool{}, d+1) {
					return false
				}
			}
			return n > 0
		}
		if len(w.Call.Args) != 2 {
			return false
		}
		sl, ok := w.Call.Args[1].(*ssa.Slice)
		if !ok {
			return false
		}
		arr := isLocalArrayAlloc(sl.X)
		if arr == nil {
			return false
		}
		if at2, ok := deref(arr.Type()).Underlying().(*types.Array); !ok || at2.Len() != 1 {
			return false
		}
		base := w.Call.Args[0]
		room := false
		for _, ce := range dominatingConds(w.Block()) {
			bo, ok := ce.Cond.(*ssa.BinOp)
			if !ok {
				continue
			}
			op := bo.Op
			if !ce.Val {
				op = negateOp(op)
			}
			lx, ok1 := lenOf(bo.X)
			ly, ok2 := lenOf(bo.Y)
			if ok1 && ok2 && lx == base && op == token.LSS && bp.sameSeq(ly, x) && bp.loadStable(ly, x, at) {
				room = true
			}
		}
		if !room {
			room = bp.countedRoom(w, base, x, at)
		}
		return room && bp.grownWithin(base, x, at, seen, d+1)
	}
	return false
}

// countedRoom: the append `app` = append(base, one element) has room in x because base is a list that is empty before
// a loop, grows by at most this one element per trip around it, the loop counts its trips with an index i that starts
// at 0 and goes up by one, and i < len(x) is known where the append is: len(base) <= i < len(x).
func (bp *boundsProver) countedRoom(app *ssa.Call, base, x ssa.Value, at ssa.Instruction) bool {
	hphi, ok := base.(*ssa.Phi)
	if !ok {
		return false
	}
	var loop *Loop
	for _, l := range naturalLoops(app.Parent()) {
		if l.Header == hphi.Block() && l.Blocks[app.Block()] {
			loop = l
		}
	}
	if loop == nil {
		return false
	}
	// not inside an inner loop
	for _, l := range naturalLoops(app.Parent()) {
		if l.Header != loop.Header && l.Blocks[app.Block()] && loop.Blocks[l.Header] {
			return false
		}
	}
	// every value carried around the loop is base itself or this append; the value from outside is empty
	var carried func(v ssa.Value, d int) bool
	carried = func(v ssa.Value, d int) bool {
		if v == ssa.Value(hphi) || v == ssa.Value(app) {
			return true
		}
		if p2, ok := v.(*ssa.Phi); ok && d < 6 && loop.Blocks[p2.Block()] && p2 != hphi {
			for _, e := range p2.Edges {
				if !carried(e, d+1) {
					return false
				}
			}
			return true
		}
		return false
	}
	for i, e := range hphi.Edges {
		if loop.Blocks[hphi.Block().Preds[i]] {
			if !carried(e, 0) {
				return false
			}
		} else {
			if k, isC := e.(*ssa.Const); !isC || k.Value != nil {
				if ms, isM := e.(*ssa.MakeSlice); !isM {
					return false
				} else if n, isK := constInt(ms.Len); !isK || n != 0 {
					return false
				}
			}
		}
	}
	// a trip counter of this loop known to be below len(x) at the append
	for _, ce := range dominatingConds(app.Block()) {
		bo, ok := ce.Cond.(*ssa.BinOp)
		if !ok {
			continue
		}
		op := bo.Op
		if !ce.Val {
			op = negateOp(op)
		}
		ly, ok := lenOf(bo.Y)
		if !ok || op != token.LSS || !bp.sameSeq(ly, x) || !bp.loadStable(ly, x, at) {
			continue
		}
		i := bo.X
		counts := false
		if add, isAdd := i.(*ssa.BinOp); isAdd && add.Op == token.ADD { // range form: phi(-1, i) + 1
			if ph, isPhi := add.X.(*ssa.Phi); isPhi && ph.Block() == loop.Header && (rangeIndexSeq(i) != nil || func() bool { _, ok := rangeIndexConst(i); return ok }()) {
				counts = true
			}
		}
		if ph, isPhi := i.(*ssa.Phi); isPhi && ph.Block() == loop.Header && len(ph.Edges) == 2 { // counter form: phi(0, i+1)
			zero, step := false, false
			for _, e := range ph.Edges {
				if k, isK := constInt(e); isK && k == 0 {
					zero = true
				} else if add, isAdd := e.(*ssa.BinOp); isAdd && add.Op == token.ADD && add.X == i {
					if one, isOne := constInt(add.Y); isOne && one == 1 {
						step = true
					}
				}
			}
			counts = zero && step
		}
		if counts {
			return true
		}
	}
	return false
}
