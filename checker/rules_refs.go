package main

// C03 / G13: result-pointer provenance, no append after address-taken, key/value agreement of the id maps,
// required references non-nil, single writer of Stop.Parent, forest.

import (
	"fmt"
	"go/token"
	"go/types"
	"strings"

	"golang.org/x/tools/go/ssa"
)

type refField struct {
	typ, field string
	coll       string // collection of Static the pointer must point into
	required   bool
}

var refFields = []refField{
	{"gtfs.Route", "Agency", "Agencies", true},
	{"gtfs.Stop", "Parent", "Stops", false},
	{"gtfs.Transfer", "From", "Stops", true},
	{"gtfs.Transfer", "To", "Stops", true},
	{"gtfs.ScheduledTrip", "Route", "Routes", true},
	{"gtfs.ScheduledTrip", "Service", "Services", true},
	{"gtfs.ScheduledTrip", "Shape", "Shapes", false},
	{"gtfs.ScheduledStopTime", "Stop", "Stops", true},
}

// pointerSources resolves a pointer value to the address expressions it can be: through phis, map lookups (all
// values stored in the map), local cells.
func pointerSources(p *Program, v ssa.Value) (srcs []ssa.Value, unknown []string) {
	seen := map[ssa.Value]bool{}
	var rec func(v ssa.Value, d int)
	rec = func(v ssa.Value, d int) {
		if v == nil || seen[v] {
			return
		}
		seen[v] = true
		if d > 30 {
			unknown = append(unknown, "too deep")
			return
		}
		switch x := v.(type) {
		case *ssa.Const:
			// nil
		case *ssa.IndexAddr, *ssa.Alloc, *ssa.FieldAddr:
			srcs = append(srcs, v)
		case *ssa.Phi:
			for _, e := range x.Edges {
				rec(e, d+1)
			}
		case *ssa.Extract:
			if call, ok := x.Tuple.(*ssa.Call); ok {
				if callee := call.Call.StaticCallee(); callee != nil && p.isModuleFn(callee) && len(callee.Blocks) > 0 {
					for _, blk := range callee.Blocks {
						if ret, ok := blk.Instrs[len(blk.Instrs)-1].(*ssa.Return); ok && x.Index < len(ret.Results) {
							rec(ret.Results[x.Index], d+1)
						}
					}
					return
				}
			}
			rec(x.Tuple, d+1)
		case *ssa.Call:
			// a module helper returning the pointer (e.g. a search helper extracted from the row loop): its returns
			if callee := x.Call.StaticCallee(); callee != nil && p.isModuleFn(callee) && len(callee.Blocks) > 0 {
				for _, blk := range callee.Blocks {
					if ret, ok := blk.Instrs[len(blk.Instrs)-1].(*ssa.Return); ok && len(ret.Results) == 1 {
						rec(ret.Results[0], d+1)
					}
				}
				return
			}
			unknown = append(unknown, fmt.Sprintf("%T %s", v, descr(v)))
		case *ssa.Parameter:
			// a pointer parameter of a module helper: what every call site passes
			callers := p.Callers(x.Parent())
			idx := paramIndex(x)
			if len(callers) == 0 || idx < 0 {
				unknown = append(unknown, "parameter "+x.Name()+" of "+shortName(x.Parent()))
				return
			}
			for _, e := range callers {
				args := e.Site.Common().Args
				if idx < len(args) {
					rec(args[idx], d+1)
				}
			}
		case *ssa.Lookup:
			org := p.valueOrigins(x.X)
			n := 0
			for _, fn := range p.ModFns {
				for _, b := range fn.Blocks {
					for _, in := range b.Instrs {
						mu, ok := in.(*ssa.MapUpdate)
						if !ok || !types.Identical(mu.Map.Type(), x.X.Type()) {
							continue
						}
						if mu.Map != x.X && !p.valueOrigins(mu.Map).intersects(org) {
							continue
						}
						n++
						rec(mu.Value, d+1)
					}
				}
			}
			if n == 0 || org.unknown() {
				unknown = append(unknown, "map "+describeMapExpr(x.X)+" of unknown content")
			}
		case *ssa.UnOp:
			if a, ok := x.X.(*ssa.Alloc); ok && x.Op == token.MUL {
				for _, sv := range cellStores(a) {
					rec(sv, d+1)
				}
				return
			}
			unknown = append(unknown, "loaded from "+descr(x.X))
		default:
			unknown = append(unknown, fmt.Sprintf("%T %s", v, descr(v)))
		}
	}
	rec(v, 0)
	return
}

// sliceIsResultCollection: the slice value an element address is taken from is the result's own collection `coll`:
// a parameter whose call-site argument is result.<coll>, a load of result.<coll>, or the function's own accumulating
// slice that it returns into result.<coll>.
func sliceIsResultCollection(c *Ctx, slice ssa.Value, coll string, fn *ssa.Function) (bool, string) {
	p := c.P
	b := newBinder(c)
	switch x := slice.(type) {
	case *ssa.Parameter:
		idx := -1
		for i, q := range x.Parent().Params {
			if q == x {
				idx = i
			}
		}
		callers := p.Callers(x.Parent())
		if len(callers) == 0 {
			return false, "no caller"
		}
		for _, e := range callers {
			arg := e.Site.Common().Args[idx]
			switch av := arg.(type) {
			case *ssa.Parameter:
				// handed through a helper: decide at the helper's own call sites
				if ok, why := sliceIsResultCollection(c, arg, coll, e.Caller); !ok {
					return false, why
				}
				continue
			case *ssa.Phi:
				// the caller's own accumulating slice, handed to a linking helper after it stopped growing
				if ok, why := sliceIsResultCollection(c, arg, coll, e.Caller); !ok {
					return false, why
				}
				if site, isInstr := e.Site.(ssa.Instruction); isInstr {
					for _, l := range naturalLoops(e.Caller) {
						if l.Header == av.Block() && l.Blocks[site.Block()] {
							return false, "the helper is called inside the loop that still appends to the slice: a later append re-allocates it and the pointers go stale"
						}
					}
				}
				continue
			}
			expr := b.bind(arg)
			if !strings.HasSuffix(expr, "."+coll) || !strings.Contains(expr, "gtfs.Static") {
				return false, "caller " + shortName(e.Caller) + " passes " + clip(expr, 80) + ", not result." + coll
			}
		}
		return true, "parameter bound to result." + coll + " at every call site"
	case *ssa.UnOp:
		expr := b.bind(slice)
		if strings.HasSuffix(expr, "."+coll) && strings.Contains(expr, "gtfs.Static") {
			return true, "result." + coll
		}
		return false, clip(expr, 80)
	case *ssa.Phi:
		// the function's own accumulating slice: it must be what the function returns, and the caller must assign it to result.<coll>
		returned := false
		for _, blk := range fn.Blocks {
			if ret, ok := blk.Instrs[len(blk.Instrs)-1].(*ssa.Return); ok && len(ret.Results) > 0 && ret.Results[0] == slice {
				returned = true
			}
		}
		if !returned {
			return false, "local slice that is not the function's result"
		}
		for _, e := range p.Callers(fn) {
			okStore := false
			if v := e.Site.Value(); v != nil {
				for _, r := range *v.Referrers() {
					if st, ok := r.(*ssa.Store); ok {
						if fa, ok := st.Addr.(*ssa.FieldAddr); ok && typeName(fa.X.Type()) == "gtfs.Static" && fieldName(fa.X.Type(), fa.Field) == coll {
							okStore = true
						}
					}
				}
			}
			if !okStore {
				return false, "caller " + shortName(e.Caller) + " does not assign the returned slice to result." + coll
			}
		}
		return true, "the function's own result slice, assigned to result." + coll + " by the caller"
	}
	return false, fmt.Sprintf("%T", slice)
}

func runRefRules(c *Ctx) {
	p := c.P
	fns := staticParseFns(c)
	// R1 + R2
	for _, rf := range refFields {
		stores := collectFieldStores(fns, rf.typ)
		n := 0
		for _, fs := range stores {
			if fs.field != rf.field {
				continue
			}
			n++
			fname := shortName(fs.fn)
			key := rf.typ + "." + rf.field
			srcs, unknown := pointerSources(p, fs.store.Val)
			var probs []string
			for _, u := range unknown {
				probs = append(probs, "pointer of unknown origin: "+u)
			}
			for _, s := range srcs {
				ia, ok := s.(*ssa.IndexAddr)
				if !ok {
					probs = append(probs, "pointer to "+descr(s)+" (a copy or a fresh object, not an element of result."+rf.coll+")")
					continue
				}
				ok2, why := sliceIsResultCollection(c, ia.X, rf.coll, ia.Parent())
				if !ok2 {
					probs = append(probs, "element address taken from "+descr(ia.X)+": "+why)
					continue
				}
				// a reference resolved by position instead of by id (the sole agency of a feed): only for a row that names
				// no id -- on every path that takes it, some id cell of the row was found blank
				if k, isK := constInt(ia.Index); isK {
					if why := positionalOnlyWhenBlank(c, ia); why != "" {
						probs = append(probs, fmt.Sprintf("element %d of result.%s is used as the reference %s", k, rf.coll, why))
					}
				}
				// R2: the address is taken when the slice no longer grows
				if phi, isPhi := ia.X.(*ssa.Phi); isPhi {
					for _, l := range naturalLoops(ia.Parent()) {
						if l.Header == phi.Block() && l.Blocks[ia.Block()] {
							probs = append(probs, "address of "+descr(ia.X)+"[i] taken inside the loop that still appends to it: a later append re-allocates the slice and the pointer goes stale")
						}
					}
				}
			}
			if len(srcs) == 0 && len(unknown) == 0 {
				continue // only nil is ever stored here (literal default)
			}
			c.Check(len(probs) == 0, "G13", fname, key+" points into result."+rf.coll, p.ipos(fs.store), fmt.Sprintf("%d source(s), all element addresses of result.%s taken after it stopped growing", len(srcs), rf.coll), strings.Join(dedup(probs), "; "))
		}
		if n == 0 {
			c.Violated("G13", "gtfs", rf.typ+"."+rf.field, "-", "reference field is never assigned")
		}
	}
	// single writer phase for every Static collection
	st := map[string]map[string]bool{}
	for _, fs := range collectFieldStores(fns, "gtfs.Static") {
		if st[fs.field] == nil {
			st[fs.field] = map[string]bool{}
		}
		st[fs.field][shortName(fs.fn)] = true
	}
	for _, coll := range []string{"Agencies", "Routes", "Stops", "Transfers", "Services", "Trips", "Shapes"} {
		ws := st[coll]
		var names []string
		for n := range ws {
			names = append(names, n)
		}
		c.Check(len(ws) == 1, "G13", "gtfs.ParseStatic", "result."+coll+" written by one phase", "-", "assigned in "+strings.Join(names, ","), fmt.Sprintf("result.%s is written in %d places (%v): element addresses taken by an earlier phase can go stale", coll, len(ws), names))
	}
	// R3: id maps: m[S[i].Id] = &S[i]
	for _, fn := range fns {
		for _, b := range fn.Blocks {
			for _, in := range b.Instrs {
				mu, ok := in.(*ssa.MapUpdate)
				if !ok {
					continue
				}
				ia, ok := mu.Value.(*ssa.IndexAddr)
				if !ok {
					continue
				}
				et := deref(ia.Type())
				if n := namedOf(et); n == nil || n.Obj().Pkg() == nil || n.Obj().Pkg().Path() != modPath {
					continue
				}
				// key: load of &X[i].<IdField>, or the copy of the element (range value).<IdField>
				kc := canon(mu.Key)
				want1 := "*(" + canon(ia) + ".Id)"
				want2 := "*(" + canon(ia) + ".ID)"
				okKey := kc == want1 || kc == want2
				if !okKey {
					// `for idx, shape := range S { m[shape.ID] = &S[idx] }`: key is a field of the cell holding a copy of S[idx]
					if ld, isLd := mu.Key.(*ssa.UnOp); isLd {
						if fa, isFA := ld.X.(*ssa.FieldAddr); isFA {
							if cell, isAlloc := fa.X.(*ssa.Alloc); isAlloc && (fieldName(fa.X.Type(), fa.Field) == "ID" || fieldName(fa.X.Type(), fa.Field) == "Id") {
								for _, sv := range cellStores(cell) {
									if l2, ok := sv.(*ssa.UnOp); ok {
										if ia2, ok := l2.X.(*ssa.IndexAddr); ok && ia2.X == ia.X && ia2.Index == ia.Index {
											okKey = true
										} else if ok && canon(ia2.X) == canon(ia.X) && ia2.Index == ia.Index {
											okKey = true
										}
									}
								}
							}
						}
					}
				}
				if !okKey {
					// `m[id(&S[i])] = &S[i]` with id a function value: every function it can be, at every call site of fn,
					// answers with the element's id field
					if call, isCall := mu.Key.(*ssa.Call); isCall && !call.Call.IsInvoke() && call.Call.StaticCallee() == nil && len(call.Call.Args) == 1 {
						arg := call.Call.Args[0]
						sameElem := arg == ssa.Value(ia) || canon(arg) == canon(ia)
						if ld, isLd := arg.(*ssa.UnOp); isLd && !sameElem {
							sameElem = ld.X == ssa.Value(ia) || canon(ld.X) == canon(ia)
						}
						fs := c.funcValues(call.Call.Value, 0)
						allID := len(fs) > 0
						for _, f := range fs {
							if n := fieldSelectorOf(f); n != "Id" && n != "ID" {
								allID = false
							}
						}
						okKey = sameElem && allID
					}
				}
				c.Check(okKey, "G13", shortName(fn), "id map "+describeMapExpr(mu.Map)+" keyed by the element's own id", p.ipos(mu), "m[S[i].id] = &S[i] with the same i", "id map entry pairs the id of one element with the address of another: key "+descr(mu.Key)+", value "+descr(mu.Value))
			}
		}
	}
}

// runRequiredRefs (R4): at every append of an entity that carries required references, those fields are non-nil.
func runRequiredRefs(c *Ctx) {
	p := c.P
	e, _ := c05Engine(c)
	req := map[string][]string{}
	for _, rf := range refFields {
		if rf.required {
			req[rf.typ] = append(req[rf.typ], rf.field)
		}
	}
	n := 0
	for _, fn := range staticParseFns(c) {
		fname := shortName(fn)
		e.analyse(fn, func(in ssa.Instruction, st fstate) {
			// whole-struct load of a local entity that is then appended / stored into a variadic array
			ld, ok := in.(*ssa.UnOp)
			if ok && ld.Op == token.MUL {
				tn := typeName(ld.Type())
				fields := req[tn]
				if _, isStruct := ld.Type().Underlying().(*types.Struct); !isStruct || len(fields) == 0 {
					return
				}
				if !feedsAppend(ld) {
					return
				}
				for _, f := range fields {
					n++
					_, has := st["NNC:"+canon(ld.X)+"."+f]
					c.Check(has, "G13", fname, tn+"."+f+" non-nil when the entity is appended", p.ipos(ld), "the reference was tested/established non-nil on every path to the append", "an entity can be appended with a nil "+f+" (GTFS requires this reference): rows whose reference does not resolve must be rejected")
				}
				return
			}
			// entity built in place inside the variadic array
			st2, ok := in.(*ssa.Store)
			if !ok {
				return
			}
			fa, ok := st2.Addr.(*ssa.FieldAddr)
			if !ok {
				return
			}
			tn := typeName(fa.X.Type())
			if _, inPlace := fa.X.(*ssa.IndexAddr); !inPlace {
				return
			}
			for _, f := range req[tn] {
				if fieldName(fa.X.Type(), fa.Field) == f {
					n++
					c.Check(e.nonNil(st2.Val, st, in, 0), "G13", fname, tn+"."+f+" non-nil when the entity is appended", p.ipos(st2), "the stored reference is non-nil at this point", "an entity can be appended with a nil "+f)
				}
			}
		})
	}
	c.Stats["G13 required-reference checks"] = n
}

func feedsAppend(v ssa.Value) bool {
	for _, r := range *v.Referrers() {
		if st, ok := r.(*ssa.Store); ok && st.Val == v {
			if ia, ok := st.Addr.(*ssa.IndexAddr); ok {
				if a, ok := ia.X.(*ssa.Alloc); ok && a.Comment == "varargs" {
					return true
				}
			}
		}
	}
	return false
}

// runForest: only parseStops links parents, every link is guarded by the ancestor test, Root's walk terminates.
func runForest(c *Ctx) {
	p := c.P
	var writers []string
	stopsRegion := map[*ssa.Function]bool{}
	if ps := c.anchor("gtfs:parseStops"); ps != nil {
		for _, g := range c.regionOf(ps) {
			stopsRegion[g] = true
		}
	}
	var stopT types.Type
	field := -1
	for _, fn := range p.ModFns {
		for _, b := range fn.Blocks {
			for _, in := range b.Instrs {
				st, ok := in.(*ssa.Store)
				if !ok {
					continue
				}
				fa, ok := st.Addr.(*ssa.FieldAddr)
				if !ok || typeName(fa.X.Type()) != "gtfs.Stop" || fieldName(fa.X.Type(), fa.Field) != "Parent" {
					continue
				}
				stopT, field = fa.X.Type(), fa.Field
				if !isNilConst(st.Val) && !stopsRegion[fn] {
					writers = append(writers, shortName(fn)+" at "+p.ipos(st))
				}
			}
		}
	}
	c.Check(len(writers) == 0, "FOREST", "gtfs", "only parseStops links parents", "-", "Stop.Parent is stored only in parseStops", "Stop.Parent is also written by "+strings.Join(writers, ", "))
	if stopT == nil {
		c.Violated("FOREST", "gtfs.parseStops", "parent links", "-", "Stop.Parent is never assigned")
		return
	}
	ok, why := fieldAcyclicByConstruction(c, stopT, field)
	c.Check(ok, "FOREST", "gtfs.parseStops", "every parent link is guarded by the ancestor test", "-", why, "a parent link can close a cycle: "+why)
	if root := c.anchor("gtfs:(*Stop).Root"); root != nil {
		e, _ := c05Engine(c)
		bp := &boundsProver{c: c, e: e, depth: 8}
		for _, l := range naturalLoops(root) {
			kind, why := classifyLoop(c, bp, root, l)
			c.Check(kind != "", "FOREST", shortName(root), "walking to the root terminates", p.pos(root.Pos()), kind+": "+why, why)
		}
	}
}

// positionalOnlyWhenBlank: ia = &S[k] (k constant) inside a row loop: every path of one trip around the loop that
// passes ia's block has found a cell of the row blank (x == "" with x read from a column). "" if so, else why not.
func positionalOnlyWhenBlank(c *Ctx, ia *ssa.IndexAddr) string {
	fn := ia.Parent()
	var loop *Loop
	for _, l := range naturalLoops(fn) {
		if !l.Blocks[ia.Block()] {
			continue
		}
		if iff, ok := l.Header.Instrs[len(l.Header.Instrs)-1].(*ssa.If); ok {
			if call, ok := iff.Cond.(*ssa.Call); ok && calleeName(call) == "(*"+modPath+"/csv.File).NextRow" {
				loop = l
			}
		}
	}
	if loop == nil {
		return "" // not decided per row
	}
	b := newBinder(c)
	n := 0
	for _, pf := range iterationPaths(loop) {
		at := -1
		for i, blk := range pf.blocks {
			if blk == ia.Block() {
				at = i
			}
		}
		if at < 0 {
			continue
		}
		n++
		blank := false
		for _, f := range pf.facts {
			if f.at >= at {
				continue
			}
			cond, val := normalizeCond(f.ce.Cond, f.ce.Val)
			bo, ok := cond.(*ssa.BinOp)
			if !ok {
				continue
			}
			if s, isS := constString(bo.Y); isS && s == "" && ((bo.Op == token.EQL && val) || (bo.Op == token.NEQ && !val)) && strings.Contains(b.bind(bo.X), "col:") {
				blank = true
			}
		}
		if !blank {
			return "on a path on which no id cell of the row was found blank: a row that names another (unknown) id is bound to this element instead of being rejected"
		}
	}
	return ""
}
