package main

// ROWSTATE: nothing recorded about one CSV row is still there when the next row is current. The per-row object of
// csv.File (found by role: the File field pointing to an unexported struct of the package) is either replaced by a
// fresh object or has every one of its fields assigned on every path of NextRow that announces a new row (returns
// true). A field that is only reset by an accessor the parsers may or may not call (e.g. the list of blank required
// cells, reset only when it is asked for) lets a rejected row leak into the row after it.

import (
	"fmt"
	"go/types"
	"sort"
	"strings"

	"golang.org/x/tools/go/ssa"
)

func runRowState(c *Ctx) {
	p := c.P
	roles := c.csvRoleNames()
	next := c.anchor("csv:(*File).NextRow")
	if next == nil {
		return
	}
	fname := shortName(next)
	// the row struct's fields
	var rowFields []string
	if pk := p.ByPath[pkgPathOf("csv")]; pk != nil {
		if o := pk.Types.Scope().Lookup(strings.TrimPrefix(roles.rowType, "csv.")); o != nil {
			if st, ok := o.Type().Underlying().(*types.Struct); ok {
				for i := 0; i < st.NumFields(); i++ {
					rowFields = append(rowFields, st.Field(i).Name())
				}
			}
		}
	}
	if len(rowFields) == 0 {
		c.Undecided("ROWSTATE", fname, "per-row state", p.pos(next.Pos()), "the per-row struct of csv.File was not found")
		return
	}
	sort.Strings(rowFields)
	missing := map[string]bool{}
	nTrue := enumPaths(next, func(path []*ssa.BasicBlock) {
		last := path[len(path)-1]
		ret := last.Instrs[len(last.Instrs)-1].(*ssa.Return)
		if len(ret.Results) != 1 {
			return
		}
		// only paths that announce a row
		v := ret.Results[0]
		if phi, ok := v.(*ssa.Phi); ok && phi.Block() == last && len(path) > 1 {
			for i, pr := range last.Preds {
				if pr == path[len(path)-2] {
					v = phi.Edges[i]
				}
			}
		}
		if k, ok := v.(*ssa.Const); ok {
			if bv, isB := constBool(k); isB && !bv {
				return
			}
		}
		set := map[string]bool{}
		fresh := false
		for _, blk := range path {
			for _, in := range blk.Instrs {
				st, ok := in.(*ssa.Store)
				if !ok {
					continue
				}
				fa, ok := st.Addr.(*ssa.FieldAddr)
				if !ok {
					continue
				}
				// f.currentRow = <fresh object>
				if fieldName(fa.X.Type(), fa.Field) == roles.curRow && typeName(deref(fa.X.Type())) == "csv.File" {
					if _, isAlloc := st.Val.(*ssa.Alloc); isAlloc {
						fresh = true
						set = map[string]bool{}
					}
					continue
				}
				if typeName(fa.X.Type()) == roles.rowType {
					set[fieldName(fa.X.Type(), fa.Field)] = true
				}
			}
		}
		if fresh {
			return // fields not mentioned in the literal are zero
		}
		for _, f := range rowFields {
			if !set[f] {
				missing[f] = true
			}
		}
	})
	var ms []string
	for f := range missing {
		ms = append(ms, f)
	}
	sort.Strings(ms)
	c.Check(len(ms) == 0 && nTrue > 0, "ROWSTATE", fname, "every per-row field is renewed when a new row becomes current", p.pos(next.Pos()),
		fmt.Sprintf("on every path of NextRow that returns true the row object is fresh or all of its fields (%s) are assigned", strings.Join(rowFields, ", ")),
		fmt.Sprintf("NextRow can announce a new row while the row's %s still hold what the previous row left there: a rejected row (one that is skipped before that state is consumed) changes how the next row is treated", strings.Join(ms, ", ")))
}
