package main

func staticGlobalWrites(c *Ctx) {
	// a parse keeps no state in package-level variables (caches keyed by less than the full context break faithfulness
	// for the next feed)
	fns, reach := c.scope(c.anchors("gtfs:ParseStatic"), scopeOpts{})
	runG7(c, "G7", parseTaintRoots(c), fns, reach, TGlobal, "a package-level cache makes the result depend on earlier parses")
}

func init() {
	register(&PropSpec{
		ID: "C01",
		Explain: "The round-trip statement over values is not decidable statically; decided are its structural necessary conditions, for every archive: " +
			"(A1) column table: for every field of Agency, Route, Stop, Transfer, Service, ScheduledTrip, ScheduledStopTime, ShapePoint/Shape, Frequency the CSV column(s) that can reach it (backward provenance through locals, phis, id maps and carrier structs) equal the GTFS reference, text columns are stored verbatim, typed columns pass through exactly their decoder; references are resolved by id lookup into the result's own collection; " +
			"(A2) every enum decoder's extracted decision table maps each GTFS digit to the constant the reference names; (TIME) H:MM:SS is 3600h+60m+s seconds, linear, without modulo, accumulated in base 10; dates use layout 20060102 in the location handed down, which is the first agency's zone or UTC, and come from nowhere else (no time.Date / Unix / AddDate construction in the static parser); " +
			"(FILL) a stop time's arrival and departure each keep their own column's value whenever that column is valid (validity is the decoder's flag, never `== 0`); (KEY) a string map key put together from several variable parts keeps them apart with constant text; (A5) the file table binds each supported file name to its parse function with GTFS's optionality, phases respect def-use order, members are looked up by exact name from a map of all archive members; " +
			"(A4/CSV) the archive member is read only by the csv reader (no raw Read on it before or beside), the CSV reader is created only over the BOM-aware transformer and only ReuseRecord is configured, header names map to their position in the first record and cells are indexed only through that map (column order, extra columns, BOM, quoting, CRLF are the library's business); (NUM) every strconv.ParseInt/ParseUint of the static parser is called with the constant base 10 and every ParseFloat with bit size 64; (SVC) the calendar_dates rules of C11; (DEF) the optional-column readers return the cell of an existing column at any position; (SCAN) no row loop is left by a break; (ROW) no row appends more than one entity; (ROWSTATE) every field of csv.File's per-row object is renewed on every path of NextRow that announces a row, so nothing recorded about one row decides the fate of the next; (G13) reference fields point at entities of the result (the rules of C03); the stop-time capacity pre-allocation never discards collected stop times; (G7) no package-level state. " +
			"Not decided: numerical correctness of strconv and the digit loop, zip/csv decoding themselves. A number decoder answers no value only for the empty cell or for what strconv rejects, and the csv column accessors answer the cell as read (a constant, the default, or an element of the record).",
		Rules: []Rule{
			{Name: "SVC", Doc: "calendar_dates: range extension guards, exception table, write-back (the rules of C11): Service fields carry what the rows say", MinInstances: 5, Run: runServiceRules},
			{Name: "REJECT", Doc: "a row is kept or rejected for what it says itself: no test that decides a rejection reads a loop-carried variable or a collection the row loop fills (a same-as-previous-row or already-seen guard loses valid rows of interleaved trips and shapes)", MinInstances: 7, Run: runRejectInert},
			{Name: "NUM", Doc: "numbers in cells are read as decimal (constant base 10) and with float64 precision; a float decoder returns strconv.ParseFloat's result, not a value of its own arithmetic", MinInstances: 2, Run: func(c *Ctx) { runNumericDecoders(c, staticParseFns(c), "NUM") }},
			{Name: "DEF", Doc: "the optional-column readers return the cell of a column that exists, at whatever position it stands (index 0 included), and the default only for an absent column or a blank cell (the summary C10 is built on)", MinInstances: 10, Run: runDefaults},
			{Name: "SCAN", Doc: "a loop that does something for each element is not left early (no break out of a processing loop)", MinInstances: 1, Run: func(c *Ctx) { runFullScan(c, staticParseFns(c), "SCAN") }},
			{Name: "A1", Doc: "column table and decoder tables against the GTFS reference", MinInstances: 49, Run: func(c *Ctx) { runColumnTable(c, nil) }},
			{Name: "TIME", Doc: "time and date formulas, zone provenance", MinInstances: 2, Run: runTimeFormulas},
			{Name: "A5", Doc: "file table: names, optionality, phase order, member lookup", MinInstances: 14, Run: runFileTable},
			{Name: "A4", Doc: "reader discipline", MinInstances: 1, Run: func(c *Ctx) { runReaderDiscipline(c); csvSideObligations(c) }},
			{Name: "ROW", Doc: "at most one entity per row", MinInstances: 5, Run: runOneAppendPerRow},
			{Name: "ROWSTATE", Doc: "nothing recorded about one row is still there when the next row is current", MinInstances: 1, Run: runRowState},
			{Name: "G13", Doc: "reference fields point at the entities of the result (provenance, growth discipline, id maps)", MinInstances: 8, Run: runRefRules},
			{Name: "PREALLOC", Doc: "capacity pre-allocation never discards stop times", MinInstances: 1, Run: runPreallocGuard},
			{Name: "FILL", Doc: "a stop time that gives both times keeps both: the other side is used only when a time is missing (decided by the decoder's validity flag, not by the value)", MinInstances: 1, Run: runFillIn},
			{Name: "KEY", Doc: "a map key built from several parts keeps them apart", MinInstances: 1, Run: func(c *Ctx) { runCompositeKeys(c, "KEY") }},
			{Name: "G7", Doc: "no package-level state in the static parser", MinInstances: 35, Run: staticGlobalWrites},
		},
	})
}
