package main

func init() {
	register(&PropSpec{
		ID: "C19",
		Explain: "Decides the iterator protocol of the directory source on the CFG, for every directory content and every fault pattern (faults are the two error edges): " +
			"NewDirectoryGtfsrtSource appends every listed entry's name exactly once and sorts the names on every path to the successful return; " +
			"in Next, every path through the retry loop is enumerated: on an empty list the stream ends and only then; otherwise exactly one element is removed, from the front, after its name was read; the file read is that front name; a read error and a parse error both lead back to the loop head (never to a return); a success returns the parse of exactly the bytes read; the loop is a consumer loop (one removal per trip, exit on empty), so it terminates. " +
			"The CLI journal command is checked as a call chain (BuildJournal fed from NewDirectoryGtfsrtSource). Together with C05 for ParseRealtime this is the whole mechanism. " +
			"Not decided: the behaviour of os.ReadDir/os.ReadFile/sort.Strings themselves; journal equality (C14/C15). (G7) nothing Next reaches keeps package-level state: the message yielded for a file depends on that file only. ParseRealtime answers nothing with a nil error before proto.Unmarshal has run (an empty file is an error and is skipped).",
		Rules: []Rule{
			{Name: "DIR", Doc: "directory source: list all, sort, consume one per iteration from the front, skip on error", MinInstances: 2, Run: runDirSource},
			{Name: "G7", Doc: "no package-level state under Next (E5 taint): what a file yields depends on that file only, not on the files parsed before it", MinInstances: 35, Run: func(c *Ctx) {
				fns, reach := c.scope(c.anchors("journal:(*DirectoryGtfsrtSource).Next"), scopeOpts{})
				runG7(c, "G7", parseTaintRoots(c), fns, reach, TGlobal, "a package-level cache makes the message yielded for one file depend on the files parsed before it")
			}},
			{Name: "UNMARSHAL", Doc: "strict decoding: what does not parse is an error (and is then skipped)", MinInstances: 1, Run: runUnmarshalDiscipline},
		},
	})
}
