package main

// Regions: a rule anchored at a function looks at that function together with the same-package helpers it
// calls (statically or as closures), so that extracting part of the function into a helper, or inlining a helper
// back, does not move code out of the rule's sight.

import (
	"go/token"
	"sort"

	"golang.org/x/tools/go/ssa"
)

func (c *Ctx) regionOf(roots ...*ssa.Function) []*ssa.Function {
	seen := map[*ssa.Function]bool{}
	var out []*ssa.Function
	var visit func(fn *ssa.Function, d int)
	visit = func(fn *ssa.Function, d int) {
		if fn == nil || seen[fn] || len(fn.Blocks) == 0 || d > 6 {
			return
		}
		seen[fn] = true
		out = append(out, fn)
		for _, b := range fn.Blocks {
			for _, in := range b.Instrs {
				switch x := in.(type) {
				case *ssa.MakeClosure:
					visit(x.Fn.(*ssa.Function), d+1)
				case ssa.CallInstruction:
					cc := x.Common()
					if cc.IsInvoke() {
						continue
					}
					if cal := cc.StaticCallee(); cal != nil && c.P.isModuleFn(cal) && fnPkgPath(cal) == fnPkgPath(roots[0]) {
						visit(cal, d+1)
					}
					for _, a := range cc.Args {
						if f, ok := a.(*ssa.Function); ok && c.P.isModuleFn(f) {
							visit(f, d+1)
						}
					}
				}
			}
		}
	}
	for _, r := range roots {
		visit(r, 0)
	}
	sort.SliceStable(out[len(roots):], func(i, j int) bool { return out[len(roots)+i].String() < out[len(roots)+j].String() })
	return out
}

// instrBefore: a and b are in the same function and a is executed before b on every path that reaches b.
func instrBefore(a, b ssa.Instruction) bool {
	if a.Parent() != b.Parent() {
		return false
	}
	if a.Block() == b.Block() {
		for _, in := range a.Block().Instrs {
			if in == a {
				return true
			}
			if in == b {
				return false
			}
		}
		return false
	}
	return a.Block().Dominates(b.Block())
}

// alwaysExecuted: every normal return of in's function is preceded by in.
func alwaysExecuted(in ssa.Instruction) bool {
	fn := in.Parent()
	n := 0
	for _, b := range fn.Blocks {
		if ret, ok := b.Instrs[len(b.Instrs)-1].(*ssa.Return); ok {
			n++
			if !instrBefore(in, ret) {
				return false
			}
		}
	}
	return n > 0
}

// mustPrecede: whenever b executes, a has executed before it (within one activation of their common caller).
// Decided by dominance inside one function, lifted through call sites: a may sit in a helper that always runs it and
// whose call precedes b; b may sit in a helper all of whose call sites are preceded by a.
func (c *Ctx) mustPrecede(a, b ssa.Instruction) bool { return c.mustPrecedeD(a, b, 0) }

func (c *Ctx) mustPrecedeD(a, b ssa.Instruction, d int) bool {
	if d > 5 {
		return false
	}
	if a.Parent() == b.Parent() {
		return instrBefore(a, b)
	}
	// lift a: some call site of a's function, where a is always executed, precedes b
	if alwaysExecuted(a) {
		for _, e := range c.P.Callers(a.Parent()) {
			if site, ok := e.Site.(ssa.Instruction); ok && c.mustPrecedeD(site, b, d+1) {
				return true
			}
		}
	}
	// lift b: every call site of b's function is preceded by a
	callers := c.P.Callers(b.Parent())
	if len(callers) == 0 {
		return false
	}
	for _, e := range callers {
		site, ok := e.Site.(ssa.Instruction)
		if !ok || !c.mustPrecedeD(a, site, d+1) {
			return false
		}
	}
	return true
}

// runLoopVarAlias: under the module's language version (go 1.18: one variable per loop, not per iteration) the address
// of a loop variable that is stored into something outliving the iteration makes every such entry point at the same
// variable, i.e. at the last element. Reported for every variable whose cell is created outside a loop, assigned
// inside it, and whose address is stored / appended / put into a map inside that loop.
func runLoopVarAlias(c *Ctx, fns []*ssa.Function, rule string) {
	p := c.P
	n := 0
	for _, fn := range fns {
		loops := naturalLoops(fn)
		if len(loops) == 0 {
			continue
		}
		for _, b := range fn.Blocks {
			for _, in := range b.Instrs {
				a, ok := in.(*ssa.Alloc)
				if !ok || a.Comment == "" || a.Comment == "complit" || a.Comment == "varargs" || a.Referrers() == nil {
					continue
				}
				for _, l := range loops {
					if l.Blocks[a.Block()] {
						continue // created inside the loop: a fresh variable per iteration
					}
					assigned := false
					for _, r := range *a.Referrers() {
						if st, ok := r.(*ssa.Store); ok && st.Addr == ssa.Value(a) && l.Blocks[st.Block()] {
							assigned = true
						}
					}
					if !assigned {
						continue
					}
					n++
					kept := ""
					for _, r := range *a.Referrers() {
						ri, _ := r.(ssa.Instruction)
						if ri == nil || !l.Blocks[ri.Block()] {
							continue
						}
						switch x := r.(type) {
						case *ssa.Store:
							if x.Val == ssa.Value(a) {
								if _, isLocal := x.Addr.(*ssa.Alloc); !isLocal || true {
									kept = p.ipos(x) + ": &" + a.Comment + " stored into " + describeAddr(x.Addr)
								}
							}
						case *ssa.MapUpdate:
							if x.Value == ssa.Value(a) || x.Key == ssa.Value(a) {
								kept = p.ipos(x) + ": &" + a.Comment + " put into a map"
							}
						case *ssa.MakeInterface:
							kept = p.ipos(x) + ": &" + a.Comment + " converted to an interface value"
						}
					}
					if kept != "" {
						c.Violated(rule, shortName(fn), "address of loop variable "+a.Comment+" kept", p.ipos(a), "the loop assigns "+a.Comment+" on every iteration and keeps its address ("+kept+"); the module's language version gives the loop ONE such variable, so every kept pointer sees the last iteration's value")
					}
				}
			}
		}
	}
	c.Stats[rule+" loop variables examined for address escape"] = n
}

// valueLeaves follows a value backwards through everything that merely passes it along -- phis, local cells, captured
// variables, parameters (to the arguments at every call site), fields of struct values that were built locally (to
// what was stored into that field) -- and returns the values where that stops (calls, loads from heap objects,
// constants, globals). It lets a rule ask "what is this, ultimately" without caring how many helpers, parameter
// structs or temporaries it travelled through.
func (c *Ctx) valueLeaves(v ssa.Value) []ssa.Value {
	seen := map[ssa.Value]bool{}
	var out []ssa.Value
	var walk func(v ssa.Value, d int)
	// fieldOf: the values field idx of struct-valued / struct-pointer-valued x can hold
	var fieldOf func(x ssa.Value, idx int, d int) bool
	fieldOf = func(x ssa.Value, idx int, d int) bool {
		if d > 12 {
			return false
		}
		switch y := x.(type) {
		case *ssa.Alloc:
			n := 0
			for _, r := range *y.Referrers() {
				switch z := r.(type) {
				case *ssa.FieldAddr:
					if z.Field == idx {
						for _, r2 := range *z.Referrers() {
							if st, ok := r2.(*ssa.Store); ok && st.Addr == ssa.Value(z) {
								walk(st.Val, d+1)
								n++
							}
						}
					}
				case *ssa.Store:
					if z.Addr == ssa.Value(y) {
						if fieldOf(z.Val, idx, d+1) {
							n++
						}
					}
				}
			}
			return n > 0
		case *ssa.UnOp:
			if y.Op == token.MUL {
				return fieldOf(y.X, idx, d+1) // a copy of the struct another cell holds
			}
		case *ssa.Parameter:
			callers := c.P.Callers(y.Parent())
			pi := paramIndex(y)
			if len(callers) == 0 || pi < 0 {
				return false
			}
			ok := true
			for _, e := range callers {
				args := e.Site.Common().Args
				if pi >= len(args) || !fieldOf(args[pi], idx, d+1) {
					ok = false
				}
			}
			return ok
		case *ssa.Phi:
			ok := true
			for _, e := range y.Edges {
				if !fieldOf(e, idx, d+1) {
					ok = false
				}
			}
			return ok
		}
		return false
	}
	walk = func(v ssa.Value, d int) {
		if v == nil || seen[v] {
			return
		}
		seen[v] = true
		if d > 16 {
			out = append(out, v)
			return
		}
		switch x := v.(type) {
		case *ssa.Phi:
			for _, e := range x.Edges {
				walk(e, d+1)
			}
		case *ssa.ChangeType:
			walk(x.X, d+1)
		case *ssa.MakeInterface:
			walk(x.X, d+1)
		case *ssa.Parameter:
			callers := c.P.Callers(x.Parent())
			pi := paramIndex(x)
			if len(callers) == 0 || pi < 0 {
				out = append(out, v)
				return
			}
			for _, e := range callers {
				args := e.Site.Common().Args
				if pi < len(args) {
					walk(args[pi], d+1)
				} else {
					out = append(out, v)
				}
			}
		case *ssa.FreeVar:
			fn := x.Parent()
			idx := freeVarIndex(fn, x)
			found := false
			if par := fn.Parent(); par != nil {
				for _, b := range par.Blocks {
					for _, in := range b.Instrs {
						if mc, ok := in.(*ssa.MakeClosure); ok && mc.Fn == ssa.Value(fn) && idx < len(mc.Bindings) {
							walk(mc.Bindings[idx], d+1)
							found = true
						}
					}
				}
			}
			if !found {
				out = append(out, v)
			}
		case *ssa.Field:
			if !fieldOf(x.X, x.Field, d+1) {
				out = append(out, v)
			}
		case *ssa.UnOp:
			if x.Op != token.MUL {
				out = append(out, v)
				return
			}
			switch a := x.X.(type) {
			case *ssa.Alloc:
				n := 0
				for _, sv := range cellStores(a) {
					walk(sv, d+1)
					n++
				}
				if n == 0 {
					out = append(out, v)
				}
			case *ssa.FreeVar:
				// the captured cell: what the enclosing function (and its other closures) store into it
				walk(a, d+1)
			case *ssa.FieldAddr:
				if !fieldOf(a.X, a.Field, d+1) {
					out = append(out, v)
				}
			default:
				out = append(out, v)
			}
		case *ssa.Alloc:
			// reached as the binding of a captured variable: the cell's contents
			n := 0
			for _, sv := range cellStores(x) {
				walk(sv, d+1)
				n++
			}
			if n == 0 {
				out = append(out, v)
			}
		default:
			out = append(out, v)
		}
	}
	walk(v, 0)
	return out
}
