package main

// Structural rules for ParseRealtime: merge discipline (C07), trip/vehicle links (C04),
// presence guards of the entity parsers (C02/C04).

import (
	"fmt"
	"go/constant"
	"go/token"
	"go/types"
	"regexp"
	"sort"
	"strings"

	"golang.org/x/tools/go/ssa"
)

type rtCtx struct {
	c          *Ctx
	fn         *ssa.Function // ParseRealtime
	fname      string
	entity     *Loop // the entity loop (calls parseTripUpdate)
	loops      []*Loop
	mergeTrip  *ssa.Function
	mergeVeh   *ssa.Function
	parseTU    *ssa.Function
	parseVeh   *ssa.Function
	parseAlert *ssa.Function
}

func newRtCtx(c *Ctx) *rtCtx {
	r := &rtCtx{c: c}
	r.fn = c.anchor("gtfs:ParseRealtime")
	r.mergeTrip = c.anchor("gtfs:mergeTrip")
	r.mergeVeh = c.anchor("gtfs:mergeVehicle")
	r.parseTU = c.anchor("gtfs:parseTripUpdate")
	r.parseVeh = c.anchor("gtfs:parseVehicle")
	r.parseAlert = c.anchor("gtfs:parseAlert")
	if r.fn == nil || r.mergeTrip == nil || r.mergeVeh == nil || r.parseTU == nil || r.parseVeh == nil || r.parseAlert == nil {
		return nil
	}
	r.fname = shortName(r.fn)
	r.loops = naturalLoops(r.fn)
	for _, l := range r.loops {
		for b := range l.Blocks {
			for _, in := range b.Instrs {
				if call, ok := in.(*ssa.Call); ok && (staticCallee(call) == r.parseTU || callsDirectly(staticCallee(call), r.parseTU)) {
					if r.entity == nil || len(l.Blocks) < len(r.entity.Blocks) {
						r.entity = l
					}
				}
			}
		}
	}
	if r.entity == nil {
		c.Undecided("RT", r.fname, "entity loop", c.P.pos(r.fn.Pos()), "the loop over the feed's entities that calls parseTripUpdate was not found")
		return nil
	}
	return r
}

// pathsFrom enumerates acyclic paths starting at block `from` until the loop header of l is reached again or the loop is left.
func pathsWithin(from *ssa.BasicBlock, l *Loop, visit func(path []*ssa.BasicBlock, backToHeader bool)) int {
	n := 0
	var rec func(b *ssa.BasicBlock, path []*ssa.BasicBlock, on map[*ssa.BasicBlock]bool)
	rec = func(b *ssa.BasicBlock, path []*ssa.BasicBlock, on map[*ssa.BasicBlock]bool) {
		if n > 20000 {
			return
		}
		path = append(path, b)
		on[b] = true
		defer delete(on, b)
		for _, s := range b.Succs {
			if s == l.Header {
				n++
				visit(append([]*ssa.BasicBlock{}, path...), true)
				continue
			}
			if !l.Blocks[s] {
				n++
				visit(append([]*ssa.BasicBlock{}, path...), false)
				continue
			}
			if on[s] {
				continue
			}
			rec(s, path, on)
		}
	}
	rec(from, nil, map[*ssa.BasicBlock]bool{})
	return n
}

func mapName(v ssa.Value) string { return describeMapExpr(v) }

// ---------------------------------------------------------------- C07

func runMergeRules(c *Ctx) {
	r := newRtCtx(c)
	if r == nil {
		return
	}
	p := c.P
	fn := r.fn
	// --- M2: mergeTrip / mergeVehicle: id always, everything only for the entity's own version
	for _, m := range []*ssa.Function{r.mergeTrip, r.mergeVeh} {
		mergeShape(c, m)
	}
	// --- M0: when the entity parsers are called from a per-entity dispatcher that hands their results back in a struct,
	// that struct carries every result of the parser that was called (a result left out never reaches the merges below)
	for _, g := range c.regionOf(fn) {
		if !callsDirectly(g, r.parseTU) || g == fn {
			continue
		}
		for _, b := range g.Blocks {
			for _, in := range b.Instrs {
				pc, ok := in.(*ssa.Call)
				if !ok || (staticCallee(pc) != r.parseTU && staticCallee(pc) != r.parseVeh && staticCallee(pc) != r.parseAlert) {
					continue
				}
				res := staticCallee(pc).Signature.Results()
				var dropped []string
				for i := 0; i < res.Len(); i++ {
					if bt, isB := res.At(i).Type().Underlying().(*types.Basic); isB && bt.Kind() == types.Bool {
						continue
					}
					kept := false
					for _, ref := range *pc.Referrers() {
						ex, isEx := ref.(*ssa.Extract)
						if !isEx || ex.Index != i || ex.Referrers() == nil {
							continue
						}
						for _, r2 := range *ex.Referrers() {
							st, isSt := r2.(*ssa.Store)
							if !isSt || st.Val != ssa.Value(ex) {
								continue
							}
							fa, isFA := st.Addr.(*ssa.FieldAddr)
							if !isFA {
								continue
							}
							al, isAl := fa.X.(*ssa.Alloc)
							if !isAl {
								continue
							}
							// the struct is what a return of this path hands back
							for _, rb := range g.Blocks {
								ret, isRet := rb.Instrs[len(rb.Instrs)-1].(*ssa.Return)
								if !isRet || !(b == rb || b.Dominates(rb)) {
									continue
								}
								for _, rv := range ret.Results {
									if ld, isLd := rv.(*ssa.UnOp); isLd && ld.Op == token.MUL && ld.X == ssa.Value(al) {
										kept = true
									}
								}
							}
						}
					}
					if !kept {
						dropped = append(dropped, fmt.Sprintf("result #%d (%s)", i, shortType(res.At(i).Type())))
					}
				}
				c.Check(len(dropped) == 0, "MERGE", shortName(g), "the dispatcher hands back everything "+staticCallee(pc).Name()+" returned", p.ipos(pc), "every result is stored into the struct that the path returns", "the per-entity dispatcher drops "+strings.Join(dropped, ", ")+" of "+staticCallee(pc).Name()+": it never reaches the accumulators")
			}
		}
	}
	// --- M1: every parsed trip / id-bearing vehicle / alert trip is merged into its accumulator
	type mergeSite struct {
		call *ssa.Call
		acc  ssa.Value // the map
	}
	var tripsMap, vehMap ssa.Value
	for _, g := range c.regionOf(fn) {
		for _, b := range g.Blocks {
			for _, in := range b.Instrs {
				call, ok := in.(*ssa.Call)
				if !ok {
					continue
				}
				switch staticCallee(call) {
				case r.mergeTrip, r.mergeVeh:
					acc := call.Call.Args[0]
					m, key := resolveAccLookup(c, acc)
					if m != nil {
						m = callerMap(c, m) // a get-or-create-and-merge helper is handed the accumulator
					}
					m = mapCellOf(c, m)
					if m == nil {
						c.Violated("MERGE", r.fname, "merge target of "+shortName(staticCallee(call)), p.ipos(call), "merge target is not the accumulator looked up by the entity's id")
						continue
					}
					if staticCallee(call) == r.mergeTrip {
						tripsMap = m
					} else {
						vehMap = m
					}
					// the key is the id of the merged value: m[x.ID] with merged value *x (or x for struct elements)
					merged := call.Call.Args[1]
					okKey := false
					if key != nil {
						kc := canon(key)
						mc := canon(merged)
						// key "*(X.ID)" (or "*(*(X.ID))" for vehicles) and merged "*(X)"
						for _, pat := range []string{"*(%s.ID)", "*(*(%s.ID))"} {
							base := strings.TrimSuffix(strings.TrimPrefix(mc, "*("), ")")
							if kc == fmt.Sprintf(pat, base) {
								okKey = true
							}
						}
					}
					// key and value both handed to a get-or-create-and-merge helper: the relation is that of its call sites
					if kp, isKP := key.(*ssa.Parameter); !okKey && key != nil && isKP {
						if mp, isMP := merged.(*ssa.Parameter); isMP && kp.Parent() == mp.Parent() && kp.Parent() != fn {
							g := kp.Parent()
							ki, mi := -1, -1
							for i, prm := range g.Params {
								if prm == kp {
									ki = i
								}
								if prm == mp {
									mi = i
								}
							}
							nSites, okSites := 0, true
							for _, e := range p.Callers(g) {
								if e.Site == nil || ki < 0 || mi < 0 || len(e.Site.Common().Args) != len(g.Params) {
									okSites = false
									continue
								}
								nSites++
								kc, mc := canon(e.Site.Common().Args[ki]), canon(e.Site.Common().Args[mi])
								base := strings.TrimSuffix(strings.TrimPrefix(mc, "*("), ")")
								if kc != fmt.Sprintf("*(%s.ID)", base) && kc != fmt.Sprintf("*(*(%s.ID))", base) {
									okSites = false
								}
							}
							okKey = okSites && nSites > 0
						}
					}
					c.Check(okKey, "MERGE", r.fname, "merge key of "+shortName(staticCallee(call))+" is the merged entity's own id", p.ipos(call), "accumulator looked up under the id of the value merged into it", "accumulator is looked up under a key other than the id of the value being merged: "+canon(acc)+" <- "+canon(merged))
				}
			}
		}
	}
	if tripsMap == nil || vehMap == nil {
		c.Violated("MERGE", r.fname, "merge calls", p.pos(fn.Pos()), "mergeTrip / mergeVehicle are not both called from ParseRealtime")
		return
	}
	// M1 paths: from `trip != nil` (the parsed trip phi) every path back to the loop head calls mergeTrip(*trip)
	checkMergedOnAllPaths(r, r.mergeTrip, "Trip", "trip")
	checkMergedOnAllPaths(r, r.mergeVeh, "Vehicle", "vehicle")
	// alert trips: a range over the slice returned by parseAlert, each element merged
	alertMerged := false
	for _, l := range r.loops {
		if l == r.entity || !r.entity.Blocks[l.Header] {
			continue
		}
		// inner loop: must contain mergeTrip of the range element on every trip around it
		ok := true
		found := false
		pathsWithin(l.Header, l, func(path []*ssa.BasicBlock, back bool) {
			if !back {
				return
			}
			has := false
			for _, b := range path {
				for _, in := range b.Instrs {
					if call, isCall := in.(*ssa.Call); isCall && mergedArg(c, call, r.mergeTrip) != nil {
						has = true
						found = true
					}
				}
			}
			if !has {
				ok = false
			}
		})
		if found {
			alertMerged = ok
		}
	}
	c.Check(alertMerged, "MERGE", r.fname, "every alert-referenced trip is merged", p.pos(fn.Pos()), "each element of the alert's trip list is merged on every trip around the inner loop", "a trip referenced from an alert is not merged into the trips on every path")

	// --- M3: accumulators are created only when absent, as zero values, under the same key
	for _, g := range c.regionOf(fn) {
		for _, b := range g.Blocks {
			for _, in := range b.Instrs {
				mu, ok := in.(*ssa.MapUpdate)
				if !ok || !(sameMapAs(c, mu.Map, tripsMap, 0) || sameMapAs(c, mu.Map, vehMap, 0) || mapCellOf(c, mu.Map) == tripsMap || mapCellOf(c, mu.Map) == vehMap) {
					continue
				}
				okGuard := false
				for _, ce := range dominatingConds(b) {
					cond, val := ce.Cond, ce.Val
					if u, isNot := cond.(*ssa.UnOp); isNot && u.Op == token.NOT {
						cond, val = u.X, !val
					}
					if ex, isEx := cond.(*ssa.Extract); isEx && ex.Index == 1 && !val {
						if lk, isLk := ex.Tuple.(*ssa.Lookup); isLk && (lk.X == mu.Map || mapCellOf(c, lk.X) == mapCellOf(c, mu.Map)) && canon(lk.Index) == canon(mu.Key) {
							okGuard = true
						}
					}
				}
				fresh := false
				if a, isAlloc := mu.Value.(*ssa.Alloc); isAlloc {
					fresh = true
					for _, ref := range *a.Referrers() {
						if _, isFA := ref.(*ssa.FieldAddr); isFA {
							fresh = false // pre-filled accumulator
						}
					}
				}
				c.Check(okGuard && fresh, "MERGE", r.fname, "accumulator "+shortType(mu.Map.Type())+" created only when absent", p.ipos(mu), "zero accumulator stored on the !ok edge of a lookup under the same key (never reset)", "an accumulator entry is overwritten or pre-filled: a later mention can erase what an earlier entity contributed")
			}
		}
	}

	// --- U1: result.Trips only from the range over the trips accumulator, result.Vehicles only from the range over the
	// vehicles accumulator and from the no-id list; V1: the no-id list only receives vehicles whose ID is nil
	mrs := findMapRanges(c.regionOf(fn))
	var noIDList ssa.Value
	// one appended entry of a result list: the append call, where it is, and how to report it
	type appSite struct {
		call *ssa.Call
		pos  string
	}
	// appendSites of a list value built by a helper: every append on the chains that end in its returns
	var chainSites func(v ssa.Value, seen map[ssa.Value]bool, out *[]appSite, d int) bool
	chainSites = func(v ssa.Value, seen map[ssa.Value]bool, out *[]appSite, d int) bool {
		if seen[v] {
			return true
		}
		seen[v] = true
		if d > 40 {
			return false
		}
		switch x := v.(type) {
		case *ssa.Const:
			return x.Value == nil
		case *ssa.MakeSlice:
			k, isC := constInt(x.Len)
			return isC && k == 0
		case *ssa.Phi:
			for _, ed := range x.Edges {
				if !chainSites(ed, seen, out, d+1) {
					return false
				}
			}
			return true
		case *ssa.Call:
			if isBuiltin(x, "append") {
				*out = append(*out, appSite{x, p.ipos(x)})
				return chainSites(x.Call.Args[0], seen, out, d+1)
			}
		case *ssa.UnOp:
			// a list variable captured by a closure (the sort's comparator) lives in a cell
			if al, isAl := x.X.(*ssa.Alloc); isAl && x.Op == token.MUL {
				vals := cellStores(al)
				if len(vals) == 0 {
					return true // never assigned: nil
				}
				for _, sv := range vals {
					if !chainSites(sv, seen, out, d+1) {
						return false
					}
				}
				return true
			}
		}
		return false
	}
	for _, b := range fn.Blocks {
		for _, in := range b.Instrs {
			st, ok := in.(*ssa.Store)
			if !ok {
				continue
			}
			fa, ok := st.Addr.(*ssa.FieldAddr)
			if !ok || typeName(fa.X.Type()) != "gtfs.Realtime" {
				continue
			}
			field := fieldName(fa.X.Type(), fa.Field)
			if field != "Trips" && field != "Vehicles" {
				continue
			}
			var sites []appSite
			if isAppendOf(st.Val, st.Addr) {
				sites = []appSite{{st.Val.(*ssa.Call), p.ipos(st)}}
			} else if call, isCall := st.Val.(*ssa.Call); isCall && !call.Call.IsInvoke() && call.Call.StaticCallee() != nil && p.isModuleFn(call.Call.StaticCallee()) && len(call.Call.StaticCallee().Blocks) > 0 {
				// the list is built by a helper and assigned once
				h := call.Call.StaticCallee()
				okChain := true
				for _, hb := range h.Blocks {
					if ret, isRet := hb.Instrs[len(hb.Instrs)-1].(*ssa.Return); isRet {
						if len(ret.Results) != 1 || !chainSites(ret.Results[0], map[ssa.Value]bool{}, &sites, 0) {
							okChain = false
						}
					}
				}
				if !okChain || len(sites) == 0 {
					c.Violated("UNIQ", r.fname, "Realtime."+field+" assigned", p.ipos(st), "Realtime."+field+" is assigned a list whose construction (in "+shortName(h)+") is not a chain of one-entry appends")
					continue
				}
			} else {
				c.Violated("UNIQ", r.fname, "Realtime."+field+" assigned", p.ipos(st), "Realtime."+field+" is assigned something other than append(itself, one entry)")
				continue
			}
			want := tripsMap
			if field == "Vehicles" {
				want = vehMap
			}
			for _, site := range sites {
				sb := site.call.Block()
				inRange := false
				for _, mr := range mrs {
					if mapCellOf(c, mr.rng.X) == want && mr.loop != nil && mr.loop.Blocks[sb] {
						// appended element is a copy of the range value
						if el := appendedElem(site.call); el != nil && derivedFrom(el, map[ssa.Value]bool{mr.val: true}, false) {
							inRange = true
						}
					}
				}
				if !inRange && field == "Vehicles" {
					// the no-id list: a range over a slice variable
					for _, l := range naturalLoops(sb.Parent()) {
						if !l.Blocks[sb] {
							continue
						}
						el := appendedElem(site.call)
						var ia *ssa.IndexAddr
						findIA(el, &ia, 0)
						if ia != nil {
							if ok, _ := isRangeIndexOver(ia.Index, ia.X); ok {
								noIDList = ia.X
								inRange = true
							}
						}
					}
				}
				c.Check(inRange, "UNIQ", r.fname, "Realtime."+field+" filled from the id-keyed accumulator", site.pos, "one entry per key of the accumulator map (unique by construction)", "an entry is appended to Realtime."+field+" outside the range over the id-keyed accumulator: duplicates of one identifier become possible")
			}
		}
	}
	// the no-id list handed to a helper: what the (only) caller passes
	for i := 0; i < 3; i++ {
		prm, isParam := noIDList.(*ssa.Parameter)
		if !isParam {
			break
		}
		callers := p.Callers(prm.Parent())
		idx := paramIndex(prm)
		if len(callers) != 1 || callers[0].Site == nil || idx < 0 || idx >= len(callers[0].Site.Common().Args) {
			break
		}
		noIDList = callers[0].Site.Common().Args[idx]
	}
	if noIDList != nil {
		// every append into the no-id list chain is guarded by vehicle.ID == nil for the appended vehicle
		seen := map[ssa.Value]bool{}
		var walk func(v ssa.Value, d int)
		okAll := true
		n := 0
		walk = func(v ssa.Value, d int) {
			if seen[v] || d > 30 {
				return
			}
			seen[v] = true
			switch x := v.(type) {
			case *ssa.Phi:
				for _, ed := range x.Edges {
					walk(ed, d+1)
				}
			case *ssa.Call:
				if isBuiltin(x, "append") {
					n++
					walk(x.Call.Args[0], d+1)
					// the appended vehicle
					var veh ssa.Value
					if sl, ok := x.Call.Args[1].(*ssa.Slice); ok {
						if arr, ok := sl.X.(*ssa.Alloc); ok {
							for _, ref := range *arr.Referrers() {
								if ia, ok := ref.(*ssa.IndexAddr); ok {
									for _, r2 := range *ia.Referrers() {
										if st, ok := r2.(*ssa.Store); ok {
											veh = st.Val
											if ld, isLd := veh.(*ssa.UnOp); isLd && ld.Op == token.MUL {
												if _, isPtr := veh.Type().Underlying().(*types.Pointer); !isPtr {
													veh = ld.X // appended by value: *vehicle
												}
											}
										}
									}
								}
							}
						}
					}
					guarded := false
					if veh != nil {
						want := "*(" + canon(veh) + ".ID)"
						for _, ce := range dominatingConds(x.Block()) {
							if bo, ok := ce.Cond.(*ssa.BinOp); ok && isNilConst(bo.Y) && canon(bo.X) == want {
								if (bo.Op == token.EQL && ce.Val) || (bo.Op == token.NEQ && !ce.Val) {
									guarded = true
								}
							}
						}
					}
					if !guarded {
						okAll = false
					}
				}
			}
		}
		walk(noIDList, 0)
		c.Check(okAll && n > 0, "UNIQ", r.fname, "only vehicles without any identifier bypass the id-keyed accumulator", p.pos(fn.Pos()), fmt.Sprintf("all %d appends to the no-id list are on the vehicle.ID == nil edge", n), "a vehicle that has an identifier (id, label or licence plate) can reach the unkeyed list: the same vehicle mentioned twice yields two entries")
	}

	// --- A1: alerts keep feed order
	okAlerts, nAlerts := true, 0
	for _, b := range fn.Blocks {
		for _, in := range b.Instrs {
			switch x := in.(type) {
			case *ssa.Store:
				fa, ok := x.Addr.(*ssa.FieldAddr)
				if !ok || typeName(fa.X.Type()) != "gtfs.Realtime" || fieldName(fa.X.Type(), fa.Field) != "Alerts" {
					continue
				}
				nAlerts++
				if !isAppendOf(x.Val, x.Addr) || !r.entity.Blocks[b] {
					okAlerts = false
				}
				// not inside an inner loop of the entity loop
				for _, l := range r.loops {
					if l != r.entity && l.Blocks[b] && r.entity.Blocks[l.Header] {
						okAlerts = false
					}
				}
			case *ssa.Call:
				if isSortCall(calleeName(x)) {
					if ld, ok := sortTarget(x).(*ssa.UnOp); ok && strings.HasSuffix(canon(ld.X), ".Alerts") {
						okAlerts = false
					}
				}
			}
		}
	}
	// the entity loop visits the feed's entities by increasing index
	rangeOK := false
	for _, in := range r.entity.Header.Instrs {
		if phi, ok := in.(*ssa.Phi); ok && phi.Comment == "rangeindex" {
			rangeOK = true
		}
	}
	c.Check(okAlerts && nAlerts > 0 && rangeOK, "ORDER", r.fname, "alerts keep feed order", p.pos(fn.Pos()), "Realtime.Alerts is built only by tail appends, once per entity, in the index-order range over the feed's entities, and never sorted", "Realtime.Alerts is not built by one tail append per alert entity in feed order")
}

func lookupOf(v ssa.Value) *ssa.Lookup {
	switch x := v.(type) {
	case *ssa.Lookup:
		return x
	case *ssa.Extract:
		lk, _ := x.Tuple.(*ssa.Lookup)
		return lk
	}
	return nil
}

func findIA(v ssa.Value, out **ssa.IndexAddr, d int) {
	if v == nil || d > 10 || *out != nil {
		return
	}
	switch x := v.(type) {
	case *ssa.IndexAddr:
		if isLocalArrayAlloc(x.X) == nil {
			*out = x
			return
		}
	case *ssa.UnOp:
		findIA(x.X, out, d+1)
	case *ssa.Slice:
		findIA(x.X, out, d+1)
	case *ssa.Alloc:
		for _, r := range *x.Referrers() {
			if ia, ok := r.(*ssa.IndexAddr); ok {
				for _, r2 := range *ia.Referrers() {
					if st, ok := r2.(*ssa.Store); ok {
						findIA(st.Val, out, d+1)
					}
				}
			}
		}
	}
}

// mergeShape (M2): merge(acc, new): acc.ID = new.ID unconditionally; if !new.IsEntityInMessage nothing else;
// otherwise *acc = new.
func mergeShape(c *Ctx, m *ssa.Function) {
	p := c.P
	fname := shortName(m)
	if len(m.Params) != 2 {
		c.Undecided("MERGE", fname, "signature", p.pos(m.Pos()), "merge function does not take (accumulator, new value)")
		return
	}
	acc, nw := m.Params[0], m.Params[1]
	// the incoming value: passed by value (then it lives in its spill cell) or by pointer
	var newObj ssa.Value = nw
	newCell := ssa.Value(nil)
	if _, isPtr := nw.Type().Underlying().(*types.Pointer); !isPtr {
		for _, r := range *nw.Referrers() {
			if st, ok := r.(*ssa.Store); ok && st.Val == ssa.Value(nw) {
				newCell = st.Addr
			}
		}
		if newCell != nil {
			newObj = newCell
		}
	}
	isNewField := func(v ssa.Value, field string) bool {
		ld, ok := v.(*ssa.UnOp)
		if !ok || ld.Op != token.MUL {
			return false
		}
		fa, ok := ld.X.(*ssa.FieldAddr)
		return ok && fa.X == newObj && fieldName(fa.X.Type(), fa.Field) == field
	}
	var idStore, wholeStore *ssa.Store
	var others []string
	for _, b := range m.Blocks {
		for _, in := range b.Instrs {
			st, ok := in.(*ssa.Store)
			if !ok || (newCell != nil && st.Addr == newCell) {
				continue
			}
			switch a := st.Addr.(type) {
			case *ssa.FieldAddr:
				if a.X == ssa.Value(acc) && fieldName(a.X.Type(), a.Field) == "ID" {
					idStore = st
					continue
				}
				others = append(others, p.ipos(st)+": store to "+describeAddr(st.Addr))
			case *ssa.Parameter:
				if a == acc {
					wholeStore = st
					continue
				}
				others = append(others, p.ipos(st))
			default:
				others = append(others, p.ipos(st)+": store to "+describeAddr(st.Addr))
			}
		}
	}
	// on every path to a return the accumulator's ID is the incoming one: assigned directly, or as part of the whole value
	okID := idStore != nil && isNewField(idStore.Val, "ID")
	if okID {
		var walk func(b *ssa.BasicBlock, got bool, on map[*ssa.BasicBlock]bool)
		walk = func(b *ssa.BasicBlock, got bool, on map[*ssa.BasicBlock]bool) {
			if on[b] || !okID {
				return
			}
			on[b] = true
			defer delete(on, b)
			for _, in := range b.Instrs {
				if st, ok := in.(*ssa.Store); ok && (st == idStore || (wholeStore != nil && st == wholeStore)) {
					got = true
				}
				if _, isRet := in.(*ssa.Return); isRet && !got {
					okID = false
				}
			}
			for _, s2 := range b.Succs {
				walk(s2, got, on)
			}
		}
		walk(m.Blocks[0], false, map[*ssa.BasicBlock]bool{})
	}
	c.Check(okID, "MERGE", fname, "identifier always taken", p.pos(m.Pos()), "acc.ID = new.ID on every path", "the accumulator's identifier is not set from every mention")
	okWhole := false
	if wholeStore != nil {
		for _, ce := range dominatingConds(wholeStore.Block()) {
			if ce.Val && isNewField(ce.Cond, "IsEntityInMessage") {
				okWhole = true
			}
		}
		// stored value is the new value: a load of the whole incoming object
		if ld, ok := wholeStore.Val.(*ssa.UnOp); !ok || ld.Op != token.MUL || ld.X != newObj {
			if wholeStore.Val != ssa.Value(nw) {
				okWhole = false
			}
		}
	}
	c.Check(okWhole, "MERGE", fname, "own entity wins", p.pos(m.Pos()), "*acc = new exactly on the new.IsEntityInMessage edge", "the whole accumulator is not replaced exactly when the incoming value is the entity's own version (the test must be on the incoming value's IsEntityInMessage)")
	c.Check(len(others) == 0, "MERGE", fname, "a mere reference changes nothing but the identifier", p.pos(m.Pos()), "no other store through the accumulator", "a not-in-message mention writes more than the identifier: "+strings.Join(others, "; "))
}

// checkMergedOnAllPaths: in the entity loop, from the true edge of `<parsed> != nil` every path back to the
// loop head calls merge with the parsed value (for vehicles: on the ID != nil edge).
func checkMergedOnAllPaths(r *rtCtx, merge *ssa.Function, typ, what string) {
	c := r.c
	p := c.P
	// the merged value: second argument of the merge call = *X ; X is the parsed phi
	var parsed ssa.Value
	for b := range r.entity.Blocks {
		for _, in := range b.Instrs {
			if call, ok := in.(*ssa.Call); ok && mergedArg(c, call, merge) != nil {
				// the merged value: *x (passed by value) or x itself (passed by pointer), x the parsers' result
				arg := mergedArg(c, call, merge)
				if ld, ok := arg.(*ssa.UnOp); ok && ld.Op == token.MUL {
					arg = ld.X
				}
				if phi, isPhi := arg.(*ssa.Phi); isPhi && r.entity.Blocks[phi.Block()] {
					parsed = phi
				}
				// ... or a field of the struct a per-entity dispatcher returned (`parsed.trip`), read once in the loop
				if fromDispatcher(r, arg) {
					parsed = arg
				}
			}
		}
	}
	if parsed == nil {
		c.Violated("MERGE", r.fname, "every parsed "+what+" is merged", p.pos(r.fn.Pos()), "no merge of the value returned by the entity parsers inside the entity loop")
		return
	}
	// the first `parsed != nil` test
	var test *ssa.If
	nonNilSucc := 0
	for _, b := range r.fn.Blocks {
		if !r.entity.Blocks[b] {
			continue
		}
		if iff, ok := b.Instrs[len(b.Instrs)-1].(*ssa.If); ok {
			if bo, ok := iff.Cond.(*ssa.BinOp); ok && bo.X == parsed && isNilConst(bo.Y) && (bo.Op == token.NEQ || bo.Op == token.EQL) {
				if test == nil || b.Dominates(test.Block()) {
					test = iff
					nonNilSucc = 0
					if bo.Op == token.EQL {
						nonNilSucc = 1 // `x == nil` : the non-nil edge is the false successor
					}
				}
			}
		}
	}
	if test == nil {
		c.Violated("MERGE", r.fname, "every parsed "+what+" is merged", p.pos(r.fn.Pos()), "no `"+what+" != nil` test found before the merge")
		return
	}
	ok := true
	detail := ""
	n := pathsWithin(test.Block().Succs[nonNilSucc], r.entity, func(path []*ssa.BasicBlock, back bool) {
		merged := false
		idNil := false
		listed := false
		for i, b := range path {
			for _, in := range b.Instrs {
				if call, isCall := in.(*ssa.Call); isCall {
					if ma := mergedArg(c, call, merge); ma != nil {
						if ld, isLd := ma.(*ssa.UnOp); (isLd && ld.X == parsed) || ma == parsed {
							merged = true
						}
					}
					// the unkeyed list: append(list, parsed) / append(list, *parsed)
					if isBuiltin(call, "append") && len(call.Call.Args) == 2 {
						if sl, isSl := call.Call.Args[1].(*ssa.Slice); isSl {
							if arr, isArr := sl.X.(*ssa.Alloc); isArr {
								for _, ref := range *arr.Referrers() {
									if ia, isIA := ref.(*ssa.IndexAddr); isIA {
										for _, r2 := range *ia.Referrers() {
											if st, isSt := r2.(*ssa.Store); isSt {
												if st.Val == parsed {
													listed = true
												}
												if ld, isLd := st.Val.(*ssa.UnOp); isLd && ld.Op == token.MUL && ld.X == parsed {
													listed = true
												}
											}
										}
									}
								}
							}
						}
					}
				}
			}
			// vehicles without identifier are exempt: the path took the parsed.ID == nil edge
			if i+1 < len(path) {
				if cond, val, okE := edgeTaken(path, i, nil); okE {
					if bo, isBo := cond.(*ssa.BinOp); isBo && isNilConst(bo.Y) && canon(bo.X) == "*("+canon(parsed)+".ID)" {
						if (bo.Op == token.NEQ && !val) || (bo.Op == token.EQL && val) {
							idNil = true
						}
					}
				}
			}
		}
		if !merged && !(typ == "Vehicle" && idNil) {
			ok = false
			detail = "a path from `" + what + " != nil` back to the loop head skips the merge (blocks " + blockList(path) + ")"
		}
		// a vehicle without identifier is kept too: on the ID == nil edge every path puts it on the unkeyed list (a
		// further condition there would leave a vehicle that a trip points at out of Vehicles)
		if typ == "Vehicle" && idNil && !merged && !listed {
			ok = false
			detail = "a vehicle without identifier is not put on the list of such vehicles on every path (blocks " + blockList(path) + "): it is missing from Vehicles although a trip may point at it"
		}
	})
	c.Check(ok && n > 0, "MERGE", r.fname, "every parsed "+what+" is merged", p.ipos(test), fmt.Sprintf("all %d paths from `%s != nil` to the next entity merge it into its accumulator", n, what), detail)
}

func blockList(path []*ssa.BasicBlock) string {
	var s []string
	for _, b := range path {
		s = append(s, fmt.Sprint(b.Index))
	}
	return strings.Join(s, ",")
}

// ---------------------------------------------------------------- C04

func runLinkRules(c *Ctx) {
	runTablesOnlyGrow(c)
	runLinkAll(c)
	r := newRtCtx(c)
	if r == nil {
		return
	}
	p := c.P
	fn := r.fn
	region := c.regionOf(fn)
	mrs := findMapRanges(region)
	// siteBlock: the block of fn in which the instruction takes effect: its own, or that of the one call site (in fn) of
	// the helper it sits in
	var siteBlock func(b *ssa.BasicBlock, d int) *ssa.BasicBlock
	siteBlock = func(b *ssa.BasicBlock, d int) *ssa.BasicBlock {
		if b.Parent() == fn || d > 3 {
			return b
		}
		var sites []ssa.CallInstruction
		for _, e := range p.Callers(b.Parent()) {
			if e.Site != nil {
				sites = append(sites, e.Site)
			}
		}
		if len(sites) != 1 {
			return b
		}
		return siteBlock(sites[0].Block(), d+1)
	}
	var tripsMap, vehMap ssa.Value
	for _, g := range c.regionOf(fn) {
		for _, b := range g.Blocks {
			for _, in := range b.Instrs {
				if call, ok := in.(*ssa.Call); ok && len(call.Call.Args) > 0 {
					switch staticCallee(call) {
					case r.mergeTrip:
						if m, _ := resolveAccLookup(c, call.Call.Args[0]); m != nil {
							tripsMap = mapCellOf(c, callerMap(c, m))
						}
					case r.mergeVeh:
						if m, _ := resolveAccLookup(c, call.Call.Args[0]); m != nil {
							vehMap = mapCellOf(c, callerMap(c, m))
						}
					}
				}
			}
		}
	}
	if tripsMap == nil || vehMap == nil {
		c.Undecided("LINK", r.fname, "accumulators", p.pos(fn.Pos()), "the trips / vehicles accumulator maps were not found through the merge calls")
		return
	}
	// association tables: maps other than the accumulators that are updated inside the entity loop
	assoc := map[ssa.Value][]*ssa.MapUpdate{}
	for b := range r.entity.Blocks {
		for _, in := range b.Instrs {
			if mu, ok := in.(*ssa.MapUpdate); ok && mapCellOf(c, mu.Map) != tripsMap && mapCellOf(c, mu.Map) != vehMap {
				assoc[mapCellOf(c, mu.Map)] = append(assoc[mapCellOf(c, mu.Map)], mu)
			}
		}
	}
	// classify an object: accumulator of trips / vehicles?
	isAcc := func(v ssa.Value, d int) string { return "" }
	var accKind func(v ssa.Value, d int) string
	accKind = func(v ssa.Value, d int) string {
		if d > 8 {
			return ""
		}
		switch x := v.(type) {
		case *ssa.Extract:
			if nx, ok := x.Tuple.(*ssa.Next); ok && x.Index == 2 {
				if rng, ok := nx.Iter.(*ssa.Range); ok {
					if mapCellOf(c, rng.X) == tripsMap {
						return "trip"
					}
					if mapCellOf(c, rng.X) == vehMap {
						return "vehicle"
					}
				}
			}
			if lk, ok := x.Tuple.(*ssa.Lookup); ok && x.Index == 0 {
				return accKind(lk, d+1)
			}
		case *ssa.Lookup:
			if mapCellOf(c, x.X) == tripsMap {
				return "trip"
			}
			if mapCellOf(c, x.X) == vehMap {
				return "vehicle"
			}
			// a value of an association table: whatever was stored there
			if mus, ok := assoc[mapCellOf(c, x.X)]; ok {
				k := ""
				for _, mu := range mus {
					if _, isPtr := mu.Value.Type().Underlying().(*types.Pointer); isPtr {
						// the parsed object itself, kept for id-less vehicles
						k = "parsed " + typeName(mu.Value.Type())
					}
				}
				return k
			}
		}
		return ""
	}
	isAcc = accKind
	// L1: link stores
	nLinks := 0
	var regionBlocks []*ssa.BasicBlock
	for _, g := range region {
		if g == r.mergeTrip || g == r.mergeVeh || g == r.parseTU || g == r.parseVeh || g == r.parseAlert {
			continue // the entity parsers and merge functions build / copy whole values: not link stores
		}
		regionBlocks = append(regionBlocks, g.Blocks...)
	}
	for _, b := range regionBlocks {
		for _, in := range b.Instrs {
			st, ok := in.(*ssa.Store)
			if !ok {
				continue
			}
			fa, ok := st.Addr.(*ssa.FieldAddr)
			if !ok {
				continue
			}
			field := typeName(fa.X.Type()) + "." + fieldName(fa.X.Type(), fa.Field)
			if field != "gtfs.Trip.Vehicle" && field != "gtfs.Vehicle.Trip" {
				continue
			}
			// composite literal initialisation of a fresh value is not a link
			if a, isAlloc := fa.X.(*ssa.Alloc); isAlloc && a.Comment == "complit" {
				continue
			}
			nLinks++
			tk := isAcc(fa.X, 0)
			vk := isAcc(st.Val, 0)
			okObj := tk != "" && vk != ""
			sb := siteBlock(b, 0)
			afterLoop := sb.Parent() == fn && !r.entity.Blocks[sb] && r.entity.Header.Dominates(sb)
			key := "link " + field
			switch {
			case !okObj:
				c.Violated("LINK", r.fname, key, p.ipos(st), fmt.Sprintf("the link is stored into / from an object that is not an accumulator entry (target %q, value %q): a link written into a temporary copy never reaches the result", describeAddr(fa.X), describeAddr(st.Val)))
			case !afterLoop:
				c.Violated("LINK", r.fname, key, p.ipos(st), "the link is stored while entities are still being merged: a later in-message version replaces the whole accumulator and erases it")
			default:
				c.Proved("LINK", r.fname, key, p.ipos(st), "stored after the entity loop, from one accumulator entry ("+vk+") into another ("+tk+")")
			}
		}
	}
	// L1b: what the result lists hold are copies: a copy of a trip / vehicle taken before a link is written into the
	// object it was copied from does not carry that link (the entry of Trips / Vehicles then differs from what the
	// cross pointers lead to)
	type siteT struct {
		blk *ssa.BasicBlock
		in  ssa.Instruction
		pos string
	}
	copies := map[string][]siteT{}
	links := map[string][]siteT{}
	for _, b := range regionBlocks {
		for _, in := range b.Instrs {
			st, ok := in.(*ssa.Store)
			if !ok {
				continue
			}
			if fa, ok := st.Addr.(*ssa.FieldAddr); ok {
				field := typeName(fa.X.Type()) + "." + fieldName(fa.X.Type(), fa.Field)
				if a, isAlloc := fa.X.(*ssa.Alloc); isAlloc && a.Comment == "complit" {
					continue
				}
				switch field {
				case "gtfs.Trip.Vehicle":
					links["gtfs.Trip"] = append(links["gtfs.Trip"], siteT{siteBlock(b, 0), in, p.ipos(st)})
				case "gtfs.Vehicle.Trip":
					links["gtfs.Vehicle"] = append(links["gtfs.Vehicle"], siteT{siteBlock(b, 0), in, p.ipos(st)})
				}
				continue
			}
			ia, ok := st.Addr.(*ssa.IndexAddr)
			if !ok {
				continue
			}
			tn := typeName(st.Val.Type())
			if tn != "gtfs.Trip" && tn != "gtfs.Vehicle" {
				continue
			}
			if _, isPtr := st.Val.Type().Underlying().(*types.Pointer); isPtr {
				continue // a pointer kept in a list of pointers is the object itself, not a copy
			}
			if ld, isLoad := st.Val.(*ssa.UnOp); !isLoad || ld.Op != token.MUL {
				continue
			}
			_ = ia
			copies[tn] = append(copies[tn], siteT{siteBlock(b, 0), in, p.ipos(st)})
		}
	}
	forward := func(from, to *ssa.BasicBlock) bool {
		if from.Parent() != to.Parent() {
			return false
		}
		seen := map[*ssa.BasicBlock]bool{from: true}
		work := []*ssa.BasicBlock{from}
		for len(work) > 0 {
			cur := work[len(work)-1]
			work = work[:len(work)-1]
			var next []*ssa.BasicBlock
			for _, s := range cur.Succs {
				if s.Dominates(cur) {
					// back edge: the next iteration handles another object; go on with the exits of that loop only
					for _, e := range s.Succs {
						if !(s.Dominates(e) && canReach(e, s)) {
							next = append(next, e)
						}
					}
					continue
				}
				next = append(next, s)
			}
			for _, s := range next {
				if seen[s] {
					continue
				}
				if s == to {
					return true
				}
				seen[s] = true
				work = append(work, s)
			}
		}
		return false
	}
	for _, tn := range []string{"gtfs.Trip", "gtfs.Vehicle"} {
		for _, cp := range copies[tn] {
			bad := ""
			for _, lk := range links[tn] {
				before := forward(cp.blk, lk.blk)
				if cp.blk == lk.blk && cp.in.Block() == lk.in.Block() {
					for _, in := range cp.blk.Instrs {
						if in == cp.in {
							before = true
							break
						}
						if in == lk.in {
							break
						}
					}
				}
				if before {
					bad = lk.pos
				}
			}
			key := "copy of " + tn + " into a list"
			if bad != "" {
				c.Violated("LINK", r.fname, key, cp.pos, "the value is copied into a list before the link at "+bad+" is written into the object it was copied from: the listed entry never gets the link, and what the cross pointers lead to differs from the entry of the top-level list")
			} else {
				c.Proved("LINK", r.fname, key, cp.pos, "no link store follows the copy")
			}
		}
	}
	if nLinks < 3 {
		c.Violated("LINK", r.fname, "link stores", p.pos(fn.Pos()), fmt.Sprintf("only %d link stores found (trip->vehicle by id, vehicle->trip by id, and the id-less pair are expected)", nLinks))
	}
	// no pointer to an element of a slice that the loop still appends to is kept: a later append re-allocates the
	// slice, the kept pointer then addresses a dead copy and a link written through it never reaches the result
	for _, l := range r.loops {
		for b := range l.Blocks {
			for _, in := range b.Instrs {
				ia, ok := in.(*ssa.IndexAddr)
				if !ok {
					continue
				}
				if _, isSlice := ia.X.Type().Underlying().(*types.Slice); !isSlice {
					continue
				}
				grows := false
				for b2 := range l.Blocks {
					for _, in2 := range b2.Instrs {
						if call, isCall := in2.(*ssa.Call); isCall && isBuiltin(call, "append") && types.Identical(call.Type(), ia.X.Type()) {
							if sameSliceVar(call.Call.Args[0], ia.X, l) || sameSliceVar(call, ia.X, l) {
								grows = true
							}
						}
					}
				}
				if !grows {
					continue
				}
				kept := ""
				var seen = map[ssa.Value]bool{}
				var esc func(v ssa.Value, d int)
				esc = func(v ssa.Value, d int) {
					if seen[v] || d > 6 || v.Referrers() == nil {
						return
					}
					seen[v] = true
					for _, ref := range *v.Referrers() {
						switch x := ref.(type) {
						case *ssa.Store:
							if x.Val == v {
								if _, isAlloc := x.Addr.(*ssa.Alloc); isAlloc {
									esc(x.Addr, d+1) // a local variable holding the pointer: follow its loads
								} else {
									kept = p.ipos(x) + ": stored into " + describeAddr(x.Addr)
								}
							}
						case *ssa.MapUpdate:
							if x.Value == v {
								kept = p.ipos(x) + ": kept in " + shortType(x.Map.Type())
							}
						case *ssa.Phi:
							esc(x, d+1)
						case *ssa.UnOp:
							if x.Op == token.MUL {
								if _, isPtr := x.Type().Underlying().(*types.Pointer); isPtr {
									esc(x, d+1) // load of the variable that holds the pointer
								}
							}
						}
					}
				}
				esc(ia, 0)
				if kept != "" {
					c.Violated("LINK", r.fname, "pointer into a growing slice", p.ipos(ia), "the address of an element of a slice that the loop still appends to is kept ("+kept+"): after a later append the slice is re-allocated and the kept pointer no longer addresses the result's element")
				}
			}
		}
	}
	// also in the entity parsers: no store to these fields other than literals
	// L2: paired association tables
	// which table an association goes into is decided by the same test that decides where the vehicle itself goes: the
	// table that keeps the parsed vehicle (for vehicles without identifier) is written only where vehicle.ID == nil
	// is known, the id-keyed tables only where vehicle.ID != nil is known
	for _, mus := range assoc {
		for _, mu := range mus {
			_, keepsObject := mu.Value.Type().Underlying().(*types.Pointer)
			var veh ssa.Value
			if keepsObject {
				veh = mu.Value
			}
			wantNil := keepsObject
			okGuard := false
			for _, ce := range dominatingConds(mu.Block()) {
				cond, val := normalizeCond(ce.Cond, ce.Val)
				bo, ok := cond.(*ssa.BinOp)
				if !ok || !isNilConst(bo.Y) {
					continue
				}
				ld, ok := bo.X.(*ssa.UnOp)
				if !ok || ld.Op != token.MUL {
					continue
				}
				fa, ok := ld.X.(*ssa.FieldAddr)
				if !ok || typeName(fa.X.Type()) != "gtfs.Vehicle" || fieldName(fa.X.Type(), fa.Field) != "ID" {
					continue
				}
				if veh != nil && fa.X != veh {
					continue
				}
				isNil := (bo.Op == token.EQL && val) || (bo.Op == token.NEQ && !val)
				if isNil == wantNil {
					okGuard = true
				}
			}
			what := "identified vehicles (vehicle.ID != nil)"
			if wantNil {
				what = "vehicles without identifier (vehicle.ID == nil)"
			}
			c.Check(okGuard, "LINK", r.fname, "association table "+mapName(mu.Map)+" written for "+what, p.ipos(mu), "the update is dominated by the test that also decides between the id-keyed accumulator and the id-less list", "the association is filed by another test than the one that decides where the vehicle itself is kept: a vehicle merged under its identifier gets its link recorded against the throw-away parsed object (or the reverse), and the listed vehicle stays unlinked")
		}
	}
	var tables []ssa.Value
	for m := range assoc {
		tables = append(tables, m)
	}
	pairs := 0
	for _, m1 := range tables {
		for _, m2 := range tables {
			t1, _ := m1.Type().Underlying().(*types.Map)
			t2, _ := m2.Type().Underlying().(*types.Map)
			if m1 == m2 || t1 == nil || t2 == nil || !types.Identical(t1.Key(), t2.Elem()) || !types.Identical(t1.Elem(), t2.Key()) || mapName(m1) > mapName(m2) {
				continue
			}
			pairs++
			ok := len(assoc[m1]) == len(assoc[m2]) && len(assoc[m1]) > 0
			for _, a := range assoc[m1] {
				match := false
				for _, b := range assoc[m2] {
					if a.Block() == b.Block() && canon(a.Key) == canon(b.Value) && canon(a.Value) == canon(b.Key) {
						match = true
					}
				}
				if !match {
					ok = false
				}
			}
			c.Check(ok, "LINK", r.fname, "association tables "+mapName(m1)+" / "+mapName(m2)+" updated together", p.pos(fn.Pos()), "every update of one is paired, in the same block, with the swapped update of the other", "the two directions of the trip<->vehicle association are not recorded together")
		}
	}
	// L4: whenever both a trip and a vehicle were parsed from one entity an association is recorded: every region of the
	// entity loop in which both are known non-nil records one on all its paths
	var boths []*ssa.BasicBlock
	for b := range r.entity.Blocks {
		nn := map[ssa.Value]bool{}
		for _, ce := range dominatingConds(b) {
			if bo, ok := ce.Cond.(*ssa.BinOp); ok && isNilConst(bo.Y) && ((bo.Op == token.NEQ && ce.Val) || (bo.Op == token.EQL && !ce.Val)) {
				if phi, ok := bo.X.(*ssa.Phi); ok && (typeName(phi.Type()) == "gtfs.Trip" || typeName(phi.Type()) == "gtfs.Vehicle") {
					nn[phi] = true
				}
				if fromDispatcher(r, bo.X) && (typeName(bo.X.Type()) == "gtfs.Trip" || typeName(bo.X.Type()) == "gtfs.Vehicle") {
					nn[bo.X] = true
				}
			}
		}
		if len(nn) >= 2 {
			boths = append(boths, b)
		}
	}
	var tops []*ssa.BasicBlock
	for _, b := range boths {
		top := true
		for _, o := range boths {
			if o != b && o.Dominates(b) {
				top = false
			}
		}
		if top {
			tops = append(tops, b)
		}
	}
	sort.Slice(tops, func(i, j int) bool { return tops[i].Index < tops[j].Index })
	if len(tops) == 0 {
		c.Violated("LINK", r.fname, "association recorded when both are present", p.pos(fn.Pos()), "no region guarded by trip != nil && vehicle != nil in the entity loop")
	}
	for k, both := range tops {
		ok := true
		n := pathsWithin(both, r.entity, func(path []*ssa.BasicBlock, back bool) {
			rec := false
			for _, b := range path {
				for _, in := range b.Instrs {
					if mu, isMU := in.(*ssa.MapUpdate); isMU {
						if _, isAssoc := assoc[mu.Map]; isAssoc {
							rec = true
						}
					}
				}
			}
			if !rec {
				ok = false
			}
		})
		key := "association recorded when both are present"
		if k > 0 {
			key += fmt.Sprintf(" (region %d)", k+1)
		}
		c.Check(ok && n > 0, "LINK", r.fname, key, p.pos(both.Instrs[0].Pos()), fmt.Sprintf("all %d paths through the trip != nil && vehicle != nil region record the pair in an association table", n), "an entity that carries both a trip and a vehicle can pass without its association being recorded")
	}
	// every association table is consumed by a resolution loop that stores the corresponding link
	for _, m := range tables {
		used := false
		for _, mr := range mrs {
			if mr.loop == nil {
				continue
			}
			for b := range mr.loop.Blocks {
				for _, in := range b.Instrs {
					if lk, ok := in.(*ssa.Lookup); ok && mapCellOf(c, lk.X) == m && lk.Index == mr.key {
						used = true
					}
				}
			}
		}
		c.Check(used, "LINK", r.fname, "association table "+mapName(m)+" resolved", p.pos(fn.Pos()), "looked up under the range key of an accumulator loop", "an association table is filled but never resolved into links")
	}
	// L3: in each resolution loop the link stores precede the copy-out
	for _, mr := range mrs {
		if mr.loop == nil || (mapCellOf(c, mr.rng.X) != tripsMap && mapCellOf(c, mr.rng.X) != vehMap) {
			continue
		}
		var copyOut ssa.Instruction
		var links []*ssa.Store
		for b := range mr.loop.Blocks {
			for _, in := range b.Instrs {
				// the copy of the entry appended to a local list (later handed to the result) counts like the append to the
				// result's own field
				if call, isCall := in.(*ssa.Call); isCall && isBuiltin(call, "append") {
					if sl, isSl := call.Type().Underlying().(*types.Slice); isSl && (typeName(sl.Elem()) == "gtfs.Trip" || typeName(sl.Elem()) == "gtfs.Vehicle") {
						if _, isPtr := sl.Elem().(*types.Pointer); !isPtr && copyOut == nil {
							copyOut = call
						}
					}
				}
				st, ok := in.(*ssa.Store)
				if !ok {
					continue
				}
				if fa, ok := st.Addr.(*ssa.FieldAddr); ok {
					f := typeName(fa.X.Type()) + "." + fieldName(fa.X.Type(), fa.Field)
					switch f {
					case "gtfs.Realtime.Trips", "gtfs.Realtime.Vehicles":
						copyOut = st
					case "gtfs.Trip.Vehicle", "gtfs.Vehicle.Trip":
						links = append(links, st)
					}
				}
			}
		}
		ok := copyOut != nil
		for _, l := range links {
			// the copy-out must not be able to run before the link in the same iteration
			if copyOut != nil && !(l.Block() == copyOut.Block() && instrBefore(l, copyOut)) {
				if blockReach(copyOut.Block(), map[*ssa.BasicBlock]bool{mr.loop.Header: true}, false)[l.Block()] {
					ok = false
				}
			}
		}
		c.Check(ok, "LINK", r.fname, "links set before "+mapName(mr.rng.X)+" entries are copied out", p.pos(mr.rng.Pos()), "within an iteration no link store can follow the append of the entry's copy", "an entry is copied into the result before its link is stored: the result's copy lacks the link")
	}
}

// ---------------------------------------------------------------- presence guards of the entity parsers (C02 / C04)

func runParserGuards(c *Ctx) {
	runVehicleIdentity(c)
	runOneZonePerMessage(c)
	runPresenceByPointer(c)
	p := c.P
	type guard struct {
		spec   string
		result int
		field  string // the result may be nil (or false) only when this wire field is absent
		what   string
	}
	guards := []guard{
		{"gtfs:parseVehicle", 0, "Trip", "a vehicle position with a trip descriptor yields a trip"},
		{"gtfs:parseTripUpdate", 1, "Vehicle", "a trip update with a vehicle descriptor yields a vehicle"},
		{"gtfs:parseTripUpdate", 0, "Trip", "a trip update with a trip descriptor yields a trip"},
	}
	for _, g := range guards {
		f := c.anchor(g.spec)
		if f == nil {
			continue
		}
		tb, err := extractTableNoLoops(f)
		fname := shortName(f)
		if err != nil {
			c.Undecided("GUARD", fname, g.what, p.pos(f.Pos()), "cannot enumerate the return paths: "+err.Error())
			continue
		}
		ok := true
		detail := ""
		sawNonNil := false
		for _, r := range tb.rows {
			if r.panics || g.result >= len(r.results) {
				continue
			}
			if r.results[g.result] != "const:nil" {
				sawNonNil = true
				continue
			}
			// nil result: the path must have established <param>.<field> == nil
			has := false
			for _, a := range r.conds {
				if !a.opaque && a.konst == "nil" && !a.neg && strings.HasSuffix(a.subj, "."+g.field+")") && strings.Contains(a.subj, f.Params[0].Name()+".") {
					has = true
				}
			}
			// trip nil together with vehicle nil because the trip is missing is fine for the vehicle result
			if !has && g.field == "Vehicle" {
				for _, a := range r.conds {
					if !a.opaque && a.konst == "nil" && !a.neg && strings.HasSuffix(a.subj, ".Trip)") {
						has = true
					}
				}
			}
			if !has {
				ok = false
				detail = "returns nil under [" + condsString(r.conds) + "], which does not include " + f.Params[0].Name() + "." + g.field + " == nil"
			}
		}
		c.Check(ok && sawNonNil, "GUARD", fname, g.what, p.pos(f.Pos()), "the result is nil only on paths where the wire field "+g.field+" is absent", detail)
	}
}

// runVehicleIdentity: an identifier object is produced only for a descriptor that identifies something: every non-nil
// result of the descriptor-to-VehicleID conversion is returned on a path that has ruled out the all-empty identifier
// (a comparison of the built value with the zero VehicleID, or a non-empty test of one of its strings). Otherwise
// vehicles whose id, label and licence plate are present but empty all share one "identified" entry.
func runVehicleIdentity(c *Ctx) {
	p := c.P
	n := 0
	for _, f := range fnsByClass(realtimeFns(c), "(*proto.VehicleDescriptor)→(*gtfs.VehicleID)") {
		n++
		fname := shortName(f)
		tb, err := c.extractTableComposed(f, 0) // the conversion may be split into a (value, ok) helper
		if err != nil {
			tb, err = extractTableCut(f)
		}
		if err != nil {
			c.Undecided("GUARD", fname, "an identifier is never all-empty", p.pos(f.Pos()), err.Error())
			continue
		}
		ok, detail := true, ""
		sawNonNil := false
		for _, r := range tb.rows {
			if r.panics || len(r.results) == 0 || r.results[0] == "const:nil" {
				continue
			}
			sawNonNil = true
			excluded := false
			for _, a := range r.conds {
				// string != ""
				if !a.opaque && a.konst == "\"\"" && a.neg {
					excluded = true
				}
				// built value != zero VehicleID
				if bo, isBo := a.v.(*ssa.BinOp); isBo && (bo.Op == token.EQL || bo.Op == token.NEQ) && typeName(bo.X.Type()) == "gtfs.VehicleID" {
					if _, isPtr := bo.X.Type().Underlying().(*types.Pointer); !isPtr {
						holdsNeq := a.neg
						if a.opaque {
							// opaque atoms carry the polarity of the branch taken on the comparison as written
							holdsNeq = (bo.Op == token.EQL) == a.neg
						}
						if holdsNeq {
							excluded = true
						}
					}
				}
			}
			// ... or a predicate of the module on the built value that answered false, where the predicate answers
			// true exactly for the zero identifier (a single return of `v == VehicleID{}`, or of all three strings empty)
			for _, a := range r.conds {
				call, isCall := a.v.(*ssa.Call)
				if !isCall || !a.opaque || !a.neg || call.Call.IsInvoke() || len(call.Call.Args) != 1 || typeName(call.Call.Args[0].Type()) != "gtfs.VehicleID" {
					continue
				}
				h := call.Call.StaticCallee()
				if h == nil || !p.isModuleFn(h) || len(h.Blocks) != 1 {
					continue
				}
				ret, isRet := h.Blocks[0].Instrs[len(h.Blocks[0].Instrs)-1].(*ssa.Return)
				if !isRet || len(ret.Results) != 1 {
					continue
				}
				if bo, isBo := ret.Results[0].(*ssa.BinOp); isBo && bo.Op == token.EQL && typeName(bo.X.Type()) == "gtfs.VehicleID" {
					zero := func(v ssa.Value) bool {
						if ld, isLd := v.(*ssa.UnOp); isLd && ld.Op == token.MUL {
							if al, isAl := ld.X.(*ssa.Alloc); isAl && len(cellStores(al)) == 0 {
								written := false
								for _, rr := range *al.Referrers() {
									if _, isFA := rr.(*ssa.FieldAddr); isFA {
										written = true
									}
								}
								return !written
							}
						}
						if k, isK := v.(*ssa.Const); isK {
							return k.Value == nil
						}
						return false
					}
					if zero(bo.X) || zero(bo.Y) {
						excluded = true
					}
				}
			}
			if !excluded {
				ok = false
				detail = "returns an identifier under [" + condsString(r.conds) + "], which does not exclude id, label and licence plate all being empty"
			}
		}
		c.Check(ok && sawNonNil, "GUARD", fname, "an identifier is never all-empty", p.pos(f.Pos()), "every non-nil VehicleID is returned after the all-empty case was ruled out", detail)
		// the identifier is the map key under which mentions of one vehicle are unified: it is built from the
		// identifying wire fields (id, label, licence plate) only. A further descriptor field in the key makes two
		// mentions of one vehicle that differ in that field two vehicles.
		{
			bd := newBinder(c)
			identifying := map[string]bool{"Id": true, "Label": true, "LicensePlate": true}
			re := regexp.MustCompile(`proto:VehicleDescriptor\.(\w+)`)
			var extra []string
			nf := 0
			for _, g := range c.regionOf(f) {
				if fnPkgPath(g) != fnPkgPath(f) {
					continue
				}
				for _, blk := range g.Blocks {
					for _, in := range blk.Instrs {
						st, isSt := in.(*ssa.Store)
						if !isSt {
							continue
						}
						fa, isFA := st.Addr.(*ssa.FieldAddr)
						if !isFA || typeName(fa.X.Type()) != "gtfs.VehicleID" {
							continue
						}
						nf++
						for _, m := range re.FindAllStringSubmatch(bd.bind(st.Val), -1) {
							if !identifying[m[1]] {
								extra = append(extra, fieldName(fa.X.Type(), fa.Field)+" <- "+m[1]+" at "+p.ipos(st))
							}
						}
					}
				}
			}
			if nf > 0 {
				c.Check(len(extra) == 0, "GUARD", fname, "the identifier holds identifying fields only", p.pos(f.Pos()), fmt.Sprintf("the %d fields of the VehicleID built here come from the descriptor's id, label and licence plate", nf), "the vehicle identifier (the key under which mentions of a vehicle are unified) also carries "+strings.Join(extra, "; ")+": two mentions of one vehicle that differ there become two vehicles and their links split")
			}
		}
	}
	if n == 0 {
		c.Undecided("GUARD", "gtfs", "vehicle descriptor conversion", "-", "no function converting *proto.VehicleDescriptor to *gtfs.VehicleID found")
	}
}

// runPresenceByPointer: an optional wire field (a pointer in the generated struct) is present when the pointer is
// non-nil, whatever it points to. A test of the field's *value* against the zero value (`GetTime() != 0`,
// `*x.Delay != 0`) that decides whether something is written into the result treats an explicit zero (an on-time
// prediction, the epoch) as absent.
func runPresenceByPointer(c *Ctx) {
	p := c.P
	isZero := func(v ssa.Value) bool {
		k, ok := v.(*ssa.Const)
		if !ok || k.Value == nil {
			return false
		}
		switch k.Value.Kind() {
		case constant.Int, constant.Float:
			return constant.Sign(k.Value) == 0
		case constant.String:
			return constant.StringVal(k.Value) == ""
		}
		return false
	}
	// optionalValue: v is the value of an optional scalar wire field: a generated getter of a pointer-typed field, or a
	// dereference of such a field
	optionalValue := func(v ssa.Value) string {
		switch x := v.(type) {
		case *ssa.Call:
			cal := x.Call.StaticCallee()
			if cal == nil || !isProtoPkg(fnPkgPath(cal)) || len(cal.Params) != 1 {
				return ""
			}
			st := structOf(cal.Params[0].Type())
			idx := -1
			if st != nil && strings.HasPrefix(cal.Name(), "Get") {
				// generated getter Get<F> of field <F> (for an optional scalar: `if x != nil && x.F != nil { return *x.F }`)
				for i := 0; i < st.NumFields(); i++ {
					if st.Field(i).Name() == cal.Name()[3:] {
						idx = i
					}
				}
			}
			if idx < 0 {
				return ""
			}
			if pt, isPtr := st.Field(idx).Type().Underlying().(*types.Pointer); isPtr {
				if _, basic := pt.Elem().Underlying().(*types.Basic); basic {
					return typeName(cal.Params[0].Type()) + "." + st.Field(idx).Name()
				}
			}
		case *ssa.UnOp:
			if x.Op != token.MUL {
				return ""
			}
			ld, ok := x.X.(*ssa.UnOp)
			if !ok || ld.Op != token.MUL {
				return ""
			}
			fa, ok := ld.X.(*ssa.FieldAddr)
			if !ok || !isProtoPkg(pkgOfType(fa.X.Type())) {
				return ""
			}
			if _, basic := deref(deref(fa.Type())).Underlying().(*types.Basic); basic {
				return typeName(fa.X.Type()) + "." + fieldName(fa.X.Type(), fa.Field)
			}
		}
		return ""
	}
	n, nTests := 0, 0
	for _, f := range realtimeFns(c) {
		for _, blk := range f.Blocks {
			hasStore := false
			var first *ssa.Store
			for _, in := range blk.Instrs {
				if st, ok := in.(*ssa.Store); ok {
					if fa, isFA := st.Addr.(*ssa.FieldAddr); isFA && !isProtoPkg(pkgOfType(fa.X.Type())) && strings.HasPrefix(pkgOfType(fa.X.Type()), modPath) {
						hasStore = true
						if first == nil {
							first = st
						}
					}
				}
			}
			if !hasStore {
				continue
			}
			n++
			for _, ce := range dominatingConds(blk) {
				bo, ok := ce.Cond.(*ssa.BinOp)
				if !ok || (bo.Op != token.NEQ && bo.Op != token.EQL) || ce.Composite {
					continue
				}
				var fld string
				if isZero(bo.Y) {
					fld = optionalValue(bo.X)
				} else if isZero(bo.X) {
					fld = optionalValue(bo.Y)
				}
				if fld == "" {
					continue
				}
				nTests++
				if (bo.Op == token.NEQ) == ce.Val {
					c.Violated("GUARD", shortName(f), "presence of "+fld+" decided by the pointer", p.ipos(first), "the result is written only when the value of the optional wire field "+fld+" differs from the zero value: a field that is present with the value zero (an on-time prediction, the epoch, an empty string) is reported as absent. Presence is `field != nil`")
				}
			}
		}
	}
	c.Stats["blocks writing result fields examined for value-as-presence tests"] = n
	if nTests == 0 {
		c.Proved("GUARD", "gtfs", "presence of optional wire fields decided by the pointer", "-", fmt.Sprintf("%d blocks that write result fields: none is guarded by a comparison of an optional field's value with the zero value", n))
	}
}

// callerMap: a map that a get-or-create-and-merge helper receives as a parameter is the map its callers pass (all
// call sites the same one); anything else is returned as it is.
func callerMap(c *Ctx, m ssa.Value) ssa.Value {
	for hop := 0; hop < 3; hop++ {
		prm, ok := m.(*ssa.Parameter)
		if !ok || prm.Parent() == nil {
			return m
		}
		idx := paramIndex(prm)
		callers := c.P.Callers(prm.Parent())
		if idx < 0 || len(callers) == 0 {
			return m
		}
		var arg ssa.Value
		for _, e := range callers {
			args := e.Site.Common().Args
			if idx >= len(args) {
				return m
			}
			if arg != nil && mapCellOf(c, arg) != mapCellOf(c, args[idx]) {
				return m
			}
			arg = args[idx]
		}
		m = arg
	}
	return m
}

// runOneZonePerMessage: a trip identifier carries its start date as a time.Time, and identifiers are map keys and are
// compared with ==, which compares the Location pointer. All times of one message must therefore carry one Location
// object: a Location constructor (time.LoadLocation, time.FixedZone, time.LoadLocationFromTZData) in the realtime code
// may run at most once per message -- in the entry function, outside every loop. Run per descriptor, two mentions of
// one trip with a start date get different keys.
func runOneZonePerMessage(c *Ctx) {
	p := c.P
	entries := map[*ssa.Function]bool{}
	for _, f := range c.anchors("gtfs:ParseRealtime") {
		entries[f] = true
	}
	ctors := map[string]bool{"time.LoadLocation": true, "time.FixedZone": true, "time.LoadLocationFromTZData": true}
	n := 0
	inRealtime := map[*ssa.Function]bool{}
	for _, f := range realtimeFns(c) {
		inRealtime[f] = true
	}
	// once: the block runs at most once per message: it is in no loop, and its function is the entry or is called
	// only from such blocks
	var once func(f *ssa.Function, blk *ssa.BasicBlock, d int) bool
	once = func(f *ssa.Function, blk *ssa.BasicBlock, d int) bool {
		if d > 4 {
			return false
		}
		for _, l := range naturalLoops(f) {
			if l.Blocks[blk] {
				return false
			}
		}
		if entries[f] {
			return true
		}
		sites := 0
		for _, e := range p.Callers(f) {
			if e.Caller == nil || !inRealtime[e.Caller] {
				continue
			}
			sites++
			if sites > 1 || !once(e.Caller, e.Site.Block(), d+1) {
				return false
			}
		}
		return sites == 1
	}
	for _, f := range realtimeFns(c) {
		var loops []*Loop
		for _, blk := range f.Blocks {
			for _, in := range blk.Instrs {
				call, ok := in.(*ssa.Call)
				if !ok || !ctors[calleeName(call)] {
					continue
				}
				n++
				_ = loops
				c.Check(once(f, blk, 0), "GUARD", shortName(f), "one Location object per message", p.ipos(call), "the Location is constructed once, in the entry function outside every loop", calleeName(call)+" returns a new Location object on every call, and this call can run more than once per message: trip identifiers carry their start date as a time.Time, and as map keys they are compared with ==, which compares the Location pointer, so two mentions of one trip get different keys (two entries for one trip, links to a stub)")
			}
		}
	}
	c.Stats["Location constructors in the realtime code"] = n
	if n == 0 {
		c.Proved("GUARD", "gtfs", "one Location object per message", "-", "no Location constructor is called in the realtime code: every time of a message carries the caller's Location or time.UTC")
	}
}

// extractTableNoLoops: decision table of a function whose loops do not influence which return is taken:
// loops are cut at their back edges (each loop body is walked at most once).
func extractTableNoLoops(f *ssa.Function) (*dtable, error) {
	t, err := extractTable(f)
	if err == nil {
		return t, nil
	}
	return extractTableCut(f)
}

// resolveAccLookup: acc is m[k] -- directly, or as the result of a get-or-create helper all of whose returns are a
// lookup in its map parameter under its key parameter; returns the map and key as seen at the caller.
func resolveAccLookup(c *Ctx, acc ssa.Value) (m, key ssa.Value) {
	if lk := lookupOf(acc); lk != nil {
		return lk.X, lk.Index
	}
	// `known, found := m[k]; if !found { known = new; m[k] = known }`: on one edge the looked-up entry, on the other the
	// value that was just stored under the same key of the same map
	if phi, ok := acc.(*ssa.Phi); ok && len(phi.Edges) == 2 {
		for i, e := range phi.Edges {
			lk := lookupOf(e)
			if lk == nil {
				continue
			}
			other := phi.Edges[1-i]
			pred := phi.Block().Preds[1-i]
			for _, r := range *other.Referrers() {
				mu, isMU := r.(*ssa.MapUpdate)
				if !isMU || mu.Value != other || mu.Map != lk.X {
					continue
				}
				sameKey := mu.Key == lk.Index || canon(mu.Key) == canon(lk.Index)
				if sameKey && (mu.Block() == pred || mu.Block().Dominates(pred)) {
					return lk.X, lk.Index
				}
			}
		}
	}
	call, ok := acc.(*ssa.Call)
	if !ok || call.Call.IsInvoke() {
		return nil, nil
	}
	cal := call.Call.StaticCallee()
	if cal == nil || !c.P.isModuleFn(cal) || len(cal.Blocks) == 0 {
		return nil, nil
	}
	var mapV ssa.Value // the map as the helper sees it: a parameter, or a captured variable
	var kp *ssa.Parameter
	n := 0
	for _, b := range cal.Blocks {
		ret, ok := b.Instrs[len(b.Instrs)-1].(*ssa.Return)
		if !ok {
			continue
		}
		n++
		if len(ret.Results) != 1 {
			return nil, nil
		}
		var lkX, lkIndex ssa.Value
		rv := ret.Results[0]
		if lk := lookupOf(rv); lk != nil {
			lkX, lkIndex = lk.X, lk.Index
		} else if _, isCall := rv.(*ssa.Call); !isCall {
			lkX, lkIndex = resolveAccLookup(c, rv) // the comma-ok get-or-create form
			if lkX == nil && rv.Referrers() != nil {
				// the entry that was just created and stored under the key
				for _, r := range *rv.Referrers() {
					if mu, isMU := r.(*ssa.MapUpdate); isMU && mu.Value == rv && (mu.Block() == b || mu.Block().Dominates(b)) {
						lkX, lkIndex = mu.Map, mu.Key
					}
				}
			}
		}
		if lkX == nil {
			return nil, nil
		}
		k1, ok2 := lkIndex.(*ssa.Parameter)
		if !ok2 || (kp != nil && kp != k1) {
			return nil, nil
		}
		if mapV != nil && mapV != lkX && mapCellOf(c, mapV) != mapCellOf(c, lkX) {
			return nil, nil
		}
		mapV, kp = lkX, k1
	}
	if n == 0 || mapV == nil {
		return nil, nil
	}
	if mp, isParam := mapV.(*ssa.Parameter); isParam {
		return call.Call.Args[paramIndex(mp)], call.Call.Args[paramIndex(kp)]
	}
	// a map captured by a local closure: the variable itself (callers resolve it to its cell)
	if mapCellOf(c, mapV) == mapV {
		return nil, nil
	}
	return mapV, call.Call.Args[paramIndex(kp)]
}

// sameMapAs: v is the map target, or a helper's parameter that every call site binds to it.
func sameMapAs(c *Ctx, v, target ssa.Value, d int) bool {
	if v == target {
		return true
	}
	prm, ok := v.(*ssa.Parameter)
	if !ok || d > 3 || target == nil {
		return false
	}
	callers := c.P.Callers(prm.Parent())
	if len(callers) == 0 {
		return false
	}
	idx := paramIndex(prm)
	for _, e := range callers {
		args := e.Site.Common().Args
		if idx < 0 || idx >= len(args) || !sameMapAs(c, args[idx], target, d+1) {
			return false
		}
	}
	return true
}

// sameSliceVar: a and b are values of the same slice variable inside loop l (equal, or connected through the loop's
// phis and append calls).
func sameSliceVar(a, b ssa.Value, l *Loop) bool {
	root := func(v ssa.Value) ssa.Value {
		for i := 0; i < 12; i++ {
			switch x := v.(type) {
			case *ssa.Call:
				if isBuiltin(x, "append") {
					v = x.Call.Args[0]
					continue
				}
			case *ssa.Phi:
				return x
			}
			return v
		}
		return v
	}
	ra, rb := root(a), root(b)
	if ra == rb {
		return true
	}
	// two phis of the same variable (e.g. header phi and a join inside the body)
	pa, oka := ra.(*ssa.Phi)
	pb, okb := rb.(*ssa.Phi)
	if oka && okb && pa.Comment != "" && pa.Comment == pb.Comment {
		return true
	}
	return false
}

// mapCellOf: the identity of a map variable: the map value itself when it never lives in a memory cell, otherwise the
// cell (a local captured by closures is read through loads of its cell, in the function and in the closures).
func mapCellOf(c *Ctx, v ssa.Value) ssa.Value {
	for i := 0; i < 6 && v != nil; i++ {
		switch x := v.(type) {
		case *ssa.MakeMap:
			if x.Referrers() != nil {
				for _, r := range *x.Referrers() {
					if st, ok := r.(*ssa.Store); ok && st.Val == ssa.Value(x) {
						if a, isAlloc := st.Addr.(*ssa.Alloc); isAlloc {
							return a
						}
					}
				}
			}
			return x
		case *ssa.UnOp:
			if x.Op != token.MUL {
				return v
			}
			switch a := x.X.(type) {
			case *ssa.Alloc:
				return a
			case *ssa.FreeVar:
				fn := a.Parent()
				idx := freeVarIndex(fn, a)
				if par := fn.Parent(); par != nil {
					for _, b := range par.Blocks {
						for _, in := range b.Instrs {
							if mc, ok := in.(*ssa.MakeClosure); ok && mc.Fn == ssa.Value(fn) && idx < len(mc.Bindings) {
								if al, isAlloc := mc.Bindings[idx].(*ssa.Alloc); isAlloc {
									return al
								}
								v = mc.Bindings[idx]
							}
						}
					}
				}
				if v == ssa.Value(x) {
					return v
				}
				continue
			}
			return v
		case *ssa.Parameter:
			callers := c.P.Callers(x.Parent())
			idx := paramIndex(x)
			if len(callers) != 1 || idx < 0 || idx >= len(callers[0].Site.Common().Args) {
				return v
			}
			v = callers[0].Site.Common().Args[idx]
			continue
		}
		return v
	}
	return v
}

// mergedArg: if call merges a value into its accumulator -- a call of the merge function itself, or of a helper /
// local closure that on every path hands its own parameter to the merge function -- the value it merges (as written
// at the call), else nil.
func mergedArg(c *Ctx, call *ssa.Call, merge *ssa.Function) ssa.Value {
	cal := staticCallee(call)
	if cal == nil {
		return nil
	}
	if cal == merge {
		if len(call.Call.Args) < 2 {
			return nil
		}
		return call.Call.Args[1]
	}
	if !c.P.isModuleFn(cal) || len(cal.Blocks) == 0 || len(cal.Params) != len(call.Call.Args) {
		return nil
	}
	// which parameter does the helper merge, on every path to its returns?
	var prm *ssa.Parameter
	var mcall *ssa.Call
	for _, b := range cal.Blocks {
		for _, in := range b.Instrs {
			if ic, ok := in.(*ssa.Call); ok && staticCallee(ic) == merge && len(ic.Call.Args) >= 2 {
				a := ic.Call.Args[1]
				if ld, isLd := a.(*ssa.UnOp); isLd && ld.Op == token.MUL {
					if pp := paramBehind(ld); pp != nil {
						prm, mcall = pp, ic
					} else if sp := structParamSpill(ld.X); sp != nil {
						prm, mcall = sp, ic
					}
				} else if pp, isP := a.(*ssa.Parameter); isP {
					prm, mcall = pp, ic
				}
			}
		}
	}
	if prm == nil || !alwaysExecuted(mcall) {
		return nil
	}
	k := paramIndex(prm)
	if k < 0 || k >= len(call.Call.Args) {
		return nil
	}
	return call.Call.Args[k]
}

// callsDirectly: h is a loop-free function of the module with a call of callee in its body (a per-entity dispatcher
// that the entity loop calls).
func callsDirectly(h, callee *ssa.Function) bool {
	if h == nil || h == callee || len(h.Blocks) == 0 || len(naturalLoops(h)) > 0 || fnPkgPath(h) != fnPkgPath(callee) {
		return false
	}
	for _, b := range h.Blocks {
		for _, in := range b.Instrs {
			if call, ok := in.(*ssa.Call); ok && staticCallee(call) == callee {
				return true
			}
		}
	}
	return false
}

// fromDispatcher: v is, inside the entity loop, a field of the struct value that a per-entity dispatcher (a loop-free
// helper that calls the entity parsers) returned: a load of a field of the local variable holding that result, or a
// field of the result itself.
func fromDispatcher(r *rtCtx, v ssa.Value) bool {
	in, ok := v.(ssa.Instruction)
	if !ok || !r.entity.Blocks[in.Block()] {
		return false
	}
	var src ssa.Value
	switch x := v.(type) {
	case *ssa.UnOp:
		if x.Op != token.MUL {
			return false
		}
		fa, isFA := x.X.(*ssa.FieldAddr)
		if !isFA {
			return false
		}
		al, isAl := fa.X.(*ssa.Alloc)
		if !isAl {
			return false
		}
		vals := cellStores(al)
		if len(vals) != 1 {
			return false
		}
		src = vals[0]
	case *ssa.Field:
		src = x.X
	default:
		return false
	}
	if ex, isEx := src.(*ssa.Extract); isEx {
		src = ex.Tuple
	}
	call, isCall := src.(*ssa.Call)
	return isCall && callsDirectly(staticCallee(call), r.parseTU)
}

// runTablesOnlyGrow: the tables ParseRealtime keeps while it goes through the entities (accumulators by id, the two
// association tables between trips and vehicles) only grow: nothing the realtime parser reaches deletes from a map.
// An entry removed for the sake of a later entity makes the result depend on the order of the entities and leaves a
// trip whose update carried a vehicle without one.
func runTablesOnlyGrow(c *Ctx) {
	p := c.P
	n, bad := 0, ""
	for _, f := range realtimeFns(c) {
		for _, b := range f.Blocks {
			for _, in := range b.Instrs {
				switch x := in.(type) {
				case *ssa.MapUpdate:
					n++
				case *ssa.Call:
					if isBuiltin(x, "delete") || isBuiltin(x, "clear") {
						if bad == "" {
							bad = "an entry is removed at " + p.ipos(x) + " in " + shortName(f)
						}
					}
				}
			}
		}
	}
	c.Check(bad == "" && n > 0, "LINK", "gtfs", "the parser's tables only grow", "-", fmt.Sprintf("%d map updates, no delete", n), bad+": what an earlier entity recorded (the vehicle of its trip, the trip of its vehicle, an accumulated entry) is lost for the sake of a later one")
}

// runComparatorPlain: the comparators that order Trips and Vehicles (TripID.Less, VehicleID.less and what they call in
// the module) compare the fields of the identifiers as they are. A comparator that first converts what it compares
// (numbers parsed out of ids, case folding) is no longer a strict total order on distinct identifiers: "7" and "007"
// tie, "2" < "10" < "1a" < "2" is a cycle, and the sorted result depends on the order the map was read in.
func runComparatorPlain(c *Ctx, rule string) {
	p := c.P
	n := 0
	for _, fn := range p.ModFns {
		if fn.Signature.Recv() == nil || len(fn.Blocks) == 0 || fnPkgPath(fn) != modPath || (fn.Name() != "Less" && fn.Name() != "less") || fn.Synthetic != "" {
			continue
		}
		rt := typeName(fn.Signature.Recv().Type())
		if rt != "gtfs.TripID" && rt != "gtfs.VehicleID" {
			continue
		}
		n++
		bad := ""
		for _, g := range c.regionOf(fn) {
			if fnPkgPath(g) != modPath {
				continue
			}
			for _, b := range g.Blocks {
				for _, in := range b.Instrs {
					call, ok := in.(*ssa.Call)
					if !ok {
						continue
					}
					name := calleeName(call)
					if h := staticCallee(call); h != nil && p.isModuleFn(h) {
						continue
					}
					switch {
					case strings.HasPrefix(name, "(time.Time)."), name == "strings.Compare", isBuiltin(call, "len"):
					default:
						if bad == "" {
							bad = trimMod(name) + " at " + p.ipos(call)
						}
					}
				}
			}
		}
		c.Check(bad == "", rule, shortName(fn), "the comparator compares the identifier's fields as they are", p.pos(fn.Pos()), "no conversion of the compared values (only time comparisons, strings.Compare, len)", "the comparator calls "+bad+": distinct identifiers can tie or form a cycle, and the order of the sorted result then depends on the order the map was read in")
	}
	c.Stats[rule+" identifier comparators"] = n
}
