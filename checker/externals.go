package main

import "strings"

// ExtInfo classifies an external (non-module) callee. Argument indices count the
// receiver (for methods and interface invokes) as 0.
type ExtInfo struct {
	Known   bool  // reviewed: effects are as listed
	Writes  []int // arguments written through
	Aliases []int // arguments the result may alias (shares memory with)
	Nondet  bool  // clock / randomness / environment
	IO      bool  // performs I/O that is not part of any result (logging, reading files)
	MayNil  bool  // pointer-like result may be nil even when no error is reported
	Init    bool  // expected at package initialisation only
	Note    string
}

func pure() ExtInfo           { return ExtInfo{Known: true} }
func writes(i ...int) ExtInfo { return ExtInfo{Known: true, Writes: i} }

// externals is DESIGN.md Appendix F: every external callee of the in-scope
// packages, with its effect class.  A callee that is missing here and receives
// a pointer-like argument makes the affected obligation UNDECIDED.
var externals = map[string]ExtInfo{
	// pure, result fresh
	"fmt.Sprintf":                                      pure(),
	"fmt.Errorf":                                       pure(),
	"strconv.Atoi":                                     pure(),
	"strconv.ParseInt":                                 pure(),
	"strconv.ParseFloat":                               pure(),
	"strconv.FormatInt":                                pure(),
	"strings.HasPrefix":                                pure(),
	"strings.TrimSpace":                                pure(),
	"strings.LastIndex":                                pure(),
	"unicode.IsSpace":                                  pure(),
	"path/filepath.Join":                               pure(),
	"time.Unix":                                        pure(),
	"time.Date":                                        {Known: true, Aliases: []int{7}},
	"time.ParseInLocation":                             {Known: true, Aliases: []int{2}},
	"time.LoadLocation":                                {Known: true, Note: "depends on the host's zone database (assumption)"},
	"(time.Time).Unix":                                 pure(),
	"(time.Time).Before":                               pure(),
	"(time.Time).Add":                                  {Known: true, Aliases: []int{0}},
	"(time.Time).Equal":                                pure(),
	"(time.Time).In":                                   {Known: true, Aliases: []int{0, 1}},
	"(time.Time).Format":                               pure(),
	"(time.Time).String":                               pure(),
	"(time.Time).Zone":                                 pure(),
	"(time.Time).ZoneBounds":                           pure(),
	"(time.Time).Location":                             {Known: true, Aliases: []int{0}},
	"(time.Time).IsDST":                                pure(),
	"(time.Time).IsZero":                               pure(),
	"(time.Time).After":                                pure(),
	"(time.Time).Compare":                              pure(),
	"(time.Time).UnixNano":                             pure(),
	"(time.Time).UnixMilli":                            pure(),
	"(time.Time).UnixMicro":                            pure(),
	"(time.Time).Year":                                 pure(),
	"(time.Time).Month":                                pure(),
	"(time.Time).Day":                                  pure(),
	"(time.Time).Hour":                                 pure(),
	"(time.Time).Minute":                               pure(),
	"(time.Time).Second":                               pure(),
	"(time.Time).Nanosecond":                           pure(),
	"(time.Time).Weekday":                              pure(),
	"(time.Time).YearDay":                              pure(),
	"(time.Time).Date":                                 pure(),
	"(time.Time).Clock":                                pure(),
	"(time.Time).Sub":                                  pure(),
	"(time.Time).AddDate":                              {Known: true, Aliases: []int{0}},
	"(time.Time).Truncate":                             {Known: true, Aliases: []int{0}},
	"(time.Time).UTC":                                  {Known: true, Aliases: []int{0}},
	"(time.Duration).Seconds":                          pure(),
	"(time.Duration).Minutes":                          pure(),
	"(time.Duration).Hours":                            pure(),
	"(time.Duration).Milliseconds":                     pure(),
	"(time.Duration).String":                           pure(),
	"(*regexp.Regexp).FindStringSubmatch":              {Known: true, MayNil: true, Note: "regexp methods are safe for concurrent use (documented)"},
	"google.golang.org/protobuf/proto.HasExtension":    {Known: true, Note: "extension fields are lazily decoded under internal synchronisation"},
	"google.golang.org/protobuf/proto.GetExtension":    {Known: true, Aliases: []int{0}, MayNil: true},
	"encoding/json.Marshal":                            pure(),
	"bytes.NewReader":                                  {Known: true, Note: "the reader only reads the slice"},
	"archive/zip.NewReader":                            pure(),
	"(*archive/zip.File).Open":                         pure(),
	"encoding/csv.NewReader":                           {Known: true, Aliases: []int{0}, Note: "the csv reader keeps (and later reads from) the reader it is given"},
	"golang.org/x/text/transform.NewReader":            {Known: true, Writes: []int{1}, Aliases: []int{0, 1}, Note: "resets the transformer and keeps it: every later Read drives (mutates) it"},
	"golang.org/x/text/encoding/unicode.BOMOverride":   {Known: true, Aliases: []int{0}, Note: "the override wraps (keeps) the fallback transformer"},
	"(golang.org/x/text/encoding.Encoding).NewDecoder": pure(),
	"(os.DirEntry).Name":                               pure(),
	"(*strings.Builder).String":                        pure(),

	// result aliases
	"(*bytes.Buffer).Bytes": {Known: true, Aliases: []int{0}},

	// init-time only
	"regexp.MustCompile":              {Known: true, Init: true},
	"text/template.New":               {Known: true, Init: true},
	"text/template.Must":              {Known: true, Init: true, Aliases: []int{0}},
	"(*text/template.Template).Funcs": {Known: true, Init: true, Writes: []int{0}, Aliases: []int{0}},
	"(*text/template.Template).Parse": {Known: true, Init: true, Writes: []int{0}, Aliases: []int{0}},

	// writes its argument
	"sort.Slice":                                 writes(0),
	"sort.SliceStable":                           writes(0),
	"sort.Strings":                               writes(0),
	"encoding/binary.Write":                      writes(0),
	"(*bytes.Buffer).Reset":                      writes(0),
	"(*encoding/csv.Reader).Read":                writes(0),
	"google.golang.org/protobuf/proto.Unmarshal": writes(1),
	"(*text/template.Template).Execute":          {Known: true, Writes: []int{1}, Note: "reads the data argument; a parsed template is safe for concurrent execution (documented)"},
	"(hash.Hash).Write":                          writes(0),
	"(io.ReadCloser).Close":                      writes(0),
	"(io.Closer).Close":                          writes(0),

	// I/O, not part of any result
	"log.Printf":  {Known: true, IO: true},
	"log.Print":   {Known: true, IO: true},
	"fmt.Println": {Known: true, IO: true},
	"fmt.Printf":  {Known: true, IO: true},
	"os.ReadFile": {Known: true, IO: true},
	"os.ReadDir":  {Known: true, IO: true},

	// nondeterminism
	"time.Now":   {Known: true, Nondet: true},
	"time.Since": {Known: true, Nondet: true},
}

// nondetCallee: sources of nondeterminism for G8 (also matched by prefix for
// packages that are not used today).
func nondetCallee(name string) bool {
	if e, ok := externals[extName(name)]; ok && e.Nondet {
		return true
	}
	for _, p := range []string{"math/rand.", "math/rand/v2.", "crypto/rand.", "(*math/rand.Rand).", "os.Getenv", "os.LookupEnv", "os.Environ", "os.Getpid", "os.Hostname", "os.Getwd", "time.Now", "time.Since", "time.Until", "time.After", "time.Tick", "time.NewTimer", "time.NewTicker", "runtime.NumGoroutine", "runtime.NumCPU"} {
		if strings.HasPrefix(name, p) {
			return true
		}
	}
	return false
}

// extName: a method value or method expression used as a function value is compiled into a thunk ("...$thunk",
// "...$bound"); its effects are those of the method.
func extName(name string) string {
	name = strings.TrimSuffix(name, "$thunk")
	name = strings.TrimSuffix(name, "$bound")
	return name
}
