package main

// ENUM: a decoder into one of the library's enumerations answers only with that enumeration's declared values.
// An enumeration is a named integer type of the library with declared constants.  A function whose single
// result is such a type and whose parameters are not (a decoder) may return: a declared constant, the result of
// another decoder into the same type, or a value that already has the type.  A number converted to the type is
// not a declared value for every input: the range of the wire / file field is wider than the table.

import (
	"fmt"
	"go/constant"
	"go/token"
	"go/types"
	"sort"

	"golang.org/x/tools/go/ssa"
)

func enumConsts(t types.Type) map[string]bool {
	n, ok := t.(*types.Named)
	if !ok || n.Obj().Pkg() == nil || n.Obj().Pkg().Path() != modPath {
		return nil
	}
	b, ok := n.Underlying().(*types.Basic)
	if !ok || b.Info()&types.IsInteger == 0 {
		return nil
	}
	out := map[string]bool{}
	sc := n.Obj().Pkg().Scope()
	for _, name := range sc.Names() {
		if k, ok := sc.Lookup(name).(*types.Const); ok && types.Identical(k.Type(), t) {
			out[k.Val().ExactString()] = true
		}
	}
	if len(out) < 2 {
		return nil
	}
	return out
}

func runEnumDecoders(c *Ctx, fns []*ssa.Function, rule string) {
	p := c.P
	sort.Slice(fns, func(i, j int) bool { return fns[i].Pos() < fns[j].Pos() })
	for _, f := range fns {
		if f.Signature.Results().Len() != 1 || len(f.Blocks) == 0 || f.Signature.Recv() != nil {
			continue
		}
		rt := f.Signature.Results().At(0).Type()
		consts := enumConsts(rt)
		if consts == nil {
			continue
		}
		takesSame := false
		for _, pa := range f.Params {
			if types.Identical(pa.Type(), rt) {
				takesSame = true
			}
		}
		if takesSame || len(f.Params) == 0 {
			continue
		}
		fname := shortName(f)
		bad := ""
		var badPos ssa.Value
		seen := map[ssa.Value]bool{}
		var visit func(v ssa.Value)
		visit = func(v ssa.Value) {
			if seen[v] || bad != "" {
				return
			}
			seen[v] = true
			switch x := v.(type) {
			case *ssa.Const:
				if x.Value != nil && !consts[x.Value.ExactString()] {
					bad, badPos = "the number "+x.Value.ExactString()+" is not a declared value of "+shortType(rt), v
				}
			case *ssa.Phi:
				for _, e := range x.Edges {
					visit(e)
				}
			case *ssa.Call:
				// another function answering in the same type: it is checked where it is defined (library) or is a value of the type
			case *ssa.Convert:
				if _, isC := x.X.(*ssa.Const); !isC {
					bad, badPos = "a number ("+canon(x.X)+") is converted to "+shortType(rt)+" without being looked up in its declared values", v
				}
			case *ssa.ChangeType:
				if !types.Identical(x.X.Type(), rt) {
					if _, isC := x.X.(*ssa.Const); !isC {
						bad, badPos = "a value ("+canon(x.X)+") is retyped to "+shortType(rt)+" without being looked up in its declared values", v
					}
				}
			case *ssa.BinOp:
				bad, badPos = "the result is computed ("+canon(v)+"), not looked up", v
			}
		}
		// a converted number is a declared value on the paths that compared it equal to a declared constant (a switch
		// over the constants that returns the converted value itself): those paths are read off the decision table
		if tb, err := extractTable(f); err == nil {
			for _, r := range tb.rows {
				if r.panics || len(r.vals) != 1 {
					continue
				}
				rv := r.vals[0]
				isConv := false
				switch x := rv.(type) {
				case *ssa.Convert:
					_, isC := x.X.(*ssa.Const)
					isConv = !isC
				case *ssa.ChangeType:
					_, isC := x.X.(*ssa.Const)
					isConv = !isC && !types.Identical(x.X.Type(), rt)
				}
				if isConv {
					member := false
					for _, at := range r.conds {
						if !at.opaque && !at.neg && at.subj == canon(rv) && consts[at.konst] {
							member = true
						}
					}
					// or it passed a membership predicate of the module: a function of the value that answers true
					// only on paths that compared it equal to a declared constant
					for _, at := range r.conds {
						if member || !at.opaque || at.neg || at.v == nil {
							continue
						}
						call, isCall := at.v.(*ssa.Call)
						if !isCall || len(call.Call.Args) != 1 || call.Call.Args[0] != rv {
							continue
						}
						if g := staticCallee(call); g != nil && p.isModuleFn(g) && len(g.Blocks) > 0 && len(g.Params) == 1 {
							if gt, err := extractTable(g); err == nil {
								okAll, nTrue := true, 0
								for _, gr := range gt.rows {
									k, isK := gr.vals[0].(*ssa.Const)
									if gr.panics || len(gr.vals) != 1 {
										continue
									}
									if !isK {
										okAll = false
										continue
									}
									if bv, isB := constBool(k); !isB || !bv {
										continue
									}
									nTrue++
									eq := false
									for _, ga := range gr.conds {
										if !ga.opaque && !ga.neg && ga.subj == canon(g.Params[0]) && consts[ga.konst] {
											eq = true
										}
									}
									if !eq {
										okAll = false
									}
								}
								member = okAll && nTrue > 0
							}
						}
					}
					if member {
						seen[rv] = true // accepted on this path; other paths returning it are rows of their own
						continue
					}
					seen[rv] = false
				}
				visit(rv)
				delete(seen, rv)
			}
		} else {
			for _, b := range f.Blocks {
				if r, ok := b.Instrs[len(b.Instrs)-1].(*ssa.Return); ok {
					visit(r.Results[0])
				}
			}
		}
		cons := "answers only with declared values of " + shortType(rt)
		if bad != "" {
			pos := f.Pos()
			if in, ok := badPos.(ssa.Instruction); ok && in.Pos().IsValid() {
				pos = in.Pos()
			}
			c.Violated(rule, fname, cons, p.pos(pos), bad+": inputs outside the table are answered with a value the enumeration does not declare instead of its unknown / unspecified member")
		} else {
			c.Proved(rule, fname, cons, p.pos(f.Pos()), "every returned value is a declared constant, an existing value of the type, or another decoder's answer")
		}
	}
}

// isLenOf: v is len(of).
func isLenOf(v ssa.Value, of ssa.Value) bool {
	call, ok := v.(*ssa.Call)
	if !ok {
		return false
	}
	b, isB := call.Call.Value.(*ssa.Builtin)
	return isB && b.Name() == "len" && len(call.Call.Args) == 1 && call.Call.Args[0] == of
}

// NUM: numbers in CSV cells are decimal. Every strconv.ParseInt / ParseUint reached from the static parser is called
// with the constant base 10 (base 0 reads a leading zero as octal and 0x as hexadecimal: "0600" becomes 384, "08"
// is rejected), and every ParseFloat with bit size 64.
func runNumericDecoders(c *Ctx, fns []*ssa.Function, rule string) {
	p := c.P
	n := 0
	sort.Slice(fns, func(i, j int) bool { return fns[i].Pos() < fns[j].Pos() })
	for _, f := range fns {
		k := 0
		for _, b := range f.Blocks {
			for _, in := range b.Instrs {
				call, ok := in.(*ssa.Call)
				if !ok {
					continue
				}
				name := calleeName(call)
				switch name {
				case "strconv.ParseInt", "strconv.ParseUint":
					n++
					k++
					base, isK := constInt(call.Call.Args[1])
					c.Check(isK && base == 10, rule, shortName(f), fmt.Sprintf("%s #%d reads decimal", name, k), p.ipos(call), "base 10", fmt.Sprintf("%s is called with base %v: a cell with a leading zero is read as octal (or rejected), 0x.. as hexadecimal", name, descr(call.Call.Args[1])))
					// the number is parsed at the width it is stored at: strconv then rejects what does not fit (the cell is
					// treated as unparsable), instead of the decoder truncating or saturating it into another valid value
					if bits, isB := constInt(call.Call.Args[2]); isB && call.Referrers() != nil {
						for _, r := range *call.Referrers() {
							ex, isEx := r.(*ssa.Extract)
							if !isEx || ex.Index != 0 || ex.Referrers() == nil {
								continue
							}
							var narrow func(v ssa.Value, d int) string
							narrow = func(v ssa.Value, d int) string {
								if v.Referrers() == nil || d > 4 {
									return ""
								}
								for _, r2 := range *v.Referrers() {
									switch y := r2.(type) {
									case *ssa.Convert:
										if bt, ok := y.Type().Underlying().(*types.Basic); ok && bt.Info()&types.IsInteger != 0 {
											w := int64(64)
											switch bt.Kind() {
											case types.Int8, types.Uint8:
												w = 8
											case types.Int16, types.Uint16:
												w = 16
											case types.Int32, types.Uint32:
												w = 32
											}
											if w < bits {
												return fmt.Sprintf("parsed with %d bits and then converted to %s at %s", bits, bt.Name(), p.ipos(y))
											}
											unsignedTarget := bt.Info()&types.IsUnsigned != 0
											if name == "strconv.ParseUint" && !unsignedTarget && w <= bits {
												return fmt.Sprintf("parsed as an unsigned number of %d bits and then converted to the signed %s at %s (the upper half of the range wraps to negative numbers)", bits, bt.Name(), p.ipos(y))
											}
											if name == "strconv.ParseInt" && unsignedTarget {
												return fmt.Sprintf("parsed as a signed number and then converted to the unsigned %s at %s (negative numbers wrap)", bt.Name(), p.ipos(y))
											}
										}
									case *ssa.Phi:
										if s := narrow(y, d+1); s != "" {
											return s
										}
									}
								}
								return ""
							}
							why := narrow(ex, 0)
							c.Check(why == "", rule, shortName(f), fmt.Sprintf("%s #%d parses at the width it is stored at", name, k), p.ipos(call), fmt.Sprintf("bit size %d, no narrower integer conversion of the result", bits), "the number is "+why+": a value that does not fit is no longer rejected by strconv but truncated or saturated into some other number (distinct sequence numbers then share a value)")
						}
					}
				case "strconv.ParseFloat":
					n++
					k++
					bits, isK := constInt(call.Call.Args[1])
					c.Check(isK && bits == 64, rule, shortName(f), fmt.Sprintf("%s #%d keeps float64 precision", name, k), p.ipos(call), "bit size 64", "coordinates and distances are parsed with less than float64 precision")
				}
			}
		}
	}
	c.Stats[rule+" numeric parse calls"] = n
	// a number decoder answers "no value" only for the empty cell or for what strconv rejects: a further test of the
	// parsed number (zero, negative, "implausible") drops a valid value for every caller of the decoder
	for _, f := range fns {
		if len(f.Blocks) == 0 || len(f.Params) != 1 || len(naturalLoops(f)) > 0 {
			continue
		}
		if bt, ok := f.Params[0].Type().Underlying().(*types.Basic); !ok || bt.Info()&types.IsString == 0 {
			continue
		}
		parses := false
		for _, b := range f.Blocks {
			for _, in := range b.Instrs {
				if call, ok := in.(*ssa.Call); ok {
					switch calleeName(call) {
					case "strconv.ParseInt", "strconv.ParseUint", "strconv.ParseFloat", "strconv.Atoi":
						parses = true
					}
				}
			}
		}
		if !parses {
			continue
		}
		res := f.Signature.Results()
		noValue := func(ret *ssa.Return) bool {
			for i := 0; i < res.Len(); i++ {
				switch t := res.At(i).Type().Underlying().(type) {
				case *types.Pointer:
					if k, isK := ret.Results[i].(*ssa.Const); isK && k.IsNil() {
						return true
					}
				case *types.Basic:
					if t.Kind() == types.Bool {
						if bv, isC := constBool(ret.Results[i]); isC && !bv {
							return true
						}
					}
				}
			}
			return false
		}
		hasAnswer := false
		for i := 0; i < res.Len(); i++ {
			switch t := res.At(i).Type().Underlying().(type) {
			case *types.Pointer:
				hasAnswer = true
			case *types.Basic:
				if t.Kind() == types.Bool {
					hasAnswer = true
				}
			}
		}
		if !hasAnswer {
			continue
		}
		bad := ""
		enumPaths(f, func(path []*ssa.BasicBlock) {
			if bad != "" {
				return
			}
			last := path[len(path)-1]
			ret, ok := last.Instrs[len(last.Instrs)-1].(*ssa.Return)
			if !ok || !noValue(ret) {
				return
			}
			for i := range path {
				cond, _, ok := edgeTaken(path, i, nil)
				if !ok {
					continue
				}
				for {
					u, isNot := cond.(*ssa.UnOp)
					if !isNot || u.Op != token.NOT {
						break
					}
					cond = u.X
				}
				bo, isBin := cond.(*ssa.BinOp)
				if !isBin {
					if in, isIn := cond.(ssa.Instruction); isIn {
						bad = "the test at " + p.ipos(in)
					}
					return
				}
				x, y := bo.X, bo.Y
				if _, isK := x.(*ssa.Const); isK {
					x, y = y, x
				}
				k, isK := y.(*ssa.Const)
				switch {
				case isK && k.IsNil() && presenceOperand(x):
					// strconv's error
				case isK && x == ssa.Value(f.Params[0]) && k.Value != nil && k.Value.Kind() == constant.String && constant.StringVal(k.Value) == "":
					// the empty cell
				case isK && isLenOf(x, f.Params[0]):
					// the empty cell, as a length
				default:
					bad = "the comparison at " + p.ipos(bo)
					return
				}
			}
		})
		c.Check(bad == "", rule, shortName(f), "no value only for the empty cell or what strconv rejects", p.pos(f.Pos()), "every path that answers `no value` took only the empty-cell test and the test of strconv's error", "a number that strconv accepts is dropped by a further test: "+bad+" (every caller of the decoder loses the value: zero or negative sequence numbers, transfer times, distances)")
	}
	// a decimal cell is turned into a float64 by strconv.ParseFloat only: a decoder of the parser that takes text and
	// answers with a float64 (or a pointer to one) returns ParseFloat's result as it is. A value put together by the
	// decoder's own arithmetic (digits accumulated in an integer and scaled by a power of ten, a float32 detour) is
	// rounded more than once and differs from the nearest float64 of the text for long literals.
	for _, f := range fns {
		if len(f.Blocks) == 0 || f.Signature.Results().Len() == 0 {
			continue
		}
		takesText := false
		for _, prm := range f.Params {
			if bt, ok := prm.Type().Underlying().(*types.Basic); ok && bt.Info()&types.IsString != 0 {
				takesText = true
			}
		}
		if !takesText {
			continue
		}
		isF64 := func(t types.Type) bool {
			bt, ok := t.Underlying().(*types.Basic)
			return ok && bt.Kind() == types.Float64
		}
		var resIdx []int
		for i := 0; i < f.Signature.Results().Len(); i++ {
			t := f.Signature.Results().At(i).Type()
			if pt, isPtr := t.Underlying().(*types.Pointer); isPtr {
				t = pt.Elem()
			}
			if isF64(t) {
				resIdx = append(resIdx, i)
			}
		}
		if len(resIdx) == 0 {
			continue
		}
		bad := ""
		seen := map[ssa.Value]bool{}
		var trace func(v ssa.Value, d int)
		trace = func(v ssa.Value, d int) {
			if v == nil || seen[v] || bad != "" || d > 12 {
				return
			}
			seen[v] = true
			switch x := v.(type) {
			case *ssa.Const:
			case *ssa.Phi:
				for _, e := range x.Edges {
					trace(e, d+1)
				}
			case *ssa.Alloc:
				for _, sv := range cellStores(x) {
					trace(sv, d+1)
				}
			case *ssa.UnOp:
				if x.Op == token.MUL {
					if al, ok := x.X.(*ssa.Alloc); ok {
						trace(al, d+1)
						return
					}
					return // a float read from elsewhere (a field, a parameter): not computed here
				}
				if x.Op == token.SUB {
					trace(x.X, d+1) // the sign
					return
				}
				bad = "computed by " + x.Op.String() + " at " + p.ipos(x)
			case *ssa.Extract:
				call, ok := x.Tuple.(*ssa.Call)
				if !ok {
					return
				}
				if calleeName(call) == "strconv.ParseFloat" && x.Index == 0 {
					return
				}
				if g := staticCallee(call); g != nil && p.isModuleFn(g) && len(g.Blocks) > 0 {
					for _, gb := range g.Blocks {
						if ret, isRet := gb.Instrs[len(gb.Instrs)-1].(*ssa.Return); isRet && x.Index < len(ret.Results) {
							trace(ret.Results[x.Index], d+1)
						}
					}
				}
			case *ssa.Call:
				if g := staticCallee(x); g != nil && p.isModuleFn(g) && len(g.Blocks) > 0 {
					for _, gb := range g.Blocks {
						if ret, isRet := gb.Instrs[len(gb.Instrs)-1].(*ssa.Return); isRet && len(ret.Results) == 1 {
							trace(ret.Results[0], d+1)
						}
					}
				}
			case *ssa.BinOp:
				bad = "computed by " + x.Op.String() + " at " + p.ipos(x)
			case *ssa.Convert:
				if !isF64(x.X.Type()) {
					bad = "converted from " + shortType(x.X.Type()) + " at " + p.ipos(x)
				} else {
					trace(x.X, d+1)
				}
			case *ssa.ChangeType:
				trace(x.X, d+1)
			}
		}
		usesParse := false
		for _, b := range f.Blocks {
			for _, in := range b.Instrs {
				if call, ok := in.(*ssa.Call); ok && calleeName(call) == "strconv.ParseFloat" {
					usesParse = true
				}
			}
			if ret, isRet := b.Instrs[len(b.Instrs)-1].(*ssa.Return); isRet {
				for _, i := range resIdx {
					if i < len(ret.Results) {
						trace(ret.Results[i], 0)
					}
				}
			}
		}
		if !usesParse && bad == "" {
			continue // not a decoder of decimal text (an accessor, a formatter)
		}
		if bad != "" {
			c.Violated(rule, shortName(f), "decimal text becomes a float64 through strconv.ParseFloat only", p.pos(f.Pos()), "a returned float64 is "+bad+" instead of being strconv.ParseFloat's result: the decoder's own arithmetic rounds more than once, so long literals (16 and more significant digits) do not decode to the nearest float64")
		} else {
			c.Proved(rule, shortName(f), "decimal text becomes a float64 through strconv.ParseFloat only", p.pos(f.Pos()), "every returned float64 is strconv.ParseFloat's result (or a constant)")
		}
	}
}
