package main

import (
	"fmt"
	"go/constant"
	"go/token"
	"go/types"
	"sort"
	"strings"

	"golang.org/x/tools/go/ssa"
)

// ------------------------------------------------------------ basic helpers

func deref(t types.Type) types.Type {
	if p, ok := t.Underlying().(*types.Pointer); ok {
		return p.Elem()
	}
	return t
}

func namedOf(t types.Type) *types.Named {
	t = deref(t)
	if a, ok := t.(*types.Alias); ok {
		t = types.Unalias(a)
	}
	n, _ := t.(*types.Named)
	return n
}

// typeName returns pkgshort.Name for named types ("gtfs.Trip", "gtfsrt.FeedMessage").
func typeName(t types.Type) string {
	n := namedOf(t)
	if n == nil {
		return t.String()
	}
	if n.Obj().Pkg() == nil {
		return n.Obj().Name()
	}
	return n.Obj().Pkg().Name() + "." + n.Obj().Name()
}

func structOf(t types.Type) *types.Struct {
	t = deref(t)
	s, _ := t.Underlying().(*types.Struct)
	return s
}

func fieldName(t types.Type, idx int) string {
	s := structOf(t)
	if s == nil || idx >= s.NumFields() {
		return fmt.Sprintf("#%d", idx)
	}
	return s.Field(idx).Name()
}

func isNilConst(v ssa.Value) bool {
	c, ok := v.(*ssa.Const)
	return ok && c.Value == nil && isNillable(c.Type())
}

func isNillable(t types.Type) bool {
	switch t.Underlying().(type) {
	case *types.Pointer, *types.Slice, *types.Map, *types.Interface, *types.Signature, *types.Chan:
		return true
	}
	if b, ok := t.Underlying().(*types.Basic); ok && b.Kind() == types.UntypedNil {
		return true
	}
	return false
}

func constString(v ssa.Value) (string, bool) {
	c, ok := v.(*ssa.Const)
	if !ok || c.Value == nil || c.Value.Kind() != constant.String {
		return "", false
	}
	return constant.StringVal(c.Value), true
}

// idxSubst: loop indices that are to be read as a given constant (the binder instantiates `arr[i] = f(i)` for one i).
var idxSubst map[ssa.Value]int64

func constInt(v ssa.Value) (int64, bool) {
	if idxSubst != nil {
		if k, ok := idxSubst[v]; ok {
			return k, true
		}
	}
	c, ok := v.(*ssa.Const)
	if !ok || c.Value == nil {
		return 0, false
	}
	if c.Value.Kind() != constant.Int {
		return 0, false
	}
	return c.Int64(), true
}

func constBool(v ssa.Value) (bool, bool) {
	c, ok := v.(*ssa.Const)
	if !ok || c.Value == nil || c.Value.Kind() != constant.Bool {
		return false, false
	}
	return constant.BoolVal(c.Value), true
}

// staticCallee returns the statically known callee of a call (function,
// method or a closure literal called directly), or nil.
func staticCallee(call ssa.CallInstruction) *ssa.Function {
	return call.Common().StaticCallee()
}

// calleeName returns a stable name for the callee of a call: for static
// callees "pkgpath.Func" or "(recv).Method"; for interface invokes
// "(iface).Method"; for builtins "builtin.append"; "" for dynamic func values.
func calleeName(call ssa.CallInstruction) string {
	cc := call.Common()
	if cc.IsInvoke() {
		return "(" + types.TypeString(cc.Value.Type(), nil) + ")." + cc.Method.Name()
	}
	if b, ok := cc.Value.(*ssa.Builtin); ok {
		return "builtin." + b.Name()
	}
	if f := cc.StaticCallee(); f != nil {
		return f.String()
	}
	return ""
}

func isBuiltin(call ssa.CallInstruction, name string) bool {
	b, ok := call.Common().Value.(*ssa.Builtin)
	return ok && b.Name() == name
}

// allArgs returns receiver (for invoke) + args.
func allArgs(call ssa.CallInstruction) []ssa.Value {
	cc := call.Common()
	if cc.IsInvoke() {
		return append([]ssa.Value{cc.Value}, cc.Args...)
	}
	return cc.Args
}

// ------------------------------------------------------------ CFG helpers

// dominatesInstr reports whether instruction a is executed before b on every
// path that reaches b (a dominates b; same block: a precedes b).
func dominatesInstr(a, b ssa.Instruction) bool {
	if a.Parent() != b.Parent() {
		return false
	}
	if a.Block() == b.Block() {
		for _, in := range a.Block().Instrs {
			if in == a {
				return true
			}
			if in == b {
				return false
			}
		}
		return false
	}
	return a.Block().Dominates(b.Block())
}

// blockReach returns the set of blocks reachable from `from` (including from
// itself only if it lies on a cycle or includeSelf), not passing through any block in stop.
func blockReach(from *ssa.BasicBlock, stop map[*ssa.BasicBlock]bool, includeSelf bool) map[*ssa.BasicBlock]bool {
	seen := map[*ssa.BasicBlock]bool{}
	var work []*ssa.BasicBlock
	if includeSelf {
		seen[from] = true
	}
	work = append(work, from)
	for len(work) > 0 {
		b := work[len(work)-1]
		work = work[:len(work)-1]
		for _, s := range b.Succs {
			if stop[s] || seen[s] {
				continue
			}
			seen[s] = true
			work = append(work, s)
		}
	}
	return seen
}

// canReach reports whether block b can reach block t (b==t counts).
func canReach(b, t *ssa.BasicBlock) bool {
	if b == t {
		return true
	}
	return blockReach(b, nil, false)[t]
}

// Loop is a natural loop.
type Loop struct {
	Header *ssa.BasicBlock
	Blocks map[*ssa.BasicBlock]bool
	Exits  []*ssa.BasicBlock // blocks outside the loop that are successors of loop blocks
}

// naturalLoops finds the natural loops of fn (merged per header).
func naturalLoops(fn *ssa.Function) []*Loop {
	byHeader := map[*ssa.BasicBlock]*Loop{}
	var order []*ssa.BasicBlock
	for _, b := range fn.Blocks {
		for _, s := range b.Succs {
			if s.Dominates(b) { // back edge b -> s
				l := byHeader[s]
				if l == nil {
					l = &Loop{Header: s, Blocks: map[*ssa.BasicBlock]bool{s: true}}
					byHeader[s] = l
					order = append(order, s)
				}
				// add all blocks that reach b without passing through s
				var work []*ssa.BasicBlock
				if !l.Blocks[b] {
					l.Blocks[b] = true
					work = append(work, b)
				}
				for len(work) > 0 {
					x := work[len(work)-1]
					work = work[:len(work)-1]
					for _, p := range x.Preds {
						if !l.Blocks[p] {
							l.Blocks[p] = true
							work = append(work, p)
						}
					}
				}
			}
		}
	}
	var out []*Loop
	for _, h := range order {
		l := byHeader[h]
		seen := map[*ssa.BasicBlock]bool{}
		for b := range l.Blocks {
			for _, s := range b.Succs {
				if !l.Blocks[s] && !seen[s] {
					seen[s] = true
					l.Exits = append(l.Exits, s)
				}
			}
		}
		sort.Slice(l.Exits, func(i, j int) bool { return l.Exits[i].Index < l.Exits[j].Index })
		out = append(out, l)
	}
	return out
}

// loopOf returns the innermost loop containing block b.
func loopOf(loops []*Loop, b *ssa.BasicBlock) *Loop {
	var best *Loop
	for _, l := range loops {
		if l.Blocks[b] && (best == nil || len(l.Blocks) < len(best.Blocks)) {
			best = l
		}
	}
	return best
}

// condEdge describes a branch condition that holds on entry to a block.
type condEdge struct {
	Cond ssa.Value
	Val  bool
	If   *ssa.If
	// Composite: this entry was decomposed; its parts follow it in the list
	Composite bool
}

// dominatingConds returns the branch conditions known to hold at the entry of
// block b: for every ancestor D in the dominator tree ending in `if c`, if the
// dominator-tree child on the way to b is a successor of D with D as its only
// predecessor, c (or !c) holds.
func dominatingConds(b *ssa.BasicBlock) []condEdge {
	return dominatingCondsD(b, 0)
}

// atomise: a condition known to hold that is a negation or a materialised short-circuit (`x := a && b; if x`) also
// establishes its parts: for a boolean phi, the edges whose constant contradicts the known outcome are excluded; if
// one edge remains, its value has the known outcome and control passed through that edge's predecessor.
func atomise(ce condEdge, d int) []condEdge {
	if _, isBin := ce.Cond.(*ssa.BinOp); isBin {
		ce.Cond, ce.Val = normalizeCond(ce.Cond, ce.Val)
	}
	out := []condEdge{ce}
	if d > 4 {
		return out
	}
	switch x := ce.Cond.(type) {
	case *ssa.UnOp:
		if x.Op == token.NOT {
			out[0].Composite = true
			out = append(out, atomise(condEdge{Cond: x.X, Val: !ce.Val, If: ce.If}, d+1)...)
		}
	case *ssa.Phi:
		var rest []int
		for i, e := range x.Edges {
			if k, ok := e.(*ssa.Const); ok {
				if bv, isB := constBool(k); isB && bv != ce.Val {
					continue
				}
			}
			rest = append(rest, i)
		}
		if len(rest) == 1 {
			i := rest[0]
			out[0].Composite = true
			if _, isConst := x.Edges[i].(*ssa.Const); !isConst {
				out = append(out, atomise(condEdge{Cond: x.Edges[i], Val: ce.Val, If: ce.If}, d+1)...)
			}
			pred := x.Block().Preds[i]
			out = append(out, dominatingCondsD(pred, d+1)...)
			// the branch taken out of pred itself, when pred ends in an If
			if iff, ok := pred.Instrs[len(pred.Instrs)-1].(*ssa.If); ok && pred.Succs[0] != pred.Succs[1] {
				if pred.Succs[0] == x.Block() {
					out = append(out, atomise(condEdge{Cond: iff.Cond, Val: true, If: iff}, d+1)...)
				} else if pred.Succs[1] == x.Block() {
					out = append(out, atomise(condEdge{Cond: iff.Cond, Val: false, If: iff}, d+1)...)
				}
			}
		}
	}
	return out
}

func dominatingCondsD(b *ssa.BasicBlock, depth int) []condEdge {
	var out []condEdge
	if depth > 4 {
		return nil
	}
	for cur := b; cur != nil; cur = cur.Idom() {
		d := cur.Idom()
		if d == nil {
			break
		}
		iff, ok := d.Instrs[len(d.Instrs)-1].(*ssa.If)
		if !ok {
			continue
		}
		// the edge d -> cur must be the only way into cur from outside cur's own dominance region
		// (other predecessors may be back edges from blocks cur dominates: conditions on SSA values
		// are immutable, so they still hold there)
		only := true
		for _, pr := range cur.Preds {
			if pr != d && !cur.Dominates(pr) {
				only = false
			}
		}
		if !only {
			continue
		}
		if d.Succs[0] == cur && d.Succs[1] != cur {
			out = append(out, atomise(condEdge{Cond: iff.Cond, Val: true, If: iff}, depth)...)
		} else if d.Succs[1] == cur && d.Succs[0] != cur {
			out = append(out, atomise(condEdge{Cond: iff.Cond, Val: false, If: iff}, depth)...)
		}
	}
	return out
}

// ------------------------------------------------------------ access paths / canonical expressions

// canon renders a canonical expression for a pure SSA value so that two
// syntactic occurrences of `trip.ID` (go/ssa performs no CSE) compare equal.
// Loads are rendered as load(<address expr>); callers that rely on equality
// of load-expressions must check for intervening kills themselves.
func canon(v ssa.Value) string {
	return canonDepth(v, 0)
}

func canonDepth(v ssa.Value, d int) string {
	if d > 12 {
		return v.Name()
	}
	if canonSubst != nil {
		if s, ok := canonSubst[v]; ok {
			return s
		}
	}
	switch x := v.(type) {
	case *ssa.Const:
		if x.Value == nil {
			return "nil:" + x.Type().String()
		}
		return "const(" + x.Value.ExactString() + ")"
	case *ssa.FieldAddr:
		return canonDepth(x.X, d+1) + "." + fieldName(x.X.Type(), x.Field)
	case *ssa.Field:
		return canonDepth(x.X, d+1) + "." + fieldName(x.X.Type(), x.Field)
	case *ssa.IndexAddr:
		return canonDepth(x.X, d+1) + "[" + canonDepth(x.Index, d+1) + "]"
	case *ssa.Index:
		return canonDepth(x.X, d+1) + "[" + canonDepth(x.Index, d+1) + "]"
	case *ssa.UnOp:
		if x.Op == token.MUL {
			return "*(" + canonDepth(x.X, d+1) + ")"
		}
		return x.Op.String() + "(" + canonDepth(x.X, d+1) + ")"
	case *ssa.Convert:
		return "conv[" + x.Type().String() + "](" + canonDepth(x.X, d+1) + ")"
	case *ssa.ChangeType:
		return canonDepth(x.X, d+1)
	case *ssa.BinOp:
		return "(" + canonDepth(x.X, d+1) + x.Op.String() + canonDepth(x.Y, d+1) + ")"
	case *ssa.Global:
		return "global:" + x.String()
	case *ssa.Parameter, *ssa.FreeVar:
		return x.Name()
	case *ssa.Phi:
		if canonPhiHook != nil {
			if r := canonPhiHook(x); r != nil && r != ssa.Value(x) {
				return canonDepth(r, d+1)
			}
		}
	case *ssa.Call:
		if b, ok := x.Call.Value.(*ssa.Builtin); ok && (b.Name() == "len" || b.Name() == "cap") && len(x.Call.Args) == 1 {
			return b.Name() + "(" + canonDepth(x.Call.Args[0], d+1) + ")"
		}
		// calls of side-effect-free leaf functions of the module (nil-safe getters) are pure expressions
		if f := x.Call.StaticCallee(); f != nil && isPureLeaf(f) {
			var as []string
			for _, a := range x.Call.Args {
				as = append(as, canonDepth(a, d+1))
			}
			return "call:" + f.Name() + "(" + strings.Join(as, ",") + ")"
		}
	}
	return v.Name()
}

// canonSubst: values that are to be spelled as given (decision-table composition: a helper's parameters as the
// call's arguments, a helper call as what the helper returns on one of its paths).
var canonSubst map[ssa.Value]string

// canonPhiHook lets a path-sensitive client (decision-table extraction) resolve phis by the path being walked.
var canonPhiHook func(*ssa.Phi) ssa.Value

// isPureLeaf: a function with a body that contains no store, map update, call or
// other effect: its result is a function of its arguments and of the memory they reach.
func isPureLeaf(f *ssa.Function) bool {
	if f.Blocks == nil {
		return false
	}
	for _, b := range f.Blocks {
		for _, in := range b.Instrs {
			switch x := in.(type) {
			case *ssa.Store:
				// spilling a value parameter or a local composite into a local is not an effect
				if _, ok := addrRoot(x.Addr).(*ssa.Alloc); !ok {
					return false
				}
			case *ssa.MapUpdate, *ssa.Call, *ssa.Go, *ssa.Defer, *ssa.Send, *ssa.Panic:
				return false
			}
		}
	}
	return true
}

// descr renders a value for obligation keys and reports: like canon, but local variables are
// named by their source name instead of their SSA register, so that keys survive unrelated edits.
func descr(v ssa.Value) string { return descrDepth(v, 0) }

// descrSubst: values that are to be described as given (a helper's parameters as the call's arguments while the
// helper's arithmetic is read through).
var descrSubst map[ssa.Value]string

func descrDepth(v ssa.Value, d int) string {
	if d > 10 {
		return "..."
	}
	if descrSubst != nil {
		if s, ok := descrSubst[v]; ok {
			return s
		}
	}
	switch x := v.(type) {
	case *ssa.Alloc:
		if x.Comment != "" {
			return x.Comment
		}
		return "local"
	case *ssa.Phi:
		if x.Comment != "" {
			return x.Comment
		}
		return "var"
	case *ssa.Const:
		return canon(x)
	case *ssa.FieldAddr:
		return descrDepth(x.X, d+1) + "." + fieldName(x.X.Type(), x.Field)
	case *ssa.Field:
		return descrDepth(x.X, d+1) + "." + fieldName(x.X.Type(), x.Field)
	case *ssa.IndexAddr:
		return descrDepth(x.X, d+1) + "[" + descrDepth(x.Index, d+1) + "]"
	case *ssa.Index:
		return descrDepth(x.X, d+1) + "[" + descrDepth(x.Index, d+1) + "]"
	case *ssa.UnOp:
		if x.Op == token.MUL {
			switch x.X.(type) {
			case *ssa.FieldAddr, *ssa.IndexAddr, *ssa.Alloc, *ssa.FreeVar, *ssa.Global:
				return descrDepth(x.X, d+1)
			}
			return "*" + descrDepth(x.X, d+1)
		}
		return x.Op.String() + descrDepth(x.X, d+1)
	case *ssa.BinOp:
		return descrDepth(x.X, d+1) + x.Op.String() + descrDepth(x.Y, d+1)
	case *ssa.Parameter, *ssa.FreeVar:
		return x.Name()
	case *ssa.Global:
		return x.Name()
	case *ssa.Extract:
		return descrDepth(x.Tuple, d+1) + "#" + fmt.Sprint(x.Index)
	case *ssa.Lookup:
		return descrDepth(x.X, d+1) + "[" + descrDepth(x.Index, d+1) + "]"
	case *ssa.Call:
		var as []string
		for _, a := range x.Call.Args {
			as = append(as, descrDepth(a, d+1))
		}
		n := calleeName(x)
		if i := strings.LastIndex(n, "."); i >= 0 {
			n = n[i+1:]
		}
		if x.Call.IsInvoke() {
			n = x.Call.Method.Name()
			as = append([]string{descrDepth(x.Call.Value, d+1)}, as...)
		}
		return n + "(" + strings.Join(as, ",") + ")"
	case *ssa.MakeInterface:
		return descrDepth(x.X, d+1)
	case *ssa.ChangeType:
		return descrDepth(x.X, d+1)
	case *ssa.Convert:
		return descrDepth(x.X, d+1)
	case *ssa.TypeAssert:
		return descrDepth(x.X, d+1) + ".(" + typeName(x.AssertedType) + ")"
	case *ssa.Next:
		return "next(" + descrDepth(x.Iter, d+1) + ")"
	case *ssa.Range:
		return "range " + descrDepth(x.X, d+1)
	case *ssa.Slice:
		return descrDepth(x.X, d+1) + "[:]"
	case *ssa.MakeMap:
		return describeMapExpr(x)
	}
	return typeName(v.Type())
}

// cellPath decomposes an address value into (root value, field path) when it
// is a chain of FieldAddr (and loads of pointer fields) from a root.
// E.g. &(*(&stop.Parent)).Type -> root=stop, path=".Parent.Type".
func memFields(v ssa.Value) []string {
	// returns the list of "Type.field" memory cells read when evaluating the canonical
	// expression of v (used for kill checks)
	var out []string
	var walk func(v ssa.Value, d int)
	walk = func(v ssa.Value, d int) {
		if d > 12 {
			return
		}
		switch x := v.(type) {
		case *ssa.UnOp:
			if x.Op == token.MUL {
				switch a := x.X.(type) {
				case *ssa.FieldAddr:
					out = append(out, typeName(a.X.Type())+"."+fieldName(a.X.Type(), a.Field))
				case *ssa.IndexAddr:
					out = append(out, "elem:"+deref(a.Type()).String())
				default:
					out = append(out, "ptr:"+deref(x.X.Type()).String())
				}
			}
			walk(x.X, d+1)
		case *ssa.FieldAddr:
			walk(x.X, d+1)
		case *ssa.Field:
			walk(x.X, d+1)
		case *ssa.IndexAddr:
			walk(x.X, d+1)
			walk(x.Index, d+1)
		case *ssa.Index:
			walk(x.X, d+1)
			walk(x.Index, d+1)
		case *ssa.Convert:
			walk(x.X, d+1)
		case *ssa.ChangeType:
			walk(x.X, d+1)
		case *ssa.BinOp:
			walk(x.X, d+1)
			walk(x.Y, d+1)
		}
	}
	walk(v, 0)
	return out
}

// storeCell names the memory cell class written by a store address, in the
// same vocabulary as memFields.
func storeCell(addr ssa.Value) string {
	switch a := addr.(type) {
	case *ssa.FieldAddr:
		return typeName(a.X.Type()) + "." + fieldName(a.X.Type(), a.Field)
	case *ssa.IndexAddr:
		return "elem:" + deref(a.Type()).String()
	}
	return "ptr:" + deref(addr.Type()).String()
}

// addrRoot strips FieldAddr/IndexAddr (and slicing) to find the root object an address points into.
func addrRoot(v ssa.Value) ssa.Value {
	for i := 0; i < 32; i++ {
		switch x := v.(type) {
		case *ssa.FieldAddr:
			v = x.X
		case *ssa.IndexAddr:
			v = x.X
		case *ssa.Slice:
			v = x.X
		case *ssa.ChangeType:
			v = x.X
		default:
			return v
		}
	}
	return v
}

// derivedFrom reports whether v is computed from any value in `from` through
// pure operations, loads, lookups, field/index selection, phi, extract and
// (optionally) calls that take such a value as argument.
func derivedFrom(v ssa.Value, from map[ssa.Value]bool, throughCalls bool) bool {
	seen := map[ssa.Value]bool{}
	var rec func(v ssa.Value, d int) bool
	rec = func(v ssa.Value, d int) bool {
		if v == nil || d > 40 {
			return false
		}
		if from[v] {
			return true
		}
		if seen[v] {
			return false
		}
		seen[v] = true
		switch x := v.(type) {
		case *ssa.FieldAddr:
			return rec(x.X, d+1)
		case *ssa.Field:
			return rec(x.X, d+1)
		case *ssa.IndexAddr:
			return rec(x.X, d+1) || rec(x.Index, d+1)
		case *ssa.Index:
			return rec(x.X, d+1) || rec(x.Index, d+1)
		case *ssa.Lookup:
			return rec(x.Index, d+1) || rec(x.X, d+1)
		case *ssa.UnOp:
			return rec(x.X, d+1)
		case *ssa.Convert:
			return rec(x.X, d+1)
		case *ssa.ChangeType:
			return rec(x.X, d+1)
		case *ssa.ChangeInterface:
			return rec(x.X, d+1)
		case *ssa.MakeInterface:
			return rec(x.X, d+1)
		case *ssa.TypeAssert:
			return rec(x.X, d+1)
		case *ssa.Slice:
			return rec(x.X, d+1)
		case *ssa.Alloc:
			// a local cell / literal array: derived if anything stored into it (or its elements) is
			for _, r := range *x.Referrers() {
				switch y := r.(type) {
				case *ssa.Store:
					if y.Addr == ssa.Value(x) && rec(y.Val, d+1) {
						return true
					}
				case *ssa.IndexAddr:
					for _, r2 := range *y.Referrers() {
						if st, ok := r2.(*ssa.Store); ok && st.Addr == ssa.Value(y) && rec(st.Val, d+1) {
							return true
						}
					}
				}
			}
			return false
		case *ssa.Extract:
			return rec(x.Tuple, d+1)
		case *ssa.BinOp:
			return rec(x.X, d+1) || rec(x.Y, d+1)
		case *ssa.Phi:
			for _, e := range x.Edges {
				if rec(e, d+1) {
					return true
				}
			}
		case *ssa.Call:
			if throughCalls {
				for _, a := range allArgs(x) {
					if rec(a, d+1) {
						return true
					}
				}
			}
		}
		return false
	}
	return rec(v, 0)
}

// instrString renders an instruction compactly for reports.
func instrString(in ssa.Instruction) string {
	s := in.String()
	if v, ok := in.(ssa.Value); ok && v.Name() != "" {
		s = v.Name() + " = " + s
	}
	if len(s) > 160 {
		s = s[:160] + "..."
	}
	return s
}

func trimMod(s string) string {
	s = strings.ReplaceAll(s, modPath+"/extensions/", "")
	s = strings.ReplaceAll(s, modPath+"/", "")
	return strings.ReplaceAll(s, modPath, "gtfs")
}

// fnByShort finds module functions whose short name equals name.
func (p *Program) fnByShort(name string) *ssa.Function {
	for _, f := range p.ModFns {
		if shortName(f) == name {
			return f
		}
	}
	return nil
}

// stores returns every Store instruction in the given functions.
func eachInstr(fns []*ssa.Function, f func(fn *ssa.Function, in ssa.Instruction)) {
	for _, fn := range fns {
		for _, b := range fn.Blocks {
			for _, in := range b.Instrs {
				f(fn, in)
			}
		}
	}
}

// paramIndex: the position of a parameter in its function's parameter list (-1 if not found).
func paramIndex(x *ssa.Parameter) int {
	for i, q := range x.Parent().Params {
		if q == x {
			return i
		}
	}
	return -1
}

// ------------------------------------------------------------ comparison normal form

// normalizeCond rewrites a branch condition into the form the rules are written against, without changing its
// meaning: negations are unfolded into the outcome; a constant operand goes to the right (mirroring the operator);
// emptiness tests are spelled `len(x) == 0` (from `< 1`, `<= 0`, `> 0`, `>= 1`, `!= 0`) and, for strings, `s == ""`;
// `x != k` with outcome v becomes `x == k` with outcome !v only when that is how the rules spell it (it is not: both
// EQL and NEQ are kept, rules accept either with the matching outcome). The returned value is the original one when
// nothing had to change, otherwise a synthetic BinOp (usable for its operands, operator and canonical form only).
func normalizeCond(cond ssa.Value, val bool) (ssa.Value, bool) {
	for i := 0; i < 4; i++ {
		u, ok := cond.(*ssa.UnOp)
		if !ok || u.Op != token.NOT {
			break
		}
		cond, val = u.X, !val
	}
	bo, ok := cond.(*ssa.BinOp)
	if !ok {
		return cond, val
	}
	x, y, op := bo.X, bo.Y, bo.Op
	switch op {
	case token.EQL, token.NEQ, token.LSS, token.LEQ, token.GTR, token.GEQ:
	default:
		return cond, val
	}
	changed := false
	if _, lc := x.(*ssa.Const); lc {
		if _, rc := y.(*ssa.Const); !rc {
			x, y = y, x
			switch op {
			case token.LSS:
				op = token.GTR
			case token.LEQ:
				op = token.GEQ
			case token.GTR:
				op = token.LSS
			case token.GEQ:
				op = token.LEQ
			}
			changed = true
		}
	}
	// emptiness of len()/cap()
	if call, isCall := x.(*ssa.Call); isCall && (isBuiltin(call, "len") || isBuiltin(call, "cap")) {
		if k, isK := constInt(y); isK {
			empty, known := false, false
			switch {
			case op == token.EQL && k == 0, op == token.LSS && k == 1, op == token.LEQ && k == 0:
				empty, known = true, true
			case op == token.NEQ && k == 0, op == token.GTR && k == 0, op == token.GEQ && k == 1:
				empty, known = false, true
			}
			if known {
				arg := call.Call.Args[0]
				if bt, isB := arg.Type().Underlying().(*types.Basic); isB && bt.Info()&types.IsString != 0 && isBuiltin(call, "len") {
					// string emptiness: s == ""
					k0 := ssa.NewConst(constant.MakeString(""), arg.Type())
					if empty {
						return &ssa.BinOp{Op: token.EQL, X: arg, Y: k0}, val
					}
					return &ssa.BinOp{Op: token.NEQ, X: arg, Y: k0}, val
				}
				if !(op == token.EQL || op == token.NEQ) || k != 0 {
					zero := ssa.NewConst(constant.MakeInt64(0), y.Type())
					if empty {
						return &ssa.BinOp{Op: token.EQL, X: x, Y: zero}, val
					}
					return &ssa.BinOp{Op: token.NEQ, X: x, Y: zero}, val
				}
			}
		}
	}
	if !changed {
		if cond == ssa.Value(bo) {
			return cond, val
		}
		return bo, val
	}
	return &ssa.BinOp{Op: op, X: x, Y: y}, val
}

// pkgOfType: import path of the package that declares the (pointed-to) named type, "" for unnamed types.
func pkgOfType(t types.Type) string {
	n := namedOf(t)
	if n == nil || n.Obj().Pkg() == nil {
		return ""
	}
	return n.Obj().Pkg().Path()
}
