package main

func init() {
	register(&PropSpec{
		ID: "C10",
		Explain: "Decides the default table for every default-bearing optional column, for both ways a value can be missing: OptionalColumn.Read/ReadOr are summarised from their CFG as {column absent, cell blank, value} -> {default argument, cell, \"\"}; for each read of a default-bearing column the cell handed on is composed with the consumer (direct field store, `== const`, or the decoder's extracted decision table) and the resulting field constant is compared with the GTFS default (DESIGN Appendix A.2), for 'absent' and for 'blank'. A decode that runs only under a test of its own column object that is false for an absent column is evaluated as skipped for 'absent': the field then keeps the zero value of its type, which must be the default. " +
			"Fill-in: under each validity combination of (arrival, departure) the value stored in ArrivalTime/DepartureTime must come from a valid side. Inheritance: stores under the option touch only WheelchairBoarding, guarded by parent present and own value unspecified, and store the parent's value. " +
			"The inheriting store is reached on every path on which option, parent and own Unspecified hold (no further condition restricts it). Not decided: that the decoders are applied to every row (C01), numeric parsing. The destination field of a default-bearing column is stored from the decoded cell only (a second store from another value would replace the default or the cell). The fill-in is followed into a helper that answers the two times as results or as fields of a small struct, whether it decodes the cells itself or is handed the decoded values with their flags. The time decoder answers not-valid for the empty cell (every valid answer lies behind an emptiness test), which is what the fill-in keys on. Every record read becomes the current row (none skipped for its cells), and the time decoder answers not-valid only on tests of the cell, the current character and the piece index.",
		Rules: []Rule{
			{Name: "WARN", Doc: "every record the csv reader yields becomes the current row of the parser (none is skipped for what its cells are: a row whose leading optional cell is blank takes the default, it is not dropped)", MinInstances: 5, Run: runWarningRules},
			{Name: "DEF", Doc: "blank = absent = GTFS default for every default-bearing column", MinInstances: 14, Run: runDefaults},
			{Name: "FILL", Doc: "arrival/departure fill-in takes the valid side", MinInstances: 1, Run: runFillIn},
			{Name: "INH", Doc: "wheelchair inheritance is guarded and touches nothing else", MinInstances: 1, Run: runInheritance},
		},
	})
}
