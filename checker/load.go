package main

import (
	"fmt"
	"go/ast"
	"go/token"
	"go/types"
	"os"
	"path/filepath"
	"sort"
	"strings"

	"golang.org/x/tools/go/callgraph"
	"golang.org/x/tools/go/callgraph/cha"
	"golang.org/x/tools/go/callgraph/vta"
	"golang.org/x/tools/go/packages"
	"golang.org/x/tools/go/ssa"
	"golang.org/x/tools/go/ssa/ssautil"
)

const modPath = "github.com/jamespfennell/gtfs"

// Program is the resolved program every rule works on: the type-checked
// packages of the repository's working tree, their go/ssa form and a call
// graph. Nothing in here ever executes repository code.
type Program struct {
	Dir     string
	Fset    *token.FileSet
	Pkgs    []*packages.Package          // module packages
	ByPath  map[string]*packages.Package // all packages, by import path
	SSA     *ssa.Program
	SSAPkg  map[string]*ssa.Package // module ssa packages by import path
	CG      *callgraph.Graph
	ModFns  []*ssa.Function // every function with a body that belongs to the module (incl. closures, instantiations, wrappers)
	fnIndex map[*ssa.Function]bool
	GOARCH  string
	Tags    string

	// lazily computed
	callersOf map[*ssa.Function][]*CallEdge
	outEdges  map[*ssa.Function][]*CallEdge
	implCache map[string][]*ssa.Function
	loadMemo  map[*ssa.Function]map[string]bool
	// fieldStoreIdx: "pkg.Type.field" -> values stored into that field anywhere in the module (lazily built)
	fieldStoreIdx map[string][]ssa.Value
}

type LoadOpts struct {
	Dir    string
	GOARCH string
	Tags   string
	Tests  bool
}

func loadProgram(o LoadOpts) (*Program, error) {
	env := []string{
		"GOFLAGS=-mod=mod", "GOPROXY=off", "GOSUMDB=off", "GOTOOLCHAIN=local", "GOWORK=off",
		"HOME=" + os.Getenv("HOME"), "PATH=" + os.Getenv("PATH"),
		"GOCACHE=" + goCacheDir(), "GOPATH=" + os.Getenv("GOPATH"), "GOMODCACHE=" + os.Getenv("GOMODCACHE"),
		"CGO_ENABLED=0",
	}
	if o.GOARCH != "" {
		env = append(env, "GOARCH="+o.GOARCH)
	}
	cfg := &packages.Config{
		Mode:  packages.LoadAllSyntax,
		Dir:   o.Dir,
		Env:   env,
		Tests: o.Tests,
	}
	if o.Tags != "" {
		cfg.BuildFlags = []string{"-tags=" + o.Tags}
	}
	pkgs, err := packages.Load(cfg, "./...")
	if err != nil {
		return nil, fmt.Errorf("packages.Load: %w", err)
	}
	if len(pkgs) == 0 {
		return nil, fmt.Errorf("no packages loaded from %s", o.Dir)
	}
	p := &Program{Dir: o.Dir, ByPath: map[string]*packages.Package{}, SSAPkg: map[string]*ssa.Package{}, GOARCH: o.GOARCH, Tags: o.Tags, fnIndex: map[*ssa.Function]bool{}}
	var errs []string
	packages.Visit(pkgs, nil, func(pk *packages.Package) {
		p.ByPath[pk.PkgPath] = pk
		if strings.HasPrefix(pk.PkgPath, modPath) {
			for _, e := range pk.Errors {
				errs = append(errs, e.Error())
			}
		}
	})
	if len(errs) > 0 {
		return nil, fmt.Errorf("type/load errors in module packages: %s", strings.Join(errs, "; "))
	}
	for _, pk := range pkgs {
		if strings.HasPrefix(pk.PkgPath, modPath) {
			p.Pkgs = append(p.Pkgs, pk)
		}
	}
	sort.Slice(p.Pkgs, func(i, j int) bool { return p.Pkgs[i].PkgPath < p.Pkgs[j].PkgPath })
	p.Fset = pkgs[0].Fset
	prog, _ := ssautil.AllPackages(pkgs, ssa.InstantiateGenerics)
	for _, pk := range p.Pkgs {
		sp := prog.Package(pk.Types)
		if sp == nil {
			return nil, fmt.Errorf("no ssa package for %s", pk.PkgPath)
		}
		sp.SetDebugMode(true)
		p.SSAPkg[pk.PkgPath] = sp
	}
	prog.Build()
	p.SSA = prog
	all := ssautil.AllFunctions(prog)
	for fn := range all {
		if fn.Blocks == nil {
			continue
		}
		if p.isModuleFn(fn) {
			p.ModFns = append(p.ModFns, fn)
			p.fnIndex[fn] = true
		}
	}
	sort.Slice(p.ModFns, func(i, j int) bool { return p.ModFns[i].String() < p.ModFns[j].String() })
	p.CG = vta.CallGraph(all, cha.CallGraph(prog))
	return p, nil
}

func goCacheDir() string {
	if d := os.Getenv("GOCACHE"); d != "" {
		return d
	}
	h := os.Getenv("HOME")
	if h == "" {
		h = "/root"
	}
	return filepath.Join(h, ".cache", "go-build")
}

// isModuleFn reports whether fn's code belongs to the repository module
// (declared functions, methods, closures, generic instantiations and
// synthetic wrappers of module methods).
func (p *Program) isModuleFn(fn *ssa.Function) bool {
	f := fn
	for f.Parent() != nil {
		f = f.Parent()
	}
	if o := f.Origin(); o != nil {
		f = o
	}
	if f.Pkg != nil {
		return strings.HasPrefix(f.Pkg.Pkg.Path(), modPath)
	}
	// wrappers / bound methods / instantiations have no Pkg; use the object
	if obj := f.Object(); obj != nil && obj.Pkg() != nil {
		return strings.HasPrefix(obj.Pkg().Path(), modPath)
	}
	if f.Synthetic != "" && f.Signature.Recv() != nil {
		t := f.Signature.Recv().Type()
		if pt, ok := t.(*types.Pointer); ok {
			t = pt.Elem()
		}
		if n, ok := t.(*types.Named); ok && n.Obj().Pkg() != nil {
			return strings.HasPrefix(n.Obj().Pkg().Path(), modPath)
		}
	}
	return false
}

// fnPkgPath returns the import path of the package a module function belongs to.
func fnPkgPath(fn *ssa.Function) string {
	f := fn
	for f.Parent() != nil {
		f = f.Parent()
	}
	if o := f.Origin(); o != nil {
		f = o
	}
	if f.Pkg != nil {
		return f.Pkg.Pkg.Path()
	}
	if obj := f.Object(); obj != nil && obj.Pkg() != nil {
		return obj.Pkg().Path()
	}
	if f.Signature.Recv() != nil {
		t := f.Signature.Recv().Type()
		if pt, ok := t.(*types.Pointer); ok {
			t = pt.Elem()
		}
		if n, ok := t.(*types.Named); ok && n.Obj().Pkg() != nil {
			return n.Obj().Pkg().Path()
		}
	}
	return ""
}

func isProtoPkg(path string) bool { return path == modPath+"/proto" }

// shortName renders a function name relative to the module:
// gtfs.ParseRealtime, gtfs.(*hasher).trip, journal.(*Trip).update, gtfs.ParseStatic$3
func shortName(fn *ssa.Function) string {
	s := fn.String()
	s = strings.ReplaceAll(s, modPath+"/extensions/", "")
	s = strings.ReplaceAll(s, modPath+"/", "")
	s = strings.ReplaceAll(s, modPath, "gtfs")
	return s
}

func (p *Program) pos(pos token.Pos) string {
	if !pos.IsValid() {
		return "-"
	}
	ps := p.Fset.Position(pos)
	rel, err := filepath.Rel(p.Dir, ps.Filename)
	if err != nil || strings.HasPrefix(rel, "..") {
		rel = ps.Filename
	}
	return fmt.Sprintf("%s:%d:%d", rel, ps.Line, ps.Column)
}

// instrPos returns the best position for an instruction (falls back to the
// position of an operand or of the enclosing function for NoPos instructions).
func (p *Program) ipos(in ssa.Instruction) string {
	if in.Pos().IsValid() {
		return p.pos(in.Pos())
	}
	for _, op := range in.Operands(nil) {
		if *op != nil && (*op).Pos().IsValid() {
			return p.pos((*op).Pos())
		}
	}
	if v, ok := in.(ssa.Value); ok {
		if refs := v.Referrers(); refs != nil {
			for _, r := range *refs {
				if r.Pos().IsValid() {
					return p.pos(r.Pos())
				}
			}
		}
	}
	return p.pos(in.Parent().Pos())
}

// Func finds a package-level function or method by short spec:
// "gtfs:ParseRealtime", "gtfs:(*hasher).trip", "journal:(*Trip).update", "csv:(RequiredColumn).Read"
func (p *Program) Func(spec string) *ssa.Function {
	i := strings.Index(spec, ":")
	pkgShort, name := spec[:i], spec[i+1:]
	path := pkgPathOf(pkgShort)
	sp := p.SSAPkg[path]
	if sp == nil {
		return nil
	}
	if strings.HasPrefix(name, "(") {
		j := strings.Index(name, ").")
		recv, m := name[1:j], name[j+2:]
		ptr := strings.HasPrefix(recv, "*")
		recv = strings.TrimPrefix(recv, "*")
		tn := sp.Type(recv)
		if tn == nil {
			return nil
		}
		var t types.Type = tn.Type()
		if ptr {
			t = types.NewPointer(t)
		}
		ms := p.SSA.MethodSets.MethodSet(t)
		for k := 0; k < ms.Len(); k++ {
			if ms.At(k).Obj().Name() == m {
				return p.SSA.MethodValue(ms.At(k))
			}
		}
		return nil
	}
	return sp.Func(name)
}

func pkgPathOf(short string) string {
	switch short {
	case "gtfs":
		return modPath
	case "nycttrips", "nyctalerts":
		return modPath + "/extensions/" + short
	default:
		return modPath + "/" + short
	}
}

// Callees returns the module functions (with bodies) and external functions a call site may invoke.
func (p *Program) Callees(site ssa.CallInstruction) []*ssa.Function {
	n := p.CG.Nodes[site.Parent()]
	if n == nil {
		return nil
	}
	var out []*ssa.Function
	seen := map[*ssa.Function]bool{}
	for _, e := range n.Out {
		if e.Site == site && !seen[e.Callee.Func] {
			seen[e.Callee.Func] = true
			out = append(out, e.Callee.Func)
		}
	}
	// interface invokes on module interfaces: add every module implementation (CHA), so that dispatch
	// targets do not depend on which concrete types happen to flow there in the loaded packages
	if cc := site.Common(); cc.IsInvoke() {
		if n := namedOf(cc.Value.Type()); n != nil && n.Obj().Pkg() != nil && strings.HasPrefix(n.Obj().Pkg().Path(), modPath) {
			for _, f := range p.moduleImplementations(cc.Value.Type(), cc.Method.Name()) {
				if !seen[f] {
					seen[f] = true
					out = append(out, f)
				}
			}
		}
	}
	sort.Slice(out, func(i, j int) bool { return out[i].String() < out[j].String() })
	return out
}

// moduleImplementations: methods named m of module types T (value method sets) that implement iface.
func (p *Program) moduleImplementations(iface types.Type, m string) []*ssa.Function {
	it, ok := iface.Underlying().(*types.Interface)
	if !ok {
		return nil
	}
	key := iface.String() + "." + m
	if p.implCache == nil {
		p.implCache = map[string][]*ssa.Function{}
	}
	if r, ok := p.implCache[key]; ok {
		return r
	}
	var out []*ssa.Function
	for _, pk := range p.Pkgs {
		if isProtoPkg(pk.PkgPath) && !isProtoPkg(namedOf(iface).Obj().Pkg().Path()) {
			// generated message types implement module interfaces such as tripOrVehicle through their getters
		}
		sc := pk.Types.Scope()
		for _, name := range sc.Names() {
			tn, ok := sc.Lookup(name).(*types.TypeName)
			if !ok || tn.IsAlias() {
				continue
			}
			for _, t := range []types.Type{tn.Type(), types.NewPointer(tn.Type())} {
				if _, isIface := t.Underlying().(*types.Interface); isIface {
					continue
				}
				if !types.Implements(t, it) {
					continue
				}
				// prefer the value type when it implements the interface (pointer wrappers add nothing)
				if _, isPtr := t.(*types.Pointer); isPtr && types.Implements(tn.Type(), it) {
					continue
				}
				ms := p.SSA.MethodSets.MethodSet(t)
				for k := 0; k < ms.Len(); k++ {
					if ms.At(k).Obj().Name() == m {
						if f := p.SSA.MethodValue(ms.At(k)); f != nil {
							out = append(out, f)
						}
					}
				}
			}
		}
	}
	p.implCache[key] = out
	return out
}

// CallEdge is a resolved call: site in Caller may invoke Callee.
type CallEdge struct {
	Caller *ssa.Function
	Site   ssa.CallInstruction
	Callee *ssa.Function
}

func (p *Program) buildEdges() {
	if p.callersOf != nil {
		return
	}
	p.callersOf = map[*ssa.Function][]*CallEdge{}
	p.outEdges = map[*ssa.Function][]*CallEdge{}
	for _, fn := range p.ModFns {
		for _, b := range fn.Blocks {
			for _, in := range b.Instrs {
				site, ok := in.(ssa.CallInstruction)
				if !ok {
					continue
				}
				for _, cal := range p.Callees(site) {
					e := &CallEdge{Caller: fn, Site: site, Callee: cal}
					p.callersOf[cal] = append(p.callersOf[cal], e)
					p.outEdges[fn] = append(p.outEdges[fn], e)
				}
			}
		}
	}
}

// Callers returns the resolved call edges into fn from module code.
func (p *Program) Callers(fn *ssa.Function) []*CallEdge {
	p.buildEdges()
	// a compiler-made wrapper (pointer-receiver wrapper of a value method, bound-method thunk) is transparent: the
	// callers of the wrapper are the callers, at their own call sites
	var out []*CallEdge
	for _, e := range p.callersOf[fn] {
		if e.Caller != nil && e.Caller.Synthetic != "" && (strings.HasPrefix(e.Caller.Synthetic, "wrapper") || strings.HasPrefix(e.Caller.Synthetic, "bound") || strings.HasPrefix(e.Caller.Synthetic, "thunk")) {
			for _, e2 := range p.callersOf[e.Caller] {
				out = append(out, &CallEdge{Caller: e2.Caller, Site: e2.Site, Callee: fn})
			}
			continue
		}
		out = append(out, e)
	}
	return out
}

// Reachable returns the set of functions reachable from roots in the call
// graph, descending only through module functions (external callees are
// included as leaves). Closures created inside a reachable function are
// conservatively included as well (they may be invoked through reflection,
// e.g. by text/template).
func (p *Program) Reachable(roots ...*ssa.Function) map[*ssa.Function][]*ssa.Function {
	// value: path from a root (for reports)
	reach := map[*ssa.Function][]*ssa.Function{}
	var work []*ssa.Function
	for _, r := range roots {
		if r == nil {
			continue
		}
		if _, ok := reach[r]; !ok {
			reach[r] = []*ssa.Function{r}
			work = append(work, r)
		}
	}
	for len(work) > 0 {
		fn := work[0]
		work = work[1:]
		if !p.fnIndex[fn] {
			continue // external: leaf
		}
		add := func(c *ssa.Function) {
			if _, ok := reach[c]; ok {
				return
			}
			path := append(append([]*ssa.Function{}, reach[fn]...), c)
			reach[c] = path
			work = append(work, c)
		}
		p.buildEdges()
		{
			var cs []*ssa.Function
			for _, e := range p.outEdges[fn] {
				cs = append(cs, e.Callee)
			}
			sort.Slice(cs, func(i, j int) bool { return cs[i].String() < cs[j].String() })
			for _, c := range cs {
				add(c)
			}
		}
		for _, anon := range fn.AnonFuncs {
			add(anon)
		}
	}
	return reach
}

func pathString(path []*ssa.Function) string {
	var s []string
	for _, f := range path {
		s = append(s, shortName(f))
	}
	return strings.Join(s, " -> ")
}

// FileOf returns the syntax file containing pos.
func (p *Program) FileOf(pos token.Pos) *ast.File {
	for _, pk := range p.Pkgs {
		for _, f := range pk.Syntax {
			if f.Pos() <= pos && pos <= f.End() {
				return f
			}
		}
	}
	return nil
}

func (p *Program) PkgOf(fn *ssa.Function) *packages.Package {
	return p.ByPath[fnPkgPath(fn)]
}
