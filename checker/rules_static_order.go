package main

import (
	"go/token"
	"strings"

	"golang.org/x/tools/go/ssa"
)

// runPreallocGuard: inside a NextRow loop, a store of a fresh (make / nil / empty) slice into a collection field of an
// entity that the loop also appends to must be guarded by cap(field) == 0 or len(field) == 0 of the same object:
// otherwise rows collected earlier (interleaved trips) are discarded.
func runPreallocGuard(c *Ctx) {
	p := c.P
	n := 0
	for _, fn := range staticParseFns(c) {
		for _, l := range naturalLoops(fn) {
			iff, ok := l.Header.Instrs[len(l.Header.Instrs)-1].(*ssa.If)
			if !ok {
				continue
			}
			call, ok := iff.Cond.(*ssa.Call)
			if !ok || calleeName(call) != "(*"+modPath+"/csv.File).NextRow" {
				continue
			}
			// fields appended to in this loop
			appended := map[string]bool{}
			for b := range l.Blocks {
				for _, in := range b.Instrs {
					if st, ok := in.(*ssa.Store); ok && isAppendOf(st.Val, st.Addr) {
						appended[storeCell(st.Addr)] = true
					}
				}
			}
			for b := range l.Blocks {
				for _, in := range b.Instrs {
					st, ok := in.(*ssa.Store)
					if !ok || !appended[storeCell(st.Addr)] || isAppendOf(st.Val, st.Addr) {
						continue
					}
					n++
					fa, _ := st.Addr.(*ssa.FieldAddr)
					guarded := false
					if fa != nil {
						want := canon(fa)
						for _, ce := range dominatingConds(b) {
							bo, ok := ce.Cond.(*ssa.BinOp)
							if !ok {
								continue
							}
							cl, ok := bo.X.(*ssa.Call)
							if !ok || !(isBuiltin(cl, "cap") || isBuiltin(cl, "len")) {
								continue
							}
							ld, ok := cl.Call.Args[0].(*ssa.UnOp)
							if !ok || canon(ld.X) != want {
								continue
							}
							if k, isC := constInt(bo.Y); isC && k == 0 && ((bo.Op == token.EQL && ce.Val) || (bo.Op == token.NEQ && !ce.Val)) {
								guarded = true
							}
						}
					}
					c.Check(guarded, "PREALLOC", shortName(fn), "reset of "+strings.TrimPrefix(storeCell(st.Addr), "gtfs."), p.ipos(st), "the fresh slice is stored only when the collection is still empty (cap/len == 0 of the same object)", "a collection that the row loop appends to is replaced by a fresh slice without checking that it is still empty: rows of the same trip that are not contiguous lose the earlier ones")
				}
			}
		}
	}
	c.Stats["PREALLOC resets in row loops"] = n
	if n == 0 {
		c.Proved("PREALLOC", "gtfs", "no collection is reset inside a row loop", "-", "no store of a fresh slice into an appended collection")
	}
}
