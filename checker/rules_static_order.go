package main

import (
	"fmt"
	"go/token"
	"go/types"
	"strings"

	"golang.org/x/tools/go/ssa"
)

// runPreallocGuard: inside a NextRow loop, a store of a fresh (make / nil / empty) slice into a collection field of an
// entity that the loop also appends to must be guarded by cap(field) == 0 or len(field) == 0 of the same object:
// otherwise rows collected earlier (interleaved trips) are discarded.
func runPreallocGuard(c *Ctx) {
	p := c.P
	n := 0
	for _, fn := range staticParseFns(c) {
		for _, l := range naturalLoops(fn) {
			iff, ok := l.Header.Instrs[len(l.Header.Instrs)-1].(*ssa.If)
			if !ok {
				continue
			}
			call, ok := iff.Cond.(*ssa.Call)
			if !ok || calleeName(call) != "(*"+modPath+"/csv.File).NextRow" {
				continue
			}
			// fields appended to in this loop
			appended := map[string]bool{}
			for b := range l.Blocks {
				for _, in := range b.Instrs {
					if st, ok := in.(*ssa.Store); ok && isAppendOf(st.Val, st.Addr) {
						appended[storeCell(st.Addr)] = true
					}
				}
			}
			for b := range l.Blocks {
				for _, in := range b.Instrs {
					st, ok := in.(*ssa.Store)
					if !ok || !appended[storeCell(st.Addr)] || isAppendOf(st.Val, st.Addr) {
						continue
					}
					n++
					fa, _ := st.Addr.(*ssa.FieldAddr)
					guarded := fa != nil && emptinessGuarded(b, fa)
					c.Check(guarded, "PREALLOC", shortName(fn), "reset of "+strings.TrimPrefix(storeCell(st.Addr), "gtfs."), p.ipos(st), "the fresh slice is stored only when the collection is still empty (cap/len == 0 of the same object)", "a collection that the row loop appends to is replaced by a fresh slice without checking that it is still empty: rows of the same trip that are not contiguous lose the earlier ones")
				}
			}
		}
	}
	// a collection field of an entity that outlives the row (reached through a pointer that is not a local struct) is
	// replaced, on the way of a row (in the loop or in a closure / helper the loop calls), by something that does not
	// extend its own old value, without a test that it is still empty: the rows collected for it earlier are lost
	for _, fn := range staticParseFns(c) {
		if fn.Parent() != nil {
			continue
		}
		for _, l := range naturalLoops(fn) {
			iff, ok := l.Header.Instrs[len(l.Header.Instrs)-1].(*ssa.If)
			if !ok {
				continue
			}
			call, ok := iff.Cond.(*ssa.Call)
			if !ok || calleeName(call) != "(*"+modPath+"/csv.File).NextRow" {
				continue
			}
			var callees []*ssa.Function
			seen := map[*ssa.Function]bool{fn: true}
			var addCallees func(blocks []*ssa.BasicBlock, d int)
			addCallees = func(blocks []*ssa.BasicBlock, d int) {
				for _, b := range blocks {
					for _, in := range b.Instrs {
						cl, ok := in.(*ssa.Call)
						if !ok {
							continue
						}
						var tgt []*ssa.Function
						if sc := staticCallee(cl); sc != nil {
							tgt = append(tgt, sc)
						} else {
							tgt = append(tgt, c.funcValues(cl.Call.Value, 0)...)
						}
						for _, t := range tgt {
							if t == nil || seen[t] || !p.fnIndex[t] || len(t.Blocks) == 0 {
								continue
							}
							if t.Pkg == nil || t.Pkg.Pkg.Path() != modPath {
								continue
							}
							seen[t] = true
							callees = append(callees, t)
							if d < 2 {
								addCallees(t.Blocks, d+1)
							}
						}
					}
				}
			}
			var lb []*ssa.BasicBlock
			for b := range l.Blocks {
				lb = append(lb, b)
			}
			addCallees(lb, 0)
			for _, g := range callees {
				for _, b := range g.Blocks {
					for _, in := range b.Instrs {
						st, ok := in.(*ssa.Store)
						if !ok || isAppendOf(st.Val, st.Addr) {
							continue
						}
						fa, ok := st.Addr.(*ssa.FieldAddr)
						if !ok {
							continue
						}
						if _, isSlice := deref(fa.Type()).Underlying().(*types.Slice); !isSlice {
							continue
						}
						if _, local := fa.X.(*ssa.Alloc); local {
							continue
						}
						if sl, isSl := st.Val.(*ssa.Slice); isSl && canon(sl.X) == "*("+canon(st.Addr)+")" {
							continue
						}
						n++
						c.Check(emptinessGuarded(b, fa), "PREALLOC", shortName(g), "reset of "+strings.TrimPrefix(storeCell(st.Addr), "gtfs."), p.ipos(st), "the fresh slice is stored only when the collection is still empty (cap/len == 0 of the same object)", "on the way of a row ("+shortName(g)+" is called from the row loop of "+shortName(fn)+") a collection of an entity that outlives the row is replaced by a value that does not extend it, without checking that it is still empty: rows of the same entity that are not contiguous lose the earlier ones")
					}
				}
			}
		}
	}
	// exclusive backing store: what is stored into a collection field that the parser also appends to is a fresh slice,
	// an append to the field itself, nil, or a re-slice of the field itself -- never a window into a buffer shared with
	// other entities without a capacity limit (an append would then run into the neighbour's elements)
	for _, fn := range staticParseFns(c) {
		appended := map[string]bool{}
		for _, b := range fn.Blocks {
			for _, in := range b.Instrs {
				if st, ok := in.(*ssa.Store); ok && isAppendOf(st.Val, st.Addr) {
					appended[storeCell(st.Addr)] = true
				}
			}
		}
		for _, b := range fn.Blocks {
			for _, in := range b.Instrs {
				st, ok := in.(*ssa.Store)
				if !ok || !appended[storeCell(st.Addr)] {
					continue
				}
				if _, isField := st.Addr.(*ssa.FieldAddr); !isField {
					continue
				}
				var shared func(v ssa.Value, d int) string
				shared = func(v ssa.Value, d int) string {
					if d > 8 {
						return ""
					}
					switch x := v.(type) {
					case *ssa.Slice:
						if x.Max != nil {
							return "" // full slice expression: capacity limited
						}
						if ld, ok := x.X.(*ssa.UnOp); ok && canon(ld.X) == canon(st.Addr) {
							return "" // a re-slice of the field itself
						}
						if isLocalArrayAlloc(x.X) != nil {
							return "" // a literal
						}
						return "a window " + descr(x) + " into another slice, without a capacity limit"
					case *ssa.Phi:
						for _, e := range x.Edges {
							if w := shared(e, d+1); w != "" {
								return w
							}
						}
					case *ssa.Call:
						if isBuiltin(x, "append") {
							return shared(x.Call.Args[0], d+1)
						}
					}
					return ""
				}
				if w := shared(st.Val, 0); w != "" {
					n++
					c.Violated("PREALLOC", shortName(fn), "backing store of "+strings.TrimPrefix(storeCell(st.Addr), "gtfs."), p.ipos(st), "a collection the parser appends to is given "+w+": appending more elements than were reserved overwrites the elements of whichever entity owns the next part of that buffer")
				}
			}
		}
	}
	c.Stats["PREALLOC resets in row loops"] = n
	if n == 0 {
		c.Proved("PREALLOC", "gtfs", "no collection is reset inside a row loop", "-", "no store of a fresh slice into an appended collection")
	}
}

// isParamOrItsCell: v is the parameter, or a load of the local cell the parameter was spilled to (a parameter that a
// closure captures lives in a cell that is stored once, with the parameter).
func isParamOrItsCell(v ssa.Value, prm *ssa.Parameter) bool {
	if v == ssa.Value(prm) {
		return true
	}
	ld, ok := v.(*ssa.UnOp)
	if !ok || ld.Op != token.MUL {
		return false
	}
	al, ok := ld.X.(*ssa.Alloc)
	if !ok {
		return false
	}
	sts := cellStores(al)
	return len(sts) == 1 && sts[0] == ssa.Value(prm)
}

// runCompositeKeys: in the static parser, a string used as a map key (or looked up in a map) that is put together from
// several variable parts has a constant separator between any two of them: `id + strconv.Itoa(seq)` gives the same
// key for ("shape_1", 12) and ("shape_11", 2), so two different rows look like one.
func runCompositeKeys(c *Ctx, rule string) {
	p := c.P
	b := newBinder(c)
	b.catForm = true
	n := 0
	seen := map[ssa.Value]bool{}
	for _, fn := range staticParseFns(c) {
		for _, blk := range fn.Blocks {
			for _, in := range blk.Instrs {
				var key ssa.Value
				switch x := in.(type) {
				case *ssa.MapUpdate:
					key = x.Key
				case *ssa.Lookup:
					if _, isMap := x.X.Type().Underlying().(*types.Map); isMap {
						key = x.Index
					}
				}
				if key == nil || seen[key] {
					continue
				}
				if bt, ok := key.Type().Underlying().(*types.Basic); !ok || bt.Info()&types.IsString == 0 {
					continue
				}
				seen[key] = true
				parts, ok := b.catPartsTop(key, 0)
				if !ok || len(parts) < 2 {
					continue
				}
				n++
				vars, adjacent := 0, false
				prevVar := false
				for _, pt := range parts {
					isConst := strings.HasPrefix(pt, "const:")
					if !isConst {
						vars++
						if prevVar {
							adjacent = true
						}
					}
					prevVar = !isConst
				}
				c.Check(!(vars >= 2 && adjacent), rule, shortName(fn), "composite key "+clip(strings.Join(parts, " + "), 80), p.ipos(in), "the variable parts of the key are separated by constant text", "the key is "+strings.Join(parts, " + ")+": two variable parts follow each other without a separator, so different pairs of values can give the same key (\"a\"+\"12\" and \"a1\"+\"2\"); which of the colliding rows is kept then depends on their order in the file")
			}
		}
	}
	c.Stats["composite string keys in the static parser"] = n
	if n == 0 {
		c.Proved(rule, "gtfs", "no composite string keys", "-", "no map of the static parser is keyed by a string built from several parts")
	}
}

// emptinessGuarded: block b is dominated by cap(F)==0 / len(F)==0 / F==nil of the very field fa addresses.
func emptinessGuarded(b *ssa.BasicBlock, fa *ssa.FieldAddr) bool {
	want := canon(fa)
	for _, ce := range dominatingConds(b) {
		bo, ok := ce.Cond.(*ssa.BinOp)
		if !ok {
			continue
		}
		holds := (bo.Op == token.EQL && ce.Val) || (bo.Op == token.NEQ && !ce.Val)
		if ld, ok := bo.X.(*ssa.UnOp); ok && canon(ld.X) == want && isNilConst(bo.Y) && holds {
			return true
		}
		cl, ok := bo.X.(*ssa.Call)
		if !ok || !(isBuiltin(cl, "cap") || isBuiltin(cl, "len")) {
			continue
		}
		ld, ok := cl.Call.Args[0].(*ssa.UnOp)
		if !ok || canon(ld.X) != want {
			continue
		}
		if k, isC := constInt(bo.Y); isC && k == 0 && holds {
			return true
		}
	}
	return false
}

// ---------------------------------------------------------------- sort comparators (G16b)

// runComparators: every sort.Slice(x, less) in the given functions: `less` indexes the very slice being sorted with its
// parameters, compares the same field of both elements, with < on an ordered basic type.
func runComparators(c *Ctx, fns []*ssa.Function, wantKey map[string]string) {
	p := c.P
	for _, fn := range fns {
		for _, b := range fn.Blocks {
			for _, in := range b.Instrs {
				call, ok := in.(*ssa.Call)
				if !ok {
					continue
				}
				name := calleeName(call)
				if name != "sort.Slice" && name != "sort.SliceStable" {
					continue
				}
				fname := shortName(fn)
				target := sortTarget(call)
				construct := "sort of " + descr(target)
				mc, ok := call.Call.Args[1].(*ssa.MakeClosure)
				if !ok {
					c.Undecided("CMP", fname, construct, p.ipos(call), "comparator is not a function literal")
					continue
				}
				less := mc.Fn.(*ssa.Function)
				tc := canon(target)
				var probs []string
				// every IndexAddr by a parameter must be on the sorted slice
				for _, lb := range less.Blocks {
					for _, lin := range lb.Instrs {
						ia, ok := lin.(*ssa.IndexAddr)
						if !ok {
							continue
						}
						if _, byParam := ia.Index.(*ssa.Parameter); !byParam {
							continue
						}
						sc := canon(ia.X)
						for i, fv := range less.FreeVars {
							sc = strings.ReplaceAll(sc, fv.Name(), canon(mc.Bindings[i]))
						}
						if sc != tc {
							probs = append(probs, fmt.Sprintf("the comparator indexes %s with i/j while %s is being sorted: after the first swap the two no longer correspond", descr(ia.X), descr(target)))
						}
					}
				}
				// result: F(x[i]) < F(x[j])
				field := ""
				if len(less.Blocks) == 1 {
					if ret, ok := less.Blocks[0].Instrs[len(less.Blocks[0].Instrs)-1].(*ssa.Return); ok {
						switch rv := ret.Results[0].(type) {
						case *ssa.BinOp:
							lhs, rhs, op := rv.X, rv.Y, rv.Op
							if op == token.GTR {
								lhs, rhs, op = rhs, lhs, token.LSS // key(x[j]) > key(x[i]) is key(x[i]) < key(x[j])
							}
							cl, cr := canon(lhs), canon(rhs)
							if k1, k2 := c.keyThroughFuncValue(lhs), c.keyThroughFuncValue(rhs); k1 != "" && k2 != "" {
								cl, cr = k1, k2 // key(&x[i]) < key(&x[j]) with key a field selector at every call site
							}
							a := strings.ReplaceAll(cl, "["+less.Params[0].Name()+"]", "[#]")
							bb := strings.ReplaceAll(cr, "["+less.Params[1].Name()+"]", "[#]")
							if op != token.LSS || a != bb || !strings.Contains(a, "[#]") {
								probs = append(probs, "comparator is not `key(x[i]) < key(x[j])` on one key: "+clip(a, 60)+" "+op.String()+" "+clip(bb, 60))
							}
							if i := strings.LastIndex(a, "."); i >= 0 {
								field = strings.TrimSuffix(a[i+1:], ")")
							}
						case *ssa.Call:
							field = "method " + rv.Call.Value.Name()
						default:
							probs = append(probs, "comparator shape not recognised")
						}
					}
				} else {
					probs = append(probs, "multi-block comparator not recognised")
				}
				elem := ""
				if sl, isSl := target.Type().Underlying().(*types.Slice); isSl {
					elem = typeName(sl.Elem())
				}
				if want, ok := wantKey[elem]; ok && field != "" && !strings.Contains(want, field) {
					probs = append(probs, "sorted by "+field+", expected "+want)
				}
				c.Check(len(probs) == 0, "CMP", fname, construct, p.ipos(call), "comparator indexes the sorted slice itself and compares one key ("+field+") with <", strings.Join(dedup(probs), "; "))
			}
		}
	}
}

// ---------------------------------------------------------------- per-group sorts and file order (C08)

func runStaticOrder(c *Ctx) {
	p := c.P
	fns := staticParseFns(c)
	// S1: stop times of every trip are sorted by StopSequence after the row loop
	if fn := c.anchor("gtfs:parseScheduledStopTimes"); fn != nil {
		fname := shortName(fn)
		var rowLoop *Loop
		loops := naturalLoops(fn)
		for _, l := range loops {
			if iff, ok := l.Header.Instrs[len(l.Header.Instrs)-1].(*ssa.If); ok {
				if call, ok := iff.Cond.(*ssa.Call); ok && calleeName(call) == "(*"+modPath+"/csv.File).NextRow" {
					rowLoop = l
				}
			}
		}
		var sortCall *ssa.Call
		var sortLoop *Loop
		for _, l := range loops {
			if l == rowLoop {
				continue
			}
			for b := range l.Blocks {
				for _, in := range b.Instrs {
					if call, ok := in.(*ssa.Call); ok && calleeName(call) == "sort.Slice" && strings.HasSuffix(canon(sortTarget(call)), ".StopTimes)") {
						sortCall, sortLoop = call, l
					}
					// or a helper that is handed the trip's StopTimes and sorts that parameter on every path
					if call, ok := in.(*ssa.Call); ok && sortCall == nil {
						if h := staticCallee(call); h != nil && c.P.isModuleFn(h) && len(h.Blocks) > 0 {
							for k, a := range call.Call.Args {
								if k >= len(h.Params) {
									continue
								}
								viaTrip := typeName(a.Type()) == "gtfs.ScheduledTrip" // handed the trip itself: sorts its StopTimes
								if !viaTrip && !strings.HasSuffix(canon(a), ".StopTimes)") {
									continue
								}
								for _, hb := range h.Blocks {
									for _, hin := range hb.Instrs {
										sc, isCall := hin.(*ssa.Call)
										if !isCall || calleeName(sc) != "sort.Slice" {
											continue
										}
										if viaTrip {
											ld, isLd := sortTarget(sc).(*ssa.UnOp)
											if !isLd {
												continue
											}
											fa, isFA := ld.X.(*ssa.FieldAddr)
											if !isFA || fieldName(fa.X.Type(), fa.Field) != "StopTimes" || !isParamOrItsCell(fa.X, h.Params[k]) {
												continue
											}
										} else if !isParamOrItsCell(sortTarget(sc), h.Params[k]) {
											continue
										}
										always := true
										for _, rb := range h.Blocks {
											if _, isRet := rb.Instrs[len(rb.Instrs)-1].(*ssa.Return); isRet && !(hb == rb || hb.Dominates(rb)) {
												always = false
											}
										}
										if always {
											sortCall, sortLoop = call, l
										}
									}
								}
							}
						}
					}
				}
			}
		}
		ok := rowLoop != nil && sortCall != nil && !rowLoop.Blocks[sortCall.Block()] && rowLoop.Header.Dominates(sortCall.Block())
		why := "no sort of each trip's StopTimes after the row loop"
		if ok {
			// the sort runs on every trip around the sorting loop, and that loop visits every trip
			uncond := true
			pathsWithin(sortLoop.Header, sortLoop, func(path []*ssa.BasicBlock, back bool) {
				if !back {
					return
				}
				has := false
				for _, b := range path {
					if b == sortCall.Block() {
						has = true
					}
				}
				if !has {
					uncond = false
				}
			})
			if !uncond {
				ok, why = false, "the sort is skipped for some trips (it is conditional inside the loop over the trips)"
			}
			// the loop ranges over a map filled from every element of the trips parameter, or over trips itself
			all := false
			for _, in := range sortLoop.Header.Instrs {
				if nx, isNext := in.(*ssa.Next); isNext {
					if rng, isR := nx.Iter.(*ssa.Range); isR {
						// every MapUpdate into this map happens in a full range over the trips parameter (in this function,
						// or in the helper that builds and returns the map from its slice argument)
						src := fullIndexSource(rng.X, 0)
						_, isParam := src.(*ssa.Parameter)
						all = src != nil && isParam && src.Parent() == fn
					}
				}
			}
			if !all {
				ok, why = false, "the sorting loop does not visit every trip (it must range over the id map filled from all trips)"
			}
		}
		pos := p.pos(fn.Pos())
		if sortCall != nil {
			pos = p.ipos(sortCall)
		}
		c.Check(ok, "ORDER", fname, "every trip's stop times sorted after all rows are read", pos, "unconditional sort.Slice of trip.StopTimes for every trip, after the row loop", why)
	}
	// S2: shapes: each group sorted before its points are built (wherever in parseShapes or its helpers that happens)
	if fn := c.anchor("gtfs:parseShapes"); fn != nil {
		fname := shortName(fn)
		region := c.regionOf(fn)
		var rowsSort *ssa.Call
		for _, g := range region {
			for _, b := range g.Blocks {
				for _, in := range b.Instrs {
					if call, ok := in.(*ssa.Call); ok && (calleeName(call) == "sort.Slice" || calleeName(call) == "sort.SliceStable") {
						if sl, isSl := sortTarget(call).Type().Underlying().(*types.Slice); isSl && typeName(sl.Elem()) == "gtfs.ShapeRow" {
							rowsSort = call
						}
					}
				}
			}
		}
		ok := rowsSort != nil
		why := "the rows of a shape are not sorted"
		if ok {
			for _, g := range region {
				for _, b := range g.Blocks {
					for _, in := range b.Instrs {
						call, isCall := in.(*ssa.Call)
						if !isCall || !isBuiltin(call, "append") {
							continue
						}
						if sl, isSl := call.Type().Underlying().(*types.Slice); !isSl || typeName(sl.Elem()) != "gtfs.ShapePoint" {
							continue
						}
						if !c.mustPrecede(rowsSort, call) {
							ok, why = false, "points are built before the rows are sorted"
						}
					}
				}
			}
		}
		c.Check(ok, "ORDER", fname, "shape points built from the rows sorted by sequence", p.pos(fn.Pos()), "sort.Slice(rows) precedes the loop that builds the points", why)
	}
	// comparators
	var cmpFns []*ssa.Function
	for _, f := range fns {
		cmpFns = append(cmpFns, f)
	}
	runComparators(c, cmpFns, map[string]string{"gtfs.ScheduledStopTime": "StopSequence", "gtfs.ShapeRow": "ShapePtSequence", "gtfs.Shape": "ID"})
	// S3: file-order collections: only tail appends, never sorted
	fileOrder := map[string]bool{"gtfs.Agency": true, "gtfs.Route": true, "gtfs.Stop": true, "gtfs.Transfer": true, "gtfs.ScheduledTrip": true, "gtfs.Frequency": true, "time.Time": true}
	for _, fn := range fns {
		for _, b := range fn.Blocks {
			for _, in := range b.Instrs {
				call, ok := in.(*ssa.Call)
				if !ok {
					continue
				}
				if isSortCall(calleeName(call)) {
					t := sortTarget(call).Type()
					if sl, ok := t.Underlying().(*types.Slice); ok && fileOrder[typeName(sl.Elem())] {
						c.Violated("ORDER", shortName(fn), "sort of a file-order collection", p.ipos(call), "a collection that must keep the row order of its file ("+typeName(sl.Elem())+") is sorted")
					}
					continue
				}
				if !isBuiltin(call, "append") {
					continue
				}
				sl, ok := call.Type().Underlying().(*types.Slice)
				if !ok || !fileOrder[typeName(sl.Elem())] {
					continue
				}
				// tail append: first argument is the accumulating slice (a phi of the same chain, a load of the same cell/field)
				okTail := false
				switch a0 := call.Call.Args[0].(type) {
				case *ssa.Phi, *ssa.Const:
					okTail = true
				case *ssa.UnOp:
					// x.F = append(x.F, ...): the result is stored back to the same cell
					for _, r := range *call.Referrers() {
						if st, ok := r.(*ssa.Store); ok && canon(st.Addr) == canon(a0.X) {
							okTail = true
						}
					}
				case *ssa.Lookup, *ssa.Call:
					okTail = true
				}
				// appended part is a single new element (variadic array of length 1)
				if s2, ok := call.Call.Args[1].(*ssa.Slice); ok {
					if n, ok := (&boundsProver{}).constLen(s2); !ok || n != 1 {
						okTail = false
					}
				}
				c.Check(okTail, "ORDER", shortName(fn), "tail append to "+typeName(sl.Elem())+" collection", p.ipos(call), "row order of the file is kept: one element appended at the end", "a file-order collection is built by something other than appending one element at the end")
			}
		}
	}
	runPreallocGuard(c)
	runCacheCoherence(c)
}

// runCacheCoherence: a loop-carried cached lookup (pointer p = m[k]) and its loop-carried key (kk) change together:
// on every trip around the loop either both are unchanged, or p = m[k] and kk = k for the same k.
func runCacheCoherence(c *Ctx) {
	p := c.P
	runCacheCoherenceStruct(c)
	for _, fn := range staticParseFns(c) {
		for _, l := range naturalLoops(fn) {
			var phis []*ssa.Phi
			for _, in := range l.Header.Instrs {
				if phi, ok := in.(*ssa.Phi); ok {
					phis = append(phis, phi)
				}
			}
			// cached pointer phis: some in-loop value is a lookup
			for _, pp := range phis {
				var keyOf ssa.Value
				walkPhiValues(pp, l, func(v ssa.Value) {
					if lk := lookupOf(v); lk != nil {
						keyOf = lk.Index
					}
				})
				if keyOf == nil {
					continue
				}
				// the key phi: a header phi that receives that key value
				var kp *ssa.Phi
				for _, q := range phis {
					if q == pp {
						continue
					}
					walkPhiValues(q, l, func(v ssa.Value) {
						if v == keyOf {
							kp = q
						}
					})
				}
				fname := shortName(fn)
				construct := "cache (" + pp.Comment + ", " + func() string {
					if kp != nil {
						return kp.Comment
					}
					return "?"
				}() + ")"
				if kp == nil {
					c.Violated("CACHE", fname, construct, p.ipos(pp), "a looked-up pointer is cached across rows without remembering the key it was looked up under")
					continue
				}
				ok := true
				why := ""
				n := pathsWithin(l.Header, l, func(path []*ssa.BasicBlock, back bool) {
					if !back {
						return
					}
					pe := pathEnv{pred: map[*ssa.BasicBlock]*ssa.BasicBlock{}}
					for i := 1; i < len(path); i++ {
						pe.pred[path[i]] = path[i-1]
					}
					last := path[len(path)-1]
					idx := -1
					for i, pr := range l.Header.Preds {
						if pr == last {
							idx = i
						}
					}
					if idx < 0 {
						return
					}
					pv := pe.resolvePhi(pp.Edges[idx])
					kv := pe.resolvePhi(kp.Edges[idx])
					switch {
					case pv == ssa.Value(pp) && kv == ssa.Value(kp):
					case pv != ssa.Value(pp) && kv != ssa.Value(kp):
						lk := lookupOf(pv)
						if lk == nil || lk.Index != kv {
							ok, why = false, "the cached pointer and the cached key are updated from different keys"
						}
					case pv == ssa.Value(pp):
						ok, why = false, "the cached key ("+kp.Comment+") changes on a path where the cached pointer ("+pp.Comment+") does not: later rows with that key are attributed to the previous object"
					default:
						ok, why = false, "the cached pointer ("+pp.Comment+") changes on a path where the cached key ("+kp.Comment+") does not"
					}
				})
				c.Check(ok && n > 0, "CACHE", fname, construct, p.ipos(pp), fmt.Sprintf("on all %d paths through the loop pointer and key are either both kept or both replaced from the same lookup", n), why)
			}
		}
	}
}

func walkPhiValues(phi *ssa.Phi, l *Loop, f func(v ssa.Value)) {
	seen := map[ssa.Value]bool{}
	var rec func(v ssa.Value, d int)
	rec = func(v ssa.Value, d int) {
		if seen[v] || d > 10 {
			return
		}
		seen[v] = true
		f(v)
		if q, ok := v.(*ssa.Phi); ok && l.Blocks[q.Block()] {
			for _, e := range q.Edges {
				rec(e, d+1)
			}
		}
	}
	for i, e := range phi.Edges {
		if l.Blocks[phi.Block().Preds[i]] {
			rec(e, 0)
		}
	}
}

// ---------------------------------------------------------------- G12: rejected rows are inert (C09)

// runRejectInert: in every NextRow loop the accept path is the one that ends in the lexically last block of the
// body; every other path back to the loop head (a `continue`) is a reject path and must have no persistent effect:
// no store to memory that outlives the iteration, no update of an outer map, no change of a loop-carried variable.
// Accumulating warnings, logging and the csv layer's per-row state are exempt.
func runRejectInert(c *Ctx) {
	p := c.P
	e, _ := c05Engine(c)
	for _, fn := range staticParseFns(c) {
		for _, l := range naturalLoops(fn) {
			iff, ok := l.Header.Instrs[len(l.Header.Instrs)-1].(*ssa.If)
			if !ok {
				continue
			}
			call, ok := iff.Cond.(*ssa.Call)
			if !ok || calleeName(call) != "(*"+modPath+"/csv.File).NextRow" {
				continue
			}
			fname := shortName(fn)
			// the accept block: the back-edge predecessor that comes last in the source
			var accept *ssa.BasicBlock
			var acceptPos token.Pos
			for _, pr := range l.Header.Preds {
				if !l.Blocks[pr] {
					continue
				}
				pos := lastPos(pr)
				if accept == nil || pos > acceptPos {
					accept, acceptPos = pr, pos
				}
			}
			// `if valid { record } else { report }` as the last statement of the body: both arms end the body, and which of
			// them is written first says nothing. The accepting arm is the one that records something; an arm that only
			// reports is a reject arm like any early exit.
			accepts := map[*ssa.BasicBlock]bool{}
			if accept != nil {
				effects := func(blk *ssa.BasicBlock) bool {
					for _, in := range blk.Instrs {
						switch x := in.(type) {
						case *ssa.Store:
							if _, isAl := addrRoot(x.Addr).(*ssa.Alloc); !isAl {
								return true
							}
						case *ssa.MapUpdate:
							return true
						case *ssa.Call:
							if isBuiltin(x, "append") {
								return true
							}
						}
					}
					return false
				}
				chosen := accept
				if len(accept.Preds) == 1 && !effects(accept) {
					for _, pr := range l.Header.Preds {
						if l.Blocks[pr] && pr != accept && len(pr.Preds) == 1 && pr.Preds[0] == accept.Preds[0] && effects(pr) {
							chosen = pr
						}
					}
				}
				accepts[chosen] = true
			}
			localAlloc := map[ssa.Value]bool{}
			for b := range l.Blocks {
				for _, in := range b.Instrs {
					if a, ok := in.(*ssa.Alloc); ok {
						localAlloc[a] = true
					}
				}
			}
			var phis []*ssa.Phi
			for _, in := range l.Header.Instrs {
				if phi, ok := in.(*ssa.Phi); ok {
					phis = append(phis, phi)
				}
			}
			cachePhis := map[*ssa.Phi]bool{}
			for _, pp := range phis {
				var keyOf ssa.Value
				walkPhiValues(pp, l, func(v ssa.Value) {
					if lk := lookupOf(v); lk != nil {
						keyOf = lk.Index
					}
				})
				if keyOf == nil {
					continue
				}
				for _, q := range phis {
					walkPhiValues(q, l, func(v ssa.Value) {
						if v == keyOf && q != pp {
							cachePhis[pp], cachePhis[q] = true, true
						}
					})
				}
			}
			var problems []string
			nReject := 0
			pathsWithin(l.Header.Succs[0], l, func(path []*ssa.BasicBlock, back bool) {
				if !back || accepts[path[len(path)-1]] {
					return
				}
				nReject++
				for _, b := range path {
					for _, in := range b.Instrs {
						switch x := in.(type) {
						case *ssa.Store:
							root := addrRoot(x.Addr)
							if localAlloc[root] {
								continue
							}
							if ld, ok := root.(*ssa.UnOp); ok {
								_ = ld
							}
							problems = append(problems, fmt.Sprintf("%s: %s is written although the row is then rejected", p.ipos(x), describeAddr(x.Addr)))
						case *ssa.MapUpdate:
							if localAlloc[x.Map] {
								continue
							}
							problems = append(problems, fmt.Sprintf("%s: map %s is updated although the row is then rejected", p.ipos(x), describeMapExpr(x.Map)))
						case *ssa.Call:
							if _, isB := x.Call.Value.(*ssa.Builtin); isB {
								continue
							}
							name := calleeName(x)
							if strings.Contains(name, "/csv.") || strings.HasPrefix(name, "log.") || strings.HasPrefix(name, "fmt.") || strings.Contains(name, "/warnings.") {
								continue
							}
							// a helper whose boolean answer decides the rejection: what counts is what it writes on the
							// paths on which it gives the answer this path took
							answer, known := false, false
							if blk := x.Block(); len(blk.Instrs) > 0 {
								if iff, isIf := blk.Instrs[len(blk.Instrs)-1].(*ssa.If); isIf && iff.Cond == ssa.Value(x) {
									for i, pb := range path {
										if pb != blk || blk.Succs[0] == blk.Succs[1] {
											continue
										}
										if i+1 < len(path) {
											answer, known = path[i+1] == blk.Succs[0], true
										} else if blk.Succs[0] == l.Header || blk.Succs[1] == l.Header {
											answer, known = blk.Succs[0] == l.Header, true // the branch itself goes back to the loop head
										}
									}
								}
							}
							for _, cal := range p.Callees(x) {
								if !p.fnIndex[cal] {
									continue
								}
								if known && inertWhenAnswering(p, e, cal, answer) {
									continue
								}
								// a helper that writes only through its pointer parameters, handed the address of a variable of
								// this iteration: nothing outlives the iteration
								if writesOnlyThroughParams(p, cal, 0) && argsAreIterationLocal(x, localAlloc) {
									continue
								}
								for k := range e.mods[cal] {
									if k != "local" && !strings.HasPrefix(k, "csv.") {
										problems = append(problems, fmt.Sprintf("%s: call of %s (writes %s) on a path that rejects the row", p.ipos(x), shortName(cal), k))
										break
									}
								}
							}
						}
					}
				}
				// loop-carried variables must be unchanged on a reject path
				pe := pathEnv{pred: map[*ssa.BasicBlock]*ssa.BasicBlock{}}
				pe.pred[path[0]] = l.Header
				for i := 1; i < len(path); i++ {
					pe.pred[path[i]] = path[i-1]
				}
				last := path[len(path)-1]
				for i, pr := range l.Header.Preds {
					if pr != last {
						continue
					}
					for _, phi := range phis {
						v := pe.resolvePhi(phi.Edges[i])
						if v == ssa.Value(phi) {
							continue
						}
						// warnings are allowed to accumulate
						if sl, ok := phi.Type().Underlying().(*types.Slice); ok && strings.Contains(sl.Elem().String(), "warnings.") {
							continue
						}
						// a lookup cache (pointer + key) may be refreshed by a rejected row: its coherence is the CACHE rule's subject
						if cachePhis[phi] {
							continue
						}
						problems = append(problems, fmt.Sprintf("%s: variable %q changes on a path that rejects the row (ending at %s)", p.ipos(phi), phi.Comment, p.pos(lastPos(last))))
					}
				}
			})
			c.Check(len(problems) == 0, "REJECT", fname, "rejected rows leave no trace", p.pos(fn.Pos()), fmt.Sprintf("none of the %d reject paths through the row loop has a persistent effect", nReject), strings.Join(dedup(problems), "; "))
			// a row is rejected for what the row itself says (and the tables built before the loop), never for what an
			// earlier row said: the conditions that decide a rejection do not read a loop-carried variable or a collection
			// that this loop fills (a "same as the previous row" or "already seen" guard drops valid rows of another trip
			// or shape when rows are interleaved, and makes the result depend on the row order)
			{
				filled := map[ssa.Value]bool{}
				for b := range l.Blocks {
					for _, in := range b.Instrs {
						if mu, ok := in.(*ssa.MapUpdate); ok {
							filled[mu.Map] = true
							if mc := mapCellOf(c, mu.Map); mc != nil {
								filled[mc] = true
							}
						}
					}
				}
				reachesAccept := func(from *ssa.BasicBlock) bool {
					seen := map[*ssa.BasicBlock]bool{}
					work := []*ssa.BasicBlock{from}
					for len(work) > 0 {
						cur := work[len(work)-1]
						work = work[:len(work)-1]
						if seen[cur] || !l.Blocks[cur] || cur == l.Header {
							continue
						}
						seen[cur] = true
						if accepts[cur] {
							return true
						}
						work = append(work, cur.Succs...)
					}
					return false
				}
				var earlier []string
				nDecisive := 0
				for b := range l.Blocks {
					if b == l.Header {
						continue
					}
					iff, ok := b.Instrs[len(b.Instrs)-1].(*ssa.If)
					if !ok || len(b.Succs) != 2 {
						continue
					}
					r0, r1 := reachesAccept(b.Succs[0]), reachesAccept(b.Succs[1])
					if r0 == r1 {
						continue
					}
					nDecisive++
					why := ""
					inherited := false
					seen := map[ssa.Value]bool{}
					var walk func(v ssa.Value, d int)
					walk = func(v ssa.Value, d int) {
						if v == nil || seen[v] || why != "" || d > 14 {
							return
						}
						seen[v] = true
						switch x := v.(type) {
						case *ssa.Phi:
							if x.Block() == l.Header {
								if sl, isSl := x.Type().Underlying().(*types.Slice); isSl && strings.Contains(sl.Elem().String(), "warnings.") {
									return
								}
								if inherited && cachePhis[x] {
									return // a lookup cache on the way to the test: its coherence is the CACHE rule's subject
								}
								why = "the loop-carried variable " + x.Comment
								return
							}
							for _, e := range x.Edges {
								walk(e, d+1)
							}
						case *ssa.BinOp:
							walk(x.X, d+1)
							walk(x.Y, d+1)
						case *ssa.UnOp:
							walk(x.X, d+1)
						case *ssa.Extract:
							walk(x.Tuple, d+1)
						case *ssa.Lookup:
							if filled[x.X] || (mapCellOf(c, x.X) != nil && filled[mapCellOf(c, x.X)]) {
								why = "the collection " + describeMapExpr(x.X) + ", which this loop fills"
								return
							}
							walk(x.Index, d+1)
						case *ssa.Call:
							if _, isB := x.Call.Value.(*ssa.Builtin); isB {
								for _, a := range x.Call.Args {
									walk(a, d+1)
								}
								return
							}
							if strings.Contains(calleeName(x), "/csv.") {
								return
							}
							// a helper of the module: only the arguments its answer depends on (what it tests or returns)
							if h := staticCallee(x); h != nil && p.isModuleFn(h) && len(h.Blocks) > 0 && len(h.Params) == len(x.Call.Args) {
								infl := paramsInfluencingResult(h)
								for i, a := range x.Call.Args {
									if infl[h.Params[i]] {
										walk(a, d+1)
									}
								}
								return
							}
							for _, a := range x.Call.Args {
								walk(a, d+1)
							}
						case *ssa.Convert:
							walk(x.X, d+1)
						case *ssa.ChangeType:
							walk(x.X, d+1)
						case *ssa.Field:
							walk(x.X, d+1)
						case *ssa.FieldAddr:
							walk(x.X, d+1)
						case *ssa.IndexAddr:
							walk(x.X, d+1)
							walk(x.Index, d+1)
						case *ssa.Index:
							walk(x.X, d+1)
							walk(x.Index, d+1)
						case *ssa.Slice:
							walk(x.X, d+1)
						case *ssa.Alloc:
							// a local copy made in this iteration: what was copied in
							if l.Blocks[x.Block()] {
								for _, sv := range cellStores(x) {
									walk(sv, d+1)
								}
							}
						}
					}
					walk(iff.Cond, 0)
					// the conditions under which the deciding test is reached at all belong to the decision (`if !found { if
					// type == "2" { continue } }` rejects for "not found so far")
					if why == "" {
						inherited = true
						for _, ce := range dominatingConds(b) {
							if ce.Composite || ce.If == nil || !l.Blocks[ce.If.Block()] || ce.If.Block() == l.Header {
								continue
							}
							walk(ce.Cond, 0)
						}
						inherited = false
					}
					if why != "" {
						earlier = append(earlier, p.ipos(iff)+": the test that decides whether the row is kept reads "+why)
					}
				}
				c.Check(len(earlier) == 0, "REJECT", fname, "a row is rejected for what it says itself", p.pos(fn.Pos()), fmt.Sprintf("none of the %d tests that decide a rejection reads a loop-carried variable or a collection the loop fills", nDecisive), strings.Join(dedup(earlier), "; ")+": whether a valid row is kept then depends on the rows before it (rows of different trips or shapes may be interleaved in any order)")
			}
		}
	}
}

func lastPos(b *ssa.BasicBlock) token.Pos {
	var pos token.Pos
	for _, in := range b.Instrs {
		if in.Pos() > pos {
			pos = in.Pos()
		}
		for _, op := range in.Operands(nil) {
			if *op != nil && (*op).Pos() > pos && (*op).Parent() == b.Parent() {
				if oi, ok := (*op).(ssa.Instruction); ok && oi.Block() == b {
					pos = (*op).Pos()
				}
			}
		}
	}
	return pos
}

// ---------------------------------------------------------------- G9 + A9: warnings describe the row

func runWarningRules(c *Ctx) {
	p := c.P
	// G9: the record returned by (*csv.Reader).Read on the row path is the reader's reused buffer: it may be kept in
	// row.cells only; anything handed out of package csv or stored elsewhere must be a copy.
	csvPkg := pkgPathOf("csv")
	tainted := map[ssa.Value]bool{}
	cellsTainted := false
	var csvFns []*ssa.Function
	for _, fn := range p.ModFns {
		if fnPkgPath(fn) == csvPkg {
			csvFns = append(csvFns, fn)
		}
	}
	reuse := false
	for _, fn := range csvFns {
		for _, b := range fn.Blocks {
			for _, in := range b.Instrs {
				if st, ok := in.(*ssa.Store); ok {
					if fa, ok := st.Addr.(*ssa.FieldAddr); ok && fieldName(fa.X.Type(), fa.Field) == "ReuseRecord" {
						if bv, ok := constBool(st.Val); ok && bv {
							reuse = true
						}
					}
				}
			}
		}
	}
	for iter := 0; iter < 10; iter++ {
		changed := false
		mark := func(v ssa.Value) {
			if !tainted[v] {
				tainted[v] = true
				changed = true
			}
		}
		for _, fn := range csvFns {
			for _, b := range fn.Blocks {
				for _, in := range b.Instrs {
					switch x := in.(type) {
					case *ssa.Extract:
						if call, ok := x.Tuple.(*ssa.Call); ok && x.Index == 0 && calleeName(call) == "(*encoding/csv.Reader).Read" {
							// the header read happens before ReuseRecord is set: only reads in NextRow-like code (after) are reused.
							// Conservatively: every Read whose result is stored into row.cells, i.e. all reads outside csv.New's first one
							if fn.Name() != "New" {
								mark(x)
							}
						}
					case *ssa.Store:
						if tainted[x.Val] {
							if fa, ok := x.Addr.(*ssa.FieldAddr); ok && typeName(fa.X.Type()) == c.csvRoleNames().rowType && fieldName(fa.X.Type(), fa.Field) == c.csvRoleNames().cells {
								if !cellsTainted {
									cellsTainted = true
									changed = true
								}
							}
						}
					case *ssa.UnOp:
						if fa, ok := x.X.(*ssa.FieldAddr); ok && x.Op == token.MUL && cellsTainted && typeName(fa.X.Type()) == c.csvRoleNames().rowType && fieldName(fa.X.Type(), fa.Field) == c.csvRoleNames().cells {
							mark(x)
						}
					case *ssa.Phi:
						for _, ed := range x.Edges {
							if tainted[ed] {
								mark(x)
							}
						}
					case *ssa.Slice:
						if tainted[x.X] {
							mark(x)
						}
					case *ssa.Call:
						// append([]T(nil), x...) and copy into a fresh slice produce fresh slices: taint stops.
						if isBuiltin(x, "append") && tainted[x.Call.Args[0]] {
							mark(x)
						}
					}
				}
			}
		}
		if !changed {
			break
		}
	}
	if !reuse {
		c.Proved("G9", "csv", "record buffer", "-", "ReuseRecord is not enabled: records are fresh slices")
	} else {
		var probs []string
		for _, fn := range csvFns {
			for _, b := range fn.Blocks {
				for _, in := range b.Instrs {
					switch x := in.(type) {
					case *ssa.Return:
						for _, r := range x.Results {
							if tainted[r] && fn.Object() != nil && fn.Object().Exported() {
								probs = append(probs, fmt.Sprintf("%s returns the reader's reused record (%s): whoever keeps it sees the next row's cells", shortName(fn), p.ipos(x)))
							}
						}
					case *ssa.Store:
						if tainted[x.Val] {
							if fa, ok := x.Addr.(*ssa.FieldAddr); ok && typeName(fa.X.Type()) == c.csvRoleNames().rowType && fieldName(fa.X.Type(), fa.Field) == c.csvRoleNames().cells {
								continue
							}
							if _, isAlloc := x.Addr.(*ssa.Alloc); isAlloc {
								continue
							}
							probs = append(probs, fmt.Sprintf("%s stores the reused record into %s", shortName(fn), describeAddr(x.Addr)))
						}
					}
				}
			}
		}
		c.Check(len(probs) == 0, "G9", "csv", "the reused record never escapes uncopied", "-", "the slice returned by Read under ReuseRecord is kept only in row.cells; what leaves the package is a copy", strings.Join(dedup(probs), "; "))
	}
	// G9b: a slice that an exported method of the csv package hands out is not a buffer the package overwrites in place
	// later: a field that is returned (or whose load is returned) is never assigned `append(field[:k], ...)` and is never
	// the destination of a copy. (Warnings keep what RowContent returned; a recycled buffer shows them the cells of a
	// later row.)
	{
		returned := map[string]string{} // "Type.field" -> accessor
		fkey := func(fa *ssa.FieldAddr) string { return typeName(fa.X.Type()) + "." + fieldName(fa.X.Type(), fa.Field) }
		for _, fn := range csvFns {
			if fn.Object() == nil || !fn.Object().Exported() {
				continue
			}
			for _, b := range fn.Blocks {
				ret, ok := b.Instrs[len(b.Instrs)-1].(*ssa.Return)
				if !ok {
					continue
				}
				for _, r := range ret.Results {
					if _, isSlice := r.Type().Underlying().(*types.Slice); !isSlice {
						continue
					}
					for _, lf := range c.valueLeaves(r) {
						if ld, ok := lf.(*ssa.UnOp); ok && ld.Op == token.MUL {
							if fa, ok := ld.X.(*ssa.FieldAddr); ok {
								returned[fkey(fa)] = shortName(fn)
							}
						}
					}
				}
			}
		}
		var probs []string
		fromField := func(v ssa.Value, key string) bool {
			for i := 0; i < 4 && v != nil; i++ {
				switch x := v.(type) {
				case *ssa.Slice:
					v = x.X
					continue
				case *ssa.UnOp:
					if fa, ok := x.X.(*ssa.FieldAddr); ok && x.Op == token.MUL {
						return fkey(fa) == key
					}
				}
				return false
			}
			return false
		}
		for _, fn := range csvFns {
			for _, b := range fn.Blocks {
				for _, in := range b.Instrs {
					switch x := in.(type) {
					case *ssa.Store:
						fa, ok := x.Addr.(*ssa.FieldAddr)
						if !ok || returned[fkey(fa)] == "" {
							continue
						}
						if call, isCall := x.Val.(*ssa.Call); isCall && isBuiltin(call, "append") {
							if sl, isSl := call.Call.Args[0].(*ssa.Slice); isSl && sl.High != nil && fromField(sl, fkey(fa)) {
								probs = append(probs, fmt.Sprintf("%s refills %s in place (%s) although %s hands that slice out: a caller that kept it sees the new contents", shortName(fn), fkey(fa), p.ipos(x), returned[fkey(fa)]))
							}
						}
					case *ssa.Call:
						if isBuiltin(x, "copy") {
							for key, acc := range returned {
								if fromField(x.Call.Args[0], key) {
									probs = append(probs, fmt.Sprintf("%s copies into %s (%s) although %s hands that slice out", shortName(fn), key, p.ipos(x), acc))
								}
							}
						}
					}
				}
			}
		}
		c.Check(len(probs) == 0, "G9", "csv", "slices handed out are not recycled", "-", fmt.Sprintf("%d fields are returned by exported methods; none is refilled in place", len(returned)), strings.Join(dedup(probs), "; "))
	}
	// A9: NewStaticWarning's fields: each is what the File's exported accessor of the same name yields (called, or -- the
	// accessors being plain getters -- the field they return), for the file handed in; Kind is the kind handed in
	accField := map[string]string{}
	for _, acc := range []string{"Name", "RowNumber", "HeaderContent"} {
		if f := c.anchor("csv:(*File)." + acc); f != nil {
			if fi, ok := getterLikeField(f); ok {
				accField[acc] = fi
			}
		}
	}
	if f := c.anchor("warnings:NewStaticWarning"); f != nil {
		b := newBinder(c)
		want := map[string]string{"File": "Name", "RowNumber": "RowNumber", "RowContent": "RowContent", "HeaderContent": "HeaderContent"}
		got := map[string]string{}
		for _, fs := range collectFieldStores(c.regionOf(f), "warnings.StaticWarning") {
			got[fs.field] = b.bind(fs.store.Val)
		}
		for _, field := range []string{"File", "HeaderContent", "Kind", "RowContent", "RowNumber"} {
			ok := false
			if field == "Kind" {
				ok = got[field] == "param:<warnings.StaticWarningKind>"
			} else {
				acc := want[field]
				ok = got[field] == acc+"(param:<csv.File>)" || (accField[acc] != "" && got[field] == "param:<csv.File>."+accField[acc])
			}
			c.Check(ok, "A9", shortName(f), "warning."+field, p.pos(f.Pos()), field+" <- "+clip(got[field], 60), fmt.Sprintf("StaticWarning.%s is filled from %q, expected the file's %s", field, clip(got[field], 80), want[field]))
		}
	}
	// row numbering: one int field of File is incremented by exactly one, on the success path of NextRow, and written
	// nowhere else; RowNumber() returns it
	writes := map[string][]string{}
	incField := ""
	nextRow := c.anchor("csv:(*File).NextRow")
	for _, fn := range csvFns {
		for _, b := range fn.Blocks {
			for _, in := range b.Instrs {
				st, ok := in.(*ssa.Store)
				if !ok {
					continue
				}
				fa, ok := st.Addr.(*ssa.FieldAddr)
				if !ok || typeName(fa.X.Type()) != "csv.File" {
					continue
				}
				if bt, isB := deref(fa.Type()).Underlying().(*types.Basic); !isB || bt.Info()&types.IsInteger == 0 {
					continue
				}
				fld := fieldName(fa.X.Type(), fa.Field)
				if a, isAlloc := fa.X.(*ssa.Alloc); isAlloc && a.Comment == "complit" {
					if k, isC := constInt(st.Val); isC && k == 0 {
						continue // explicit zero in the constructor's literal
					}
				}
				writes[fld] = append(writes[fld], shortName(fn))
				if nextRow != nil && inRegion(c, nextRow, fn) {
					if bo, ok := st.Val.(*ssa.BinOp); ok && bo.Op == token.ADD && canon(bo.X) == "*("+canon(fa)+")" {
						if k, ok := constInt(bo.Y); ok && k == 1 {
							// precedes the `return true` of NextRow
							for _, rb := range nextRow.Blocks {
								if ret, ok := rb.Instrs[len(rb.Instrs)-1].(*ssa.Return); ok {
									if bv, _ := constBool(ret.Results[0]); bv && c.mustPrecede(st, ret) {
										incField = fld
									}
								}
							}
						}
					}
				}
			}
		}
	}
	c.Check(incField != "" && len(writes[incField]) == 1, "A9", "(*csv.File).NextRow", "row number counts accepted records from 1", "-", "the row counter is incremented by exactly one, only on the path that hands out a row", fmt.Sprintf("the row counter is written %d time(s) (%v) or not as counter+1 on the success path: warnings no longer carry the 1-based record number", len(writes[incField]), writes))
	// RowContent: the header stands in for the row exactly while no record has been handed out (counter == 0); from the
	// first record on it is the record's cells. The tests on the counter are evaluated for 0, 1, 2, 3.
	if rc := c.anchor("csv:(*File).RowContent"); rc != nil && incField != "" {
		tb, err := extractTable(rc)
		okRC, why := err == nil, ""
		if err != nil {
			why = err.Error()
		}
		nb := newBinder(c)
		// the header accessor and the field it hands out
		hc := c.anchor("csv:(*File).HeaderContent")
		hdrField := ""
		if hc != nil {
			for _, hb := range hc.Blocks {
				for _, in := range hb.Instrs {
					if fa, ok := in.(*ssa.FieldAddr); ok && typeName(fa.X.Type()) == "csv.File" {
						hdrField = fieldName(fa.X.Type(), fa.Field)
					}
				}
			}
		}
		if err == nil {
			counterTruth := func(a atom, cv int64) (bool, bool) { // (applies to the counter, truth at cv)
				bo, ok := a.v.(*ssa.BinOp)
				if !ok {
					return false, false
				}
				k, isK := constInt(bo.Y)
				if !isK || !strings.HasSuffix(canon(bo.X), "."+incField+")") {
					return false, false
				}
				t := false
				switch bo.Op {
				case token.EQL:
					t = cv == k
				case token.NEQ:
					t = cv != k
				case token.LSS:
					t = cv < k
				case token.LEQ:
					t = cv <= k
				case token.GTR:
					t = cv > k
				case token.GEQ:
					t = cv >= k
				default:
					return false, false
				}
				// a.neg is relative to the printed (positive) form of the atom; for opaque atoms the value itself
				if a.opaque {
					if a.neg {
						t = !t
					}
					return true, t
				}
				// decomposed equality: subj == konst, neg flips
				t2 := fmt.Sprint(cv) == a.konst
				if a.neg {
					t2 = !t2
				}
				return true, t2
			}
			nHdr := 0
			for _, r := range tb.rows {
				if r.panics || len(r.vals) != 1 {
					continue
				}
				isHdr := false
				if call, isCall := r.vals[0].(*ssa.Call); isCall && hc != nil && staticCallee(call) == hc {
					isHdr = true
				}
				if hdrField != "" && strings.Contains(nb.bind(r.vals[0]), "."+hdrField) {
					isHdr = true
				}
				if isHdr {
					nHdr++
				}
				for cv := int64(0); cv <= 3; cv++ {
					sat := true
					for _, a := range r.conds {
						if applies, t := counterTruth(a, cv); applies && !t {
							sat = false
						}
					}
					if isHdr && sat != (cv == 0) {
						okRC, why = false, fmt.Sprintf("the header is returned as the row's content when %d record(s) have been handed out", cv)
					}
					if !isHdr && cv == 0 && sat {
						okRC, why = false, "before the first record something other than the header is returned"
					}
				}
			}
			if nHdr == 0 {
				okRC, why = false, "no path returns the header"
			}
		}
		c.Check(okRC, "A9", shortName(rc), "row content is the header only before the first record", p.pos(rc.Pos()), "the header stands in exactly while the record counter is 0", "RowContent: "+why+": a warning about the first data row carries the header cells instead of the row's")
	}
	// every record the reader hands over without error is counted: no path from a successful Read to the next Read (a
	// skip loop) or to a return avoids the increment
	if nextRow != nil && incField != "" {
		var probs []string
		nReads := 0
		for _, rb := range nextRow.Blocks {
			for _, in := range rb.Instrs {
				read, ok := in.(*ssa.Call)
				if !ok || !strings.HasSuffix(calleeName(read), "encoding/csv.Reader).Read") {
					continue
				}
				nReads++
				var walk func(b *ssa.BasicBlock, from int, counted bool, errNil int, on map[*ssa.BasicBlock]bool, depth int)
				walk = func(b *ssa.BasicBlock, from int, counted bool, errNil int, on map[*ssa.BasicBlock]bool, depth int) {
					if depth > 64 {
						return
					}
					for _, in2 := range b.Instrs[from:] {
						if in2 == ssa.Instruction(read) && from == 0 {
							if !counted && errNil != -1 {
								probs = append(probs, p.ipos(read)+": a record can be read and discarded without being counted (the next Read is reached before the row counter is incremented)")
							}
							return
						}
						if st, isSt := in2.(*ssa.Store); isSt {
							if fa, isFA := st.Addr.(*ssa.FieldAddr); isFA && typeName(fa.X.Type()) == "csv.File" && fieldName(fa.X.Type(), fa.Field) == incField {
								counted = true
							}
						}
						if ret, isRet := in2.(*ssa.Return); isRet {
							if bv, isC := constBool(ret.Results[0]); isC && bv && !counted {
								probs = append(probs, p.ipos(ret)+": a row is handed out without being counted")
							}
							return
						}
					}
					if on[b] {
						return
					}
					on[b] = true
					defer delete(on, b)
					iff, isIf := b.Instrs[len(b.Instrs)-1].(*ssa.If)
					for si, s2 := range b.Succs {
						e2 := errNil
						if isIf {
							if bo, isBo := iff.Cond.(*ssa.BinOp); isBo && isNilConst(bo.Y) {
								if ex, isEx := bo.X.(*ssa.Extract); isEx && ex.Tuple == ssa.Value(read) && ex.Index == 1 {
									isErr := (bo.Op == token.NEQ) == (si == 0)
									if isErr {
										e2 = -1
									} else {
										e2 = 1
									}
								}
							}
						}
						walk(s2, 0, counted, e2, on, depth+1)
					}
				}
				// start right after the Read
				idx := 0
				for k, in2 := range rb.Instrs {
					if in2 == ssa.Instruction(read) {
						idx = k + 1
					}
				}
				walk(rb, idx, false, 0, map[*ssa.BasicBlock]bool{}, 0)
			}
		}
		c.Check(len(probs) == 0 && nReads > 0, "A9", "(*csv.File).NextRow", "every record read is counted", "-", "no path from a successful Read reaches the next Read or `return true` without incrementing the row counter", strings.Join(dedup(probs), "; "))
	}
	c.Check(incField != "" && accField["RowNumber"] == incField, "A9", "(*csv.File).RowNumber", "accessor returns the row counter", "-", "returns the field NextRow increments", "RowNumber() does not return the counter that NextRow increments")
	if f := c.anchor("csv:(*File).Name"); f != nil {
		ok := false
		if st := structOf(f.Params[0].Type()); st != nil {
			for i := 0; i < st.NumFields(); i++ {
				if st.Field(i).Name() == accField["Name"] && typeName(st.Field(i).Type()) == "constants.StaticFile" {
					ok = true
				}
			}
		}
		c.Check(ok, "A9", shortName(f), "accessor returns the file's name", p.pos(f.Pos()), "returns the StaticFile the File was opened with", "Name() does not return the File's StaticFile field")
	}
	if f := c.anchor("csv:(*File).HeaderContent"); f != nil {
		// the []string field that New fills (from the header record) and nothing else writes
		ok := accField["HeaderContent"] != ""
		nw := c.anchor("csv:New")
		n := 0
		for _, fn := range csvFns {
			for _, fs := range collectFieldStores([]*ssa.Function{fn}, "csv.File") {
				if fs.field == accField["HeaderContent"] {
					n++
					if nw == nil || !inRegion(c, nw, fn) {
						ok = false
					}
				}
			}
		}
		c.Check(ok && n > 0, "A9", shortName(f), "accessor returns the header record", p.pos(f.Pos()), "returns the field csv.New fills from the header record", "HeaderContent() does not return the header record kept by csv.New")
	}
}

func inRegion(c *Ctx, root, fn *ssa.Function) bool {
	for _, f := range c.regionOf(root) {
		if f == fn {
			return true
		}
	}
	return false
}

func getterLikeField(f *ssa.Function) (string, bool) {
	if len(f.Blocks) != 1 {
		return "", false
	}
	ret, ok := f.Blocks[0].Instrs[len(f.Blocks[0].Instrs)-1].(*ssa.Return)
	if !ok || len(ret.Results) != 1 {
		return "", false
	}
	ld, ok := ret.Results[0].(*ssa.UnOp)
	if !ok {
		return "", false
	}
	fa, ok := ld.X.(*ssa.FieldAddr)
	if !ok || fa.X != ssa.Value(f.Params[0]) {
		return "", false
	}
	return fieldName(fa.X.Type(), fa.Field), true
}

// writesOnlyThroughParams: every store of fn (and of the module functions it calls with its own parameters) goes
// through one of its pointer parameters or into its own locals; no map update, no other effectful call.
func writesOnlyThroughParams(p *Program, fn *ssa.Function, d int) bool {
	if d > 2 || len(fn.Blocks) == 0 {
		return false
	}
	for _, b := range fn.Blocks {
		for _, in := range b.Instrs {
			switch x := in.(type) {
			case *ssa.Store:
				switch addrRoot(x.Addr).(type) {
				case *ssa.Parameter, *ssa.Alloc:
				default:
					return false
				}
			case *ssa.MapUpdate:
				return false
			case ssa.CallInstruction:
				if _, isB := x.Common().Value.(*ssa.Builtin); isB {
					continue
				}
				for _, cal := range p.Callees(x) {
					if p.fnIndex[cal] {
						if !writesOnlyThroughParams(p, cal, d+1) {
							return false
						}
						for _, a := range x.Common().Args {
							if _, isPtr := a.Type().Underlying().(*types.Pointer); isPtr {
								switch addrRoot(a).(type) {
								case *ssa.Parameter, *ssa.Alloc:
								default:
									return false
								}
							}
						}
					} else if len(externalWrites(cal.String(), x)) > 0 {
						return false
					}
				}
			}
		}
	}
	return true
}

// argsAreIterationLocal: every pointer argument of the call is the address of (or inside) a local variable.
func argsAreIterationLocal(call *ssa.Call, localAlloc map[ssa.Value]bool) bool {
	for _, a := range call.Call.Args {
		switch a.Type().Underlying().(type) {
		case *types.Pointer:
			root := addrRoot(a)
			if _, isAlloc := root.(*ssa.Alloc); !isAlloc || !localAlloc[root] {
				return false
			}
		case *types.Map, *types.Slice, *types.Chan, *types.Interface, *types.Signature:
			return false
		}
	}
	return true
}

// fullIndexSource: the slice S such that map value m holds exactly entries &S[i] put there by loops that visit every
// element of S (nil if m is not such an index). m is a local map of its function, or the result of a same-module
// helper that builds such a map from one of its parameters (then S is the call's argument).
func fullIndexSource(m ssa.Value, d int) ssa.Value {
	if d > 3 {
		return nil
	}
	if call, ok := m.(*ssa.Call); ok {
		h := call.Call.StaticCallee()
		if h == nil || call.Call.IsInvoke() || len(h.Blocks) == 0 || fnPkgPathPrefix(h) == "" {
			return nil
		}
		var inner ssa.Value
		for _, blk := range h.Blocks {
			ret, isRet := blk.Instrs[len(blk.Instrs)-1].(*ssa.Return)
			if !isRet {
				continue
			}
			if len(ret.Results) != 1 {
				return nil
			}
			src := fullIndexSource(ret.Results[0], d+1)
			if src == nil || (inner != nil && inner != src) {
				return nil
			}
			inner = src
		}
		pa, isParam := inner.(*ssa.Parameter)
		if !isParam || pa.Parent() != h {
			return nil
		}
		for i, q := range h.Params {
			if q == pa && i < len(call.Call.Args) {
				return call.Call.Args[i]
			}
		}
		return nil
	}
	instr, ok := m.(ssa.Instruction)
	if !ok {
		return nil
	}
	fn := instr.Parent()
	var src ssa.Value
	n := 0
	for _, b := range fn.Blocks {
		for _, in2 := range b.Instrs {
			mu, isMU := in2.(*ssa.MapUpdate)
			if !isMU || mu.Map != m {
				continue
			}
			n++
			ia, isIA := mu.Value.(*ssa.IndexAddr)
			if !isIA {
				return nil
			}
			if r, _ := isRangeIndexOver(ia.Index, ia.X); !r {
				return nil
			}
			if src != nil && src != ia.X {
				return nil
			}
			src = ia.X
		}
	}
	if n == 0 {
		return nil
	}
	return src
}

func fnPkgPathPrefix(f *ssa.Function) string {
	if pp := fnPkgPath(f); strings.HasPrefix(pp, modPath) {
		return pp
	}
	return ""
}

// inertWhenAnswering: on every path of f that ends in a return whose last result is (or may be) `answer`, nothing is
// written: no store outside f's own variables, no map update, no call of a function that writes. f must be loop-free.
func inertWhenAnswering(p *Program, e *nilEngine, f *ssa.Function, answer bool) bool {
	if len(f.Blocks) == 0 || len(naturalLoops(f)) > 0 || f.Signature.Results().Len() == 0 {
		return false
	}
	inert := true
	var rec func(b *ssa.BasicBlock, dirty bool, depth int)
	rec = func(b *ssa.BasicBlock, dirty bool, depth int) {
		if !inert || depth > 64 {
			inert = inert && depth <= 64
			return
		}
		for _, in := range b.Instrs {
			switch x := in.(type) {
			case *ssa.Store:
				if _, isAl := addrRoot(x.Addr).(*ssa.Alloc); !isAl {
					dirty = true
				}
			case *ssa.MapUpdate:
				dirty = true
			case *ssa.Call:
				if _, isB := x.Call.Value.(*ssa.Builtin); isB {
					continue
				}
				name := calleeName(x)
				if strings.HasPrefix(name, "log.") || strings.HasPrefix(name, "fmt.") {
					continue
				}
				cs := p.Callees(x)
				if len(cs) == 0 {
					dirty = true
				}
				for _, cal := range cs {
					if !p.fnIndex[cal] {
						continue
					}
					for k := range e.mods[cal] {
						if k != "local" {
							dirty = true
						}
					}
				}
			case *ssa.Go, *ssa.Defer, *ssa.Send:
				dirty = true
			case *ssa.Return:
				rv := x.Results[len(x.Results)-1]
				if k, isC := rv.(*ssa.Const); isC {
					if bv, isB := constBool(k); isB && bv != answer {
						return // this path gives the other answer
					}
				}
				if dirty {
					inert = false
				}
				return
			}
		}
		for _, s := range b.Succs {
			rec(s, dirty, depth+1)
		}
	}
	rec(f.Blocks[0], false, 0)
	return inert
}

// runCacheCoherenceStruct: the same cache kept in a small struct (a cursor with a pointer field and a key field) that a
// method updates: on every path through the method either neither field is stored, or the pointer is the lookup
// m[k] and the key field receives that same k.
func runCacheCoherenceStruct(c *Ctx) {
	p := c.P
	seenFn := map[*ssa.Function]bool{}
	for _, root := range staticParseFns(c) {
		for _, g := range c.regionOf(root) {
			if seenFn[g] || len(g.Blocks) == 0 || len(g.Params) == 0 || len(naturalLoops(g)) > 0 {
				continue
			}
			seenFn[g] = true
			for _, prm := range g.Params {
				pt, isPtr := prm.Type().Underlying().(*types.Pointer)
				if !isPtr {
					continue
				}
				if _, isSt := pt.Elem().Underlying().(*types.Struct); !isSt {
					continue
				}
				// stores into fields of *prm
				type fst struct {
					st    *ssa.Store
					field string
				}
				var stores []fst
				var ptrField string
				var keyVal ssa.Value
				for _, blk := range g.Blocks {
					for _, in := range blk.Instrs {
						st, ok := in.(*ssa.Store)
						if !ok {
							continue
						}
						fa, ok := st.Addr.(*ssa.FieldAddr)
						if !ok || fa.X != ssa.Value(prm) {
							continue
						}
						fn := fieldName(fa.X.Type(), fa.Field)
						stores = append(stores, fst{st, fn})
						if _, isP := st.Val.Type().Underlying().(*types.Pointer); isP {
							if lk := lookupOf(st.Val); lk != nil {
								ptrField, keyVal = fn, lk.Index
							}
						}
					}
				}
				if ptrField == "" {
					continue
				}
				keyField := ""
				for _, fs := range stores {
					if fs.field != ptrField && fs.st.Val == keyVal {
						keyField = fs.field
					}
				}
				construct := "cache (" + typeName(prm.Type()) + "." + ptrField + ", " + keyField + ")"
				if keyField == "" {
					c.Violated("CACHE", shortName(g), construct, p.pos(g.Pos()), "a looked-up pointer is cached across rows without remembering the key it was looked up under")
					continue
				}
				ok, why, n := true, "", 0
				var rec func(b *ssa.BasicBlock, set map[string]ssa.Value, depth int)
				rec = func(b *ssa.BasicBlock, set map[string]ssa.Value, depth int) {
					if depth > 64 {
						ok, why = false, "too many blocks on one path"
						return
					}
					cur := map[string]ssa.Value{}
					for k, v := range set {
						cur[k] = v
					}
					for _, in := range b.Instrs {
						if st, isSt := in.(*ssa.Store); isSt {
							for _, fs := range stores {
								if fs.st == st {
									cur[fs.field] = st.Val
								}
							}
						}
						if _, isRet := in.(*ssa.Return); isRet {
							n++
							pv, hasP := cur[ptrField]
							kv, hasK := cur[keyField]
							switch {
							case !hasP && !hasK:
							case hasP && hasK:
								if lk := lookupOf(pv); lk == nil || lk.Index != kv {
									ok, why = false, "the cached pointer and the cached key are updated from different keys"
								}
							case hasK:
								ok, why = false, "the cached key ("+keyField+") changes on a path where the cached pointer ("+ptrField+") does not: later rows with that key are attributed to the previous object"
							default:
								ok, why = false, "the cached pointer ("+ptrField+") changes on a path where the cached key ("+keyField+") does not"
							}
						}
					}
					for _, s := range b.Succs {
						rec(s, cur, depth+1)
					}
				}
				rec(g.Blocks[0], map[string]ssa.Value{}, 0)
				c.Check(ok && n > 0, "CACHE", shortName(g), construct, p.pos(g.Pos()), fmt.Sprintf("on all %d paths through the method pointer and key are either both kept or both replaced from the same lookup", n), why)
			}
		}
	}
}

// paramsInfluencingResult: the parameters of f that a branch condition or a returned value of f is computed from
// (through arithmetic, loads, field and element selections, lookups and calls); a parameter that is only written
// through is not among them.
func paramsInfluencingResult(f *ssa.Function) map[*ssa.Parameter]bool {
	out := map[*ssa.Parameter]bool{}
	seen := map[ssa.Value]bool{}
	var walk func(v ssa.Value, d int)
	walk = func(v ssa.Value, d int) {
		if v == nil || seen[v] || d > 16 {
			return
		}
		seen[v] = true
		switch x := v.(type) {
		case *ssa.Parameter:
			out[x] = true
		case *ssa.Phi:
			for _, e := range x.Edges {
				walk(e, d+1)
			}
		case *ssa.BinOp:
			walk(x.X, d+1)
			walk(x.Y, d+1)
		case *ssa.UnOp:
			walk(x.X, d+1)
		case *ssa.Extract:
			walk(x.Tuple, d+1)
		case *ssa.Lookup:
			walk(x.X, d+1)
			walk(x.Index, d+1)
		case *ssa.Call:
			for _, a := range x.Call.Args {
				walk(a, d+1)
			}
		case *ssa.Convert:
			walk(x.X, d+1)
		case *ssa.ChangeType:
			walk(x.X, d+1)
		case *ssa.Field:
			walk(x.X, d+1)
		case *ssa.FieldAddr:
			walk(x.X, d+1)
		case *ssa.IndexAddr:
			walk(x.X, d+1)
			walk(x.Index, d+1)
		case *ssa.Index:
			walk(x.X, d+1)
			walk(x.Index, d+1)
		case *ssa.Slice:
			walk(x.X, d+1)
		case *ssa.Alloc:
			for _, sv := range cellStores(x) {
				walk(sv, d+1)
			}
		case *ssa.MakeInterface:
			walk(x.X, d+1)
		}
	}
	for _, b := range f.Blocks {
		switch t := b.Instrs[len(b.Instrs)-1].(type) {
		case *ssa.If:
			walk(t.Cond, 0)
		case *ssa.Return:
			for _, r := range t.Results {
				walk(r, 0)
			}
		}
	}
	return out
}
