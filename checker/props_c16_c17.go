package main

func init() {
	register(&PropSpec{
		ID: "C16",
		Explain: "Decides structural clauses of the NYCT trips extension for every feed and all four option combinations (options are branch conditions; both edges are analysed): " +
			"(NYCT) every write to an entity in updateTripOrVehicle is dominated by proto.HasExtension(tripDesc, E_NyctTripDescriptor); GetTrack is {no extension -> nil; actual track set -> actual; else scheduled}; direction is NORTH -> 0 otherwise 1 (C02 maps 0/1 to False/True); the start time is formatted HH:MM:SS from capture group 1 of TripIDRegex, which is exactly six leading digits in a pattern that accepts the same ids as the documented NYCT format (compared after parsing), only on a successful match, through integer arithmetic only; assigned trips get a vehicle descriptor whose id is the train id, and the function that puts it on the entity stores that very descriptor without writing to it or handing it to a call that overwrites its fields (proto.Merge into it, Reset, Unmarshal); the value handed to the stale-trip filter is false without the descriptor and GetIsAssigned() on every other path; " +
			"the M-train fix stores only the stop id, under route == \"M\", len == 4 and membership in the table {M11,M12,M13,M14,M16,M18}, its character table is the involution N<->S with everything else untouched, and it runs exactly when PreserveMTrainPlatformsInBushwick is false; " +
			"the stale filter's extracted decision table equals the definition (unassigned, and no stops or first-stop departure-else-arrival time zero or strictly before the feed time) and ShouldSkip additionally requires the extension and the option. " +
			"the parsed origin time is multiplied before it is divided, with the factor 6/10 (nothing is computed from the raw number first); (SCAN) no processing loop is left by a break. Not decided: the exhaustive 000000-599999 arithmetic of the origin-time conversion (numerical; only its integer-ness, source and scaling shape are checked). (TID, A3) what the extension writes on the wire entity -- a start time with hours up to 99, the train id as vehicle id -- is accepted and transcribed verbatim by the descriptor parsers.",
		Rules: []Rule{
			{Name: "TID", Doc: "the start time the extension writes (hours up to 99) is accepted by the descriptor parser: dropped only when absent or not matching the pattern", MinInstances: 2, Run: func(c *Ctx) { runStartAcceptance(c, "TID") }},
			{Name: "A3", Doc: "what the extension writes on the wire entity reaches the result as written: trip and vehicle identifier fields are bound to their wire fields verbatim", MinInstances: 35, Run: runWireTable},
			{Name: "SCAN", Doc: "a loop that does something for each element is not left early (no break out of a processing loop)", MinInstances: 1, Run: func(c *Ctx) { runFullScan(c, c.regionOf(c.anchor("nycttrips:(extension).UpdateTrip")), "SCAN") }},
			{Name: "NYCT", Doc: "NYCT trips extension clauses", MinInstances: 9, Run: runNyctTrips},
			{Name: "G1", Doc: "type assertions on extensions justified (shared with C05)", MinInstances: 1, Run: func(c *Ctx) {
				e, _ := c05Engine(c)
				sub := &nilEngine{}
				_ = sub
				// restrict reporting to the nycttrips package
				var fns = e.fns[:0:0]
				for _, f := range e.fns {
					if fnPkgPath(f) == pkgPathOf("nycttrips") {
						fns = append(fns, f)
					}
				}
				e.fns = fns
				runG1(c, e)
			}},
		},
	})
	register(&PropSpec{
		ID: "C17",
		Explain: "Grouping semantics over all feeds is not decided; decided are structural clauses of the NYCT alerts extension for every option combination: " +
			"(ALRT) the timetabled no-service table is exactly {no midday, no overnight, no weekend service} and an alert is dropped only under the option and membership of the entity's priority in it; metadata is appended only under AddNyctMetadata with the documented language tag, and built only for an alert on which proto.HasExtension(alert, E_MercuryAlert) held (a checked assertion on GetExtension's result is no such test: it succeeds on the typed nil of an absent extension); the cause is MAINTENANCE / TECHNICAL_PROBLEM by id prefix and otherwise the wire cause, the effect comes from the priority table; the priority is the number after the last ':' of the sort order; the informed entities are read for priorities only where the elevator step (which replaces an elevator alert's selectors by plain stop selectors) can no longer follow; " +
			"elevator alerts: cause maintenance, effect accessibility issue; the group id per policy is <station>#EL<elevator> / elevator:EL<elevator> / <platform>#EL<elevator> from the three regexp groups; the informed stop is the station id when configured, else the platform id; a stop is appended only if a scan over all of the group's informed entities found no equal stop id; every write of the elevator path is dominated by a successful id match and `false` is answered only under a failed match; in UpdateAlert `false` is answered only after the loop over all informed entities; the priority of an informed entity is reported missing only without a Mercury selector, without ':' in the sort order or for a non-numeric tail; InformedEntity on the elevator path is only ever emptied or extended by one fresh selector that carries nothing but the stop id; the duplicate test compares the stored stop ids with the very value that is appended; no container held by the extension object other than the table of group alerts is both written and read on the alert path (what is produced for one alert does not depend on the alerts before it); (SCAN) the loop over the informed entities is not left by a break. " +
			"The extension's cross-feed state is reported under C06/C18 (known finding D12). (TABLES) the priority tables are literals of constants, only read after the initialiser.",
		Rules: []Rule{
			{Name: "TABLES", Doc: "the extension's priority tables are literals of constants, only read after the initialiser", MinInstances: 1, Run: func(c *Ctx) { runTablesAreLiterals(c, "TABLES") }},
			{Name: "SCAN", Doc: "a loop that does something for each element is not left early (no break out of a processing loop)", MinInstances: 1, Run: func(c *Ctx) { runFullScan(c, c.regionOf(c.anchor("nyctalerts:(extension).UpdateAlert")), "SCAN") }},
			{Name: "ALRT", Doc: "NYCT alerts extension clauses", MinInstances: 9, Run: runNyctAlerts},
		},
	})
}
