package main

// C13: hash coverage and self-delimiting encoding (H1..H4, G15).

import (
	"fmt"
	"go/token"
	"go/types"
	"sort"
	"strings"

	"golang.org/x/tools/go/ssa"
)

type hsrc struct {
	path string
	xf   []string
}

func (s hsrc) String() string {
	if len(s.xf) == 0 {
		return s.path
	}
	return s.path + " <" + strings.Join(s.xf, ",") + ">"
}

func (s hsrc) with(x string) hsrc {
	return hsrc{s.path, append(append([]string{}, s.xf...), x)}
}

type henc struct {
	kind string // string | number | stringPtr | timePtr | hashNumberPtr
	srcs []hsrc
	call *ssa.Call
	fn   *ssa.Function
	arg  ssa.Value
	env  map[ssa.Value][]hsrc
}

type hashCollector struct {
	c         *Ctx
	prims     map[*ssa.Function]string // primitive encoders (by origin)
	encs      []henc
	readPaths map[string]token.Pos
	visiting  map[*ssa.Function]int
	problems  []string
	phiOpen   map[*ssa.Phi]bool // phis being expanded by src (cycles through loop headers)
}

func (hc *hashCollector) primKind(f *ssa.Function) string {
	if f == nil {
		return ""
	}
	if o := f.Origin(); o != nil {
		f = o
	}
	return hc.prims[f]
}

func isLocalArrayAlloc(v ssa.Value) *ssa.Alloc {
	for i := 0; i < 8; i++ {
		switch x := v.(type) {
		case *ssa.Slice:
			v = x.X
		case *ssa.Alloc:
			if _, ok := deref(x.Type()).Underlying().(*types.Array); ok {
				return x
			}
			return nil
		default:
			return nil
		}
	}
	return nil
}

func (hc *hashCollector) src(v ssa.Value, env map[ssa.Value][]hsrc, d int) []hsrc {
	if s, ok := env[v]; ok {
		return s
	}
	if d > 30 {
		return []hsrc{{path: "?deep"}}
	}
	mapx := func(in []hsrc, x string) []hsrc {
		var out []hsrc
		for _, s := range in {
			// the negation of a nil test is the other nil test
			if n := len(s.xf); x == "not" && n > 0 && (s.xf[n-1] == "isnil" || s.xf[n-1] == "notnil") {
				flipped := "isnil"
				if s.xf[n-1] == "isnil" {
					flipped = "notnil"
				}
				t := s
				t.xf = append(append([]string{}, s.xf[:n-1]...), flipped)
				out = append(out, t)
				continue
			}
			out = append(out, s.with(x))
		}
		return out
	}
	switch x := v.(type) {
	case *ssa.Const:
		if x.Value == nil {
			return []hsrc{{path: "nil"}}
		}
		return []hsrc{{path: "const"}}
	case *ssa.Parameter:
		return []hsrc{{path: "?param " + x.Name()}}
	case *ssa.FieldAddr:
		var out []hsrc
		for _, s := range hc.src(x.X, env, d+1) {
			// field selection through a pointer drops a trailing "deref"-free chain only
			out = append(out, hsrc{path: s.path + "." + fieldName(x.X.Type(), x.Field), xf: s.xf})
		}
		return out
	case *ssa.Field:
		var out []hsrc
		for _, s := range hc.src(x.X, env, d+1) {
			out = append(out, hsrc{path: s.path + "." + fieldName(x.X.Type(), x.Field), xf: s.xf})
		}
		return out
	case *ssa.IndexAddr:
		if a := isLocalArrayAlloc(x.X); a != nil {
			return hc.arrayElems(a, env, d)
		}
		var out []hsrc
		for _, s := range hc.src(x.X, env, d+1) {
			out = append(out, hsrc{path: s.path + "[]", xf: s.xf})
		}
		return out
	case *ssa.Index:
		var out []hsrc
		for _, s := range hc.src(x.X, env, d+1) {
			out = append(out, hsrc{path: s.path + "[]", xf: s.xf})
		}
		return out
	case *ssa.UnOp:
		switch x.Op {
		case token.MUL:
			switch a := x.X.(type) {
			case *ssa.FieldAddr, *ssa.IndexAddr:
				return hc.src(a, env, d+1)
			case *ssa.Alloc:
				return hc.allocStores(a, env, d)
			}
			return mapx(hc.src(x.X, env, d+1), "deref")
		case token.NOT:
			return mapx(hc.src(x.X, env, d+1), "not")
		}
		return mapx(hc.src(x.X, env, d+1), x.Op.String())
	case *ssa.Alloc:
		if _, isStruct := deref(x.Type()).Underlying().(*types.Struct); isStruct {
			// a copy of a struct value (the range variable of `for _, e := range list`): its fields are the element's
			return hc.allocStores(x, env, d)
		}
		return mapx(hc.allocStores(x, env, d), "boxed")
	case *ssa.Phi:
		var out []hsrc
		if carriedUnchanged(x) {
			// a variable that keeps its value from the previous trip around a loop on some path: what is encoded for this
			// element can be what was computed for an earlier one
			out = append(out, hsrc{path: "?carried over from a previous element (" + x.Comment + ")"})
		}
		if hc.phiOpen == nil {
			hc.phiOpen = map[*ssa.Phi]bool{}
		}
		if hc.phiOpen[x] {
			return out
		}
		hc.phiOpen[x] = true
		for _, e := range x.Edges {
			if e == ssa.Value(x) {
				continue
			}
			out = append(out, hc.src(e, env, d+1)...)
		}
		delete(hc.phiOpen, x)
		return out
	case *ssa.MakeInterface:
		return hc.src(x.X, env, d+1)
	case *ssa.ChangeType:
		return hc.src(x.X, env, d+1)
	case *ssa.Convert:
		return mapx(hc.src(x.X, env, d+1), "conv")
	case *ssa.Slice:
		return hc.src(x.X, env, d+1)
	case *ssa.BinOp:
		if (x.Op == token.EQL || x.Op == token.NEQ) && (isNilConst(x.Y) || isNilConst(x.X)) {
			o := x.X
			if isNilConst(x.X) {
				o = x.Y
			}
			if x.Op == token.EQL {
				return mapx(hc.src(o, env, d+1), "isnil")
			}
			return mapx(hc.src(o, env, d+1), "notnil")
		}
		return []hsrc{{path: "?binop " + x.Op.String()}}
	case *ssa.Call:
		if isBuiltin(x, "len") {
			return mapx(hc.src(x.Call.Args[0], env, d+1), "len")
		}
		switch calleeName(x) {
		case "(time.Time).Unix":
			return mapx(hc.src(x.Call.Args[0], env, d+1), ".Unix()")
		}
		if out := hc.srcThroughCall(x, env, d); out != nil {
			return out
		}
		return []hsrc{{path: "?call " + trimMod(calleeName(x))}}
	}
	return []hsrc{{path: "?" + fmt.Sprintf("%T", v)}}
}

func (hc *hashCollector) allocStores(a *ssa.Alloc, env map[ssa.Value][]hsrc, d int) []hsrc {
	var out []hsrc
	for _, r := range *a.Referrers() {
		if st, ok := r.(*ssa.Store); ok && st.Addr == a {
			out = append(out, hc.src(st.Val, env, d+1)...)
		}
	}
	if len(out) == 0 {
		out = []hsrc{{path: "zero"}}
	}
	return out
}

func (hc *hashCollector) arrayElems(a *ssa.Alloc, env map[ssa.Value][]hsrc, d int) []hsrc {
	var out []hsrc
	for _, r := range *a.Referrers() {
		if ia, ok := r.(*ssa.IndexAddr); ok {
			for _, r2 := range *ia.Referrers() {
				if st, ok := r2.(*ssa.Store); ok && st.Addr == ia {
					out = append(out, hc.src(st.Val, env, d+1)...)
				}
			}
		}
	}
	return out
}

// collect walks fn (a hasher method) with env binding its parameters to source paths.
func (hc *hashCollector) collect(fn *ssa.Function, env map[ssa.Value][]hsrc) {
	if hc.visiting[fn] > 3 {
		hc.problems = append(hc.problems, "recursion through "+shortName(fn))
		return
	}
	hc.visiting[fn]++
	defer func() { hc.visiting[fn]-- }()
	for _, b := range fn.Blocks {
		for _, in := range b.Instrs {
			switch x := in.(type) {
			case *ssa.FieldAddr:
				for _, s := range hc.src(x, env, 0) {
					if _, ok := hc.readPaths[s.path]; !ok {
						hc.readPaths[s.path] = x.Pos()
					}
				}
			case *ssa.Call:
				callee := staticCallee(x)
				if callee == nil {
					continue
				}
				if k := hc.primKind(callee); k != "" {
					arg := x.Call.Args[len(x.Call.Args)-1]
					srcs := hc.src(arg, env, 0)
					// a constant flag written on a path that has tested a pointer is that pointer's presence:
					// `if p == nil { number(true); return }; number(false)` says what `number(p == nil)` says
					av := arg
					if mi, isMI := av.(*ssa.MakeInterface); isMI {
						av = mi.X
					}
					if kc, isC := av.(*ssa.Const); isC {
						if bv, isB := constBool(kc); isB {
							conds := dominatingConds(x.Block())
							for i := len(conds) - 1; i >= 0; i-- {
								ce := conds[i]
								cond, val := normalizeCond(ce.Cond, ce.Val)
								bo, ok := cond.(*ssa.BinOp)
								if !ok || !isNilConst(bo.Y) || (bo.Op != token.EQL && bo.Op != token.NEQ) {
									continue
								}
								isNil := (bo.Op == token.EQL) == val
								xf := "isnil"
								if bv != isNil {
									xf = "notnil"
								}
								var out []hsrc
								for _, s0 := range hc.src(bo.X, env, 0) {
									out = append(out, s0.with(xf))
								}
								srcs = out
								break
							}
						}
					}
					hc.encs = append(hc.encs, henc{kind: k, srcs: srcs, call: x, fn: fn, arg: arg, env: env})
					continue
				}
				hs := hc.c.hashShapeOf()
				if !hc.c.P.fnIndex[callee] || len(callee.Params) == 0 || typeName(callee.Params[0].Type()) != hs.recv {
					continue
				}
				if callee == hs.flush {
					continue
				}
				env2 := map[ssa.Value][]hsrc{}
				for i, p := range callee.Params {
					if i < len(x.Call.Args) {
						env2[p] = hc.src(x.Call.Args[i], env, 0)
					}
				}
				hc.collect(callee, env2)
			}
		}
	}
}

func isFixedNumeric(t types.Type) bool {
	b, ok := t.Underlying().(*types.Basic)
	if !ok {
		return false
	}
	switch b.Kind() {
	case types.Bool, types.Int8, types.Int16, types.Int32, types.Int64, types.Uint8, types.Uint16, types.Uint32, types.Uint64, types.Float32, types.Float64, types.Complex64, types.Complex128:
		return true
	}
	return false
}

type hexpect struct {
	path string
	kind string
	xf   []string // required transforms (subset, in order)
	alt  string   // "boxed": nil-preserving boxed conversion is accepted as well
	typ  types.Type
}

func isTimeTime(t types.Type) bool {
	n, ok := t.(*types.Named)
	return ok && n.Obj().Pkg() != nil && n.Obj().Pkg().Path() == "time" && n.Obj().Name() == "Time"
}

func isModuleStruct(t types.Type) bool {
	n, ok := t.(*types.Named)
	if !ok || n.Obj().Pkg() == nil || !strings.HasPrefix(n.Obj().Pkg().Path(), modPath) {
		return false
	}
	_, ok = n.Underlying().(*types.Struct)
	return ok
}

func hashExpectations(t types.Type, path string, excluded map[string]bool, depth int, out *[]hexpect, undec *[]string) {
	st := structOf(t)
	if st == nil || depth > 6 {
		return
	}
	tn := namedOf(t).Obj().Name()
	for i := 0; i < st.NumFields(); i++ {
		f := st.Field(i)
		p := path + "." + f.Name()
		if excluded[tn+"."+f.Name()] {
			*out = append(*out, hexpect{path: p, kind: "absent", typ: f.Type()})
			continue
		}
		ft := types.Unalias(f.Type())
		switch {
		case isTimeTime(ft):
			*out = append(*out, hexpect{path: p, kind: "number", xf: []string{".Unix()"}, typ: ft})
		case isModuleStruct(ft):
			hashExpectations(ft, p, excluded, depth+1, out, undec)
		default:
			switch u := ft.Underlying().(type) {
			case *types.Basic:
				if u.Kind() == types.String {
					*out = append(*out, hexpect{path: p, kind: "string", typ: ft})
				} else if isFixedNumeric(ft) {
					*out = append(*out, hexpect{path: p, kind: "number", typ: ft})
				} else {
					*undec = append(*undec, fmt.Sprintf("%s: no fixed-width encoding for type %s", p, ft))
				}
			case *types.Pointer:
				et := types.Unalias(u.Elem())
				switch {
				case isTimeTime(et):
					*out = append(*out, hexpect{path: p, kind: "timePtr", typ: ft})
				case isModuleStruct(et):
					*out = append(*out, hexpect{path: p, kind: "number", xf: []string{"isnil"}, typ: ft})
					hashExpectations(et, p, excluded, depth+1, out, undec)
				default:
					if b, ok := et.Underlying().(*types.Basic); ok {
						if b.Kind() == types.String {
							*out = append(*out, hexpect{path: p, kind: "stringPtr", typ: ft})
						} else if isFixedNumeric(et) {
							*out = append(*out, hexpect{path: p, kind: "hashNumberPtr", alt: "boxed", typ: ft})
						} else {
							*undec = append(*undec, fmt.Sprintf("%s: no encoding rule for type %s", p, ft))
						}
					} else {
						*undec = append(*undec, fmt.Sprintf("%s: no encoding rule for type %s", p, ft))
					}
				}
			case *types.Slice:
				*out = append(*out, hexpect{path: p, kind: "number", xf: []string{"len"}, typ: ft})
				if isModuleStruct(types.Unalias(u.Elem())) {
					hashExpectations(u.Elem(), p+"[]", excluded, depth+1, out, undec)
				} else {
					*undec = append(*undec, fmt.Sprintf("%s: no element encoding rule for %s", p, ft))
				}
			default:
				*undec = append(*undec, fmt.Sprintf("%s: no encoding rule for type %s", p, ft))
			}
		}
	}
}

func xfHas(xf []string, want []string) bool {
	i := 0
	for _, x := range xf {
		if i < len(want) && x == want[i] {
			i++
		}
	}
	return i == len(want)
}

// only "harmless" transforms beyond the required ones: conv (widening of len), none else
func xfOnly(xf []string, allowed ...string) bool {
	for _, x := range xf {
		ok := false
		for _, a := range allowed {
			if x == a {
				ok = true
			}
		}
		if !ok {
			return false
		}
	}
	return true
}

// hashShape: the hashing machinery found by its structure, not by its names: the unexported struct type of package gtfs
// that has a method taking a *Trip and one taking a *Vehicle (the traversals); its methods taking a string, an
// interface value, a *string and a *time.Time (the primitive encoders); its parameterless method (flush); and the
// generic function taking the hasher and a pointer to a number.
type hashShape struct {
	recv                 string // "gtfs.hasher"
	trip, vehicle, flush *ssa.Function
	prims                map[*ssa.Function]string
}

func (c *Ctx) hashShapeOf() *hashShape {
	if c.hashMemo != nil {
		return c.hashMemo
	}
	byRecv := map[string]map[string]*ssa.Function{}
	for _, fn := range c.P.ModFns {
		// a method of, or a free function whose first parameter is, a pointer to an unexported struct of package gtfs
		if fnPkgPath(fn) != modPath || fn.Synthetic != "" || fn.Parent() != nil || len(fn.Params) == 0 || len(fn.Params) > 2 {
			continue
		}
		if fn.Signature.TypeParams().Len() > 0 || fn.Signature.RecvTypeParams().Len() > 0 || len(fn.TypeArgs()) > 0 {
			continue
		}
		if _, isPtr := fn.Params[0].Type().(*types.Pointer); !isPtr {
			continue
		}
		n := namedOf(fn.Params[0].Type())
		if n == nil || n.Obj().Exported() || n.Obj().Pkg() == nil || n.Obj().Pkg().Path() != modPath || fn.Signature.Results().Len() != 0 {
			continue
		}
		if _, isStruct := n.Underlying().(*types.Struct); !isStruct {
			continue
		}
		role := ""
		switch len(fn.Params) {
		case 1:
			role = "flush"
		case 2:
			pt := fn.Params[1].Type()
			switch st := shortType(pt); {
			case st == "*gtfs.Trip":
				role = "trip"
			case st == "*gtfs.Vehicle":
				role = "vehicle"
			case st == "string":
				role = "string"
			case st == "*string":
				role = "stringPtr"
			case st == "*time.Time":
				role = "timePtr"
			default:
				if _, isI := pt.Underlying().(*types.Interface); isI {
					role = "number"
				}
			}
		}
		if role == "" {
			continue
		}
		rn := typeName(fn.Params[0].Type())
		if byRecv[rn] == nil {
			byRecv[rn] = map[string]*ssa.Function{}
		}
		if prev := byRecv[rn][role]; prev != nil {
			// two methods take an interface value: the encoder is the one that hands its argument to binary.Write
			// itself, the other a helper that ends in a call of it (its calls are followed like any helper's)
			pw, fw := callsBinaryWrite(prev), callsBinaryWrite(fn)
			switch {
			case role == "number" && pw && !fw:
				continue
			case role == "number" && fw && !pw:
			default:
				byRecv[rn][role+"#dup"] = fn
			}
		}
		byRecv[rn][role] = fn
	}
	for rn, roles := range byRecv {
		if roles["trip"] == nil || roles["vehicle"] == nil {
			continue
		}
		hs := &hashShape{recv: rn, trip: roles["trip"], vehicle: roles["vehicle"], flush: roles["flush"], prims: map[*ssa.Function]string{}}
		for _, k := range []string{"string", "number", "stringPtr", "timePtr"} {
			if roles[k] == nil || roles[k+"#dup"] != nil {
				c.Undecided("ANCHOR", "gtfs:hasher."+k, "resolve", "-", "UNRESOLVED ANCHOR: the hasher's "+k+" encoder (a method of "+rn+" taking that type) was not found or is ambiguous")
				continue
			}
			hs.prims[roles[k]] = k
		}
		if hs.flush == nil || roles["flush#dup"] != nil {
			c.Undecided("ANCHOR", "gtfs:hasher.flush", "resolve", "-", "UNRESOLVED ANCHOR: the hasher's parameterless flush method was not found or is ambiguous")
		}
		// the generic pointer-to-number encoder: func f[T](h *hasher, p *T)
		if gp := c.P.SSAPkg[modPath]; gp != nil {
			var hnp *ssa.Function
			for _, m := range gp.Members {
				f, ok := m.(*ssa.Function)
				if !ok || f.Signature.TypeParams().Len() == 0 || f.Signature.Params().Len() != 2 || typeName(f.Signature.Params().At(0).Type()) != rn {
					continue
				}
				if _, isPtr := f.Signature.Params().At(1).Type().(*types.Pointer); isPtr {
					hnp = f
				}
			}
			if hnp == nil {
				c.Undecided("ANCHOR", "gtfs:hashNumberPtr", "resolve", "-", "UNRESOLVED ANCHOR: the generic pointer-to-number encoder was not found")
			} else {
				hs.prims[hnp] = "hashNumberPtr"
			}
		}
		c.hashMemo = hs
		return hs
	}
	c.Undecided("ANCHOR", "gtfs:hasher", "resolve", "-", "UNRESOLVED ANCHOR: no unexported type of package gtfs has traversal methods for *Trip and *Vehicle")
	c.hashMemo = &hashShape{prims: map[*ssa.Function]string{}}
	return c.hashMemo
}

// hashShapeOfQuiet: the shape without reporting unresolved parts (for properties that merely consult it).
func (c *Ctx) hashShapeOfQuiet() *hashShape {
	if c.hashMemo != nil {
		return c.hashMemo
	}
	if c.hashQuiet != nil {
		return c.hashQuiet
	}
	n := len(c.Obls)
	hs := c.hashShapeOf()
	for _, o := range c.Obls[n:] {
		delete(c.seen, o.Key())
	}
	c.Obls = c.Obls[:n]
	c.hashMemo = nil
	c.hashQuiet = hs
	return hs
}

func runHash(c *Ctx) {
	p := c.P
	hs := c.hashShapeOf()
	hasherTrip, hasherVehicle := hs.trip, hs.vehicle
	prims := hs.prims
	if hasherTrip == nil || hasherVehicle == nil {
		return
	}
	excluded := map[string]bool{"Trip.Vehicle": true, "Trip.IsEntityInMessage": true, "Vehicle.IsEntityInMessage": true}

	for _, root := range []struct {
		fn   *ssa.Function
		name string
	}{{hasherTrip, "Trip"}, {hasherVehicle, "Vehicle"}} {
		fname := shortName(root.fn)
		hc := &hashCollector{c: c, prims: prims, readPaths: map[string]token.Pos{}, visiting: map[*ssa.Function]int{}}
		if len(root.fn.Params) < 2 {
			c.Undecided("H1", fname, "signature", p.pos(root.fn.Pos()), "hasher method does not take the value to hash as its parameter")
			continue
		}
		dataParam := root.fn.Params[1]
		env := map[ssa.Value][]hsrc{dataParam: {{path: root.name}}}
		hc.collect(root.fn, env)
		var exps []hexpect
		var undec []string
		hashExpectations(deref(dataParam.Type()), root.name, excluded, 0, &exps, &undec)
		for _, u := range undec {
			c.Undecided("H2", fname, u, p.pos(root.fn.Pos()), "field type without a type-directed encoder rule: "+u)
		}
		for _, pr := range hc.problems {
			c.Undecided("H1", fname, pr, p.pos(root.fn.Pos()), pr)
		}
		c.Stats["H encoder calls "+root.name] = len(hc.encs)
		for _, ex := range exps {
			if ex.kind == "absent" {
				if pos, read := hc.readPaths[ex.path]; read {
					c.Violated("H1", fname, ex.path+" excluded", p.pos(pos), "field "+ex.path+" must not influence the hash (object identity / in-message flag / back-reference) but is read by the hasher")
				} else {
					c.Proved("H1", fname, ex.path+" excluded", p.pos(root.fn.Pos()), "never read by the hasher")
				}
				continue
			}
			// find an encoder call of the right kind fed by exactly this path
			var found *henc
			var wrongKind []string
			for i := range hc.encs {
				e := &hc.encs[i]
				for _, s := range e.srcs {
					if s.path != ex.path {
						continue
					}
					if e.kind == ex.kind && xfHas(s.xf, ex.xf) && xfOnly(s.xf, append([]string{"conv"}, ex.xf...)...) {
						found = e
					} else if e.kind == ex.kind && ex.alt == "boxed" && xfOnly(s.xf, "deref", "conv", "boxed") && xfHas(s.xf, []string{"deref", "boxed"}) && nilPreservingBox(e.arg) {
						found = e
					} else {
						wrongKind = append(wrongKind, fmt.Sprintf("%s(%s) at %s", e.kind, s, p.ipos(e.call)))
					}
				}
				if found != nil {
					break
				}
			}
			if found == nil {
				found = hc.inlinePresence(ex)
			}
			want := ex.kind
			if len(ex.xf) > 0 {
				want += " of " + strings.Join(ex.xf, ",")
			}
			if found != nil {
				c.Proved("H1", fname, ex.path, p.ipos(found.call), fmt.Sprintf("type %s encoded by %s (self-delimiting, distinguishes absent from zero)", ex.typ, want))
				continue
			}
			det := fmt.Sprintf("field %s (type %s) does not reach a `%s` encoder call in %s: two values differing only there hash alike", ex.path, ex.typ, want, fname)
			if len(wrongKind) > 0 {
				sort.Strings(wrongKind)
				det = fmt.Sprintf("field %s (type %s) must be encoded by `%s`; found only: %s", ex.path, ex.typ, want, strings.Join(wrongKind, "; "))
			}
			c.Violated("H1", fname, ex.path, p.pos(root.fn.Pos()), det)
		}
		// every encoder call must be fed by value paths only (no unknown sources, no constants that replace data)
		for _, e := range hc.encs {
			for _, s := range e.srcs {
				if strings.HasPrefix(s.path, "?") {
					c.Undecided("H2", fname, "encoder argument "+s.path, p.ipos(e.call), "argument of "+e.kind+" has a source the rule cannot name: "+s.String())
				}
			}
		}
		// slices: the element loop must be a range over the same slice (all elements, in order)
		for _, e := range hc.encs {
			for _, s := range e.srcs {
				if strings.Contains(s.path, "[]") {
					if ok, why := elementLoopIsFullRange(e); !ok {
						c.Violated("H2", fname, "element loop for "+s.path, p.ipos(e.call), why)
					}
				}
			}
		}
	}

	runHashPrimitives(c, prims)
}

// inlinePresence accepts the inlined form of a presence-prefixed encoder for a pointer field:
// number(p == nil) on the path, and the pointee encoded (string / number / number of .Unix())
// in a block guarded by p != nil.
func (hc *hashCollector) inlinePresence(ex hexpect) *henc {
	var inner string
	var innerXf []string
	switch ex.kind {
	case "stringPtr":
		inner = "string"
	case "hashNumberPtr":
		inner = "number"
	case "timePtr":
		inner, innerXf = "number", []string{".Unix()"}
	default:
		return nil
	}
	var flag, val *henc
	for i := range hc.encs {
		e := &hc.encs[i]
		for _, s := range e.srcs {
			if s.path != ex.path {
				continue
			}
			if e.kind == "number" && (xfHas(s.xf, []string{"isnil"}) || xfHas(s.xf, []string{"notnil"})) && xfOnly(s.xf, "isnil", "notnil") {
				flag = e
			}
			if e.kind == inner && xfHas(s.xf, append([]string{"deref"}, innerXf...)) && xfOnly(s.xf, append([]string{"deref", "conv"}, innerXf...)...) {
				// guarded by path != nil ?
				for _, ce := range dominatingConds(e.call.Block()) {
					bo, ok := ce.Cond.(*ssa.BinOp)
					if !ok || !(isNilConst(bo.Y) || isNilConst(bo.X)) {
						continue
					}
					t := bo.X
					if isNilConst(bo.X) {
						t = bo.Y
					}
					nonNil := (bo.Op == token.NEQ && ce.Val) || (bo.Op == token.EQL && !ce.Val)
					if !nonNil {
						continue
					}
					for _, ts := range hc.src(t, e.env, 0) {
						if ts.path == ex.path && len(ts.xf) == 0 {
							val = e
						}
					}
				}
			}
		}
	}
	if flag != nil && val != nil && flag.call.Block().Dominates(val.call.Block()) {
		return val
	}
	return nil
}

// nilPreservingBox: v = phi(nil, &local) where the local is assigned on the
// non-nil edge of a test of the pointer it was converted from.
func nilPreservingBox(v ssa.Value) bool {
	var edges []ssa.Value
	switch x := v.(type) {
	case *ssa.Phi:
		edges = x.Edges
	case *ssa.Call:
		// a helper of the module that returns nil for a nil pointer and a box of [f](*p) otherwise
		h := x.Call.StaticCallee()
		if h == nil || x.Call.IsInvoke() || len(h.Blocks) == 0 || !strings.HasPrefix(fnPkgPath(h), modPath) {
			return false
		}
		for _, b := range h.Blocks {
			if ret, ok := b.Instrs[len(b.Instrs)-1].(*ssa.Return); ok {
				if len(ret.Results) != 1 {
					return false
				}
				if phi, isPhi := ret.Results[0].(*ssa.Phi); isPhi {
					edges = append(edges, phi.Edges...)
				} else {
					edges = append(edges, ret.Results[0])
				}
			}
		}
	default:
		return false
	}
	if len(edges) != 2 {
		return false
	}
	var box *ssa.Alloc
	nils := 0
	for _, e := range edges {
		if isNilConst(e) {
			nils++
		} else if a, ok := e.(*ssa.Alloc); ok {
			box = a
		}
	}
	if nils != 1 || box == nil {
		return false
	}
	// the box is allocated in a block guarded by `ptr != nil`, and its only store is conv(*ptr')
	conds := dominatingConds(box.Block())
	if len(conds) == 0 {
		return false
	}
	var stored ssa.Value
	n := 0
	for _, r := range *box.Referrers() {
		if st, ok := r.(*ssa.Store); ok && st.Addr == box {
			stored = st.Val
			n++
		}
	}
	if n != 1 {
		return false
	}
	// stored = [conv | t.Unix() | f(...)](*(ptrload)); what f is, is checked where the sources are computed
	sv := stripConv(stored)
	if call, ok := sv.(*ssa.Call); ok && !call.Call.IsInvoke() && len(call.Call.Args) == 1 && (calleeName(call) == "(time.Time).Unix" || call.Call.StaticCallee() == nil) {
		sv = call.Call.Args[0]
	}
	ld, ok := sv.(*ssa.UnOp)
	if !ok || ld.Op != token.MUL {
		return false
	}
	ptrCanon := canon(ld.X)
	// some dominating condition establishes ptr != nil
	for _, cnd := range conds {
		b, ok := cnd.Cond.(*ssa.BinOp)
		if !ok {
			continue
		}
		var tested ssa.Value
		if isNilConst(b.Y) {
			tested = b.X
		} else if isNilConst(b.X) {
			tested = b.Y
		} else {
			continue
		}
		nonNil := (b.Op == token.NEQ && cnd.Val) || (b.Op == token.EQL && !cnd.Val)
		if nonNil && canon(tested) == ptrCanon {
			return true
		}
	}
	return false
}

func elementLoopIsFullRange(e henc) (bool, string) {
	// find an IndexAddr feeding this call's argument whose index is a rangeindex phi+1 bounded by len(sameslice)
	var find func(v ssa.Value, d int) *ssa.IndexAddr
	find = func(v ssa.Value, d int) *ssa.IndexAddr {
		if d > 12 {
			return nil
		}
		switch x := v.(type) {
		case *ssa.IndexAddr:
			if isLocalArrayAlloc(x.X) == nil {
				return x
			}
			// descend into what was stored in the local array
			a := isLocalArrayAlloc(x.X)
			for _, r := range *a.Referrers() {
				if ia, ok := r.(*ssa.IndexAddr); ok {
					for _, r2 := range *ia.Referrers() {
						if st, ok := r2.(*ssa.Store); ok {
							if f := find(st.Val, d+1); f != nil {
								return f
							}
						}
					}
				}
			}
		case *ssa.UnOp:
			return find(x.X, d+1)
		case *ssa.FieldAddr:
			return find(x.X, d+1)
		case *ssa.MakeInterface:
			return find(x.X, d+1)
		case *ssa.Phi:
			for _, ed := range x.Edges {
				if f := find(ed, d+1); f != nil {
					return f
				}
			}
		case *ssa.Alloc:
			for _, r := range *x.Referrers() {
				if st, ok := r.(*ssa.Store); ok && st.Addr == x {
					if f := find(st.Val, d+1); f != nil {
						return f
					}
				}
			}
		case *ssa.Convert:
			return find(x.X, d+1)
		case *ssa.ChangeType:
			return find(x.X, d+1)
		case *ssa.Call:
			if len(x.Call.Args) > 0 {
				return find(x.Call.Args[0], d+1)
			}
		}
		return nil
	}
	ia := find(e.arg, 0)
	if ia == nil {
		return true, "" // elements reached through a callee parameter: checked where the loop is
	}
	return isRangeIndexOver(ia.Index, ia.X)
}

// isRangeIndexOver: idx is the index of a `for i := range s` loop over slice s
// (go/ssa: idx = phi(-1, idx)+1, loop condition idx < len(s')).
func isRangeIndexOver(idx ssa.Value, slice ssa.Value) (bool, string) {
	s := rangeIndexSeq(idx)
	if s == nil {
		return false, "elements are not visited by a loop over the whole slice (the index is neither a range index nor a 0..len-1 counter)"
	}
	if canon(s) == canon(slice) {
		return true, ""
	}
	return false, fmt.Sprintf("element loop is bounded by len(%s), not by the length of the slice %s", canon(s), canon(slice))
}

func runHashPrimitives(c *Ctx, prims map[*ssa.Function]string) {
	p := c.P
	byKind := map[string]*ssa.Function{}
	for f, k := range prims {
		byKind[k] = f
	}
	flush := c.hashShapeOf().flush
	number := byKind["number"]

	// H3 string: number(len(s)) ; flush ; h.h.Write([]byte(s))  -- in this order on every path
	if f := byKind["string"]; f != nil && number != nil && flush != nil {
		fname := shortName(f)
		var lenCall, flushCall, writeCall ssa.Instruction
		for _, b := range f.Blocks {
			for _, in := range b.Instrs {
				call, ok := in.(*ssa.Call)
				if !ok {
					continue
				}
				switch {
				case staticCallee(call) == number:
					arg := call.Call.Args[1]
					hc := &hashCollector{c: c, prims: prims}
					for _, s := range hc.src(arg, map[ssa.Value][]hsrc{f.Params[1]: {{path: "s"}}}, 0) {
						if s.path == "s" && xfHas(s.xf, []string{"len"}) {
							lenCall = call
						}
					}
				case staticCallee(call) == flush:
					if flushCall == nil || lenCall != nil && writeCall == nil {
						flushCall = call
					}
				case call.Call.IsInvoke() && call.Call.Method.Name() == "Write":
					if cv, ok := call.Call.Args[0].(*ssa.Convert); ok && cv.X == f.Params[1] {
						writeCall = call
					}
				}
			}
		}
		c.Check(lenCall != nil && writeCall != nil && dominatesInstr(lenCall, writeCall) && lenCall.Block() == f.Blocks[0], "H3", fname, "length prefix", p.pos(f.Pos()),
			"number(len(s)) is written unconditionally before the bytes of s", "string encoder does not write the length of s before its bytes: adjacent strings are no longer delimited (\"ab\"+\"c\" = \"a\"+\"bc\")")
		c.Check(lenCall != nil && writeCall != nil && flushCall != nil && dominatesInstr(lenCall, flushCall) && dominatesInstr(flushCall, writeCall), "H4", fname, "flush between buffered length and direct write", p.pos(f.Pos()),
			"flush() lies between number(len) and the direct Write", "the buffered numbers are not flushed before the string bytes are written directly to the hash: bytes reach the hash out of order")
	}
	// H3 presence encoders, decided path by path: every path from entry to return writes the presence flag first and
	// exactly once -- as the expression ptr == nil / ptr != nil, or as a constant on a path that has already tested the
	// pointer, with one polarity throughout -- and then, exactly on the paths where the pointer is not nil, the pointee;
	// nothing else is written.
	checkPresence := func(f *ssa.Function, inner func(call *ssa.Call, ptr ssa.Value) bool, what string) {
		if f == nil {
			return
		}
		fname := shortName(f)
		ptr := f.Params[len(f.Params)-1]
		flagBad, valBad := "", ""
		absentMeans := map[bool]bool{} // the flag value written for "absent"
		nPaths := enumPaths(f, func(path []*ssa.BasicBlock) {
			known, isNil := false, false // what the path has established about ptr so far
			nFlag, nVal := 0, 0
			for i, blk := range path {
				for _, in := range blk.Instrs {
					call, ok := in.(*ssa.Call)
					if !ok {
						continue
					}
					// a helper whose whole body is number(one of its parameters) writes what number would write
					fwdIdx := forwardsToNumber(staticCallee(call), number)
					isWrite := staticCallee(call) == number || fwdIdx > 0 || inner(call, ptr) || prims[originOf(staticCallee(call))] != ""
					if !isWrite {
						continue
					}
					if nFlag == 0 {
						// must be the flag
						if staticCallee(call) != number && fwdIdx <= 0 {
							flagBad = "something is encoded before the presence flag"
							continue
						}
						nFlag++
						arg := call.Call.Args[1]
						if fwdIdx > 0 {
							arg = call.Call.Args[fwdIdx]
						}
						if mi, ok := arg.(*ssa.MakeInterface); ok {
							arg = mi.X
						}
						switch x := arg.(type) {
						case *ssa.BinOp:
							if (x.Op == token.EQL || x.Op == token.NEQ) && x.X == ssa.Value(ptr) && isNilConst(x.Y) {
								absentMeans[x.Op == token.EQL] = true
							} else {
								flagBad = "the first value written is not the pointer's presence"
							}
						case *ssa.Const:
							bv, isB := constBool(x)
							if !isB || !known {
								flagBad = "a constant flag is written on a path that has not tested the pointer"
							} else {
								absentMeans[bv == isNil] = true
							}
						default:
							flagBad = "the first value written is not the pointer's presence"
						}
						continue
					}
					if inner(call, ptr) {
						nVal++
						if !(known && !isNil) {
							valBad = "the pointee is encoded on a path that has not established ptr != nil"
						}
						continue
					}
					valBad = "more than (flag, pointee) is written"
				}
				// the edge taken to the next block
				if i+1 < len(path) {
					if iff, ok := blk.Instrs[len(blk.Instrs)-1].(*ssa.If); ok {
						if bo, ok := iff.Cond.(*ssa.BinOp); ok && (bo.Op == token.EQL || bo.Op == token.NEQ) && bo.X == ssa.Value(ptr) && isNilConst(bo.Y) {
							taken := blk.Succs[0] == path[i+1]
							known = true
							isNil = (bo.Op == token.EQL) == taken
						}
					}
				}
			}
			if nFlag != 1 {
				flagBad = "a path writes no presence flag"
			}
			if known && !isNil && nVal != 1 {
				valBad = "a path with a non-nil pointer does not encode the pointee exactly once"
			}
			if !known && nVal != 0 {
				valBad = "the pointee is encoded without a nil test"
			}
			if !known && nVal == 0 && nFlag == 1 {
				valBad = "a path never tests the pointer: the pointee is not encoded"
			}
		})
		if len(absentMeans) > 1 {
			flagBad = "the flag has different polarities on different paths"
		}
		c.Check(flagBad == "" && nPaths > 0, "H3", fname, "presence flag", p.pos(f.Pos()),
			"the pointer's presence is the first value written on every path, with one polarity", what+": "+flagBad+": an absent value and a present one are not distinguished")
		c.Check(valBad == "" && nPaths > 0, "H3", fname, "value on the non-nil edge", p.pos(f.Pos()), "the pointee is encoded exactly on the paths with a != nil", what+": "+valBad)
	}
	if hnp := byKind["hashNumberPtr"]; hnp != nil {
		fns := []*ssa.Function{hnp}
		for _, fn := range c.P.ModFns {
			if fn.Origin() == hnp {
				fns = append(fns, fn)
			}
		}
		for _, f := range fns {
			checkPresence(f, func(call *ssa.Call, ptr ssa.Value) bool {
				if staticCallee(call) != number {
					return false
				}
				a := call.Call.Args[1]
				switch x := a.(type) {
				case *ssa.MakeInterface:
					a = x.X
				case *ssa.ChangeType:
					a = x.X
				}
				ld, ok := a.(*ssa.UnOp)
				return ok && ld.Op == token.MUL && ld.X == ptr
			}, "hashNumberPtr")
		}
		c.Stats["H3 hashNumberPtr instantiations"] = len(fns) - 1
	}
	checkPresence(byKind["stringPtr"], func(call *ssa.Call, ptr ssa.Value) bool {
		if staticCallee(call) != byKind["string"] {
			return false
		}
		ld, ok := call.Call.Args[1].(*ssa.UnOp)
		return ok && ld.Op == token.MUL && ld.X == ptr
	}, "stringPtr")
	// timePtr: hashNumberPtr(h, phi(nil, &unix)) nil-preserving
	if f := byKind["timePtr"]; f != nil {
		fname := shortName(f)
		ok := true
		tp := f.Params[1]
		unixOfT := func(arg ssa.Value) bool {
			hc := &hashCollector{c: c, prims: prims}
			for _, s := range hc.src(arg, map[ssa.Value][]hsrc{tp: {{path: "t"}}}, 0) {
				if !(s.path == "t" && xfHas(s.xf, []string{"deref", ".Unix()", "boxed"}) && xfOnly(s.xf, "deref", ".Unix()", "boxed")) && s.path != "nil" {
					return false
				}
			}
			return true
		}
		nPaths := enumPaths(f, func(path []*ssa.BasicBlock) {
			known, isNil := false, false
			n := 0
			for i, blk := range path {
				for _, in := range blk.Instrs {
					call, isCall := in.(*ssa.Call)
					if !isCall {
						continue
					}
					k := prims[originOf(staticCallee(call))]
					if k == "" {
						continue
					}
					n++
					if k != "hashNumberPtr" {
						ok = false
						continue
					}
					arg := call.Call.Args[1]
					good := nilPreservingBox(arg) && unixOfT(arg) // nil for nil, &t.Unix() otherwise, decided in the argument
					if known && isNil && isNilConst(arg) {
						good = true
					}
					if known && !isNil {
						// a box of t.Unix(), nothing else
						if al, isAl := arg.(*ssa.Alloc); isAl && len(cellStores(al)) == 1 && unixOfT(arg) {
							good = true
						}
					}
					if !good {
						ok = false
					}
				}
				if i+1 < len(path) {
					if iff, isIf := blk.Instrs[len(blk.Instrs)-1].(*ssa.If); isIf {
						if bo, isBo := iff.Cond.(*ssa.BinOp); isBo && (bo.Op == token.EQL || bo.Op == token.NEQ) && bo.X == ssa.Value(tp) && isNilConst(bo.Y) {
							taken := blk.Succs[0] == path[i+1]
							known = true
							isNil = (bo.Op == token.EQL) == taken
						}
					}
				}
			}
			if n != 1 {
				ok = false
			}
		})
		if nPaths == 0 {
			ok = false
		}
		if !ok {
			// the same encoding written out: the presence flag, then the Unix seconds when present
			ok = timePtrDirectForm(c, f, tp, prims)
		}
		c.Check(ok, "H3", fname, "nil-preserving Unix seconds", p.pos(f.Pos()), "timePtr passes nil for nil and &t.Unix() otherwise to hashNumberPtr (zone presentation is ignored, absence is kept)", "timePtr does not encode (presence, Unix seconds): either absence is lost or the zone presentation leaks into the hash")
	}
	// H4: hash.Hash.Write only in flush and string
	var writers []string
	for _, fn := range c.P.ModFns {
		if fnPkgPath(fn) != modPath {
			continue
		}
		for _, b := range fn.Blocks {
			for _, in := range b.Instrs {
				if call, ok := in.(*ssa.Call); ok && call.Call.IsInvoke() && calleeName(call) == "(hash.Hash).Write" {
					if fn != flush && fn != byKind["string"] {
						writers = append(writers, shortName(fn)+" at "+p.ipos(call))
					}
				}
			}
		}
	}
	c.Check(len(writers) == 0, "H4", "gtfs", "direct hash writes", "-", "hash.Hash.Write is called only in flush and string", "hash.Hash.Write called outside flush/string, bypassing the buffer order: "+strings.Join(writers, "; "))
	// H2: times take part in the hash as instants only: the hasher never compares two time.Time values as structs
	// (`==` also compares the zone pointer and the monotonic reading, so which encoding path is taken would depend on
	// the presentation of the time)
	{
		var cmp []string
		n := 0
		for _, hf := range hashFns(c) {
			for _, b := range hf.Blocks {
				for _, in := range b.Instrs {
					bo, ok := in.(*ssa.BinOp)
					if !ok || (bo.Op != token.EQL && bo.Op != token.NEQ) {
						continue
					}
					n++
					if typeName(bo.X.Type()) == "time.Time" {
						if _, isPtr := bo.X.Type().Underlying().(*types.Pointer); !isPtr {
							cmp = append(cmp, shortName(hf)+" at "+p.ipos(bo))
						}
					}
				}
			}
		}
		c.Check(len(cmp) == 0, "H2", "gtfs", "times are compared as instants only", "-", fmt.Sprintf("none of the %d equality tests of the hasher compares time.Time structs", n), "time.Time values are compared with == ("+strings.Join(cmp, "; ")+"): equal instants presented in different zones compare unequal, so the hash depends on the zone presentation")
	}
	// H2: what is encoded is the field's value, not a value some helper folded several field values into: a helper of
	// the module whose result goes into the hash and that answers on one path with its (numeric) parameter and on
	// another with a constant maps every input of the second kind to one number -- two values that differ there hash
	// the same ("unknown enum numbers are hashed as the default")
	{
		var folds []string
		nArgs := 0
		for _, hf := range hashFns(c) {
			for _, b := range hf.Blocks {
				for _, in := range b.Instrs {
					call, ok := in.(*ssa.Call)
					if !ok {
						continue
					}
					for _, a := range call.Call.Args {
						if mi, isMI := a.(*ssa.MakeInterface); isMI {
							a = mi.X
						}
						inner, isCall := a.(*ssa.Call)
						if !isCall || inner.Call.IsInvoke() {
							continue
						}
						g := inner.Call.StaticCallee()
						if g == nil || !c.P.isModuleFn(g) || len(g.Blocks) < 2 || g.Signature.Results().Len() != 1 || isProtoPkg(fnPkgPath(g)) {
							continue
						}
						bt, isBasic := g.Signature.Results().At(0).Type().Underlying().(*types.Basic)
						if !isBasic || bt.Info()&types.IsNumeric == 0 {
							continue
						}
						nArgs++
						hasConst, hasParam := false, false
						for _, gb := range g.Blocks {
							ret, isRet := gb.Instrs[len(gb.Instrs)-1].(*ssa.Return)
							if !isRet {
								continue
							}
							var walk func(v ssa.Value, d int)
							walk = func(v ssa.Value, d int) {
								if d > 6 {
									return
								}
								switch x := v.(type) {
								case *ssa.Const:
									hasConst = true
								case *ssa.Parameter:
									hasParam = true
								case *ssa.Phi:
									for _, e := range x.Edges {
										walk(e, d+1)
									}
								case *ssa.Convert:
									walk(x.X, d+1)
								case *ssa.ChangeType:
									walk(x.X, d+1)
								case *ssa.UnOp:
									if al, isAl := x.X.(*ssa.Alloc); isAl && x.Op == token.MUL {
										vals := cellStores(al)
										if len(vals) == 0 {
											hasConst = true // the zero value of a local
										}
										for _, sv := range vals {
											walk(sv, d+1)
										}
									}
								}
							}
							walk(ret.Results[0], 0)
						}
						if hasConst && hasParam {
							folds = append(folds, shortName(g)+" at "+p.ipos(inner))
						}
					}
				}
			}
		}
		c.Check(len(folds) == 0, "H2", "gtfs", "no helper folds field values before they are hashed", "-", fmt.Sprintf("%d numeric helper results among the encoder arguments, none of them a choice between the value and a constant", nArgs), "a value is replaced by a constant on some path before it is hashed ("+strings.Join(folds, "; ")+"): the field values that take that path hash the same")
	}
	// H4: what the number encoder is given to write into takes everything it is handed: the destination of binary.Write
	// is a growable buffer of the standard library (or the hash itself), or -- when the module stages the bytes itself
	// -- a Write method that consumes its whole argument: a `copy` into fixed storage is repeated for the rest of the
	// argument (a loop that re-slices it by what was copied), otherwise the tail of a number that straddles the end of
	// the storage never reaches the hash
	{
		nDest, bad := 0, ""
		for _, fn := range c.P.ModFns {
			if fnPkgPath(fn) != modPath {
				continue
			}
			for _, b := range fn.Blocks {
				for _, in := range b.Instrs {
					call, ok := in.(*ssa.Call)
					if !ok || calleeName(call) != "encoding/binary.Write" || len(call.Call.Args) == 0 {
						continue
					}
					inHasher := false
					for _, hf := range hashFns(c) {
						if hf == fn {
							inHasher = true
						}
					}
					if !inHasher {
						continue
					}
					nDest++
					dst := call.Call.Args[0]
					if mi, isMI := dst.(*ssa.MakeInterface); isMI {
						dst = mi.X
					}
					tn := typeName(dst.Type())
					if tn == "bytes.Buffer" || strings.HasPrefix(tn, "hash.") {
						continue
					}
					// a writer of the module: its Write method
					var wr *ssa.Function
					for _, g := range c.P.ModFns {
						if g.Name() == "Write" && g.Signature.Recv() != nil && typeName(g.Signature.Recv().Type()) == tn && len(g.Blocks) > 0 {
							wr = g
						}
					}
					if wr == nil {
						bad = "binary.Write at " + p.ipos(call) + " writes into a " + tn + " whose Write method is not part of the module"
						continue
					}
					loops := naturalLoops(wr)
					for _, wb := range wr.Blocks {
						for _, win := range wb.Instrs {
							cp, isCall := win.(*ssa.Call)
							if !isCall || !isBuiltin(cp, "copy") {
								continue
							}
							// the copy must sit in a loop in which the source is re-sliced by the copied count
							okLoop := false
							for _, l := range loops {
								if !l.Blocks[wb] {
									continue
								}
								for lb := range l.Blocks {
									for _, lin := range lb.Instrs {
										if sl, isSl := lin.(*ssa.Slice); isSl && sl.Low == ssa.Value(cp) {
											okLoop = true
										}
									}
								}
							}
							if !okLoop {
								bad = shortName(wr) + " copies its argument into fixed storage once (" + p.ipos(cp) + ") and reports all of it as written: what does not fit is dropped from the hash input"
							}
						}
					}
				}
			}
		}
		c.Check(bad == "" && nDest > 0, "H4", "gtfs", "the staging writer takes all it is handed", "-", fmt.Sprintf("%d binary.Write destinations: growable standard buffers, or module writers that consume their whole argument", nDest), bad)
	}
	// H4: both Hash methods end with flush
	for _, spec := range []string{"gtfs:(*Trip).Hash", "gtfs:(*Vehicle).Hash"} {
		f := c.anchor(spec)
		if f == nil || flush == nil {
			continue
		}
		ok := true
		nret := 0
		for _, b := range f.Blocks {
			ret, isRet := b.Instrs[len(b.Instrs)-1].(*ssa.Return)
			if !isRet {
				continue
			}
			nret++
			// last call before return in this block must be flush, and a hasher traversal must precede it
			var last *ssa.Call
			for _, in := range b.Instrs {
				if call, ok := in.(*ssa.Call); ok {
					last = call
				}
			}
			_ = ret
			if last == nil || staticCallee(last) != flush {
				ok = false
			}
		}
		c.Check(ok && nret > 0, "H4", shortName(f), "final flush", p.pos(f.Pos()), "every return is preceded by flush()", "Hash returns without flushing the buffered numbers: trailing fields never reach the hash")
	}
	// G15: every value reaching binary.Write through number() has a fixed size
	if number != nil {
		n := 0
		for _, fn := range c.P.ModFns {
			if fnPkgPath(fn) != modPath {
				continue
			}
			if fn.TypeParams().Len() > 0 && len(fn.TypeArgs()) == 0 {
				continue // generic origin: checked per instantiation
			}
			for _, b := range fn.Blocks {
				for _, in := range b.Instrs {
					call, ok := in.(*ssa.Call)
					if !ok || staticCallee(call) != number {
						continue
					}
					a := call.Call.Args[1]
					var t types.Type
					switch x := a.(type) {
					case *ssa.MakeInterface:
						t = x.X.Type()
					case *ssa.ChangeType:
						t = x.X.Type()
					default:
						c.Undecided("G15", shortName(fn), "number argument", p.ipos(call), "argument of number() is an interface value of unknown dynamic type")
						continue
					}
					n++
					c.Check(isFixedNumeric(t), "G15", shortName(fn), "number("+t.String()+")", p.ipos(call), "fixed-size type: binary.Write cannot fail", "binary.Write panics (via number) on a value of type "+t.String()+" which has no fixed size")
				}
			}
		}
		c.Stats["G15 number() call sites"] = n
	}
	// H5: the encoding keeps every bit: on the way into the hash no value is converted to a type that cannot hold it
	// (float to integer truncates the fraction, a narrower integer or float drops the high bits / the precision).
	// math.Float32bits / Float64bits are calls, not conversions, and keep the bits.
	{
		sizes := types.SizesFor("gc", "amd64")
		nConv := 0
		seen := map[*ssa.Function]bool{}
		for _, fn := range hashFns(c) {
			if seen[fn] || fnPkgPath(fn) != modPath || (fn.TypeParams().Len() > 0 && len(fn.TypeArgs()) == 0) {
				continue
			}
			seen[fn] = true
			for _, b := range fn.Blocks {
				for _, in := range b.Instrs {
					cv, ok := in.(*ssa.Convert)
					if !ok {
						continue
					}
					from, okF := cv.X.Type().Underlying().(*types.Basic)
					to, okT := cv.Type().Underlying().(*types.Basic)
					if !okF || !okT || from.Info()&types.IsNumeric == 0 || to.Info()&types.IsNumeric == 0 {
						continue
					}
					if _, isConst := cv.X.(*ssa.Const); isConst {
						continue
					}
					nConv++
					lossy := ""
					switch {
					case from.Info()&types.IsFloat != 0 && to.Info()&types.IsInteger != 0:
						lossy = "the fraction is cut off (values that differ after the decimal point hash alike)"
					case sizes.Sizeof(to) < sizes.Sizeof(from):
						lossy = "the target type is narrower (values that differ in the dropped bits hash alike)"
					}
					c.Check(lossy == "", "H5", shortName(fn), "conversion "+from.String()+" -> "+to.String()+" keeps the value", p.ipos(cv), "a conversion that no value of the source type is changed by", "on the way into the hash a "+from.String()+" is converted to "+to.String()+": "+lossy)
				}
			}
		}
		c.Stats["H5 numeric conversions in the hash code"] = nConv
		if nConv == 0 {
			c.Proved("H5", "gtfs", "no numeric conversion in the hash code", "-", "values reach the encoder in their own type")
		}
	}
}

func originOf(f *ssa.Function) *ssa.Function {
	if f == nil {
		return nil
	}
	if o := f.Origin(); o != nil {
		return o
	}
	return f
}

// carriedUnchanged: phi sits at a loop header and, along some back edge, receives its own value again (through joins
// inside the body): the variable survives an iteration without being assigned.
func carriedUnchanged(phi *ssa.Phi) bool {
	blk := phi.Block()
	for i, e := range phi.Edges {
		pred := blk.Preds[i]
		if !blk.Dominates(pred) {
			continue // not a back edge
		}
		seen := map[ssa.Value]bool{}
		var reaches func(v ssa.Value, d int) bool
		reaches = func(v ssa.Value, d int) bool {
			if v == ssa.Value(phi) {
				return true
			}
			if seen[v] || d > 8 {
				return false
			}
			seen[v] = true
			if p2, ok := v.(*ssa.Phi); ok && blk.Dominates(p2.Block()) {
				for _, e2 := range p2.Edges {
					if reaches(e2, d+1) {
						return true
					}
				}
			}
			return false
		}
		if reaches(e, 0) {
			// range index counters and accumulators are not the subject here: only pointer / value variables
			if _, isInt := phi.Type().Underlying().(*types.Basic); isInt && phi.Comment == "rangeindex" {
				continue
			}
			return true
		}
	}
	return false
}

// srcThroughCall: the sources of what a pure helper returns, in terms of the sources of its arguments. The helper is a
// function of the module that is not part of the hasher (no hasher parameter), or a function value that resolves, at
// every call site of the enclosing function, to such functions or to time.Time.Unix. nil: not such a call.
func (hc *hashCollector) srcThroughCall(x *ssa.Call, env map[ssa.Value][]hsrc, d int) []hsrc {
	if x.Call.IsInvoke() || d > 20 {
		return nil
	}
	var fns []*ssa.Function
	if f := x.Call.StaticCallee(); f != nil {
		fns = []*ssa.Function{f}
	} else {
		fns = hc.c.funcValues(x.Call.Value, 0)
	}
	if len(fns) == 0 {
		return nil
	}
	hs := hc.c.hashShapeOf()
	var out []hsrc
	for _, f := range fns {
		if n := extName(f.String()); n == "(time.Time).Unix" || n == "time.Time.Unix" {
			if len(x.Call.Args) != 1 {
				return nil
			}
			for _, s := range hc.src(x.Call.Args[0], env, d+1) {
				out = append(out, s.with(".Unix()"))
			}
			continue
		}
		if !hc.c.P.isModuleFn(f) || len(f.Blocks) == 0 || len(f.Params) != len(x.Call.Args) || len(f.FreeVars) != 0 || hc.visiting[f] > 0 {
			return nil
		}
		for _, pa := range f.Params {
			if typeName(pa.Type()) == hs.recv {
				return nil
			}
		}
		if f.Signature.Results().Len() != 1 {
			return nil
		}
		env2 := map[ssa.Value][]hsrc{}
		for i, pa := range f.Params {
			if _, isFn := pa.Type().Underlying().(*types.Signature); isFn {
				continue // function values are resolved where they are called
			}
			env2[pa] = hc.src(x.Call.Args[i], env, d+1)
		}
		if hc.visiting == nil {
			hc.visiting = map[*ssa.Function]int{}
		}
		hc.visiting[f]++
		for _, b := range f.Blocks {
			if ret, ok := b.Instrs[len(b.Instrs)-1].(*ssa.Return); ok {
				out = append(out, hc.src(ret.Results[0], env2, d+1)...)
			}
		}
		hc.visiting[f]--
	}
	return out
}

// enumPaths calls visit for every acyclic path of fn from its entry to a return (loops are cut: a block occurs at most
// once on a path). Returns the number of paths.
// timePtrDirectForm: on every path through f exactly: number(flag) with flag a function of `t == nil` alone, followed
// -- exactly on the paths where t is known to be non-nil -- by number(t.Unix()). Flag and seconds may come from a
// helper of the module that answers (t.Unix(), true) for a non-nil t and (constant, false) for nil.
func timePtrDirectForm(c *Ctx, f *ssa.Function, tp *ssa.Parameter, prims map[*ssa.Function]string) bool {
	type helperInfo struct {
		flagIdx, valIdx int
		trueIsNonNil    bool
	}
	helpers := map[*ssa.Call]*helperInfo{}
	validate := func(call *ssa.Call) *helperInfo {
		if hi, seen := helpers[call]; seen {
			return hi
		}
		helpers[call] = nil
		h := call.Call.StaticCallee()
		if h == nil || call.Call.IsInvoke() || !c.P.isModuleFn(h) || len(h.Blocks) == 0 || h.Signature.Results().Len() != 2 {
			return nil
		}
		var hp *ssa.Parameter
		for i, a := range call.Call.Args {
			if a == ssa.Value(tp) && i < len(h.Params) {
				hp = h.Params[i]
			}
		}
		if hp == nil {
			return nil
		}
		hi := &helperInfo{flagIdx: -1, valIdx: -1}
		for i := 0; i < 2; i++ {
			if bt, ok := h.Signature.Results().At(i).Type().Underlying().(*types.Basic); ok && bt.Kind() == types.Bool {
				hi.flagIdx, hi.valIdx = i, 1-i
			}
		}
		if hi.flagIdx < 0 {
			return nil
		}
		sawNil, sawNonNil, polaritySet := false, false, false
		for _, blk := range h.Blocks {
			ret, ok := blk.Instrs[len(blk.Instrs)-1].(*ssa.Return)
			if !ok {
				continue
			}
			k, isC := ret.Results[hi.flagIdx].(*ssa.Const)
			if !isC {
				return nil
			}
			flag, _ := constBool(k)
			known, isNil := false, false
			for _, ce := range dominatingConds(blk) {
				if bo, isBo := ce.Cond.(*ssa.BinOp); isBo && (bo.Op == token.EQL || bo.Op == token.NEQ) && bo.X == ssa.Value(hp) && isNilConst(bo.Y) {
					known, isNil = true, (bo.Op == token.EQL) == ce.Val
				}
			}
			if !known {
				return nil
			}
			if isNil {
				sawNil = true
				if _, isConst := ret.Results[hi.valIdx].(*ssa.Const); !isConst {
					return nil
				}
				if polaritySet && hi.trueIsNonNil == flag {
					return nil
				}
				hi.trueIsNonNil, polaritySet = !flag, true
			} else {
				sawNonNil = true
				uc, isCall := ret.Results[hi.valIdx].(*ssa.Call)
				if !isCall || calleeName(uc) != "(time.Time).Unix" {
					return nil
				}
				ld, isLd := uc.Call.Args[0].(*ssa.UnOp)
				if !isLd || ld.Op != token.MUL || ld.X != ssa.Value(hp) {
					return nil
				}
				if polaritySet && hi.trueIsNonNil != flag {
					return nil
				}
				hi.trueIsNonNil, polaritySet = flag, true
			}
		}
		if !sawNil || !sawNonNil {
			return nil
		}
		helpers[call] = hi
		return hi
	}
	// presence: v is true exactly when t is nil ("nil") / non-nil ("nonnil")
	var presence func(v ssa.Value, d int) string
	presence = func(v ssa.Value, d int) string {
		if d > 4 {
			return ""
		}
		switch x := v.(type) {
		case *ssa.MakeInterface:
			return presence(x.X, d+1)
		case *ssa.UnOp:
			if x.Op == token.NOT {
				switch presence(x.X, d+1) {
				case "nil":
					return "nonnil"
				case "nonnil":
					return "nil"
				}
			}
		case *ssa.BinOp:
			if (x.Op == token.EQL || x.Op == token.NEQ) && x.X == ssa.Value(tp) && isNilConst(x.Y) {
				if x.Op == token.EQL {
					return "nil"
				}
				return "nonnil"
			}
		case *ssa.Extract:
			if call, ok := x.Tuple.(*ssa.Call); ok {
				if hi := validate(call); hi != nil && x.Index == hi.flagIdx {
					if hi.trueIsNonNil {
						return "nonnil"
					}
					return "nil"
				}
			}
		}
		return ""
	}
	unixVal := func(v ssa.Value) bool {
		if mi, ok := v.(*ssa.MakeInterface); ok {
			v = mi.X
		}
		switch x := v.(type) {
		case *ssa.Call:
			if calleeName(x) == "(time.Time).Unix" {
				ld, ok := x.Call.Args[0].(*ssa.UnOp)
				return ok && ld.Op == token.MUL && ld.X == ssa.Value(tp)
			}
		case *ssa.Extract:
			if call, ok := x.Tuple.(*ssa.Call); ok {
				if hi := validate(call); hi != nil && x.Index == hi.valIdx {
					return true
				}
			}
		}
		return false
	}
	good := true
	n := enumPaths(f, func(path []*ssa.BasicBlock) {
		known, isNil := false, false
		var seq []string
		for i, blk := range path {
			for _, in := range blk.Instrs {
				call, isCall := in.(*ssa.Call)
				if !isCall {
					continue
				}
				k := prims[originOf(staticCallee(call))]
				if k == "" {
					continue
				}
				if k != "number" || len(call.Call.Args) < 2 {
					seq = append(seq, "?")
					continue
				}
				switch {
				case presence(call.Call.Args[1], 0) != "":
					seq = append(seq, "flag")
				case unixVal(call.Call.Args[1]) && known && !isNil:
					seq = append(seq, "unix")
				default:
					seq = append(seq, "?")
				}
			}
			if i+1 < len(path) {
				if iff, isIf := blk.Instrs[len(blk.Instrs)-1].(*ssa.If); isIf && blk.Succs[0] != blk.Succs[1] {
					if pr := presence(iff.Cond, 0); pr != "" {
						taken := blk.Succs[0] == path[i+1]
						known = true
						isNil = (pr == "nil") == taken
					}
				}
			}
		}
		want := "flag"
		if known && !isNil {
			want = "flag unix"
		}
		if !known || strings.Join(seq, " ") != want {
			good = false
		}
	})
	return good && n > 0
}

func enumPaths(fn *ssa.Function, visit func(path []*ssa.BasicBlock)) int {
	n := 0
	if len(fn.Blocks) == 0 {
		return 0
	}
	var rec func(b *ssa.BasicBlock, path []*ssa.BasicBlock, on map[*ssa.BasicBlock]bool)
	rec = func(b *ssa.BasicBlock, path []*ssa.BasicBlock, on map[*ssa.BasicBlock]bool) {
		if n > 5000 {
			return
		}
		path = append(path, b)
		on[b] = true
		defer delete(on, b)
		if _, isRet := b.Instrs[len(b.Instrs)-1].(*ssa.Return); isRet {
			n++
			visit(append([]*ssa.BasicBlock{}, path...))
			return
		}
		for _, s := range b.Succs {
			if !on[s] {
				rec(s, path, on)
			}
		}
	}
	rec(fn.Blocks[0], nil, map[*ssa.BasicBlock]bool{})
	return n
}

// callsBinaryWrite: the function's own body calls encoding/binary.Write.
func callsBinaryWrite(f *ssa.Function) bool {
	for _, blk := range f.Blocks {
		for _, in := range blk.Instrs {
			if call, ok := in.(*ssa.Call); ok && calleeName(call) == "encoding/binary.Write" {
				return true
			}
		}
	}
	return false
}

// forwardsToNumber: g is a function of the module whose whole body is one call number(receiver, p) of one of its own
// parameters p (boxed or not) and a plain return: a call of g writes exactly what number writes for that argument.
// Returns the index of p among g's parameters (0 if g is no such helper).
func forwardsToNumber(g, number *ssa.Function) int {
	if g == nil || number == nil || g == number || len(g.Blocks) != 1 || len(g.Params) < 2 {
		return 0
	}
	idx := 0
	for _, in := range g.Blocks[0].Instrs {
		switch x := in.(type) {
		case *ssa.MakeInterface, *ssa.DebugRef:
		case *ssa.Return:
			if len(x.Results) != 0 {
				return 0
			}
		case *ssa.Call:
			if idx != 0 || staticCallee(x) != number || len(x.Call.Args) != 2 || x.Call.Args[0] != ssa.Value(g.Params[0]) {
				return 0
			}
			arg := x.Call.Args[1]
			if mi, ok := arg.(*ssa.MakeInterface); ok {
				arg = mi.X
			}
			for i, pr := range g.Params {
				if i > 0 && arg == ssa.Value(pr) {
					idx = i
				}
			}
			if idx == 0 {
				return 0
			}
		default:
			return 0
		}
	}
	return idx
}
