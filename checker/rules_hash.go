package main

// C13: hash coverage and self-delimiting encoding (H1..H4, G15).

import (
	"fmt"
	"go/token"
	"go/types"
	"sort"
	"strings"

	"golang.org/x/tools/go/ssa"
)

type hsrc struct {
	path string
	xf   []string
}

func (s hsrc) String() string {
	if len(s.xf) == 0 {
		return s.path
	}
	return s.path + " <" + strings.Join(s.xf, ",") + ">"
}

func (s hsrc) with(x string) hsrc {
	return hsrc{s.path, append(append([]string{}, s.xf...), x)}
}

type henc struct {
	kind string // string | number | stringPtr | timePtr | hashNumberPtr
	srcs []hsrc
	call *ssa.Call
	fn   *ssa.Function
	arg  ssa.Value
	env  map[ssa.Value][]hsrc
}

type hashCollector struct {
	c         *Ctx
	prims     map[*ssa.Function]string // primitive encoders (by origin)
	encs      []henc
	readPaths map[string]token.Pos
	visiting  map[*ssa.Function]int
	problems  []string
}

func (hc *hashCollector) primKind(f *ssa.Function) string {
	if f == nil {
		return ""
	}
	if o := f.Origin(); o != nil {
		f = o
	}
	return hc.prims[f]
}

func isLocalArrayAlloc(v ssa.Value) *ssa.Alloc {
	for i := 0; i < 8; i++ {
		switch x := v.(type) {
		case *ssa.Slice:
			v = x.X
		case *ssa.Alloc:
			if _, ok := deref(x.Type()).Underlying().(*types.Array); ok {
				return x
			}
			return nil
		default:
			return nil
		}
	}
	return nil
}

func (hc *hashCollector) src(v ssa.Value, env map[ssa.Value][]hsrc, d int) []hsrc {
	if s, ok := env[v]; ok {
		return s
	}
	if d > 30 {
		return []hsrc{{path: "?deep"}}
	}
	mapx := func(in []hsrc, x string) []hsrc {
		var out []hsrc
		for _, s := range in {
			out = append(out, s.with(x))
		}
		return out
	}
	switch x := v.(type) {
	case *ssa.Const:
		if x.Value == nil {
			return []hsrc{{path: "nil"}}
		}
		return []hsrc{{path: "const"}}
	case *ssa.Parameter:
		return []hsrc{{path: "?param " + x.Name()}}
	case *ssa.FieldAddr:
		var out []hsrc
		for _, s := range hc.src(x.X, env, d+1) {
			// field selection through a pointer drops a trailing "deref"-free chain only
			out = append(out, hsrc{path: s.path + "." + fieldName(x.X.Type(), x.Field), xf: s.xf})
		}
		return out
	case *ssa.Field:
		var out []hsrc
		for _, s := range hc.src(x.X, env, d+1) {
			out = append(out, hsrc{path: s.path + "." + fieldName(x.X.Type(), x.Field), xf: s.xf})
		}
		return out
	case *ssa.IndexAddr:
		if a := isLocalArrayAlloc(x.X); a != nil {
			return hc.arrayElems(a, env, d)
		}
		var out []hsrc
		for _, s := range hc.src(x.X, env, d+1) {
			out = append(out, hsrc{path: s.path + "[]", xf: s.xf})
		}
		return out
	case *ssa.Index:
		var out []hsrc
		for _, s := range hc.src(x.X, env, d+1) {
			out = append(out, hsrc{path: s.path + "[]", xf: s.xf})
		}
		return out
	case *ssa.UnOp:
		switch x.Op {
		case token.MUL:
			switch a := x.X.(type) {
			case *ssa.FieldAddr, *ssa.IndexAddr:
				return hc.src(a, env, d+1)
			case *ssa.Alloc:
				return hc.allocStores(a, env, d)
			}
			return mapx(hc.src(x.X, env, d+1), "deref")
		case token.NOT:
			return mapx(hc.src(x.X, env, d+1), "not")
		}
		return mapx(hc.src(x.X, env, d+1), x.Op.String())
	case *ssa.Alloc:
		return mapx(hc.allocStores(x, env, d), "boxed")
	case *ssa.Phi:
		var out []hsrc
		for _, e := range x.Edges {
			out = append(out, hc.src(e, env, d+1)...)
		}
		return out
	case *ssa.MakeInterface:
		return hc.src(x.X, env, d+1)
	case *ssa.ChangeType:
		return hc.src(x.X, env, d+1)
	case *ssa.Convert:
		return mapx(hc.src(x.X, env, d+1), "conv")
	case *ssa.Slice:
		return hc.src(x.X, env, d+1)
	case *ssa.BinOp:
		if (x.Op == token.EQL || x.Op == token.NEQ) && (isNilConst(x.Y) || isNilConst(x.X)) {
			o := x.X
			if isNilConst(x.X) {
				o = x.Y
			}
			if x.Op == token.EQL {
				return mapx(hc.src(o, env, d+1), "isnil")
			}
			return mapx(hc.src(o, env, d+1), "notnil")
		}
		return []hsrc{{path: "?binop " + x.Op.String()}}
	case *ssa.Call:
		if isBuiltin(x, "len") {
			return mapx(hc.src(x.Call.Args[0], env, d+1), "len")
		}
		switch calleeName(x) {
		case "(time.Time).Unix":
			return mapx(hc.src(x.Call.Args[0], env, d+1), ".Unix()")
		}
		return []hsrc{{path: "?call " + trimMod(calleeName(x))}}
	}
	return []hsrc{{path: "?" + fmt.Sprintf("%T", v)}}
}

func (hc *hashCollector) allocStores(a *ssa.Alloc, env map[ssa.Value][]hsrc, d int) []hsrc {
	var out []hsrc
	for _, r := range *a.Referrers() {
		if st, ok := r.(*ssa.Store); ok && st.Addr == a {
			out = append(out, hc.src(st.Val, env, d+1)...)
		}
	}
	if len(out) == 0 {
		out = []hsrc{{path: "zero"}}
	}
	return out
}

func (hc *hashCollector) arrayElems(a *ssa.Alloc, env map[ssa.Value][]hsrc, d int) []hsrc {
	var out []hsrc
	for _, r := range *a.Referrers() {
		if ia, ok := r.(*ssa.IndexAddr); ok {
			for _, r2 := range *ia.Referrers() {
				if st, ok := r2.(*ssa.Store); ok && st.Addr == ia {
					out = append(out, hc.src(st.Val, env, d+1)...)
				}
			}
		}
	}
	return out
}

// collect walks fn (a hasher method) with env binding its parameters to source paths.
func (hc *hashCollector) collect(fn *ssa.Function, env map[ssa.Value][]hsrc) {
	if hc.visiting[fn] > 3 {
		hc.problems = append(hc.problems, "recursion through "+shortName(fn))
		return
	}
	hc.visiting[fn]++
	defer func() { hc.visiting[fn]-- }()
	for _, b := range fn.Blocks {
		for _, in := range b.Instrs {
			switch x := in.(type) {
			case *ssa.FieldAddr:
				for _, s := range hc.src(x, env, 0) {
					if _, ok := hc.readPaths[s.path]; !ok {
						hc.readPaths[s.path] = x.Pos()
					}
				}
			case *ssa.Call:
				callee := staticCallee(x)
				if callee == nil {
					continue
				}
				if k := hc.primKind(callee); k != "" {
					arg := x.Call.Args[len(x.Call.Args)-1]
					hc.encs = append(hc.encs, henc{kind: k, srcs: hc.src(arg, env, 0), call: x, fn: fn, arg: arg, env: env})
					continue
				}
				hs := hc.c.hashShapeOf()
				if !hc.c.P.fnIndex[callee] || len(callee.Params) == 0 || typeName(callee.Params[0].Type()) != hs.recv {
					continue
				}
				if callee == hs.flush {
					continue
				}
				env2 := map[ssa.Value][]hsrc{}
				for i, p := range callee.Params {
					if i < len(x.Call.Args) {
						env2[p] = hc.src(x.Call.Args[i], env, 0)
					}
				}
				hc.collect(callee, env2)
			}
		}
	}
}

func isFixedNumeric(t types.Type) bool {
	b, ok := t.Underlying().(*types.Basic)
	if !ok {
		return false
	}
	switch b.Kind() {
	case types.Bool, types.Int8, types.Int16, types.Int32, types.Int64, types.Uint8, types.Uint16, types.Uint32, types.Uint64, types.Float32, types.Float64, types.Complex64, types.Complex128:
		return true
	}
	return false
}

type hexpect struct {
	path string
	kind string
	xf   []string // required transforms (subset, in order)
	alt  string   // "boxed": nil-preserving boxed conversion is accepted as well
	typ  types.Type
}

func isTimeTime(t types.Type) bool {
	n, ok := t.(*types.Named)
	return ok && n.Obj().Pkg() != nil && n.Obj().Pkg().Path() == "time" && n.Obj().Name() == "Time"
}

func isModuleStruct(t types.Type) bool {
	n, ok := t.(*types.Named)
	if !ok || n.Obj().Pkg() == nil || !strings.HasPrefix(n.Obj().Pkg().Path(), modPath) {
		return false
	}
	_, ok = n.Underlying().(*types.Struct)
	return ok
}

func hashExpectations(t types.Type, path string, excluded map[string]bool, depth int, out *[]hexpect, undec *[]string) {
	st := structOf(t)
	if st == nil || depth > 6 {
		return
	}
	tn := namedOf(t).Obj().Name()
	for i := 0; i < st.NumFields(); i++ {
		f := st.Field(i)
		p := path + "." + f.Name()
		if excluded[tn+"."+f.Name()] {
			*out = append(*out, hexpect{path: p, kind: "absent", typ: f.Type()})
			continue
		}
		ft := types.Unalias(f.Type())
		switch {
		case isTimeTime(ft):
			*out = append(*out, hexpect{path: p, kind: "number", xf: []string{".Unix()"}, typ: ft})
		case isModuleStruct(ft):
			hashExpectations(ft, p, excluded, depth+1, out, undec)
		default:
			switch u := ft.Underlying().(type) {
			case *types.Basic:
				if u.Kind() == types.String {
					*out = append(*out, hexpect{path: p, kind: "string", typ: ft})
				} else if isFixedNumeric(ft) {
					*out = append(*out, hexpect{path: p, kind: "number", typ: ft})
				} else {
					*undec = append(*undec, fmt.Sprintf("%s: no fixed-width encoding for type %s", p, ft))
				}
			case *types.Pointer:
				et := types.Unalias(u.Elem())
				switch {
				case isTimeTime(et):
					*out = append(*out, hexpect{path: p, kind: "timePtr", typ: ft})
				case isModuleStruct(et):
					*out = append(*out, hexpect{path: p, kind: "number", xf: []string{"isnil"}, typ: ft})
					hashExpectations(et, p, excluded, depth+1, out, undec)
				default:
					if b, ok := et.Underlying().(*types.Basic); ok {
						if b.Kind() == types.String {
							*out = append(*out, hexpect{path: p, kind: "stringPtr", typ: ft})
						} else if isFixedNumeric(et) {
							*out = append(*out, hexpect{path: p, kind: "hashNumberPtr", alt: "boxed", typ: ft})
						} else {
							*undec = append(*undec, fmt.Sprintf("%s: no encoding rule for type %s", p, ft))
						}
					} else {
						*undec = append(*undec, fmt.Sprintf("%s: no encoding rule for type %s", p, ft))
					}
				}
			case *types.Slice:
				*out = append(*out, hexpect{path: p, kind: "number", xf: []string{"len"}, typ: ft})
				if isModuleStruct(types.Unalias(u.Elem())) {
					hashExpectations(u.Elem(), p+"[]", excluded, depth+1, out, undec)
				} else {
					*undec = append(*undec, fmt.Sprintf("%s: no element encoding rule for %s", p, ft))
				}
			default:
				*undec = append(*undec, fmt.Sprintf("%s: no encoding rule for type %s", p, ft))
			}
		}
	}
}

func xfHas(xf []string, want []string) bool {
	i := 0
	for _, x := range xf {
		if i < len(want) && x == want[i] {
			i++
		}
	}
	return i == len(want)
}

// only "harmless" transforms beyond the required ones: conv (widening of len), none else
func xfOnly(xf []string, allowed ...string) bool {
	for _, x := range xf {
		ok := false
		for _, a := range allowed {
			if x == a {
				ok = true
			}
		}
		if !ok {
			return false
		}
	}
	return true
}

// hashShape: the hashing machinery found by its structure, not by its names: the unexported struct type of package gtfs
// that has a method taking a *Trip and one taking a *Vehicle (the traversals); its methods taking a string, an
// interface value, a *string and a *time.Time (the primitive encoders); its parameterless method (flush); and the
// generic function taking the hasher and a pointer to a number.
type hashShape struct {
	recv                 string // "gtfs.hasher"
	trip, vehicle, flush *ssa.Function
	prims                map[*ssa.Function]string
}

func (c *Ctx) hashShapeOf() *hashShape {
	if c.hashMemo != nil {
		return c.hashMemo
	}
	byRecv := map[string]map[string]*ssa.Function{}
	for _, fn := range c.P.ModFns {
		// a method of, or a free function whose first parameter is, a pointer to an unexported struct of package gtfs
		if fnPkgPath(fn) != modPath || fn.Synthetic != "" || fn.Parent() != nil || len(fn.Params) == 0 || len(fn.Params) > 2 {
			continue
		}
		if fn.Signature.TypeParams().Len() > 0 || fn.Signature.RecvTypeParams().Len() > 0 || len(fn.TypeArgs()) > 0 {
			continue
		}
		if _, isPtr := fn.Params[0].Type().(*types.Pointer); !isPtr {
			continue
		}
		n := namedOf(fn.Params[0].Type())
		if n == nil || n.Obj().Exported() || n.Obj().Pkg() == nil || n.Obj().Pkg().Path() != modPath || fn.Signature.Results().Len() != 0 {
			continue
		}
		if _, isStruct := n.Underlying().(*types.Struct); !isStruct {
			continue
		}
		role := ""
		switch len(fn.Params) {
		case 1:
			role = "flush"
		case 2:
			pt := fn.Params[1].Type()
			switch st := shortType(pt); {
			case st == "*gtfs.Trip":
				role = "trip"
			case st == "*gtfs.Vehicle":
				role = "vehicle"
			case st == "string":
				role = "string"
			case st == "*string":
				role = "stringPtr"
			case st == "*time.Time":
				role = "timePtr"
			default:
				if _, isI := pt.Underlying().(*types.Interface); isI {
					role = "number"
				}
			}
		}
		if role == "" {
			continue
		}
		rn := typeName(fn.Params[0].Type())
		if byRecv[rn] == nil {
			byRecv[rn] = map[string]*ssa.Function{}
		}
		if byRecv[rn][role] != nil {
			byRecv[rn][role+"#dup"] = fn
		}
		byRecv[rn][role] = fn
	}
	for rn, roles := range byRecv {
		if roles["trip"] == nil || roles["vehicle"] == nil {
			continue
		}
		hs := &hashShape{recv: rn, trip: roles["trip"], vehicle: roles["vehicle"], flush: roles["flush"], prims: map[*ssa.Function]string{}}
		for _, k := range []string{"string", "number", "stringPtr", "timePtr"} {
			if roles[k] == nil || roles[k+"#dup"] != nil {
				c.Undecided("ANCHOR", "gtfs:hasher."+k, "resolve", "-", "UNRESOLVED ANCHOR: the hasher's "+k+" encoder (a method of "+rn+" taking that type) was not found or is ambiguous")
				continue
			}
			hs.prims[roles[k]] = k
		}
		if hs.flush == nil || roles["flush#dup"] != nil {
			c.Undecided("ANCHOR", "gtfs:hasher.flush", "resolve", "-", "UNRESOLVED ANCHOR: the hasher's parameterless flush method was not found or is ambiguous")
		}
		// the generic pointer-to-number encoder: func f[T](h *hasher, p *T)
		if gp := c.P.SSAPkg[modPath]; gp != nil {
			var hnp *ssa.Function
			for _, m := range gp.Members {
				f, ok := m.(*ssa.Function)
				if !ok || f.Signature.TypeParams().Len() == 0 || f.Signature.Params().Len() != 2 || typeName(f.Signature.Params().At(0).Type()) != rn {
					continue
				}
				if _, isPtr := f.Signature.Params().At(1).Type().(*types.Pointer); isPtr {
					hnp = f
				}
			}
			if hnp == nil {
				c.Undecided("ANCHOR", "gtfs:hashNumberPtr", "resolve", "-", "UNRESOLVED ANCHOR: the generic pointer-to-number encoder was not found")
			} else {
				hs.prims[hnp] = "hashNumberPtr"
			}
		}
		c.hashMemo = hs
		return hs
	}
	c.Undecided("ANCHOR", "gtfs:hasher", "resolve", "-", "UNRESOLVED ANCHOR: no unexported type of package gtfs has traversal methods for *Trip and *Vehicle")
	c.hashMemo = &hashShape{prims: map[*ssa.Function]string{}}
	return c.hashMemo
}

// hashShapeOfQuiet: the shape without reporting unresolved parts (for properties that merely consult it).
func (c *Ctx) hashShapeOfQuiet() *hashShape {
	if c.hashMemo != nil {
		return c.hashMemo
	}
	if c.hashQuiet != nil {
		return c.hashQuiet
	}
	n := len(c.Obls)
	hs := c.hashShapeOf()
	for _, o := range c.Obls[n:] {
		delete(c.seen, o.Key())
	}
	c.Obls = c.Obls[:n]
	c.hashMemo = nil
	c.hashQuiet = hs
	return hs
}

func runHash(c *Ctx) {
	p := c.P
	hs := c.hashShapeOf()
	hasherTrip, hasherVehicle := hs.trip, hs.vehicle
	prims := hs.prims
	if hasherTrip == nil || hasherVehicle == nil {
		return
	}
	excluded := map[string]bool{"Trip.Vehicle": true, "Trip.IsEntityInMessage": true, "Vehicle.IsEntityInMessage": true}

	for _, root := range []struct {
		fn   *ssa.Function
		name string
	}{{hasherTrip, "Trip"}, {hasherVehicle, "Vehicle"}} {
		fname := shortName(root.fn)
		hc := &hashCollector{c: c, prims: prims, readPaths: map[string]token.Pos{}, visiting: map[*ssa.Function]int{}}
		if len(root.fn.Params) < 2 {
			c.Undecided("H1", fname, "signature", p.pos(root.fn.Pos()), "hasher method does not take the value to hash as its parameter")
			continue
		}
		dataParam := root.fn.Params[1]
		env := map[ssa.Value][]hsrc{dataParam: {{path: root.name}}}
		hc.collect(root.fn, env)
		var exps []hexpect
		var undec []string
		hashExpectations(deref(dataParam.Type()), root.name, excluded, 0, &exps, &undec)
		for _, u := range undec {
			c.Undecided("H2", fname, u, p.pos(root.fn.Pos()), "field type without a type-directed encoder rule: "+u)
		}
		for _, pr := range hc.problems {
			c.Undecided("H1", fname, pr, p.pos(root.fn.Pos()), pr)
		}
		c.Stats["H encoder calls "+root.name] = len(hc.encs)
		for _, ex := range exps {
			if ex.kind == "absent" {
				if pos, read := hc.readPaths[ex.path]; read {
					c.Violated("H1", fname, ex.path+" excluded", p.pos(pos), "field "+ex.path+" must not influence the hash (object identity / in-message flag / back-reference) but is read by the hasher")
				} else {
					c.Proved("H1", fname, ex.path+" excluded", p.pos(root.fn.Pos()), "never read by the hasher")
				}
				continue
			}
			// find an encoder call of the right kind fed by exactly this path
			var found *henc
			var wrongKind []string
			for i := range hc.encs {
				e := &hc.encs[i]
				for _, s := range e.srcs {
					if s.path != ex.path {
						continue
					}
					if e.kind == ex.kind && xfHas(s.xf, ex.xf) && xfOnly(s.xf, append([]string{"conv"}, ex.xf...)...) {
						found = e
					} else if e.kind == ex.kind && ex.alt == "boxed" && xfOnly(s.xf, "deref", "conv", "boxed") && xfHas(s.xf, []string{"deref", "boxed"}) && nilPreservingBox(e.arg) {
						found = e
					} else {
						wrongKind = append(wrongKind, fmt.Sprintf("%s(%s) at %s", e.kind, s, p.ipos(e.call)))
					}
				}
				if found != nil {
					break
				}
			}
			if found == nil {
				found = hc.inlinePresence(ex)
			}
			want := ex.kind
			if len(ex.xf) > 0 {
				want += " of " + strings.Join(ex.xf, ",")
			}
			if found != nil {
				c.Proved("H1", fname, ex.path, p.ipos(found.call), fmt.Sprintf("type %s encoded by %s (self-delimiting, distinguishes absent from zero)", ex.typ, want))
				continue
			}
			det := fmt.Sprintf("field %s (type %s) does not reach a `%s` encoder call in %s: two values differing only there hash alike", ex.path, ex.typ, want, fname)
			if len(wrongKind) > 0 {
				sort.Strings(wrongKind)
				det = fmt.Sprintf("field %s (type %s) must be encoded by `%s`; found only: %s", ex.path, ex.typ, want, strings.Join(wrongKind, "; "))
			}
			c.Violated("H1", fname, ex.path, p.pos(root.fn.Pos()), det)
		}
		// every encoder call must be fed by value paths only (no unknown sources, no constants that replace data)
		for _, e := range hc.encs {
			for _, s := range e.srcs {
				if strings.HasPrefix(s.path, "?") {
					c.Undecided("H2", fname, "encoder argument "+s.path, p.ipos(e.call), "argument of "+e.kind+" has a source the rule cannot name: "+s.String())
				}
			}
		}
		// slices: the element loop must be a range over the same slice (all elements, in order)
		for _, e := range hc.encs {
			for _, s := range e.srcs {
				if strings.Contains(s.path, "[]") {
					if ok, why := elementLoopIsFullRange(e); !ok {
						c.Violated("H2", fname, "element loop for "+s.path, p.ipos(e.call), why)
					}
				}
			}
		}
	}

	runHashPrimitives(c, prims)
}

// inlinePresence accepts the inlined form of a presence-prefixed encoder for a pointer field:
// number(p == nil) on the path, and the pointee encoded (string / number / number of .Unix())
// in a block guarded by p != nil.
func (hc *hashCollector) inlinePresence(ex hexpect) *henc {
	var inner string
	var innerXf []string
	switch ex.kind {
	case "stringPtr":
		inner = "string"
	case "hashNumberPtr":
		inner = "number"
	case "timePtr":
		inner, innerXf = "number", []string{".Unix()"}
	default:
		return nil
	}
	var flag, val *henc
	for i := range hc.encs {
		e := &hc.encs[i]
		for _, s := range e.srcs {
			if s.path != ex.path {
				continue
			}
			if e.kind == "number" && (xfHas(s.xf, []string{"isnil"}) || xfHas(s.xf, []string{"notnil"})) && xfOnly(s.xf, "isnil", "notnil") {
				flag = e
			}
			if e.kind == inner && xfHas(s.xf, append([]string{"deref"}, innerXf...)) && xfOnly(s.xf, append([]string{"deref", "conv"}, innerXf...)...) {
				// guarded by path != nil ?
				for _, ce := range dominatingConds(e.call.Block()) {
					bo, ok := ce.Cond.(*ssa.BinOp)
					if !ok || !(isNilConst(bo.Y) || isNilConst(bo.X)) {
						continue
					}
					t := bo.X
					if isNilConst(bo.X) {
						t = bo.Y
					}
					nonNil := (bo.Op == token.NEQ && ce.Val) || (bo.Op == token.EQL && !ce.Val)
					if !nonNil {
						continue
					}
					for _, ts := range hc.src(t, e.env, 0) {
						if ts.path == ex.path && len(ts.xf) == 0 {
							val = e
						}
					}
				}
			}
		}
	}
	if flag != nil && val != nil && flag.call.Block().Dominates(val.call.Block()) {
		return val
	}
	return nil
}

// nilPreservingBox: v = phi(nil, &local) where the local is assigned on the
// non-nil edge of a test of the pointer it was converted from.
func nilPreservingBox(v ssa.Value) bool {
	phi, ok := v.(*ssa.Phi)
	if !ok || len(phi.Edges) != 2 {
		return false
	}
	var box *ssa.Alloc
	nils := 0
	for _, e := range phi.Edges {
		if isNilConst(e) {
			nils++
		} else if a, ok := e.(*ssa.Alloc); ok {
			box = a
		}
	}
	if nils != 1 || box == nil {
		return false
	}
	// the box is allocated in a block guarded by `ptr != nil`, and its only store is conv(*ptr')
	conds := dominatingConds(box.Block())
	if len(conds) == 0 {
		return false
	}
	var stored ssa.Value
	n := 0
	for _, r := range *box.Referrers() {
		if st, ok := r.(*ssa.Store); ok && st.Addr == box {
			stored = st.Val
			n++
		}
	}
	if n != 1 {
		return false
	}
	// stored = [conv](*(ptrload))
	sv := stripConv(stored)
	if call, ok := sv.(*ssa.Call); ok && calleeName(call) == "(time.Time).Unix" {
		sv = call.Call.Args[0]
	}
	ld, ok := sv.(*ssa.UnOp)
	if !ok || ld.Op != token.MUL {
		return false
	}
	ptrCanon := canon(ld.X)
	cnd := conds[0]
	b, ok := cnd.Cond.(*ssa.BinOp)
	if !ok {
		return false
	}
	var tested ssa.Value
	if isNilConst(b.Y) {
		tested = b.X
	} else if isNilConst(b.X) {
		tested = b.Y
	} else {
		return false
	}
	nonNil := (b.Op == token.NEQ && cnd.Val) || (b.Op == token.EQL && !cnd.Val)
	if !nonNil || canon(tested) != ptrCanon {
		return false
	}
	// the nil edge of the phi must come from the test's other branch (or a block it dominates without the box)
	return true
}

func elementLoopIsFullRange(e henc) (bool, string) {
	// find an IndexAddr feeding this call's argument whose index is a rangeindex phi+1 bounded by len(sameslice)
	var find func(v ssa.Value, d int) *ssa.IndexAddr
	find = func(v ssa.Value, d int) *ssa.IndexAddr {
		if d > 12 {
			return nil
		}
		switch x := v.(type) {
		case *ssa.IndexAddr:
			if isLocalArrayAlloc(x.X) == nil {
				return x
			}
			// descend into what was stored in the local array
			a := isLocalArrayAlloc(x.X)
			for _, r := range *a.Referrers() {
				if ia, ok := r.(*ssa.IndexAddr); ok {
					for _, r2 := range *ia.Referrers() {
						if st, ok := r2.(*ssa.Store); ok {
							if f := find(st.Val, d+1); f != nil {
								return f
							}
						}
					}
				}
			}
		case *ssa.UnOp:
			return find(x.X, d+1)
		case *ssa.FieldAddr:
			return find(x.X, d+1)
		case *ssa.MakeInterface:
			return find(x.X, d+1)
		case *ssa.Phi:
			for _, ed := range x.Edges {
				if f := find(ed, d+1); f != nil {
					return f
				}
			}
		case *ssa.Alloc:
			for _, r := range *x.Referrers() {
				if st, ok := r.(*ssa.Store); ok && st.Addr == x {
					if f := find(st.Val, d+1); f != nil {
						return f
					}
				}
			}
		case *ssa.Convert:
			return find(x.X, d+1)
		case *ssa.ChangeType:
			return find(x.X, d+1)
		case *ssa.Call:
			if len(x.Call.Args) > 0 {
				return find(x.Call.Args[0], d+1)
			}
		}
		return nil
	}
	ia := find(e.arg, 0)
	if ia == nil {
		return true, "" // elements reached through a callee parameter: checked where the loop is
	}
	return isRangeIndexOver(ia.Index, ia.X)
}

// isRangeIndexOver: idx is the index of a `for i := range s` loop over slice s
// (go/ssa: idx = phi(-1, idx)+1, loop condition idx < len(s')).
func isRangeIndexOver(idx ssa.Value, slice ssa.Value) (bool, string) {
	s := rangeIndexSeq(idx)
	if s == nil {
		return false, "elements are not visited by a loop over the whole slice (the index is neither a range index nor a 0..len-1 counter)"
	}
	if canon(s) == canon(slice) {
		return true, ""
	}
	return false, fmt.Sprintf("element loop is bounded by len(%s), not by the length of the slice %s", canon(s), canon(slice))
}

func runHashPrimitives(c *Ctx, prims map[*ssa.Function]string) {
	p := c.P
	byKind := map[string]*ssa.Function{}
	for f, k := range prims {
		byKind[k] = f
	}
	flush := c.hashShapeOf().flush
	number := byKind["number"]

	// H3 string: number(len(s)) ; flush ; h.h.Write([]byte(s))  -- in this order on every path
	if f := byKind["string"]; f != nil && number != nil && flush != nil {
		fname := shortName(f)
		var lenCall, flushCall, writeCall ssa.Instruction
		for _, b := range f.Blocks {
			for _, in := range b.Instrs {
				call, ok := in.(*ssa.Call)
				if !ok {
					continue
				}
				switch {
				case staticCallee(call) == number:
					arg := call.Call.Args[1]
					hc := &hashCollector{c: c, prims: prims}
					for _, s := range hc.src(arg, map[ssa.Value][]hsrc{f.Params[1]: {{path: "s"}}}, 0) {
						if s.path == "s" && xfHas(s.xf, []string{"len"}) {
							lenCall = call
						}
					}
				case staticCallee(call) == flush:
					if flushCall == nil || lenCall != nil && writeCall == nil {
						flushCall = call
					}
				case call.Call.IsInvoke() && call.Call.Method.Name() == "Write":
					if cv, ok := call.Call.Args[0].(*ssa.Convert); ok && cv.X == f.Params[1] {
						writeCall = call
					}
				}
			}
		}
		c.Check(lenCall != nil && writeCall != nil && dominatesInstr(lenCall, writeCall) && lenCall.Block() == f.Blocks[0], "H3", fname, "length prefix", p.pos(f.Pos()),
			"number(len(s)) is written unconditionally before the bytes of s", "string encoder does not write the length of s before its bytes: adjacent strings are no longer delimited (\"ab\"+\"c\" = \"a\"+\"bc\")")
		c.Check(lenCall != nil && writeCall != nil && flushCall != nil && dominatesInstr(lenCall, flushCall) && dominatesInstr(flushCall, writeCall), "H4", fname, "flush between buffered length and direct write", p.pos(f.Pos()),
			"flush() lies between number(len) and the direct Write", "the buffered numbers are not flushed before the string bytes are written directly to the hash: bytes reach the hash out of order")
	}
	// H3 presence encoders
	checkPresence := func(f *ssa.Function, inner func(call *ssa.Call, ptr ssa.Value) bool, what string) {
		if f == nil {
			return
		}
		fname := shortName(f)
		ptr := f.Params[len(f.Params)-1]
		var flag, val ssa.Instruction
		for _, b := range f.Blocks {
			for _, in := range b.Instrs {
				call, ok := in.(*ssa.Call)
				if !ok {
					continue
				}
				if staticCallee(call) == number && flag == nil {
					if mi, ok := call.Call.Args[1].(*ssa.MakeInterface); ok {
						if bo, ok := mi.X.(*ssa.BinOp); ok && (bo.Op == token.EQL || bo.Op == token.NEQ) && (bo.X == ptr && isNilConst(bo.Y)) {
							flag = call
							continue
						}
					}
				}
				if inner(call, ptr) {
					val = call
				}
			}
		}
		c.Check(flag != nil && flag.Block() == f.Blocks[0], "H3", fname, "presence flag", p.pos(f.Pos()),
			"number(a == nil) is written on every path", what+": presence flag is not written unconditionally: an absent value and a present one are not distinguished")
		okVal := false
		if val != nil {
			for _, ce := range dominatingConds(val.Block()) {
				if bo, ok := ce.Cond.(*ssa.BinOp); ok && bo.X == ptr && isNilConst(bo.Y) {
					if (bo.Op == token.NEQ && ce.Val) || (bo.Op == token.EQL && !ce.Val) {
						okVal = true
					}
				}
			}
		}
		c.Check(okVal, "H3", fname, "value on the non-nil edge", p.pos(f.Pos()), "the pointee is encoded exactly on the a != nil edge", what+": pointee is not encoded on the non-nil edge")
	}
	if hnp := byKind["hashNumberPtr"]; hnp != nil {
		fns := []*ssa.Function{hnp}
		for _, fn := range c.P.ModFns {
			if fn.Origin() == hnp {
				fns = append(fns, fn)
			}
		}
		for _, f := range fns {
			checkPresence(f, func(call *ssa.Call, ptr ssa.Value) bool {
				if staticCallee(call) != number {
					return false
				}
				a := call.Call.Args[1]
				switch x := a.(type) {
				case *ssa.MakeInterface:
					a = x.X
				case *ssa.ChangeType:
					a = x.X
				}
				ld, ok := a.(*ssa.UnOp)
				return ok && ld.Op == token.MUL && ld.X == ptr
			}, "hashNumberPtr")
		}
		c.Stats["H3 hashNumberPtr instantiations"] = len(fns) - 1
	}
	checkPresence(byKind["stringPtr"], func(call *ssa.Call, ptr ssa.Value) bool {
		if staticCallee(call) != byKind["string"] {
			return false
		}
		ld, ok := call.Call.Args[1].(*ssa.UnOp)
		return ok && ld.Op == token.MUL && ld.X == ptr
	}, "stringPtr")
	// timePtr: hashNumberPtr(h, phi(nil, &unix)) nil-preserving
	if f := byKind["timePtr"]; f != nil {
		fname := shortName(f)
		ok := false
		for _, b := range f.Blocks {
			for _, in := range b.Instrs {
				if call, isCall := in.(*ssa.Call); isCall && prims[originOf(staticCallee(call))] == "hashNumberPtr" {
					if nilPreservingBox(call.Call.Args[1]) {
						hc := &hashCollector{c: c, prims: prims}
						for _, s := range hc.src(call.Call.Args[1], map[ssa.Value][]hsrc{f.Params[1]: {{path: "t"}}}, 0) {
							if s.path == "t" && xfHas(s.xf, []string{"deref", ".Unix()", "boxed"}) {
								ok = true
							}
						}
					}
				}
			}
		}
		c.Check(ok, "H3", fname, "nil-preserving Unix seconds", p.pos(f.Pos()), "timePtr passes nil for nil and &t.Unix() otherwise to hashNumberPtr (zone presentation is ignored, absence is kept)", "timePtr does not encode (presence, Unix seconds): either absence is lost or the zone presentation leaks into the hash")
	}
	// H4: hash.Hash.Write only in flush and string
	var writers []string
	for _, fn := range c.P.ModFns {
		if fnPkgPath(fn) != modPath {
			continue
		}
		for _, b := range fn.Blocks {
			for _, in := range b.Instrs {
				if call, ok := in.(*ssa.Call); ok && call.Call.IsInvoke() && calleeName(call) == "(hash.Hash).Write" {
					if fn != flush && fn != byKind["string"] {
						writers = append(writers, shortName(fn)+" at "+p.ipos(call))
					}
				}
			}
		}
	}
	c.Check(len(writers) == 0, "H4", "gtfs", "direct hash writes", "-", "hash.Hash.Write is called only in flush and string", "hash.Hash.Write called outside flush/string, bypassing the buffer order: "+strings.Join(writers, "; "))
	// H4: both Hash methods end with flush
	for _, spec := range []string{"gtfs:(*Trip).Hash", "gtfs:(*Vehicle).Hash"} {
		f := c.anchor(spec)
		if f == nil || flush == nil {
			continue
		}
		ok := true
		nret := 0
		for _, b := range f.Blocks {
			ret, isRet := b.Instrs[len(b.Instrs)-1].(*ssa.Return)
			if !isRet {
				continue
			}
			nret++
			// last call before return in this block must be flush, and a hasher traversal must precede it
			var last *ssa.Call
			for _, in := range b.Instrs {
				if call, ok := in.(*ssa.Call); ok {
					last = call
				}
			}
			_ = ret
			if last == nil || staticCallee(last) != flush {
				ok = false
			}
		}
		c.Check(ok && nret > 0, "H4", shortName(f), "final flush", p.pos(f.Pos()), "every return is preceded by flush()", "Hash returns without flushing the buffered numbers: trailing fields never reach the hash")
	}
	// G15: every value reaching binary.Write through number() has a fixed size
	if number != nil {
		n := 0
		for _, fn := range c.P.ModFns {
			if fnPkgPath(fn) != modPath {
				continue
			}
			if fn.TypeParams().Len() > 0 && len(fn.TypeArgs()) == 0 {
				continue // generic origin: checked per instantiation
			}
			for _, b := range fn.Blocks {
				for _, in := range b.Instrs {
					call, ok := in.(*ssa.Call)
					if !ok || staticCallee(call) != number {
						continue
					}
					a := call.Call.Args[1]
					var t types.Type
					switch x := a.(type) {
					case *ssa.MakeInterface:
						t = x.X.Type()
					case *ssa.ChangeType:
						t = x.X.Type()
					default:
						c.Undecided("G15", shortName(fn), "number argument", p.ipos(call), "argument of number() is an interface value of unknown dynamic type")
						continue
					}
					n++
					c.Check(isFixedNumeric(t), "G15", shortName(fn), "number("+t.String()+")", p.ipos(call), "fixed-size type: binary.Write cannot fail", "binary.Write panics (via number) on a value of type "+t.String()+" which has no fixed size")
				}
			}
		}
		c.Stats["G15 number() call sites"] = n
	}
}

func originOf(f *ssa.Function) *ssa.Function {
	if f == nil {
		return nil
	}
	if o := f.Origin(); o != nil {
		return o
	}
	return f
}
