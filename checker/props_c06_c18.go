package main

import "golang.org/x/tools/go/ssa"

func parseTaintRoots(c *Ctx) []taintRoot {
	var roots []taintRoot
	if f := c.anchor("gtfs:ParseStatic"); f != nil {
		roots = append(roots, taintRoot{f, 0, TContent}, taintRoot{f, 1, TOpts})
	}
	if f := c.anchor("gtfs:ParseRealtime"); f != nil {
		roots = append(roots, taintRoot{f, 0, TContent}, taintRoot{f, 1, TOpts})
	}
	return roots
}

func accessorTaintRoots(c *Ctx) []taintRoot {
	var roots []taintRoot
	for _, s := range accessorSpecs {
		if f := c.anchor(s); f != nil {
			roots = append(roots, taintRoot{f, 0, TRecv}) // receiver; a hash.Hash argument is the designated output
		}
	}
	if f := c.anchor("journal:(*Journal).ExportToCsv"); f != nil {
		roots = append(roots, taintRoot{f, 0, TRecv})
	}
	return roots
}

func init() {
	register(&PropSpec{
		ID: "C06",
		Explain: "Decides structural sufficient conditions for determinism and history-freedom of ParseStatic/ParseRealtime on every path: " +
			"(G6/G16) no range over a Go map lets its randomised order reach a result: body effects are per-key (a slot selected by the key or value itself -- an entry reached through a second lookup, m2[m1[key]], is not: two keys can lead to it), iteration-local or commutative, or the accumulated slice is sorted afterwards on every path by a comparator that is total on the map's key type; " +
			"(G7) no write site reachable from a parse writes memory that outlives the call (options value, extension object, package-level variables) or the input byte slice; " +
			"(G8) no call path from a parse to clock, randomness or environment. " +
			"(TIDZ) the key and the comparator of the trip accumulators agree: a start time / start date flagged absent is the zero value (the map key includes it, TripID.Less skips it), so no two keys tie in the sort and come out in map order. " +
			"G8 also covers reads of library variables that depend on the process environment (time.Local); the sort comparators must be total on the key (field coverage and stage qualifiers). Not decided: determinism of the standard library and protobuf runtime; time.LoadLocation depends on the host zone database.",
		Assumptions: []string{"distinct map keys select distinct per-key objects (values of the id-keyed accumulators are allocated one per key)"},
		Rules: []Rule{
			{Name: "TIDZ", Doc: "a start time / start date flagged absent is the zero value: the trip identifier is a map key that includes them while TripID.Less skips them when flagged absent, so a left-over value makes two keys that tie in the sort and come out in map order", MinInstances: 2, Run: func(c *Ctx) { runStartAcceptance(c, "TIDZ") }},
			{Name: "G6", Doc: "map-range order must not reach results", MinInstances: 3, Run: func(c *Ctx) {
				fns, _ := c.scope(c.allParseRoots(), scopeOpts{})
				runG6(c, fns)
			}},
			{Name: "G7", Doc: "no write to memory that outlives the call or to the input bytes (E5 taint)", MinInstances: 35, Run: func(c *Ctx) {
				fns, reach := c.scope(c.allParseRoots(), scopeOpts{})
				runG7(c, "G7", parseTaintRoots(c), fns, reach, TOpts|TGlobal|TContent, "this memory outlives the parse (or is the caller's input): a later parse can observe the write")
			}},
			{Name: "G8", Doc: "no path to clock/randomness/environment", MinInstances: 1, Run: func(c *Ctx) {
				runG8(c, c.anchors(parseEntrySpecs...))
			}},
		},
	})
	register(&PropSpec{
		ID: "C18",
		Explain: "Decides race freedom structurally: a parse or accessor that writes only memory it allocated itself cannot race with another call. " +
			"(G7) every store, map update, append, and writing library call reachable from ParseStatic, ParseRealtime (with all bundled extensions as dispatch targets), Trip.Hash, Vehicle.Hash, Stop.Root, the nil-safe getters and ExportToCsv is classified by a field-based may-taint analysis whose sources are the entry points' parameters and receivers and all package-level variables; a write through a tainted address fails. " +
			"No goroutines or sync primitives inside (nothing to order); (G8) no clock/randomness. 'Equals sequential parsing' then follows from C06. " +
			"Not decided: races inside the standard library / protobuf runtime (documented concurrency-safe entry points are listed in externals.go).",
		Assumptions: []string{"callers do not mutate the options value, the input slice or a result concurrently with a call", "hash.Hash arguments are not shared between concurrent Hash calls (designated output parameter)"},
		Rules: []Rule{
			{Name: "G7", Doc: "no write to shared memory (E5 taint)", MinInstances: 35, Run: func(c *Ctx) {
				roots := c.allParseRoots()
				roots = append(roots, c.anchors(accessorSpecs...)...)
				roots = append(roots, c.anchors("journal:(*Journal).ExportToCsv")...)
				roots = append(roots, c.funcMapClosures()...)
				fns, reach := c.scope(roots, scopeOpts{})
				troots := append(parseTaintRoots(c), accessorTaintRoots(c)...)
				runG7(c, "G7", troots, fns, reach, TOpts|TGlobal|TContent|TRecv, "another goroutine may hold the same memory: unsynchronised write = data race")
			}},
			{Name: "G8", Doc: "no path to clock/randomness/environment", MinInstances: 1, Run: func(c *Ctx) {
				runG8(c, c.anchors(parseEntrySpecs...))
			}},
		},
	})
}

var _ *ssa.Function
