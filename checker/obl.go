package main

import (
	"bufio"
	"encoding/json"
	"fmt"
	"golang.org/x/tools/go/ssa"
	"os"
	"path/filepath"
	"sort"
	"strings"
)

type Status int

const (
	Proved Status = iota
	Violated
	Undecided
)

func (s Status) String() string { return [...]string{"PROVED", "VIOLATED", "UNDECIDED"}[s] }

// Obligation is one rule instance discovered in the code.  Key =
// rule|function|construct (never a line number).
type Obligation struct {
	Rule      string `json:"rule"`
	Func      string `json:"func"`
	Construct string `json:"construct"`
	Pos       string `json:"pos"`
	Status    Status `json:"-"`
	StatusS   string `json:"status"`
	How       string `json:"how,omitempty"`    // for PROVED: rule/fact chain used
	Detail    string `json:"detail,omitempty"` // for failures: the missing fact, the offending path
	Path      string `json:"path,omitempty"`   // entry point -> site call path
	Exception string `json:"reviewed_exception,omitempty"`
}

func (o *Obligation) Key() string { return o.Rule + "|" + o.Func + "|" + o.Construct }

type Ctx struct {
	P     *Program
	Prop  string
	Tier  string
	Obls  []*Obligation
	Notes []string
	// counters reported in the evidence
	Stats map[string]int
	// reviewed exceptions (key -> reason); obligations listed here are reported as
	// "assumed" (counted separately, not covered by the claim)
	seen map[string]*Obligation
	// anchor resolution is memoised: an unresolved anchor is reported once
	anchorMemo map[string]*ssa.Function
	hashMemo   *hashShape
	csvMemo    *csvRoles
	hashQuiet  *hashShape
}

func newCtx(p *Program, prop, tier string) *Ctx {
	resolveProg = p
	return &Ctx{P: p, Prop: prop, Tier: tier, Stats: map[string]int{}, seen: map[string]*Obligation{}}
}

func (c *Ctx) add(o *Obligation) *Obligation {
	o.StatusS = o.Status.String()
	// Same key twice (e.g. two textual occurrences of the same construct in one
	// function): keep both, but make keys distinct by an occurrence suffix so
	// that a known finding on one occurrence does not hide the other.
	base := o.Construct
	for n := 2; ; n++ {
		if _, dup := c.seen[o.Key()]; !dup {
			break
		}
		o.Construct = fmt.Sprintf("%s #%d", base, n)
	}
	c.seen[o.Key()] = o
	c.Obls = append(c.Obls, o)
	return o
}

func (c *Ctx) Proved(rule, fn, construct, pos, how string) *Obligation {
	return c.add(&Obligation{Rule: rule, Func: fn, Construct: construct, Pos: pos, Status: Proved, How: how})
}
func (c *Ctx) Violated(rule, fn, construct, pos, detail string) *Obligation {
	return c.add(&Obligation{Rule: rule, Func: fn, Construct: construct, Pos: pos, Status: Violated, Detail: detail})
}
func (c *Ctx) Undecided(rule, fn, construct, pos, detail string) *Obligation {
	return c.add(&Obligation{Rule: rule, Func: fn, Construct: construct, Pos: pos, Status: Undecided, Detail: detail})
}
func (c *Ctx) Check(ok bool, rule, fn, construct, pos, how, detail string) *Obligation {
	if ok {
		return c.Proved(rule, fn, construct, pos, how)
	}
	return c.Violated(rule, fn, construct, pos, detail)
}
func (c *Ctx) Note(format string, a ...any) { c.Notes = append(c.Notes, fmt.Sprintf(format, a...)) }

// ---------------------------------------------------------------- known findings

type Finding struct {
	Kind string // open | fixed
	Prop string
	Key  string // for open
	What string
	Raw  string
}

// known-findings.txt lines:
//
//	open: property=C06 key=<rule|func|construct> :: <what fails>
//	fixed: property=C05 <commit> <what failed>
func loadFindings(path string) ([]Finding, error) {
	f, err := os.Open(path)
	if err != nil {
		if os.IsNotExist(err) {
			return nil, nil
		}
		return nil, err
	}
	defer f.Close()
	var out []Finding
	sc := bufio.NewScanner(f)
	sc.Buffer(make([]byte, 1<<20), 1<<20)
	for sc.Scan() {
		line := strings.TrimSpace(sc.Text())
		if line == "" || strings.HasPrefix(line, "#") {
			continue
		}
		switch {
		case strings.HasPrefix(line, "open:"):
			rest := strings.TrimSpace(strings.TrimPrefix(line, "open:"))
			fd := Finding{Kind: "open", Raw: line}
			parts := strings.SplitN(rest, " :: ", 2)
			if len(parts) == 2 {
				fd.What = parts[1]
			}
			head := parts[0]
			if !strings.HasPrefix(head, "property=") {
				return nil, fmt.Errorf("bad known-findings line: %q", line)
			}
			sp := strings.SplitN(head, " key=", 2)
			if len(sp) != 2 {
				return nil, fmt.Errorf("bad known-findings line: %q", line)
			}
			fd.Prop = strings.TrimPrefix(sp[0], "property=")
			fd.Key = strings.TrimSpace(sp[1])
			out = append(out, fd)
		case strings.HasPrefix(line, "fixed:"):
			rest := strings.TrimSpace(strings.TrimPrefix(line, "fixed:"))
			fd := Finding{Kind: "fixed", Raw: line, What: rest}
			for _, w := range strings.Fields(rest) {
				if strings.HasPrefix(w, "property=") {
					fd.Prop = strings.TrimPrefix(w, "property=")
				}
			}
			out = append(out, fd)
		default:
			return nil, fmt.Errorf("bad known-findings line: %q", line)
		}
	}
	return out, sc.Err()
}

// ---------------------------------------------------------------- evidence

type ruleStat struct {
	Instances int `json:"instances"`
	Proved    int `json:"proved"`
	Violated  int `json:"violated"`
	Undecided int `json:"undecided"`
	Assumed   int `json:"reviewed_exceptions"`
}

type evidence struct {
	PropertyID  string         `json:"property_id"`
	Tier        string         `json:"tier"`
	Seed        int            `json:"seed"`
	Level       string         `json:"level"`
	Coverage    map[string]any `json:"coverage"`
	Assumptions []string       `json:"assumptions"`
	WallS       float64        `json:"wall_s"`
	Violations  int            `json:"violations"`
}

func verifDir() string {
	if d := os.Getenv("VERIF_DIR"); d != "" {
		return d
	}
	return "/verif"
}

func writeJSON(path string, v any) error {
	if err := os.MkdirAll(filepath.Dir(path), 0o755); err != nil {
		return err
	}
	b, err := json.MarshalIndent(v, "", " ")
	if err != nil {
		return err
	}
	return os.WriteFile(path, append(b, '\n'), 0o644)
}

func sortedKeys[V any](m map[string]V) []string {
	var ks []string
	for k := range m {
		ks = append(ks, k)
	}
	sort.Strings(ks)
	return ks
}
