package main

// G1 (nil dereference), G3 (type assertions, panics), csv typestate contract: obligations
// discharged with the E1 engine.

import (
	"fmt"
	"go/ast"
	"go/token"
	"go/types"
	"os"
	"sort"
	"strings"

	"golang.org/x/tools/go/ssa"
)

// reviewed exceptions: obligations the provers cannot reach; each is one named construct
// with a one-line reason.  They are counted separately and are NOT covered by the claim.
// The one reviewed exception is recognised by its construct, not by the names in it: the journal's list trimmed to
// len(prefix)+len(aligned pairs) of the partition just computed from that same list.
var reviewedExceptions = map[string]string{}

const partitionTrimReason = "partition invariant of createPartition: prefix = stopTimes[:first] and the aligned pairs hold pointers to distinct elements of stopTimes[first:], so len(prefix)+len(pairs) <= len(stopTimes); an invariant relating two slices and a count, beyond E2"

func (c *Ctx) applyException(o *Obligation) {
	if o.Status == Proved {
		return
	}
	if why, ok := reviewedExceptions[o.Key()]; ok {
		o.Exception = why
	}
}

// partitionTrimException: sl is X.StopTimes[:len(P.prefix)+len(P.pairs)] where P is the value returned by the
// partition function called on (a load of) the very same X.StopTimes, in a function that does not store to
// X.StopTimes between that call and the trim.
func (c *Ctx) partitionTrimException(sl *ssa.Slice) bool {
	cp := c.P.Func("journal:createPartition")
	if cp == nil {
		cp = c.resolveByShape("journal:createPartition")
	}
	if cp == nil {
		return false
	}
	ps := partitionShapeOf(cp)
	if ps == nil || !isPartitionTrim(sl, ps) {
		return false
	}
	ld, ok := sl.X.(*ssa.UnOp)
	if !ok || !strings.HasSuffix(canon(ld.X), ".StopTimes") {
		return false
	}
	// the partition whose lengths are used: a local holding the result of cp(<load of the same cell>, ...)
	add := sl.High.(*ssa.BinOp)
	lx, _ := lenOf(add.X)
	var call *ssa.Call
	if f, ok := lx.(*ssa.Field); ok {
		if cl, ok := f.X.(*ssa.Call); ok && staticCallee(cl) == cp {
			call = cl
		}
	}
	if l2, ok := lx.(*ssa.UnOp); ok {
		if fa, ok := l2.X.(*ssa.FieldAddr); ok {
			if a, ok := fa.X.(*ssa.Alloc); ok {
				for _, sv := range cellStores(a) {
					if cl, ok := sv.(*ssa.Call); ok && staticCallee(cl) == cp {
						if call != nil {
							return false
						}
						call = cl
					}
				}
			}
		}
	}
	if call == nil || call.Parent() != sl.Parent() || !instrBefore(call, sl) {
		return false
	}
	arg, ok := call.Call.Args[0].(*ssa.UnOp)
	if !ok || canon(arg.X) != canon(ld.X) {
		return false
	}
	// no store to the list between the call and the trim
	for _, b := range sl.Parent().Blocks {
		for _, in := range b.Instrs {
			if st, ok := in.(*ssa.Store); ok && canon(st.Addr) == canon(ld.X) {
				if !instrBefore(sl, st) && !(st.Block() == sl.Block() && false) {
					// a store that is not after the trim: must be before the call
					if !instrBefore(st, call) {
						return false
					}
				}
			}
		}
	}
	return true
}

func derefDescr(v ssa.Value) string {
	return strings.TrimSpace(descr(v)) + " (" + typeName(v.Type()) + ")"
}

type g1Stats struct{ derefs, trivial, proved, failed int }

var csvContractFns = map[string]string{
	"(" + modPath + "/csv.RequiredColumn).Read":   "csv typestate: receiver built by File.RequiredColumn, call inside the NextRow loop after the missing-column check",
	"(" + modPath + "/csv.OptionalColumn).Read":   "csv typestate: receiver built by File.OptionalColumn, call inside the NextRow loop",
	"(" + modPath + "/csv.OptionalColumn).ReadOr": "csv typestate: receiver built by File.OptionalColumn, call inside the NextRow loop",
	"(*" + modPath + "/csv.File).MissingRowKeys":  "csv typestate: call inside the NextRow loop",
}

func runG1(c *Ctx, e *nilEngine) {
	p := c.P
	stats := g1Stats{}
	for _, f := range e.fns {
		fname := shortName(f)
		contract := csvContractFns[f.String()]
		e.analyse(f, func(in ssa.Instruction, st fstate) {
			var ptr ssa.Value
			what := ""
			switch x := in.(type) {
			case *ssa.UnOp:
				if x.Op == token.MUL {
					ptr, what = x.X, "load"
				}
			case *ssa.Store:
				ptr, what = x.Addr, "store"
			case *ssa.FieldAddr:
				ptr, what = x.X, "field ."+fieldName(x.X.Type(), x.Field)
			case *ssa.IndexAddr:
				if _, ok := x.X.Type().Underlying().(*types.Pointer); ok {
					ptr, what = x.X, "index"
				}
			case *ssa.Slice:
				if _, ok := x.X.Type().Underlying().(*types.Pointer); ok {
					ptr, what = x.X, "slice"
				}
			case *ssa.MapUpdate:
				ptr, what = x.Map, "map update"
			case *ssa.TypeAssert:
				if !x.CommaOk {
					checkTypeAssert(c, e, f, x, st)
				}
			case *ssa.Panic:
				checkPanic(c, e, f, x)
			case ssa.CallInstruction:
				cc := x.Common()
				switch {
				case cc.IsInvoke():
					ptr, what = cc.Value, "invoke ."+cc.Method.Name()
				case cc.StaticCallee() == nil:
					if _, isB := cc.Value.(*ssa.Builtin); !isB {
						if _, isMC := cc.Value.(*ssa.MakeClosure); !isMC {
							ptr, what = cc.Value, "call of function value"
						}
					}
				default:
					// external method with a pointer receiver: the library dereferences it
					cal := cc.StaticCallee()
					if !p.fnIndex[cal] && cal.Signature.Recv() != nil && len(cc.Args) > 0 {
						if _, isPtr := cal.Signature.Recv().Type().Underlying().(*types.Pointer); isPtr {
							ptr, what = cc.Args[0], "receiver of "+trimMod(cal.String())
						}
					}
				}
			}
			if ptr == nil {
				return
			}
			stats.derefs++
			switch ptr.(type) {
			case *ssa.Alloc, *ssa.FieldAddr, *ssa.IndexAddr, *ssa.Global, *ssa.MakeMap, *ssa.MakeInterface, *ssa.MakeClosure, *ssa.Function:
				stats.trivial++
				return // intrinsically non-nil addresses: counted, not listed
			case *ssa.FreeVar:
				if f.Synthetic == "" {
					stats.trivial++
					return
				}
			}
			construct := what + " " + derefDescr(ptr)
			if contract != "" {
				stats.proved++
				c.Proved("G1", fname, construct, p.ipos(in), "by contract: "+contract)
				return
			}
			if e.nonNil(ptr, st, in, 0) {
				stats.proved++
				c.Proved("G1", fname, construct, p.ipos(in), "non-nil by E1 (guard facts, summaries, lemmas)")
				return
			}
			stats.failed++
			if os.Getenv("GTFSDEBUG") != "" {
				var ks []string
				for k := range st {
					ks = append(ks, k)
				}
				sort.Strings(ks)
				debugf("G1 fail %s %s; paramCell=%v; state: %s", fname, construct, e.paramCell, strings.Join(ks, " ; "))
			}
			o := c.Violated("G1", fname, construct, p.ipos(in), fmt.Sprintf("%s dereferences %s, which is not known to be non-nil on every path reaching this point (no dominating nil test, non-nil store, summary or lemma applies)", instrString(in), canon(ptr)))
			c.applyException(o)
		})
	}
	c.Stats["G1 dereference sites"] = stats.derefs
	c.Stats["G1 trivially non-nil (address computations, allocations)"] = stats.trivial
	c.Stats["G1 functions"] = len(e.fns)
}

func checkTypeAssert(c *Ctx, e *nilEngine, f *ssa.Function, x *ssa.TypeAssert, st fstate) {
	p := c.P
	construct := "assert " + descr(x.X) + ".(" + typeName(x.AssertedType) + ")"
	if call, ok := x.X.(*ssa.Call); ok && calleeName(call) == "google.golang.org/protobuf/proto.GetExtension" {
		if e.extGuarded(call, x.AssertedType, st) {
			c.Proved("G3", shortName(f), construct, p.ipos(x), "L-ext: dominated by proto.HasExtension on the same message and extension, asserted type is the extension's declared Go type")
			return
		}
	}
	// interface-to-interface assertions of values built from a known concrete type
	if mi, ok := x.X.(*ssa.MakeInterface); ok && types.Identical(mi.X.Type(), x.AssertedType) {
		c.Proved("G3", shortName(f), construct, p.ipos(x), "asserted type is the static type the interface was built from")
		return
	}
	// interface-to-interface assertion that the static type already guarantees (method value of an embedded interface):
	// succeeds whenever the operand is a non-nil interface
	if ai, ok := x.AssertedType.Underlying().(*types.Interface); ok {
		if types.Implements(x.X.Type(), ai) && e.nonNil(x.X, st, x, 0) {
			c.Proved("G3", shortName(f), construct, p.ipos(x), "static type implements the asserted interface and the operand is non-nil")
			return
		}
	}
	o := c.Violated("G3", shortName(f), construct, p.ipos(x), "type assertion without comma-ok that no lemma justifies: a value of another dynamic type panics here")
	c.applyException(o)
}

func checkPanic(c *Ctx, e *nilEngine, f *ssa.Function, x *ssa.Panic) {
	p := c.P
	// the hasher's panic on binary.Write failure is discharged by G15 (fixed-size arguments)
	if c.hashShapeOfQuiet().prims[f] == "number" && panicOnlyOnBinaryWriteError(x) {
		c.Proved("G3", shortName(f), "panic", p.ipos(x), "reachable only if binary.Write fails; excluded by G15 (every argument of number() has a fixed size)")
		return
	}
	o := c.Violated("G3", shortName(f), "panic", p.ipos(x), "explicit panic reachable from an entry point")
	c.applyException(o)
}

// ------------------------------------------------------------ csv typestate contract

func runCsvContract(c *Ctx, scope []*ssa.Function) {
	p := c.P
	nextRow := "(*" + modPath + "/csv.File).NextRow"
	n := 0
	for _, f := range scope {
		if fnPkgPath(f) == pkgPathOf("csv") {
			continue
		}
		for _, b := range f.Blocks {
			for _, in := range b.Instrs {
				call, ok := in.(*ssa.Call)
				if !ok {
					continue
				}
				name := calleeName(call)
				if _, isContract := csvContractFns[name]; !isContract {
					continue
				}
				n++
				fname := shortName(f)
				var file ssa.Value
				var ci *colInfo
				colName := ""
				if strings.HasSuffix(name, "MissingRowKeys") {
					file = call.Call.Args[0]
				} else {
					var why string
					ci, why = resolveColumn(call.Call.Args[0], 0)
					if ci == nil {
						c.Undecided("CSV", fname, "column of "+trimMod(name), p.ipos(call), "receiver does not resolve to a File.RequiredColumn/OptionalColumn constructor: "+why)
						continue
					}
					file = ci.file
					colName = ci.name
				}
				// the place where the state of the file is known: the call itself, or -- when the column object was made by
				// a caller and handed to this helper -- every call site of the helper in that caller
				ctx := []*ssa.BasicBlock{b}
				ctxFn := f
				if ci != nil && ci.ctor != nil && ci.ctor.Parent() != f {
					owner := ci.ctor.Parent()
					// the constructor itself may sit in a helper that is handed the file (newXColumns(file)): the state
					// of the file is known where that helper is called
					// (stop at the first function from which the accessor's function is reached)
					reaches := func(from *ssa.Function) bool {
						seen := map[*ssa.Function]bool{}
						var rec func(g *ssa.Function, d int) bool
						rec = func(g *ssa.Function, d int) bool {
							if g == from {
								return true
							}
							if seen[g] || d > 3 {
								return false
							}
							seen[g] = true
							for _, e := range p.Callers(g) {
								if e.Caller != nil && rec(e.Caller, d+1) {
									return true
								}
							}
							return false
						}
						return rec(f, 0)
					}
					for hop := 0; hop < 3 && !reaches(owner); hop++ {
						fp, isPrm := file.(*ssa.Parameter)
						if !isPrm || fp.Parent() != owner {
							break
						}
						callers := p.Callers(owner)
						if len(callers) != 1 || callers[0].Caller == nil {
							break
						}
						idx := paramIndex(fp)
						args := callers[0].Site.Common().Args
						if idx < 0 || idx >= len(args) {
							break
						}
						file, owner = args[idx], callers[0].Caller
					}
					var sites []*ssa.BasicBlock
					okSites := true
					var up func(g *ssa.Function, d int)
					up = func(g *ssa.Function, d int) {
						callers := p.Callers(g)
						if len(callers) == 0 || d > 2 {
							okSites = false
							return
						}
						for _, e := range callers {
							if e.Caller == owner {
								sites = append(sites, e.Site.Block())
							} else if e.Caller != nil {
								up(e.Caller, d+1)
							} else {
								okSites = false
							}
						}
					}
					up(f, 0)
					if okSites && len(sites) > 0 {
						ctx, ctxFn = sites, owner
					}
				}
				// InRow: dominated by file.NextRow() == true
				inRow := true
				for _, cb := range ctx {
					here := false
					for _, ce := range dominatingConds(cb) {
						if nc, ok := ce.Cond.(*ssa.Call); ok && calleeName(nc) == nextRow && ce.Val && nc.Call.Args[0] == file {
							here = true
						}
					}
					if !here {
						inRow = false
					}
				}
				construct := trimMod(name) + " " + colName
				if !inRow {
					c.Violated("CSV", fname, construct+" in row", p.ipos(call), "row accessor called outside the region guarded by NextRow() == true on the same file: currentRow may be nil")
					continue
				}
				if ci != nil && ci.required {
					// ColumnsChecked: the constructor dominates a missing-columns test whose "nothing missing" edge dominates the site
					okCols := true
					for _, cb := range ctx {
						here := false
						for _, ce := range dominatingConds(cb) {
							if mc := missingColumnsTest(ce, file); mc != nil && !ctorAfter(ctxFn, file, mc) {
								here = true
							}
						}
						if !here {
							okCols = false
						}
					}
					if !okCols {
						c.Violated("CSV", fname, construct+" columns checked", p.ipos(call), "RequiredColumn.Read is not dominated by an empty-result test of MissingRequiredColumns/checkForMissingColumns made after the column was requested: index -1 reaches cells[-1]")
						continue
					}
				}
				c.Proved("CSV", fname, construct, p.ipos(call), "InRow(file) and, for required columns, ColumnsChecked(file) hold at the call")
			}
		}
	}
	c.Stats["CSV row-accessor call sites"] = n
	// side obligations inside package csv
	csvSideObligations(c)
}

// constructsRequiredColumnsOn: the call hands `file` to a module function that requests required columns of it.
func constructsRequiredColumnsOn(call *ssa.Call, file ssa.Value, d int) bool {
	cal := call.Call.StaticCallee()
	if cal == nil || len(cal.Blocks) == 0 || d > 2 {
		return false
	}
	for i, a := range call.Call.Args {
		if a != file || i >= len(cal.Params) {
			continue
		}
		prm := cal.Params[i]
		for _, b := range cal.Blocks {
			for _, in := range b.Instrs {
				c2, ok := in.(*ssa.Call)
				if !ok {
					continue
				}
				if req, isCtor := isColumnCtor(c2); isCtor && req && c2.Call.Args[0] == ssa.Value(prm) {
					return true
				}
				if constructsRequiredColumnsOn(c2, prm, d+1) {
					return true
				}
			}
		}
	}
	return false
}

// ctorAfter: some File.RequiredColumn(file, ...) call can execute after the missing-columns test mc
// (its column would not be covered by the test).
func ctorAfter(f *ssa.Function, file ssa.Value, mc *ssa.Call) bool {
	for _, b := range f.Blocks {
		for _, in := range b.Instrs {
			call, ok := in.(*ssa.Call)
			if !ok {
				continue
			}
			if req, isCtor := isColumnCtor(call); !isCtor || !req || call.Call.Args[0] != file {
				if !constructsRequiredColumnsOn(call, file, 0) {
					continue
				}
			}
			if b == mc.Block() {
				if dominatesInstr(mc, call) {
					return true
				}
				// same block, before the test; but the block may be re-entered through a cycle
				if blockReach(b, nil, false)[b] {
					return true
				}
				continue
			}
			if blockReach(mc.Block(), nil, false)[b] {
				return true
			}
		}
	}
	return false
}

// missingColumnsTest recognises the "nothing missing" edge of
//
//	x := file.MissingRequiredColumns(); if x != nil { return }      (edge: x == nil)
//	w := checkForMissingColumns(file); if len(w) > 0 { return }      (edge: !(len(w) > 0))
func missingColumnsTest(ce condEdge, file ssa.Value) *ssa.Call {
	isMissing := func(v ssa.Value) *ssa.Call {
		call, ok := v.(*ssa.Call)
		if !ok || len(call.Call.Args) == 0 || call.Call.Args[0] != file {
			return nil
		}
		if calleeName(call) == "(*"+modPath+"/csv.File).MissingRequiredColumns" {
			return call
		}
		// the library's wrapper that turns the missing columns into warnings (whatever it is called)
		if cal := call.Call.StaticCallee(); cal != nil && cal.Parent() == nil && fnPkgPath(cal) == modPath && sigClass(cal) == "(*csv.File)→([]warnings.StaticWarning)" {
			return call
		}
		return nil
	}
	// a predicate of the module that is handed the file and answers false only behind the "nothing missing" edge of
	// such a test of its own (it may print or record what is missing before it answers true)
	{
		cond, val := ce.Cond, ce.Val
		for {
			u, isNot := cond.(*ssa.UnOp)
			if !isNot || u.Op != token.NOT {
				break
			}
			cond, val = u.X, !val
		}
		if pc, isCall := cond.(*ssa.Call); isCall && !val && len(pc.Call.Args) > 0 && pc.Call.Args[0] == file {
			if h := pc.Call.StaticCallee(); h != nil && h.Parent() == nil && fnPkgPath(h) == modPath && len(h.Blocks) > 0 && len(h.Params) > 0 && h.Signature.Results().Len() == 1 && shortType(h.Signature.Results().At(0).Type()) == "bool" {
				okPred, nFalse := true, 0
				for _, hb := range h.Blocks {
					ret, isRet := hb.Instrs[len(hb.Instrs)-1].(*ssa.Return)
					if !isRet {
						continue
					}
					bv, isC := constBool(ret.Results[0])
					if !isC {
						okPred = false
						continue
					}
					if bv {
						continue
					}
					nFalse++
					here := false
					for _, ice := range dominatingConds(hb) {
						if _, isInnerCall := ice.Cond.(*ssa.Call); isInnerCall {
							continue
						}
						if missingColumnsTest(ice, h.Params[0]) != nil {
							here = true
						}
					}
					if !here {
						okPred = false
					}
				}
				if okPred && nFalse > 0 {
					return pc
				}
			}
		}
	}
	bo, ok := ce.Cond.(*ssa.BinOp)
	if !ok {
		return nil
	}
	if isNilConst(bo.Y) {
		if mc := isMissing(bo.X); mc != nil {
			if (bo.Op == token.NEQ && !ce.Val) || (bo.Op == token.EQL && ce.Val) {
				return mc
			}
		}
		return nil
	}
	if lc, ok := bo.X.(*ssa.Call); ok && isBuiltin(lc, "len") {
		if mc := isMissing(lc.Call.Args[0]); mc != nil {
			if k, isC := constInt(bo.Y); isC && k == 0 {
				if (bo.Op == token.GTR && !ce.Val) || (bo.Op == token.EQL && ce.Val) || (bo.Op == token.NEQ && !ce.Val) {
					return mc
				}
			}
		}
	}
	return nil
}

// csvSideObligations: the facts the contract relies on, checked inside package csv:
//   - only NextRow stores to File.currentRow, and on its `return true` paths the stored value is non-nil;
//   - a column's i is headerMap[name] or -1, headerMap is filled with the range index of the first record;
//   - the only field assigned on the csv.Reader is ReuseRecord (FieldsPerRecord stays 0: equal field counts, L-csv).
func csvSideObligations(c *Ctx) {
	p := c.P
	var nextRow *ssa.Function = c.anchor("csv:(*File).NextRow")
	// the File's fields by role (their names are free): the current row (*row), the header index (map[string]int)
	curRow, hdrMap := c.csvRoleNames().curRow, c.csvRoleNames().hdrMap
	var writers []string
	for _, fn := range p.ModFns {
		for _, b := range fn.Blocks {
			for _, in := range b.Instrs {
				st, ok := in.(*ssa.Store)
				if !ok {
					continue
				}
				fa, ok := st.Addr.(*ssa.FieldAddr)
				if !ok {
					continue
				}
				field := typeName(fa.X.Type()) + "." + fieldName(fa.X.Type(), fa.Field)
				switch {
				case field == "csv.File."+curRow && fn != nextRow && !(nextRow != nil && inRegion(c, nextRow, fn)):
					writers = append(writers, shortName(fn))
				case strings.HasPrefix(field, "csv.Reader.") && typeName(fa.X.Type()) == "csv.Reader" && namedOf(fa.X.Type()).Obj().Pkg().Path() == "encoding/csv":
					if fieldName(fa.X.Type(), fa.Field) != "ReuseRecord" {
						c.Violated("CSV", shortName(fn), "csv.Reader."+fieldName(fa.X.Type(), fa.Field)+" assigned", p.ipos(st), "the encoding/csv reader is reconfigured (only ReuseRecord may be set): field-count, quoting, comment or whitespace handling no longer are the library defaults")
					} else {
						c.Proved("CSV", shortName(fn), "csv.Reader.ReuseRecord assigned", p.ipos(st), "only ReuseRecord is set; FieldsPerRecord stays 0 (every record has the header's field count)")
					}
				}
			}
		}
	}
	c.Check(len(writers) == 0, "CSV", "csv.File", "currentRow written only by NextRow", "-", "only NextRow stores to File.currentRow", "File.currentRow is also written by "+strings.Join(writers, ", "))
	if nextRow != nil {
		// every `return true` is reached with currentRow non-nil: use the E1 facts
		e := newNilEngine(c, []*ssa.Function{nextRow}, []*ssa.Function{nextRow})
		for _, prm := range nextRow.Params {
			e.entryNN[prm] = true
		}
		e.solve()
		ok := true
		seen := false
		e.analyse(nextRow, func(in ssa.Instruction, st fstate) {
			ret, isRet := in.(*ssa.Return)
			if !isRet {
				return
			}
			if k, isC := ret.Results[0].(*ssa.Const); isC {
				if bv, _ := constBool(k); !bv {
					return
				}
			}
			seen = true
			if _, has := st["NNC:"+nextRow.Params[0].Name()+"."+curRow]; !has {
				ok = false
			}
		})
		c.Check(ok && seen, "CSV", shortName(nextRow), "NextRow() == true leaves currentRow non-nil", p.pos(nextRow.Pos()), "on every path returning true the cell f.currentRow holds a non-nil row", "NextRow can return true while currentRow is nil")
	}
	// the bytes of a file without a byte order mark reach the csv reader as they are: the fallback handed to
	// unicode.BOMOverride is encoding.Nop's decoder (a real decoder replaces what is not valid in its encoding, and ids
	// that differ only in such bytes become one id)
	for _, fn := range p.ModFns {
		for _, b := range fn.Blocks {
			for _, in := range b.Instrs {
				call, ok := in.(*ssa.Call)
				if !ok || !strings.HasSuffix(calleeName(call), "encoding/unicode.BOMOverride") || len(call.Call.Args) != 1 {
					continue
				}
				v := call.Call.Args[0]
				for i := 0; i < 4; i++ {
					switch x := v.(type) {
					case *ssa.MakeInterface:
						v = x.X
						continue
					case *ssa.ChangeInterface:
						v = x.X
						continue
					}
					break
				}
				isNop := false
				if nd, isCall := v.(*ssa.Call); isCall && nd.Call.IsInvoke() && nd.Call.Method.Name() == "NewDecoder" {
					if ld, isLd := nd.Call.Value.(*ssa.UnOp); isLd && ld.Op == token.MUL {
						if g, isG := ld.X.(*ssa.Global); isG && g.Name() == "Nop" && g.Pkg != nil && g.Pkg.Pkg.Path() == "golang.org/x/text/encoding" {
							isNop = true
						}
					}
				}
				c.Check(isNop, "CSV", shortName(fn), "files without a byte order mark are read as they are", p.ipos(call), "the fallback of unicode.BOMOverride is encoding.Nop.NewDecoder()", "the fallback decoder is "+canon(v)+": bytes that are not valid in its encoding are replaced, so cells are no longer handed out as written")
			}
		}
	}
	// the accessors hand out the cell as the reader produced it: what a Read / ReadOr method of a column type returns
	// is a constant, its argument (the default), or an element of a slice of strings -- never the result of a function
	// applied to the cell (trimming, case folding: ids then no longer match the ids read through another accessor)
	for _, fn := range p.ModFns {
		if fn.Signature.Recv() == nil || len(fn.Blocks) == 0 || fn.Signature.Results().Len() != 1 {
			continue
		}
		rt := typeName(fn.Signature.Recv().Type())
		if !strings.HasSuffix(rt, "csv.OptionalColumn") && !strings.HasSuffix(rt, "csv.RequiredColumn") {
			continue
		}
		if bt, ok := fn.Signature.Results().At(0).Type().Underlying().(*types.Basic); !ok || bt.Info()&types.IsString == 0 {
			continue
		}
		if !ast.IsExported(fn.Name()) {
			continue
		}
		bad := ""
		seen := map[ssa.Value]bool{}
		var leaf func(v ssa.Value, d int)
		leaf = func(v ssa.Value, d int) {
			if seen[v] || bad != "" {
				return
			}
			seen[v] = true
			switch x := v.(type) {
			case *ssa.Const, *ssa.Parameter:
			case *ssa.Phi:
				for _, e := range x.Edges {
					leaf(e, d)
				}
			case *ssa.UnOp:
				if x.Op == token.MUL {
					if _, isIdx := x.X.(*ssa.IndexAddr); isIdx {
						return
					}
					if al, isAlloc := x.X.(*ssa.Alloc); isAlloc {
						for _, sv := range cellStores(al) {
							leaf(sv, d)
						}
						return
					}
				}
				bad = x.String() + " at " + p.ipos(x)
			case *ssa.Call:
				if h := staticCallee(x); h != nil && p.isModuleFn(h) && len(h.Blocks) > 0 && d < 3 && fnPkgPath(h) == fnPkgPath(fn) {
					for _, hb := range h.Blocks {
						if ret, isRet := hb.Instrs[len(hb.Instrs)-1].(*ssa.Return); isRet {
							for _, rv := range ret.Results {
								if bt, ok := rv.Type().Underlying().(*types.Basic); ok && bt.Info()&types.IsString != 0 {
									leaf(rv, d+1)
								}
							}
						}
					}
					return
				}
				bad = "the result of " + calleeName(x) + " at " + p.ipos(x)
			default:
				if in, isIn := v.(ssa.Instruction); isIn {
					bad = v.String() + " at " + p.ipos(in)
				} else {
					bad = v.String()
				}
			}
		}
		for _, b := range fn.Blocks {
			if ret, isRet := b.Instrs[len(b.Instrs)-1].(*ssa.Return); isRet {
				leaf(ret.Results[0], 0)
			}
		}
		c.Check(bad == "", "CSV", shortName(fn), "the cell is handed out as read", p.pos(fn.Pos()), "every answer is a constant, the default argument or an element of the record", "the accessor answers "+bad+": the text of a cell is changed on its way to the parsers (ids read through this accessor no longer equal the ids read through the others)")
	}
	// column index provenance
	for _, spec := range []string{"csv:(*File).RequiredColumn", "csv:(*File).OptionalColumn"} {
		f := c.anchor(spec)
		if f == nil {
			continue
		}
		ok := true
		why := ""
		n := 0
		for _, b := range f.Blocks {
			for _, in := range b.Instrs {
				st, isSt := in.(*ssa.Store)
				if !isSt {
					continue
				}
				fa, isFA := st.Addr.(*ssa.FieldAddr)
				if !isFA || fieldName(fa.X.Type(), fa.Field) != fieldOfType(fa.X.Type(), "int") || !strings.HasSuffix(typeName(fa.X.Type()), "Column") {
					continue
				}
				n++
				// value: phi(-1, lookup headerMap[s]) or the lookup itself -- possibly computed by a helper of the
				// package that is handed the file and the name
				type leaf struct {
					v    ssa.Value
					name ssa.Value // what stands for the column name where v lives
				}
				var leaves []leaf
				var expand func(v ssa.Value, name ssa.Value, d int)
				expand = func(v ssa.Value, name ssa.Value, d int) {
					if d > 6 {
						leaves = append(leaves, leaf{v, name})
						return
					}
					switch x := v.(type) {
					case *ssa.Phi:
						for _, e := range x.Edges {
							expand(e, name, d+1)
						}
					case *ssa.Call:
						h := x.Call.StaticCallee()
						if h == nil || x.Call.IsInvoke() || !p.isModuleFn(h) || len(h.Blocks) == 0 || h.Signature.Results().Len() != 1 || len(h.Params) != len(x.Call.Args) {
							leaves = append(leaves, leaf{v, name})
							return
						}
						var hname ssa.Value
						for i, a := range x.Call.Args {
							if a == name {
								hname = h.Params[i]
							}
						}
						eachReturned(h, 0, func(rv ssa.Value, at *ssa.BasicBlock, ret *ssa.Return) {
							expand(rv, hname, d+1)
						})
					default:
						leaves = append(leaves, leaf{v, name})
					}
				}
				expand(st.Val, f.Params[1], 0)
				for _, lf := range leaves {
					v := lf.v
					if k, isC := constInt(v); isC {
						if k != -1 {
							ok, why = false, fmt.Sprintf("constant index %d", k)
						}
						continue
					}
					ex, isEx := v.(*ssa.Extract)
					if !isEx {
						ok, why = false, "index is not a headerMap lookup: "+canon(v)
						continue
					}
					lk, isLk := ex.Tuple.(*ssa.Lookup)
					if !isLk || !strings.HasSuffix(canon(lk.X), "."+hdrMap+")") || lf.name == nil || lk.Index != lf.name {
						ok, why = false, "index is not headerMap[name]"
					}
				}
			}
		}
		c.Check(ok && n > 0, "CSV", shortName(f), "column index is headerMap[name] or -1", p.pos(f.Pos()), "the i field is only ever headerMap[name] (or -1 when absent)", "column index has another source: "+why)
	}
	if f := c.anchor("csv:New"); f != nil {
		// headerMap[colHeader] = i with i the index of a scan over the first record, which is the reader's first Read();
		// the loop may live in New or in a helper New hands the record to
		ok, n := true, 0
		var isFirstRecord func(v ssa.Value, d int) bool
		isFirstRecord = func(v ssa.Value, d int) bool {
			if d > 3 {
				return false
			}
			switch x := v.(type) {
			case *ssa.Extract:
				call, isCall := x.Tuple.(*ssa.Call)
				return isCall && calleeName(call) == "(*encoding/csv.Reader).Read" && inRegion(c, f, call.Parent())
			case *ssa.Parameter:
				callers := p.Callers(x.Parent())
				idx := paramIndex(x)
				if len(callers) == 0 || idx < 0 {
					return false
				}
				for _, e := range callers {
					args := e.Site.Common().Args
					if idx >= len(args) || !isFirstRecord(args[idx], d+1) {
						return false
					}
				}
				return true
			}
			return false
		}
		for _, g := range c.regionOf(f) {
			for _, b := range g.Blocks {
				for _, in := range b.Instrs {
					mu, isMU := in.(*ssa.MapUpdate)
					if !isMU || shortType(mu.Map.Type()) != "map[string]int" {
						continue
					}
					n++
					good := false
					if ld, isLd := mu.Key.(*ssa.UnOp); isLd {
						if ia, isIA := ld.X.(*ssa.IndexAddr); isIA && ia.Index == mu.Value {
							if r, _ := isRangeIndexOver(ia.Index, ia.X); r && isFirstRecord(ia.X, 0) {
								good = true
							}
						}
					}
					if !good {
						ok = false
					}
				}
			}
		}
		ok = ok && n > 0
		c.Check(ok, "CSV", shortName(f), "headerMap maps each header to its position in the first record", p.pos(f.Pos()), "headerMap[firstRow[i]] = i for the range index i over the first record", "headerMap is not filled with the position of each header cell in the first record")
	}
}

// panicOnlyOnBinaryWriteError: the panic is reached only on the err != nil edge of an encoding/binary.Write call.
func panicOnlyOnBinaryWriteError(x *ssa.Panic) bool {
	for _, ce := range dominatingConds(x.Block()) {
		bo, ok := ce.Cond.(*ssa.BinOp)
		if !ok || !isNilConst(bo.Y) {
			continue
		}
		if !((bo.Op == token.NEQ && ce.Val) || (bo.Op == token.EQL && !ce.Val)) {
			continue
		}
		if call, ok := bo.X.(*ssa.Call); ok && calleeName(call) == "encoding/binary.Write" {
			return true
		}
	}
	return false
}
