package main

// SCAN: a loop that does something for each element is not left early. A `break` (an edge from the loop's body to
// where the loop's own header exits to) in a loop whose body has per-element effects -- a store to memory that
// outlives the iteration, a map update, an append that is carried on, a call of a function with such effects or of a
// hash encoder -- skips the remaining elements: entities after an unknown one, routes after an already informed one,
// the departure after a missing arrival. Loops that only search (their body changes nothing but local variables) may
// stop when they have found what they look for; `return` and `continue` are not the subject of this rule.
// Loops that align two lists and must stop at the first mismatch are listed as exceptions with their reason.

import (
	"fmt"
	"sort"
	"strings"

	"golang.org/x/tools/go/ssa"
)

// earlyExits: edges from a body block of l to the block the header exits to (break), or to any other block outside
// the loop that does not end the function (labelled break / goto).
func earlyExits(l *Loop) []*ssa.BasicBlock {
	var exitTarget *ssa.BasicBlock
	for _, s := range l.Header.Succs {
		if !l.Blocks[s] {
			exitTarget = s
		}
	}
	if exitTarget == nil {
		return nil // `for { }`: left by return only
	}
	var out []*ssa.BasicBlock
	for b := range l.Blocks {
		if b == l.Header {
			continue
		}
		for _, s := range b.Succs {
			if l.Blocks[s] {
				continue
			}
			if s == exitTarget {
				out = append(out, b)
				continue
			}
			switch s.Instrs[len(s.Instrs)-1].(type) {
			case *ssa.Return, *ssa.Panic:
				// a return / panic of its own
			default:
				out = append(out, b)
			}
		}
	}
	sort.Slice(out, func(i, j int) bool { return out[i].Index < out[j].Index })
	return out
}

// elementEffects: what the body of l does beyond computing local values ("" if nothing).
func elementEffects(c *Ctx, l *Loop, mods map[*ssa.Function]map[string]bool, prims map[*ssa.Function]string) string {
	for b := range l.Blocks {
		for _, in := range b.Instrs {
			switch x := in.(type) {
			case *ssa.Store:
				if _, isAl := addrRoot(x.Addr).(*ssa.Alloc); !isAl {
					return "a store to " + describeAddr(x.Addr)
				}
			case *ssa.MapUpdate:
				return "an update of " + describeMapExpr(x.Map)
			case *ssa.Call:
				if isBuiltin(x, "append") {
					// carried on: reaches a phi of the loop header
					for _, hin := range l.Header.Instrs {
						if phi, ok := hin.(*ssa.Phi); ok && carriedInto(phi, x, l) {
							return "an append to " + phi.Comment
						}
					}
					// or kept in a variable that lives in a cell declared outside the loop
					for _, r := range *x.Referrers() {
						if st, ok := r.(*ssa.Store); ok && st.Val == ssa.Value(x) {
							if al, isAl := st.Addr.(*ssa.Alloc); isAl && !l.Blocks[al.Block()] {
								return "an append to " + al.Comment
							}
						}
					}
					continue
				}
				if _, isB := x.Call.Value.(*ssa.Builtin); isB {
					continue
				}
				name := calleeName(x)
				if strings.HasPrefix(name, "log.") || strings.HasPrefix(name, "fmt.") {
					continue
				}
				for _, cal := range c.P.Callees(x) {
					if prims != nil && prims[originOf(cal)] != "" {
						return "a call of the encoder " + cal.Name()
					}
					if !c.P.fnIndex[cal] {
						continue
					}
					for k := range mods[cal] {
						if k != "local" {
							return "a call of " + shortName(cal) + " (writes " + k + ")"
						}
					}
				}
			}
		}
	}
	return ""
}

func runFullScan(c *Ctx, fns []*ssa.Function, rule string) {
	p := c.P
	mods := p.modSets()
	var prims map[*ssa.Function]string
	if hs := c.hashShapeOfQuiet(); hs != nil {
		prims = hs.prims
	}
	sort.Slice(fns, func(i, j int) bool { return fns[i].Pos() < fns[j].Pos() })
	n := 0
	seenFn := map[*ssa.Function]bool{}
	for _, f := range fns {
		if seenFn[f] || len(f.Blocks) == 0 {
			continue
		}
		seenFn[f] = true
		for _, l := range naturalLoops(f) {
			eff := elementEffects(c, l, mods, prims)
			if eff == "" {
				continue
			}
			n++
			exits := earlyExits(l)
			nLoop := 0
			for _, l2 := range naturalLoops(f) {
				if l2.Header.Index < l.Header.Index && elementEffects(c, l2, mods, prims) != "" {
					nLoop++
				}
			}
			construct := fmt.Sprintf("processing loop %d visits every element", nLoop+1)
			if len(exits) == 0 {
				c.Proved(rule, shortName(f), construct, p.pos(l.Header.Instrs[0].Pos()), "the loop does something for each element ("+eff+") and is left only when it is exhausted or by a return")
				continue
			}
			if why := alignmentLoop(c, l); why != "" {
				c.Proved(rule, shortName(f), construct, p.pos(l.Header.Instrs[0].Pos()), "stops at the first mismatch by design: "+why)
				continue
			}
			c.Violated(rule, shortName(f), construct, p.pos(lastPos(exits[0])), "the loop does something for each element ("+eff+") but can be left early (break near "+p.pos(lastPos(exits[0]))+"): the elements after that point are never processed")
		}
	}
	c.Stats[rule+" processing loops"] = n
}

// alignmentLoop: the matching loop of journal.createPartition pairs journal entries with updates for as long as
// their stop ids agree; leaving it at the first disagreement is what it is for (the PART rules check that it does).
func alignmentLoop(c *Ctx, l *Loop) string {
	cp := c.anchor("journal:createPartition")
	if cp != nil && l.Header.Parent() == cp {
		return "createPartition aligns entries and updates while their stop ids agree"
	}
	// ... or a helper of createPartition that it alone calls (the pairing loop extracted)
	if cp != nil && l.Header.Parent() != nil && fnPkgPath(l.Header.Parent()) == fnPkgPath(cp) {
		callers := c.P.Callers(l.Header.Parent())
		if len(callers) == 1 && callers[0].Caller == cp {
			return "a helper of createPartition aligns entries and updates while their stop ids agree"
		}
	}
	return ""
}

func hashFns(c *Ctx) []*ssa.Function {
	hs := c.hashShapeOfQuiet()
	if hs == nil {
		return nil
	}
	var out []*ssa.Function
	for _, f := range []*ssa.Function{hs.trip, hs.vehicle} {
		if f != nil {
			out = append(out, c.regionOf(f)...)
		}
	}
	return out
}

func journalFns(c *Ctx) []*ssa.Function {
	f := c.anchor("journal:BuildJournal")
	if f == nil {
		return nil
	}
	return c.regionOf(f)
}

// carriedInto: value v is what header phi `phi` receives along some back edge (possibly through joins inside the loop).
func carriedInto(phi *ssa.Phi, v ssa.Value, l *Loop) bool {
	seen := map[ssa.Value]bool{}
	var has func(e ssa.Value, d int) bool
	has = func(e ssa.Value, d int) bool {
		if e == v {
			return true
		}
		if seen[e] || d > 8 {
			return false
		}
		seen[e] = true
		if p2, ok := e.(*ssa.Phi); ok && l.Blocks[p2.Block()] && p2 != phi {
			for _, e2 := range p2.Edges {
				if has(e2, d+1) {
					return true
				}
			}
		}
		return false
	}
	for i, e := range phi.Edges {
		if l.Blocks[phi.Block().Preds[i]] && has(e, 0) {
			return true
		}
	}
	return false
}
