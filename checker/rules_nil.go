package main

// E1: guard-fact dataflow on SSA (must-facts, intersection at joins) with
// interprocedural parameter/return summaries.  Decides G1 (every dereference is of
// a non-nil value) and provides facts to G2/G3.

import (
	"fmt"
	"go/token"
	"go/types"
	"os"
	"sort"
	"strings"

	"golang.org/x/tools/go/ssa"
)

// fact keys:
//
//	NN:<value name>@<fn>     the SSA value is non-nil
//	NNC:<canon addr>         the memory cell denoted by the address expression holds a non-nil value
//	KEY:<canon map>|<canon key>   the key is present in the map
//	ERRNIL:<call name>       the error result of the call is nil
//	EXT:<canon msg>|<ext>    proto.HasExtension(msg, ext) returned true
type fstate map[string][]string // fact -> cell classes it depends on (for kills)

func (s fstate) clone() fstate {
	o := make(fstate, len(s))
	for k, v := range s {
		o[k] = v
	}
	return o
}

func meet(a, b fstate) fstate {
	if a == nil {
		return b.clone()
	}
	o := fstate{}
	for k, v := range a {
		if _, ok := b[k]; ok {
			o[k] = v
		}
	}
	return o
}

func (s fstate) equal(o fstate) bool {
	if len(s) != len(o) {
		return false
	}
	for k := range s {
		if _, ok := o[k]; !ok {
			return false
		}
	}
	return true
}

type nilEngine struct {
	c   *Ctx
	p   *Program
	fns []*ssa.Function // functions whose obligations are reported (scope)
	all []*ssa.Function // functions analysed for summaries (scope + proto getters they call)

	protoRepDepth int
	paramNN       map[*ssa.Parameter]bool
	paramDyn      map[*ssa.Parameter]bool // interface parameter whose dynamic value is a non-nil pointer at every call site
	paramCell     map[string]bool         // "<fn>|<param>.<field>" -> the cell is non-nil at entry (all call sites establish it)
	cellWant      map[string]bool         // candidate param cells
	retNN         map[*ssa.Function][]bool
	retPair       map[*ssa.Function][]int    // result idx -> error result idx when "err == nil => result non-nil", else -1
	predNN        map[*ssa.Function][]int    // bool function: returns true => these params are non-nil
	retCell       map[*ssa.Function][]string // one-result function returning a pointer to a struct: these fields of the pointee are non-nil on return
	retKey        map[*ssa.Function][]int    // one-result function: on return, the result is a key of these map parameters (of the same map object the caller passed)
	predCell      map[*ssa.Function][]string // bool function: returns true => the cell "<param idx>|<field>" of a pointer parameter is non-nil on return
	mods          map[*ssa.Function]map[string]bool
	extTypes      map[string]string
	entryNN       map[*ssa.Parameter]bool // contracts
	roots         map[*ssa.Function]bool
	mapValsNN     map[ssa.Value]int // memo: 0 unknown, 1 yes, 2 no
	mapUpd        []*ssa.MapUpdate
	structInv     map[string]int // "Type.field" -> 1 invariant non-nil, 2 no

	// per-function analysis results of the current round
	in    map[*ssa.BasicBlock]fstate
	cur   *ssa.Function
	final bool
	nObl  int
	byCtr map[*ssa.Function]string // functions whose internal obligations are discharged by a contract
	// siteOK: for every Store / MapUpdate of a nillable value in an analysed function: the stored value was
	// non-nil at that site in the previous round (optimistic fixpoint, like the summaries)
	siteOK map[ssa.Instruction]bool
	// siteFieldOK: for every whole-struct Store: the nillable fields whose source cell was known non-nil there
	siteFieldOK map[ssa.Instruction]map[string]bool
	// nilMods: per function, the cell classes it (or a callee) may write a possibly-nil value to
	nilMods map[*ssa.Function]map[string]bool
	// siteKeys: for every MapUpdate m2[k] = v, the canonical names of the maps M for which "k is a key of M"
	// was known at that site (used for the key-subset lemma)
	siteKeys map[ssa.Instruction]map[string]bool
	assumed  map[string]string // reviewed assumptions: "<fn short>|<descr(value)>" -> reason
	used     map[string]int
}

func vid(v ssa.Value) string {
	if v.Parent() != nil {
		return v.Name() + "@" + v.Parent().String()
	}
	return v.Name()
}

func newNilEngine(c *Ctx, scope []*ssa.Function, roots []*ssa.Function) *nilEngine {
	e := &nilEngine{c: c, p: c.P, fns: scope,
		paramNN: map[*ssa.Parameter]bool{}, paramDyn: map[*ssa.Parameter]bool{}, paramCell: map[string]bool{}, cellWant: map[string]bool{},
		retNN: map[*ssa.Function][]bool{}, retPair: map[*ssa.Function][]int{}, predNN: map[*ssa.Function][]int{}, predCell: map[*ssa.Function][]string{}, retKey: map[*ssa.Function][]int{}, retCell: map[*ssa.Function][]string{},
		entryNN: map[*ssa.Parameter]bool{}, roots: map[*ssa.Function]bool{}, mapValsNN: map[ssa.Value]int{}, structInv: map[string]int{},
		byCtr: map[*ssa.Function]string{}, siteOK: map[ssa.Instruction]bool{}, siteFieldOK: map[ssa.Instruction]map[string]bool{}, siteKeys: map[ssa.Instruction]map[string]bool{}, assumed: map[string]string{}, used: map[string]int{}}
	e.mods = c.P.modSets()
	e.extTypes = c.P.extensionTypes()
	for _, r := range roots {
		e.roots[r] = true
	}
	// analysed set: scope + every module function they can call (proto getters)
	seen := map[*ssa.Function]bool{}
	var add func(f *ssa.Function)
	add = func(f *ssa.Function) {
		if seen[f] || !c.P.fnIndex[f] {
			return
		}
		seen[f] = true
		e.all = append(e.all, f)
		c.P.buildEdges()
		for _, ed := range c.P.outEdges[f] {
			add(ed.Callee)
		}
		for _, a := range f.AnonFuncs {
			add(a)
		}
	}
	for _, f := range scope {
		add(f)
	}
	sort.Slice(e.all, func(i, j int) bool { return e.all[i].String() < e.all[j].String() })
	for _, f := range e.all {
		for _, b := range f.Blocks {
			for _, in := range b.Instrs {
				switch x := in.(type) {
				case *ssa.MapUpdate:
					e.mapUpd = append(e.mapUpd, x)
					e.siteOK[x] = true
				case *ssa.Store:
					if isNillable(x.Val.Type()) {
						e.siteOK[x] = true
					}
				}
			}
		}
	}
	return e
}

// ------------------------------------------------------------ summaries (optimistic fixpoint)

func (e *nilEngine) solve() {
	// optimistic initialisation
	for _, f := range e.all {
		for _, prm := range f.Params {
			if isNillable(prm.Type()) {
				e.paramNN[prm] = true
			}
			if _, isIface := prm.Type().Underlying().(*types.Interface); isIface {
				e.paramDyn[prm] = !e.roots[f]
			}
		}
		n := f.Signature.Results().Len()
		rn := make([]bool, n)
		rp := make([]int, n)
		for i := 0; i < n; i++ {
			rn[i] = isNillable(f.Signature.Results().At(i).Type())
			rp[i] = -1
		}
		// pairing candidates: last result of type error
		if n >= 2 && f.Signature.Results().At(n-1).Type().String() == "error" {
			for i := 0; i < n-1; i++ {
				rp[i] = n - 1
			}
		}
		e.retNN[f] = rn
		e.retPair[f] = rp
		// cell candidates: the one result points to a struct of the module with nillable fields
		if n == 1 && e.p.isModuleFn(f) {
			if pt, isPtr := f.Signature.Results().At(0).Type().Underlying().(*types.Pointer); isPtr {
				if sst, isSt := pt.Elem().Underlying().(*types.Struct); isSt && sst.NumFields() <= 32 && !isProtoPkg(fnPkgPath(f)) {
					var cs []string
					for k := 0; k < sst.NumFields(); k++ {
						if isNillable(sst.Field(k).Type()) {
							cs = append(cs, sst.Field(k).Name())
						}
					}
					if len(cs) > 0 {
						e.retCell[f] = cs
					}
				}
			}
		}
		// key candidates: the one result has the key type of a map parameter
		if n == 1 && e.p.isModuleFn(f) {
			var ks []int
			for i, prm := range f.Params {
				if mt, isMap := prm.Type().Underlying().(*types.Map); isMap && types.Identical(mt.Key(), f.Signature.Results().At(0).Type()) {
					ks = append(ks, i)
				}
			}
			if len(ks) > 0 {
				e.retKey[f] = ks
			}
		}
		// predicate candidates: the (last) result is a bool -- a plain predicate, or the ok of a (value, ok) helper
		if n >= 1 {
			if b, ok := f.Signature.Results().At(n - 1).Type().Underlying().(*types.Basic); ok && b.Kind() == types.Bool {
				var ps []int
				for i, prm := range f.Params {
					if isNillable(prm.Type()) {
						ps = append(ps, i)
					}
				}
				e.predNN[f] = ps
				// ... or a method that reports whether it could set a field of its receiver / pointer parameter
				var cs []string
				for i, prm := range f.Params {
					pt, isPtr := prm.Type().Underlying().(*types.Pointer)
					if !isPtr || !e.p.isModuleFn(f) {
						continue
					}
					if sst, isSt := pt.Elem().Underlying().(*types.Struct); isSt && sst.NumFields() <= 32 {
						for k := 0; k < sst.NumFields(); k++ {
							if isNillable(sst.Field(k).Type()) {
								cs = append(cs, fmt.Sprintf("%d|%s", i, sst.Field(k).Name()))
							}
						}
					}
				}
				if len(cs) > 0 {
					e.predCell[f] = cs
				}
			}
		}
		// candidate parameter cells
		for _, b := range f.Blocks {
			for _, in := range b.Instrs {
				if fa, ok := in.(*ssa.FieldAddr); ok {
					prm := paramBehind(fa.X)
					if prm == nil {
						prm = structParamSpill(fa.X)
					}
					if prm != nil && isNillable(deref(fa.Type())) {
						k := f.String() + "|" + prm.Name() + "." + fieldName(prm.Type(), fa.Field)
						e.cellWant[k] = true
						e.paramCell[k] = true
					}
				}
			}
		}
	}
	// a function that only hands its parameter on to a callee that relies on one of the parameter's cells needs the
	// fact itself (at its own entry) to have it at the call
	for changed, rounds := true, 0; changed && rounds < 6; rounds++ {
		changed = false
		for _, f := range e.all {
			for _, b := range f.Blocks {
				for _, in := range b.Instrs {
					call, ok := in.(ssa.CallInstruction)
					if !ok {
						continue
					}
					g := call.Common().StaticCallee()
					if g == nil || len(g.Blocks) == 0 {
						continue
					}
					args := allArgs(call)
					off := len(g.Params) - len(args)
					for ai, a := range args {
						prm, isPrm := a.(*ssa.Parameter)
						if !isPrm || prm.Parent() != f || ai+off < 0 || ai+off >= len(g.Params) {
							continue
						}
						gp := g.Params[ai+off]
						pre := g.String() + "|" + gp.Name() + "."
						for k := range e.cellWant {
							if !strings.HasPrefix(k, pre) {
								continue
							}
							nk := f.String() + "|" + prm.Name() + "." + strings.TrimPrefix(k, pre)
							if !e.cellWant[nk] {
								e.cellWant[nk] = true
								e.paramCell[nk] = true
								changed = true
							}
						}
					}
				}
			}
		}
	}
	// contracts for roots: parameters of roots are what the contract says, never inferred
	for f := range e.roots {
		for _, prm := range f.Params {
			if isNillable(prm.Type()) {
				e.paramNN[prm] = e.entryNN[prm]
			}
		}
		for k := range e.cellWant {
			if strings.HasPrefix(k, f.String()+"|") {
				e.paramCell[k] = false
			}
		}
	}
	// functions without any call site inside the analysed set and that are not roots: parameters unknown
	called := map[*ssa.Function]bool{}
	for _, f := range e.all {
		e.p.buildEdges()
		for _, ed := range e.p.outEdges[f] {
			called[ed.Callee] = true
		}
	}
	for _, f := range e.all {
		if !called[f] && !e.roots[f] {
			for _, prm := range f.Params {
				if isNillable(prm.Type()) && !e.entryNN[prm] {
					e.paramNN[prm] = false
				}
			}
			for k := range e.cellWant {
				if strings.HasPrefix(k, f.String()+"|") {
					e.paramCell[k] = false
				}
			}
		}
	}
	for round := 0; round < 30; round++ {
		newParam := map[*ssa.Parameter]bool{}
		for k, v := range e.paramNN {
			newParam[k] = v
		}
		newDyn := map[*ssa.Parameter]bool{}
		for k, v := range e.paramDyn {
			newDyn[k] = v
		}
		newCell := map[string]bool{}
		for k, v := range e.paramCell {
			newCell[k] = v
		}
		newRet := map[*ssa.Function][]bool{}
		newPair := map[*ssa.Function][]int{}
		newPred := map[*ssa.Function][]int{}
		newPredCell := map[*ssa.Function][]string{}
		newRetKey := map[*ssa.Function][]int{}
		newRetCell := map[*ssa.Function][]string{}
		newSiteKeys := map[ssa.Instruction]map[string]bool{}
		newSite := map[ssa.Instruction]bool{}
		newFieldOK := map[ssa.Instruction]map[string]bool{}
		e.mapValsNN = map[ssa.Value]int{}
		e.structInv = map[string]int{}
		for _, f := range e.all {
			newRet[f] = append([]bool{}, e.retNN[f]...)
			newPair[f] = append([]int{}, e.retPair[f]...)
			newPred[f] = append([]int{}, e.predNN[f]...)
			if len(e.predCell[f]) > 0 {
				newPredCell[f] = append([]string{}, e.predCell[f]...)
			}
			if len(e.retKey[f]) > 0 {
				newRetKey[f] = append([]int{}, e.retKey[f]...)
			}
			if len(e.retCell[f]) > 0 {
				newRetCell[f] = append([]string{}, e.retCell[f]...)
			}
		}
		for _, f := range e.all {
			e.analyse(f, func(in ssa.Instruction, st fstate) {
				switch x := in.(type) {
				case *ssa.MapUpdate:
					newSite[x] = e.nonNil(x.Value, st, in, 0)
					ks := map[string]bool{}
					suffix := "|" + canon(x.Key)
					for k := range st {
						if strings.HasPrefix(k, "KEY:") && strings.HasSuffix(k, suffix) {
							ks[strings.TrimSuffix(strings.TrimPrefix(k, "KEY:"), suffix)] = true
						}
					}
					newSiteKeys[x] = ks
				case *ssa.Store:
					if isNillable(x.Val.Type()) {
						newSite[x] = e.nonNil(x.Val, st, in, 0)
					}
					if sst, isStruct := x.Val.Type().Underlying().(*types.Struct); isStruct {
						fo := map[string]bool{}
						if ld, ok := x.Val.(*ssa.UnOp); ok && ld.Op == token.MUL {
							src := canon(ld.X)
							for i := 0; i < sst.NumFields(); i++ {
								if _, has := st["NNC:"+src+"."+sst.Field(i).Name()]; has {
									fo[sst.Field(i).Name()] = true
								}
							}
						}
						newFieldOK[x] = fo
					}
				case ssa.CallInstruction:
					args := allArgs(x)
					for _, cal := range e.p.Callees(x) {
						if !e.p.fnIndex[cal] || e.roots[cal] && false {
							continue
						}
						params := cal.Params
						off := len(params) - len(args)
						if off < 0 {
							continue
						}
						for i, a := range args {
							prm := params[i+off]
							if isNillable(prm.Type()) && newParam[prm] && !e.roots[cal] {
								if !e.nonNil(a, st, in, 0) {
									newParam[prm] = false
								}
							}
							if newDyn[prm] && !e.roots[cal] && !e.dynNonNil(a, st, in, 0) {
								newDyn[prm] = false
							}
							// parameter cells
							if !e.roots[cal] {
								pre := cal.String() + "|" + prm.Name() + "."
								for k := range e.cellWant {
									if strings.HasPrefix(k, pre) && newCell[k] {
										field := strings.TrimPrefix(k, pre)
										base := canon(a)
										if ld, isLd := a.(*ssa.UnOp); isLd && ld.Op == token.MUL && structOf(a.Type()) != nil {
											if _, isPtr := a.Type().Underlying().(*types.Pointer); !isPtr {
												base = canon(ld.X) // a struct passed by value: its fields are the cells of the loaded object
											}
										}
										if !e.cellNonNilExpr(base+"."+field, a, field, st, in) {
											newCell[k] = false
										}
									}
								}
							}
						}
					}
				case *ssa.Return:
					rn := newRet[f]
					rp := newPair[f]
					for i, r := range x.Results {
						if i >= len(rn) {
							break
						}
						nn := !isNillable(r.Type()) || e.nonNil(r, st, in, 0)
						if rn[i] && !nn {
							rn[i] = false
						}
						if rp[i] >= 0 && !nn {
							// must then return a non-nil error
							er := x.Results[rp[i]]
							if !e.nonNil(er, st, in, 0) && !e.pairedByCallee(r, er) {
								rp[i] = -1
							}
						}
					}
					// predicate: returns true => params non-nil
					if ps := newPred[f]; len(ps) > 0 && len(x.Results) > 0 {
						rv := x.Results[len(x.Results)-1]
						var keep []int
						for _, pi := range ps {
							ok := false
							if k, isC := rv.(*ssa.Const); isC {
								if bv, _ := constBool(k); !bv {
									ok = true // returns false here: nothing to show
								}
							}
							if !ok && e.nonNil(f.Params[pi], st, in, 0) && false {
								ok = true
							}
							if !ok {
								ok = e.trueImpliesNonNil(rv, f.Params[pi], x.Block(), st, 0)
							}
							if ok {
								keep = append(keep, pi)
							}
						}
						newPred[f] = keep
					}
					if cs := newRetCell[f]; len(cs) > 0 && len(x.Results) == 1 {
						var keep []string
						for _, fld := range cs {
							if _, has := st["NNC:"+canon(x.Results[0])+"."+fld]; has {
								keep = append(keep, fld)
							}
						}
						newRetCell[f] = keep
					}
					if ks := newRetKey[f]; len(ks) > 0 && len(x.Results) == 1 {
						var keep []int
						for _, pj := range ks {
							if _, has := st["KEY:"+canon(f.Params[pj])+"|"+canon(x.Results[0])]; has && !e.deleteReachable(f, f.Params[pj].Type()) {
								keep = append(keep, pj)
							}
						}
						newRetKey[f] = keep
					}
					if cs := newPredCell[f]; len(cs) > 0 && len(x.Results) > 0 {
						rv := x.Results[len(x.Results)-1]
						var keep []string
						for _, cpair := range cs {
							var pi int
							var field string
							if i := strings.Index(cpair, "|"); i > 0 {
								fmt.Sscanf(cpair[:i], "%d", &pi)
								field = cpair[i+1:]
							}
							ok := e.trueImpliesCell(rv, "NNC:"+canon(f.Params[pi])+"."+field, x.Block(), st, 0)
							if ok {
								keep = append(keep, cpair)
							}
						}
						newPredCell[f] = keep
					}
				}
			})
		}
		changed := false
		for k, v := range newParam {
			if e.paramNN[k] != v {
				changed = true
			}
		}
		for k, v := range newCell {
			if e.paramCell[k] != v {
				changed = true
			}
		}
		for f := range newRet {
			if fmt.Sprint(newRet[f]) != fmt.Sprint(e.retNN[f]) || fmt.Sprint(newPair[f]) != fmt.Sprint(e.retPair[f]) || fmt.Sprint(newPred[f]) != fmt.Sprint(e.predNN[f]) || fmt.Sprint(newPredCell[f]) != fmt.Sprint(e.predCell[f]) || fmt.Sprint(newRetKey[f]) != fmt.Sprint(e.retKey[f]) || fmt.Sprint(newRetCell[f]) != fmt.Sprint(e.retCell[f]) {
				changed = true
			}
		}
		// the key facts at the map updates are read by the key lemma (of this and of other functions): like the site
		// facts they are those of the previous round, optimistic before the first
		for in, ks := range newSiteKeys {
			old, had := e.siteKeys[in]
			if !had || len(old) != len(ks) {
				changed = true
				continue
			}
			for k := range ks {
				if !old[k] {
					changed = true
				}
			}
		}
		e.siteKeys = newSiteKeys
		for k, v := range newSite {
			if e.siteOK[k] != v {
				changed = true
			}
		}
		for k, v := range newDyn {
			if e.paramDyn[k] != v {
				changed = true
			}
		}
		e.paramDyn = newDyn
		if fmt.Sprint(newFieldOK) != fmt.Sprint(e.siteFieldOK) {
			changed = true
		}
		e.siteFieldOK = newFieldOK
		e.siteOK = newSite
		e.computeNilMods()
		e.paramNN, e.paramCell, e.retNN, e.retPair, e.predNN = newParam, newCell, newRet, newPair, newPred
		e.predCell = newPredCell
		e.retKey = newRetKey
		e.retCell = newRetCell
		if !changed {
			e.c.Stats["E1 summary rounds"] = round + 1
			if os.Getenv("GTFSDEBUGFN") != "" {
				e.debugSummaries(os.Getenv("GTFSDEBUGFN"))
			}
			break
		}
	}
}

// paramBehind: v is a parameter, or the load of a local cell that only ever holds that parameter
// (captured parameters are spilled to a cell).
func paramBehind(v ssa.Value) *ssa.Parameter {
	if prm, ok := v.(*ssa.Parameter); ok {
		return prm
	}
	ld, ok := v.(*ssa.UnOp)
	if !ok || ld.Op != token.MUL {
		return nil
	}
	cell, ok := ld.X.(*ssa.Alloc)
	if !ok {
		return nil
	}
	var prm *ssa.Parameter
	for _, r := range *cell.Referrers() {
		if st, ok := r.(*ssa.Store); ok && st.Addr == ssa.Value(cell) {
			pp, isP := st.Val.(*ssa.Parameter)
			if !isP || (prm != nil && prm != pp) {
				return nil
			}
			prm = pp
		}
	}
	return prm
}

// trueImpliesNonNil: whenever boolean value rv is true, param is non-nil.
// Handles `p != nil && ...` (phi of short-circuit), direct comparisons, and constants.
func (e *nilEngine) trueImpliesNonNil(rv ssa.Value, prm *ssa.Parameter, at *ssa.BasicBlock, st fstate, d int) bool {
	if d > 8 {
		return false
	}
	switch x := rv.(type) {
	case *ssa.Const:
		bv, ok := constBool(x)
		if ok && !bv {
			return true
		}
		// `true` answered where the parameter is already known non-nil (after `if p == nil { return false }`)
		if ok && at != nil {
			for _, ce := range dominatingConds(at) {
				if nonNilCond(ce, prm) {
					return true
				}
			}
			// ... or by whatever the state at the return knows (a proto.HasExtension(p, ..) that held on the way)
			if d == 0 && len(at.Instrs) > 0 && e.nonNil(prm, st, at.Instrs[len(at.Instrs)-1], 0) {
				return true
			}
		}
		return false
	case *ssa.BinOp:
		if x.Op == token.NEQ && x.X == ssa.Value(prm) && isNilConst(x.Y) {
			return true
		}
		// any boolean computed in a block where the param is known non-nil
		for _, ce := range dominatingConds(x.Block()) {
			if nonNilCond(ce, prm) {
				return true
			}
		}
	case *ssa.Phi:
		for i, ed := range x.Edges {
			pred := x.Block().Preds[i]
			ok := e.trueImpliesNonNil(ed, prm, pred, st, d+1)
			if !ok {
				// the edge may come from a block where prm is already known non-nil
				for _, ce := range dominatingConds(pred) {
					if nonNilCond(ce, prm) {
						ok = true
					}
				}
				// or from the true/false edge of a test in pred
				if iff, isIf := pred.Instrs[len(pred.Instrs)-1].(*ssa.If); isIf && !ok {
					_ = iff
				}
			}
			if !ok {
				return false
			}
		}
		return true
	default:
		if v, ok := rv.(ssa.Instruction); ok {
			for _, ce := range dominatingConds(v.Block()) {
				if nonNilCond(ce, prm) {
					return true
				}
			}
		}
	}
	return false
}

func nonNilCond(ce condEdge, v ssa.Value) bool {
	bo, ok := ce.Cond.(*ssa.BinOp)
	if !ok || bo.X != v || !isNilConst(bo.Y) {
		return false
	}
	return (bo.Op == token.NEQ && ce.Val) || (bo.Op == token.EQL && !ce.Val)
}

// ------------------------------------------------------------ intraprocedural dataflow

func (e *nilEngine) entryState(f *ssa.Function) fstate {
	st := fstate{}
	for _, prm := range f.Params {
		if e.paramNN[prm] {
			st["NN:"+vid(prm)] = nil
		}
	}
	pre := f.String() + "|"
	for k, v := range e.paramCell {
		if v && strings.HasPrefix(k, pre) {
			cell := strings.TrimPrefix(k, pre) // "<param>.<field>"
			i := strings.Index(cell, ".")
			var pt types.Type
			for _, prm := range f.Params {
				if prm.Name() == cell[:i] {
					pt = prm.Type()
				}
			}
			cls := ""
			if pt != nil {
				cls = typeName(pt) + "." + cell[i+1:]
			}
			// a struct passed by value lives in its spill cell: the fact is about that cell's field
			if pt != nil {
				if _, isPtr := pt.Underlying().(*types.Pointer); !isPtr {
					for _, prm := range f.Params {
						if prm.Name() == cell[:i] {
							if a := spillOf(prm); a != nil {
								st["NNC:"+canon(a)+"."+cell[i+1:]] = []string{"=" + cls}
							}
						}
					}
					continue
				}
			}
			st["NNC:"+cell] = []string{"=" + cls}
		}
	}
	return st
}

// analyse runs the dataflow on f and calls visit(instr, state-before-instr) for every instruction.
func (e *nilEngine) analyse(f *ssa.Function, visit func(in ssa.Instruction, st fstate)) {
	if len(f.Blocks) == 0 {
		return
	}
	e.cur = f
	in := map[*ssa.BasicBlock]fstate{}
	out := map[*ssa.BasicBlock]fstate{}
	in[f.Blocks[0]] = e.entryState(f)
	work := []*ssa.BasicBlock{f.Blocks[0]}
	inWork := map[*ssa.BasicBlock]bool{f.Blocks[0]: true}
	iter := 0
	for len(work) > 0 && iter < 20000 {
		iter++
		b := work[0]
		work = work[1:]
		inWork[b] = false
		st := in[b].clone()
		for _, ins := range b.Instrs {
			e.transfer(ins, st)
		}
		out[b] = st
		for _, s := range b.Succs {
			es := e.edgeState(b, s, st)
			var ns fstate
			if prev, ok := in[s]; ok {
				ns = meet(prev, es)
				// phi facts must be re-derived from all visited preds: handled in edgeState per edge, meet keeps only common
			} else {
				ns = es
			}
			if prev, ok := in[s]; !ok || !prev.equal(ns) {
				in[s] = ns
				if !inWork[s] {
					work = append(work, s)
					inWork[s] = true
				}
			}
		}
	}
	e.in = in
	if visit != nil {
		for _, b := range f.Blocks {
			st, ok := in[b]
			if !ok {
				continue // unreachable
			}
			st = st.clone()
			for _, ins := range b.Instrs {
				visit(ins, st)
				e.transfer(ins, st)
			}
		}
	}
}

// edgeState: state at the end of b, refined by the branch taken to s, with phi translation into s.
func (e *nilEngine) edgeState(b, s *ssa.BasicBlock, st fstate) fstate {
	ns := st.clone()
	if iff, ok := b.Instrs[len(b.Instrs)-1].(*ssa.If); ok && b.Succs[0] != b.Succs[1] {
		e.refine(iff.Cond, s == b.Succs[0], ns, iff)
	}
	// phi translation
	predIdx := -1
	for i, p := range s.Preds {
		if p == b {
			predIdx = i
		}
	}
	if predIdx >= 0 {
		for _, ins := range s.Instrs {
			phi, ok := ins.(*ssa.Phi)
			if !ok {
				break
			}
			op := phi.Edges[predIdx]
			if isNillable(phi.Type()) && e.nonNil(op, ns, nil, 0) {
				ns["NN:"+vid(phi)] = nil
			} else {
				delete(ns, "NN:"+vid(phi))
			}
			// cell facts rooted at the operand are renamed to the phi
			oc := canon(op)
			pc := canon(phi)
			for k, deps := range ns {
				if strings.HasPrefix(k, "NNC:"+oc+".") {
					ns["NNC:"+pc+"."+strings.TrimPrefix(k, "NNC:"+oc+".")] = deps
				}
			}
			if _, isAlloc := op.(*ssa.Alloc); isAlloc {
				_ = isAlloc
			}
		}
		// facts about phis of s that were established on an earlier visit but not on this edge must go:
		// handled by meet (intersection) since each edge state only contains what holds on that edge.
	}
	return ns
}

// refine adds the facts implied by cond == val.
func (e *nilEngine) refine(cond ssa.Value, val bool, st fstate, at ssa.Instruction) {
	switch x := cond.(type) {
	case *ssa.UnOp:
		if x.Op == token.NOT {
			e.refine(x.X, !val, st, at)
		}
	case *ssa.BinOp:
		if x.Op == token.EQL || x.Op == token.NEQ {
			var v ssa.Value
			if isNilConst(x.Y) {
				v = x.X
			} else if isNilConst(x.X) {
				v = x.Y
			}
			if v != nil {
				nonNil := (x.Op == token.NEQ) == val
				if nonNil {
					e.assumeNonNil(v, st)
				}
				// error results
				if ex, ok := v.(*ssa.Extract); ok && !nonNil {
					if call, ok := ex.Tuple.(*ssa.Call); ok {
						st["ERRNIL:"+vid(call)] = nil
					}
				}
				if call, ok := v.(*ssa.Call); ok && !nonNil && call.Type().String() == "error" {
					st["ERRNIL:"+vid(call)] = nil
				}
			}
			// io.EOF comparison etc: nothing
		}
	case *ssa.Extract:
		// the ok of a (value, ok) helper that answers true only for non-nil arguments
		if call, isCall := x.Tuple.(*ssa.Call); isCall && val {
			if cal := staticCallee(call); cal != nil && x.Index == cal.Signature.Results().Len()-1 {
				for _, pi := range e.predNN[cal] {
					if pi < len(call.Call.Args) {
						e.assumeNonNil(call.Call.Args[pi], st)
					}
				}
			}
		}
		if x.Index == 1 && val {
			switch t := x.Tuple.(type) {
			case *ssa.Lookup:
				st["KEY:"+canon(t.X)+"|"+canon(t.Index)] = append(memFields(t.Index), "map:"+t.X.Type().Underlying().String())
			case *ssa.TypeAssert:
				// comma-ok assertion succeeded: the result is the interface's dynamic value
				st["TAOK:"+vid(t)] = nil
			}
		}
		// (value, ok) helper of the module: in every tuple it returns, ok is the constant false or the value is
		// visibly non-nil (an address) -- so ok == true establishes the value
		if call, isCall := x.Tuple.(*ssa.Call); isCall && val && call.Referrers() != nil {
			if cal := call.Call.StaticCallee(); cal != nil && !call.Call.IsInvoke() && e.p.isModuleFn(cal) && len(cal.Blocks) > 0 {
				for _, r := range *call.Referrers() {
					ex, isEx := r.(*ssa.Extract)
					if !isEx || ex.Index == x.Index || !isNillable(ex.Type()) {
						continue
					}
					all := true
					tuples := returnedTuples(cal)
					for _, tup := range tuples {
						if x.Index >= len(tup) || ex.Index >= len(tup) {
							all = false
							break
						}
						if k, isC := tup[x.Index].(*ssa.Const); isC {
							if bv, isB := constBool(k); isB && !bv {
								continue
							}
						}
						if !addressValue(tup[ex.Index], 0) {
							all = false
							break
						}
					}
					if all && len(tuples) > 0 {
						e.assumeNonNil(ex, st)
					}
				}
			}
		}
	case *ssa.Call:
		if !val {
			return
		}
		name := calleeName(x)
		if name == "google.golang.org/protobuf/proto.HasExtension" {
			m := x.Call.Args[0]
			if mi, ok := m.(*ssa.MakeInterface); ok {
				m = mi.X
			}
			e.assumeNonNil(m, st)
			if prm, isPrm := x.Call.Args[1].(*ssa.Parameter); isPrm {
				// the extension is named by the caller (a generic accessor)
				st["EXT:"+canon(m)+"|param:"+prm.Name()] = memFields(m)
			}
			if g := extGlobal(x.Call.Args[1]); g != nil {
				st["EXT:"+canon(m)+"|"+g.Name()] = memFields(m)
			}
			return
		}
		if cal := staticCallee(x); cal != nil {
			for _, pi := range e.predNN[cal] {
				if pi < len(x.Call.Args) {
					e.assumeNonNil(x.Call.Args[pi], st)
				}
			}
			// the answer is about the state on return: it is used only when nothing can have written since
			fresh := false
			if blk := x.Block(); blk != nil {
				after := false
				fresh = true
				for _, in := range blk.Instrs {
					if in == ssa.Instruction(x) {
						after = true
						continue
					}
					if !after {
						continue
					}
					switch in.(type) {
					case *ssa.Store, *ssa.MapUpdate, *ssa.Call, *ssa.Go, *ssa.Defer, *ssa.Send:
						fresh = false
					}
				}
				if iff, isIf := blk.Instrs[len(blk.Instrs)-1].(*ssa.If); !isIf || iff.Cond != ssa.Value(x) {
					fresh = false
				}
			}
			for _, cpair := range e.predCell[cal] {
				if !fresh {
					break
				}
				var pi int
				i := strings.Index(cpair, "|")
				fmt.Sscanf(cpair[:i], "%d", &pi)
				if pi < len(x.Call.Args) {
					a := x.Call.Args[pi]
					st["NNC:"+canon(a)+"."+cpair[i+1:]] = append(memFields(a), "="+typeName(a.Type())+"."+cpair[i+1:])
				}
			}
		}
	case *ssa.Phi:
		// short-circuit: a && b lowered to phi(false, b): if the phi is true every edge value was true
		if val {
			for i, ed := range x.Edges {
				if k, ok := ed.(*ssa.Const); ok {
					if bv, _ := constBool(k); !bv {
						continue // this edge cannot have produced true
					}
				}
				_ = i
				// other edges: the phi is true only via edges whose value is true; with a single non-false edge its condition holds
			}
			nonFalse := 0
			var only ssa.Value
			for _, ed := range x.Edges {
				if k, ok := ed.(*ssa.Const); ok {
					if bv, _ := constBool(k); !bv {
						continue
					}
				}
				nonFalse++
				only = ed
			}
			if nonFalse == 1 {
				e.refine(only, true, st, at)
				// and the conditions that dominate the block computing it
				if ins, ok := only.(ssa.Instruction); ok {
					for _, ce := range dominatingConds(ins.Block()) {
						if ce.If.Block().Dominates(x.Block()) || true {
							e.refineShallow(ce.Cond, ce.Val, st)
						}
					}
				}
			}
		}
	}
}

// refineShallow: nil-test facts only (used for conditions that hold in a block feeding a short-circuit phi).
func (e *nilEngine) refineShallow(cond ssa.Value, val bool, st fstate) {
	if bo, ok := cond.(*ssa.BinOp); ok && (bo.Op == token.EQL || bo.Op == token.NEQ) && isNilConst(bo.Y) {
		if (bo.Op == token.NEQ) == val {
			e.assumeNonNil(bo.X, st)
		}
	}
}

func (e *nilEngine) assumeNonNil(v ssa.Value, st fstate) {
	st["NN:"+vid(v)] = nil
	switch x := v.(type) {
	case *ssa.Lookup:
		// m[k] tested non-nil: another read of m[k] yields the same value until the map is updated with something
		// that may be nil, or an entry is deleted
		if !x.CommaOk {
			if _, isMap := x.X.Type().Underlying().(*types.Map); isMap {
				st["NNL:"+canon(x.X)+"|"+canon(x.Index)] = append(append(memFields(x.Index), memFields(x.X)...), "map:"+x.X.Type().Underlying().String()+"!upd")
			}
		}
	case *ssa.UnOp:
		if x.Op == token.MUL {
			st["NNC:"+canon(x.X)] = append(memFields(x.X), "="+storeCell(x.X))
		}
	case *ssa.MakeInterface:
		e.assumeNonNil(x.X, st)
	case *ssa.ChangeType:
		e.assumeNonNil(x.X, st)
	case *ssa.Call:
		// a nil-safe getter answered non-nil: its receiver is non-nil and so is the field it reads (another call of the
		// getter, or a direct read of the field, yields the same value until the field is written)
		if cal := x.Call.StaticCallee(); cal != nil && !x.Call.IsInvoke() && len(x.Call.Args) == 1 {
			if fi, ok := getterField(cal); ok {
				recv := x.Call.Args[0]
				st["NN:"+vid(recv)] = nil
				cls := typeName(cal.Params[0].Type()) + "." + fieldName(cal.Params[0].Type(), fi)
				st["NNC:"+canon(recv)+"."+fieldName(cal.Params[0].Type(), fi)] = append(memFields(recv), "="+cls)
			}
		}
	}
}

// Dependencies of a fact are cell classes. A dependency written "=C" is the fact's own cell: the fact says that this
// cell (of class C) holds a non-nil value. A write of a non-nil value to some cell of class C cannot falsify it (it
// either hits another cell or puts a non-nil value into this one); any other dependency is a cell on the access
// path, and any write to its class may redirect the path.
func (e *nilEngine) killClass(st fstate, class string) { e.killClassV(st, class, false) }

func (e *nilEngine) killClassV(st fstate, class string, valueNonNil bool) {
	for k, deps := range st {
		for _, d := range deps {
			if d == class || (!valueNonNil && d == "="+class) {
				delete(st, k)
				break
			}
		}
	}
}

// killByMod: ms = classes the callee may write; nilms = classes it may write a possibly-nil value to.
func (e *nilEngine) killByMod(st fstate, ms map[string]bool) { e.killByMod2(st, ms, ms) }

func (e *nilEngine) killByMod2(st fstate, ms, nilms map[string]bool) {
	if len(ms) == 0 && len(nilms) == 0 {
		return
	}
	for k, deps := range st {
		for _, d := range deps {
			if strings.HasPrefix(d, "=") {
				if modKills(nilms, d[1:]) {
					delete(st, k)
					break
				}
				continue
			}
			if modKills(ms, d) {
				delete(st, k)
				break
			}
		}
	}
}

func (e *nilEngine) transfer(in ssa.Instruction, st fstate) {
	switch x := in.(type) {
	case *ssa.Store:
		cls := storeCell(x.Addr)
		if _, isAlloc := x.Addr.(*ssa.Alloc); isAlloc {
			cls = "alloc:" + vid(x.Addr)
		}
		if prm, isP := x.Val.(*ssa.Parameter); isP {
			if a, isA := x.Addr.(*ssa.Alloc); isA && spillOf(prm) == a {
				// spilling a by-value struct parameter into its fresh cell changes nothing that is known
				if _, isStruct := x.Val.Type().Underlying().(*types.Struct); isStruct {
					return
				}
			}
		}
		valNN := isNillable(x.Val.Type()) && e.nonNil(x.Val, st, in, 0)
		e.killClassV(st, cls, valNN)
		// whole-struct store: kills facts on all fields of the struct type (a field whose source cell is known non-nil
		// is written with a non-nil value); then copies the source's cell facts
		if sst, isStruct := x.Val.Type().Underlying().(*types.Struct); isStruct {
			tn := typeName(x.Val.Type())
			srcAddr := ""
			if ld, ok := x.Val.(*ssa.UnOp); ok && ld.Op == token.MUL {
				srcAddr = canon(ld.X)
			}
			copied := map[string][]string{}
			if srcAddr != "" {
				dst := canon(x.Addr)
				for k, deps := range st {
					if strings.HasPrefix(k, "NNC:"+srcAddr+".") {
						copied["NNC:"+dst+"."+strings.TrimPrefix(k, "NNC:"+srcAddr+".")] = deps
					}
				}
			}
			for i := 0; i < sst.NumFields(); i++ {
				fNN := false
				if srcAddr != "" {
					_, fNN = st["NNC:"+srcAddr+"."+sst.Field(i).Name()]
				}
				e.killClassV(st, tn+"."+sst.Field(i).Name(), fNN)
			}
			for k, deps := range copied {
				st[k] = deps
			}
		}
		if valNN {
			deps := append(memFields(x.Addr), "="+cls)
			st["NNC:"+canon(x.Addr)] = deps
		}
		// storing a pointer into a cell: what is known about the pointee's cells is known through the cell too
		if _, isPtr := x.Val.Type().Underlying().(*types.Pointer); isPtr {
			src := canon(x.Val)
			dst := "*(" + canon(x.Addr) + ")"
			for k, deps := range st {
				if strings.HasPrefix(k, "NNC:"+src+".") {
					st["NNC:"+dst+"."+strings.TrimPrefix(k, "NNC:"+src+".")] = append(append([]string{}, deps...), cls)
				}
			}
		}
	case *ssa.MapUpdate:
		e.killClass(st, "map:"+x.Map.Type().Underlying().String()+"!del")
		st["KEY:"+canon(x.Map)+"|"+canon(x.Key)] = append(memFields(x.Key), "map:"+x.Map.Type().Underlying().String()+"!del")
		// what a lookup under some key yields: a non-nil value stored leaves every "m[k] is non-nil" fact standing (it
		// hits another key or makes this one non-nil) and establishes the one for its own key
		if isNillable(x.Value.Type()) {
			upd := "map:" + x.Map.Type().Underlying().String() + "!upd"
			if e.nonNil(x.Value, st, x, 0) {
				st["NNL:"+canon(x.Map)+"|"+canon(x.Key)] = append(append(memFields(x.Key), memFields(x.Map)...), upd)
			} else {
				e.killClass(st, upd)
			}
		}
	case ssa.CallInstruction:
		cc := x.Common()
		if b, ok := cc.Value.(*ssa.Builtin); ok {
			switch b.Name() {
			case "delete":
				e.killClass(st, "map:"+cc.Args[0].Type().Underlying().String()+"!del")
				e.killClass(st, "map:"+cc.Args[0].Type().Underlying().String()+"!upd")
			case "copy":
				if sl, ok := cc.Args[0].Type().Underlying().(*types.Slice); ok {
					e.killClass(st, "elem:"+sl.Elem().String())
				}
			}
			return
		}
		cs := e.p.Callees(x)
		if len(cs) == 0 {
			name := calleeName(x)
			if name == "" {
				// unresolved dynamic call: anything may be written
				e.killByMod(st, map[string]bool{"*": true})
			} else {
				ms := map[string]bool{}
				for _, w := range externalWrites(name, x) {
					ms[w] = true
				}
				e.killByMod(st, ms)
			}
			return
		}
		defer func() {
			// a helper that reports the key under which it left an entry in the map it was handed
			if call, isCall := x.(*ssa.Call); isCall && len(cs) == 1 && !cc.IsInvoke() {
				for _, fld := range e.retCell[cs[0]] {
					st["NNC:"+canon(call)+"."+fld] = []string{"=" + typeName(call.Type()) + "." + fld}
				}
				for _, pj := range e.retKey[cs[0]] {
					if pj < len(cc.Args) {
						m := cc.Args[pj]
						st["KEY:"+canon(m)+"|"+canon(call)] = []string{"map:" + m.Type().Underlying().String() + "!del"}
					}
				}
			}
		}()
		for _, cal := range cs {
			if e.p.fnIndex[cal] {
				nm, ok := e.nilMods[cal]
				if !ok {
					nm = e.mods[cal]
				}
				e.killByMod2(st, e.mods[cal], nm)
				// map deletions inside callees
			} else {
				name := cal.String()
				if cc.IsInvoke() {
					name = calleeName(x)
				}
				ms := map[string]bool{}
				for _, w := range externalWrites(name, x) {
					ms[w] = true
				}
				e.killByMod(st, ms)
			}
		}
	}
}

// ------------------------------------------------------------ the prover

// nonNil: v is non-nil at the program point described by st (state before instruction `at`).
func (e *nilEngine) nonNil(v ssa.Value, st fstate, at ssa.Instruction, d int) bool {
	if d > 12 {
		return false
	}
	if !isNillable(v.Type()) {
		return true
	}
	if _, ok := st["NN:"+vid(v)]; ok {
		return true
	}
	if lk, isLk := v.(*ssa.Lookup); isLk && !lk.CommaOk {
		if _, ok := st["NNL:"+canon(lk.X)+"|"+canon(lk.Index)]; ok {
			return true
		}
	}
	if len(e.assumed) > 0 && v.Parent() != nil {
		k := shortName(v.Parent()) + "|" + descr(v)
		if _, ok := e.assumed[k]; ok {
			e.used[k]++
			return true
		}
	}
	switch x := v.(type) {
	case *ssa.Alloc, *ssa.MakeMap, *ssa.MakeSlice, *ssa.MakeChan, *ssa.MakeClosure, *ssa.FieldAddr, *ssa.IndexAddr, *ssa.Function, *ssa.Global:
		return true
	case *ssa.MakeInterface:
		return true // the interface value itself is non-nil (a typed nil inside is the callee's obligation)
	case *ssa.Const:
		return x.Value != nil
	case *ssa.Parameter:
		return e.paramNN[x]
	case *ssa.FreeVar:
		// captured variable cell: the address of a live variable
		fn := x.Parent()
		if fn.Synthetic != "" {
			return false
		}
		return true
	case *ssa.ChangeType:
		return e.nonNil(x.X, st, at, d+1)
	case *ssa.Convert:
		return true
	case *ssa.ChangeInterface:
		return e.nonNil(x.X, st, at, d+1)
	case *ssa.Slice:
		if _, isPtr := x.X.Type().Underlying().(*types.Pointer); isPtr {
			return true
		}
		return false
	case *ssa.BinOp:
		return true
	case *ssa.Phi:
		// established by phi translation in the state; otherwise unknown
		return false
	case *ssa.UnOp:
		if x.Op != token.MUL {
			return true
		}
		return e.loadNonNil(x, st, at, d)
	case *ssa.Call:
		return e.callNonNil(x, 0, st, at, d)
	case *ssa.Extract:
		switch t := x.Tuple.(type) {
		case *ssa.Call:
			return e.callNonNil(t, x.Index, st, at, d)
		case *ssa.Lookup:
			if x.Index != 0 {
				return true
			}
			if e.keyIn(t.X, t.Index, st) {
				return e.mapValuesNonNil(t.X)
			}
			return false
		case *ssa.Next:
			// range over a map: key (1) / value (2)
			if rng, ok := t.Iter.(*ssa.Range); ok && x.Index == 2 {
				if _, isMap := rng.X.Type().Underlying().(*types.Map); isMap {
					return e.mapValuesNonNil(rng.X)
				}
			}
			return false
		case *ssa.TypeAssert:
			if x.Index != 0 {
				return true
			}
			// L-ext, with or without looking at ok
			if call, ok := t.X.(*ssa.Call); ok && calleeName(call) == "google.golang.org/protobuf/proto.GetExtension" {
				return e.extGuarded(call, t.AssertedType, st)
			}
			if _, ok := st["TAOK:"+vid(t)]; ok {
				return e.dynNonNil(t.X, st, at, d+1)
			}
			return false
		}
		return false
	case *ssa.Lookup:
		if _, isMap := x.X.Type().Underlying().(*types.Map); !isMap {
			return true
		}
		if e.keyIn(x.X, x.Index, st) {
			return e.mapValuesNonNil(x.X)
		}
		return false
	case *ssa.TypeAssert:
		// L-ext: proto.GetExtension(m, X).(T) in a region where HasExtension(m, X) held
		if call, ok := x.X.(*ssa.Call); ok && calleeName(call) == "google.golang.org/protobuf/proto.GetExtension" {
			return e.extGuarded(call, x.AssertedType, st)
		}
		return false
	}
	return false
}

// keyIn: k is a key of map m at this point: a KEY fact, or the key-provenance lemma: k is a key obtained by
// ranging over m itself or over a map/slice that only ever receives keys of m, and m never loses keys.
func (e *nilEngine) keyIn(m, k ssa.Value, st fstate) bool {
	if _, ok := st["KEY:"+canon(m)+"|"+canon(k)]; ok {
		return true
	}
	fn := k.Parent()
	if fn == nil || hasDelete(fn, m) {
		return false
	}
	switch mm := m.(type) {
	case *ssa.MakeMap:
		// the map's identity is known: a map created in this function
	case *ssa.Parameter:
		// a map handed in by the caller: the same map value throughout this activation; its key set cannot shrink while
		// this function runs if neither it nor anything it calls deletes from a map of that type
		if e.deleteReachable(mm.Parent(), m.Type()) {
			return false
		}
	case *ssa.UnOp:
		// a map kept in an unexported field of a struct of the module that is set exactly once (where the struct is
		// built): the same map object for the life of that struct; its key set cannot shrink if nothing reachable
		// deletes from a map of that type
		fa, isFA := mm.X.(*ssa.FieldAddr)
		if mm.Op != token.MUL || !isFA {
			return false
		}
		switch fa.X.(type) {
		case *ssa.Parameter, *ssa.Alloc:
		default:
			return false
		}
		vals, ok := e.p.unexportedFieldStores(fa)
		if !ok || len(vals) != 1 {
			return false
		}
		if _, isMk := vals[0].(*ssa.MakeMap); !isMk {
			return false
		}
		if e.deleteReachable(fn, m.Type()) {
			return false
		}
		for _, root := range e.all {
			if hasDeleteOfType(root, m.Type()) {
				return false
			}
		}
	default:
		return false
	}
	return e.keyFrom(m, k, 0)
}

func hasDelete(fn *ssa.Function, m ssa.Value) bool {
	for _, b := range fn.Blocks {
		for _, in := range b.Instrs {
			if call, ok := in.(*ssa.Call); ok && isBuiltin(call, "delete") {
				if types.Identical(call.Call.Args[0].Type(), m.Type()) {
					return true
				}
			}
		}
	}
	// closures and callees receiving the map could delete as well: the map must not escape as an argument
	if refs := m.Referrers(); refs != nil {
		for _, r := range *refs {
			switch x := r.(type) {
			case *ssa.Lookup, *ssa.MapUpdate, *ssa.Range, *ssa.DebugRef:
			case *ssa.Call:
				if isBuiltin(x, "len") {
					continue
				}
				// handed to a module helper that never removes a key (looks up, ranges, takes len, adds entries; may hand it on likewise)
				if readOnlyMapArg(x, m, 0) {
					continue
				}
				return true
			default:
				return true
			}
		}
	}
	return false
}

// addressValue: v is visibly an address (of a variable, element or field), through phis and conversions.
func addressValue(v ssa.Value, d int) bool {
	if d > 6 {
		return false
	}
	switch x := v.(type) {
	case *ssa.Alloc, *ssa.IndexAddr, *ssa.FieldAddr, *ssa.Global, *ssa.MakeMap, *ssa.MakeSlice, *ssa.MakeClosure, *ssa.Function:
		return true
	case *ssa.ChangeType:
		return addressValue(x.X, d+1)
	case *ssa.Phi:
		for _, ed := range x.Edges {
			if !addressValue(ed, d+1) {
				return false
			}
		}
		return len(x.Edges) > 0
	}
	return false
}

// keyFrom: value k (in the function that created map m) is always one of m's keys.
func (e *nilEngine) keyFrom(m, k ssa.Value, d int) bool {
	if d > 6 {
		return false
	}
	k = stripConv(k)
	// range key
	if ex, ok := k.(*ssa.Extract); ok && ex.Index == 1 {
		if nx, ok := ex.Tuple.(*ssa.Next); ok {
			if rng, ok := nx.Iter.(*ssa.Range); ok {
				if rng.X == m {
					return true
				}
				// ranging over another map a: every key ever put into a was a key of m when it was put
				a := rng.X
				if _, isMap := a.Type().Underlying().(*types.Map); !isMap {
					return false
				}
				org := e.p.valueOrigins(a)
				if org.unknown() {
					return false
				}
				n := 0
				for _, mu := range e.mapUpd {
					if !types.Identical(mu.Map.Type(), a.Type()) {
						continue
					}
					o2 := e.p.valueOrigins(mu.Map)
					if !o2.unknown() && !o2.intersects(org) {
						continue
					}
					n++
					if mu.Parent() == m.Parent() {
						if ks, known := e.siteKeys[mu]; known && !ks[canon(m)] {
							return false
						}
						continue
					}
					// the set is filled in another function: there the key must have been known to be a key of a map
					// parameter that is the very same map object as m (both trace back to one make)
					same := false
					if _, known := e.siteKeys[mu]; !known {
						continue // not analysed yet (first round): decided in the next
					}
					om := e.p.valueOrigins(m)
					if len(om) == 1 && !om.unknown() {
						var cands []ssa.Value
						for _, prm := range mu.Parent().Params {
							cands = append(cands, prm)
						}
						for _, blk := range mu.Parent().Blocks {
							for _, in := range blk.Instrs {
								if mk, isMk := in.(*ssa.MakeMap); isMk {
									cands = append(cands, mk)
								}
							}
						}
						for _, prm := range cands {
							if !e.siteKeys[mu][canon(prm)] || !types.Identical(prm.Type(), m.Type()) {
								continue
							}
							op := e.p.valueOrigins(prm)
							if len(op) == 1 && !op.unknown() {
								for o := range op {
									if om[o] {
										if _, isMk := o.(*ssa.MakeMap); isMk {
											same = true
										}
									}
								}
							}
						}
					}
					if !same {
						debugf("keyFrom: update %s in %s: no counterpart of %s known to hold the key (site keys %v)", mu, mu.Parent(), canon(m), e.siteKeys[mu])
						return false
					}
				}
				return true
			}
		}
	}
	// element of a slice that only ever receives keys of m
	if ld, ok := k.(*ssa.UnOp); ok && ld.Op == token.MUL {
		if ia, ok := ld.X.(*ssa.IndexAddr); ok {
			return e.sliceOfKeys(m, ia.X, map[ssa.Value]bool{}, 0)
		}
	}
	return false
}

func (e *nilEngine) sliceOfKeys(m, s ssa.Value, seen map[ssa.Value]bool, d int) bool {
	if seen[s] {
		return true
	}
	seen[s] = true
	if d > 12 {
		return false
	}
	switch x := s.(type) {
	case *ssa.Const:
		return x.Value == nil
	case *ssa.Phi:
		for _, ed := range x.Edges {
			if !e.sliceOfKeys(m, ed, seen, d+1) {
				return false
			}
		}
		return true
	case *ssa.MakeSlice:
		k, ok := constInt(x.Len)
		return ok && k == 0
	case *ssa.Call:
		if isBuiltin(x, "append") {
			if !e.sliceOfKeys(m, x.Call.Args[0], seen, d+1) {
				return false
			}
			// appended elements: the variadic array's stores
			sl, ok := x.Call.Args[1].(*ssa.Slice)
			if !ok {
				return false
			}
			arr, ok := sl.X.(*ssa.Alloc)
			if !ok {
				return false
			}
			for _, r := range *arr.Referrers() {
				if ia, ok := r.(*ssa.IndexAddr); ok {
					for _, r2 := range *ia.Referrers() {
						if st, ok := r2.(*ssa.Store); ok && !e.keyFrom(m, st.Val, d+1) {
							return false
						}
					}
				}
			}
			return true
		}
		// a helper of the module that is handed m and returns a list of its keys
		if h := x.Call.StaticCallee(); h != nil && !x.Call.IsInvoke() && e.c.P.isModuleFn(h) && len(h.Blocks) > 0 && len(h.Params) == len(x.Call.Args) {
			for j, a := range x.Call.Args {
				if a != m {
					continue
				}
				okAll, n := true, 0
				for _, blk := range h.Blocks {
					ret, isRet := blk.Instrs[len(blk.Instrs)-1].(*ssa.Return)
					if !isRet {
						continue
					}
					n++
					if len(ret.Results) != 1 || !e.sliceOfKeys(h.Params[j], ret.Results[0], map[ssa.Value]bool{}, d+1) {
						okAll = false
					}
				}
				if okAll && n > 0 && !hasDelete(h, h.Params[j]) {
					return true
				}
			}
		}
	}
	return false
}

// extGlobal: the E_<Name> extension descriptor variable an argument denotes.
func extGlobal(v ssa.Value) *ssa.Global {
	if mi, ok := v.(*ssa.MakeInterface); ok {
		v = mi.X
	}
	ld, ok := v.(*ssa.UnOp)
	if !ok || ld.Op != token.MUL {
		return nil
	}
	g, _ := ld.X.(*ssa.Global)
	return g
}

// dynNonNil: the dynamic value stored in the interface value v is a non-nil pointer.
func (e *nilEngine) dynNonNil(v ssa.Value, st fstate, at ssa.Instruction, d int) bool {
	if d > 10 {
		return false
	}
	switch x := v.(type) {
	case *ssa.MakeInterface:
		return e.nonNil(x.X, st, at, d+1)
	case *ssa.Parameter:
		return e.paramDyn[x]
	case *ssa.ChangeInterface:
		return e.dynNonNil(x.X, st, at, d+1)
	case *ssa.Phi:
		for _, ed := range x.Edges {
			if !e.dynNonNil(ed, st, at, d+1) {
				return false
			}
		}
		return true
	}
	return false
}

func (e *nilEngine) extGuarded(call *ssa.Call, asserted types.Type, st fstate) bool {
	m := call.Call.Args[0]
	if mi, ok := m.(*ssa.MakeInterface); ok {
		m = mi.X
	}
	g := extGlobal(call.Call.Args[1])
	if prm, isPrm := call.Call.Args[1].(*ssa.Parameter); isPrm && g == nil {
		// the extension descriptor is a parameter: guarded by HasExtension on the same message and parameter, and every
		// call site of this (instantiated) function names an extension whose declared Go type is the asserted one
		if _, ok := st["EXT:"+canon(m)+"|param:"+prm.Name()]; !ok {
			return false
		}
		idx := paramIndex(prm)
		callers := e.p.Callers(prm.Parent())
		if idx < 0 || len(callers) == 0 || namedOf(asserted) == nil {
			return false
		}
		got := "*" + namedOf(asserted).Obj().Name()
		for _, ed := range callers {
			args := ed.Site.Common().Args
			if idx >= len(args) {
				return false
			}
			cg := extGlobal(args[idx])
			if cg == nil || e.extTypes[cg.Name()] != got {
				return false
			}
		}
		return true
	}
	if g == nil {
		return false
	}
	if _, ok := st["EXT:"+canon(m)+"|"+g.Name()]; !ok {
		debugf("extGuarded: no fact EXT:%s|%s; ext types %v", canon(m), g.Name(), e.extTypes)
		return false
	}
	want := e.extTypes[g.Name()]
	got := "*" + namedOf(asserted).Obj().Name()
	if want != got {
		debugf("extGuarded: %s declared %q, asserted %q (all: %v)", g.Name(), want, got, e.extTypes)
	}
	return want == got
}

func (e *nilEngine) loadNonNil(ld *ssa.UnOp, st fstate, at ssa.Instruction, d int) bool {
	addr := ld.X
	if _, ok := st["NNC:"+canon(addr)]; ok {
		return true
	}
	switch a := addr.(type) {
	case *ssa.FieldAddr:
		// L-req: required proto fields
		if protoRequired(a.X.Type(), a.Field) {
			return true
		}
		// struct-field invariant
		if e.structFieldInvariant(a.X.Type(), a.Field) {
			return true
		}
		if e.literalTableField(a) {
			return true
		}
	case *ssa.IndexAddr:
		// L-rep: elements of repeated proto message fields
		if e.isProtoRepeated(a.X) {
			return true
		}
		// elements of a locally built slice all of whose appended elements are non-nil
		if e.sliceElemsNonNil(a.X, 0) {
			return true
		}
		// elements of slices handed out by libraries (os.ReadDir entries, zip.Reader.File): assumed non-nil (DESIGN 2.5)
		if externalSlice(a.X) || e.paramAtAllCallSites(a.X, externalSlice, 0) {
			return true
		}
		// range variable copied from a composite-literal table all of whose rows set the field: handled in FieldAddr case
	case *ssa.Alloc:
		return e.cellAlwaysNonNil(a, ld, d)
	case *ssa.FreeVar:
		// captured cell: every store into the cell (in the defining function and in closures) is non-nil,
		// and one of them precedes the closure's creation
		return e.freeVarCellNonNil(a, d)
	case *ssa.Global:
		// package-level variables initialised at init time with a constructor (regexps, templates)
		return e.globalInitNonNil(a)
	}
	return false
}

func (e *nilEngine) isProtoRepeated(slice ssa.Value) bool {
	switch x := slice.(type) {
	case *ssa.UnOp:
		if fa, ok := x.X.(*ssa.FieldAddr); ok && x.Op == token.MUL {
			return protoRepeatedMsgField(fa.X.Type(), fa.Field)
		}
	case *ssa.Call:
		if cal := staticCallee(x); cal != nil {
			if fi, ok := getterField(cal); ok {
				return protoRepeatedMsgField(cal.Params[0].Type(), fi)
			}
		}
	case *ssa.Phi:
		for _, ed := range x.Edges {
			if ed == slice {
				continue
			}
			if !e.isProtoRepeated(ed) {
				return false
			}
		}
		return len(x.Edges) > 0
	case *ssa.Parameter:
		// a helper's slice parameter: every call site hands it a repeated proto field
		fn := x.Parent()
		idx := paramIndex(x)
		callers := e.c.P.Callers(fn)
		if idx < 0 || len(callers) == 0 || e.protoRepDepth > 3 {
			return false
		}
		e.protoRepDepth++
		defer func() { e.protoRepDepth-- }()
		for _, ce := range callers {
			if ce.Site == nil {
				return false
			}
			cc := ce.Site.Common()
			if cc.IsInvoke() || cc.StaticCallee() == nil || idx >= len(cc.Args) || !e.isProtoRepeated(cc.Args[idx]) {
				return false
			}
		}
		return true
	}
	return false
}

// externalSlice: the slice value comes straight from a library: a call result or a field of a library struct.
func externalSlice(v ssa.Value) bool {
	switch x := v.(type) {
	case *ssa.Extract:
		if call, ok := x.Tuple.(*ssa.Call); ok {
			if cal := call.Call.StaticCallee(); cal != nil && !strings.HasPrefix(cal.String(), modPath) && !strings.Contains(cal.String(), modPath) {
				return true
			}
		}
	case *ssa.Call:
		if cal := x.Call.StaticCallee(); cal != nil && !strings.Contains(cal.String(), modPath) {
			return true
		}
	case *ssa.UnOp:
		if fa, ok := x.X.(*ssa.FieldAddr); ok && x.Op == token.MUL {
			if n := namedOf(fa.X.Type()); n != nil && n.Obj().Pkg() != nil && !strings.HasPrefix(n.Obj().Pkg().Path(), modPath) {
				return true
			}
		}
	}
	return false
}

// literalTableField: addr = &rangevar.f where rangevar is only ever assigned copies of the elements of a
// composite-literal slice, and every element of the literal sets field f to a non-nil value.
func (e *nilEngine) literalTableField(fa *ssa.FieldAddr) bool {
	cell, ok := fa.X.(*ssa.Alloc)
	if !ok {
		return false
	}
	var lit *ssa.Alloc
	for _, r := range *cell.Referrers() {
		st, ok := r.(*ssa.Store)
		if !ok || st.Addr != ssa.Value(cell) {
			continue
		}
		ld, ok := st.Val.(*ssa.UnOp)
		if !ok {
			return false
		}
		ia, ok := ld.X.(*ssa.IndexAddr)
		if !ok {
			return false
		}
		sl, ok := ia.X.(*ssa.Slice)
		if !ok {
			return false
		}
		arr, ok := sl.X.(*ssa.Alloc)
		if !ok || (lit != nil && lit != arr) {
			return false
		}
		lit = arr
	}
	if lit == nil {
		return false
	}
	at, ok := deref(lit.Type()).Underlying().(*types.Array)
	if !ok {
		return false
	}
	set := map[int64]bool{}
	for _, r := range *lit.Referrers() {
		ia, ok := r.(*ssa.IndexAddr)
		if !ok {
			continue
		}
		k, isC := constInt(ia.Index)
		if !isC {
			continue
		}
		for _, r2 := range *ia.Referrers() {
			f2, ok := r2.(*ssa.FieldAddr)
			if !ok || f2.Field != fa.Field {
				continue
			}
			for _, r3 := range *f2.Referrers() {
				if st, ok := r3.(*ssa.Store); ok && st.Addr == ssa.Value(f2) && e.nonNilAtStore(st) {
					set[k] = true
				}
			}
		}
	}
	return int64(len(set)) == at.Len() && at.Len() > 0
}

// sliceElemsNonNil: the slice is built locally by appends of non-nil elements only.
func (e *nilEngine) sliceElemsNonNil(v ssa.Value, d int) bool {
	if d > 10 {
		return false
	}
	if sl, ok := v.Type().Underlying().(*types.Slice); !ok || !isNillable(sl.Elem()) {
		return false
	}
	seen := map[ssa.Value]bool{}
	var rec func(v ssa.Value, d int) bool
	rec = func(v ssa.Value, d int) bool {
		if seen[v] {
			return true
		}
		seen[v] = true
		if d > 20 {
			return false
		}
		switch x := v.(type) {
		case *ssa.Const:
			return x.Value == nil
		case *ssa.Parameter:
			// a helper's slice parameter: every call site hands it such a slice
			return e.paramAtAllCallSites(x, func(a ssa.Value) bool { return rec(a, d+1) }, 0)
		case *ssa.Phi:
			for _, ed := range x.Edges {
				if !rec(ed, d+1) {
					return false
				}
			}
			return true
		case *ssa.Slice:
			// literal: array alloc with constant-index stores
			if arr, ok := x.X.(*ssa.Alloc); ok {
				at, isArr := deref(arr.Type()).Underlying().(*types.Array)
				if !isArr {
					return false
				}
				if at.Len() == 0 {
					return true
				}
				n := 0
				for _, r := range *arr.Referrers() {
					if ia, ok := r.(*ssa.IndexAddr); ok {
						for _, r2 := range *ia.Referrers() {
							if st, ok := r2.(*ssa.Store); ok {
								if !e.nonNilAtStore(st) {
									return false
								}
								n++
							}
						}
					}
				}
				return int64(n) >= at.Len()
			}
			return rec(x.X, d+1)
		case *ssa.MakeSlice:
			k, ok := constInt(x.Len)
			return ok && k == 0
		case *ssa.Call:
			if isBuiltin(x, "append") {
				if !rec(x.Call.Args[0], d+1) {
					return false
				}
				return rec(x.Call.Args[1], d+1)
			}
			return false
		case *ssa.UnOp:
			// load of a local cell: all stores
			if a, ok := x.X.(*ssa.Alloc); ok && x.Op == token.MUL {
				for _, r := range *a.Referrers() {
					if st, ok := r.(*ssa.Store); ok && st.Addr == ssa.Value(a) {
						if !rec(st.Val, d+1) {
							return false
						}
					}
				}
				return true
			}
		}
		return false
	}
	return rec(v, 0)
}

// nonNilAtStore: the stored value was non-nil at the store's program point (result of the previous
// summary round; stores in functions outside the analysed set are unknown).
func (e *nilEngine) nonNilAtStore(st *ssa.Store) bool {
	if !isNillable(st.Val.Type()) {
		return true
	}
	return e.siteOK[st]
}

// cellAlwaysNonNil: a local variable cell (not lifted to a register): every store into it stores a
// non-nil value and a store dominates the load.
func (e *nilEngine) cellAlwaysNonNil(a *ssa.Alloc, ld ssa.Instruction, d int) bool {
	if d > 6 {
		return false
	}
	dominated := false
	n := 0
	for _, r := range *a.Referrers() {
		switch x := r.(type) {
		case *ssa.Store:
			if x.Addr != ssa.Value(a) {
				continue
			}
			n++
			if !e.nonNilAtStore(x) {
				return false
			}
			if ld != nil && dominatesInstr(x, ld) {
				dominated = true
			}
		case *ssa.MakeClosure:
			// stores through the captured variable inside the closure
			cl := x.Fn.(*ssa.Function)
			for i, b := range x.Bindings {
				if b != ssa.Value(a) {
					continue
				}
				for _, r2 := range *cl.FreeVars[i].Referrers() {
					if st, ok := r2.(*ssa.Store); ok && st.Addr == ssa.Value(cl.FreeVars[i]) {
						if !e.nonNilAtStore(st) {
							return false
						}
					}
				}
			}
		}
	}
	return n > 0 && (dominated || ld == nil)
}

func (e *nilEngine) freeVarCellNonNil(fv *ssa.FreeVar, d int) bool {
	fn := fv.Parent()
	par := fn.Parent()
	if par == nil {
		return false
	}
	idx := freeVarIndex(fn, fv)
	ok := false
	for _, b := range par.Blocks {
		for _, in := range b.Instrs {
			mc, isMC := in.(*ssa.MakeClosure)
			if !isMC || mc.Fn != ssa.Value(fn) {
				continue
			}
			switch bnd := mc.Bindings[idx].(type) {
			case *ssa.Alloc:
				// a store must dominate the closure creation
				dom := false
				for _, r := range *bnd.Referrers() {
					if st, isSt := r.(*ssa.Store); isSt && st.Addr == ssa.Value(bnd) && dominatesInstr(st, mc) {
						dom = true
					}
				}
				if !dom || !e.cellAlwaysNonNil(bnd, nil, d+1) {
					return false
				}
				ok = true
			case *ssa.FreeVar:
				if !e.freeVarCellNonNil(bnd, d+1) {
					return false
				}
				ok = true
			default:
				return false
			}
		}
	}
	return ok
}

// mustCall: a call of regexp.MustCompile / template.Must, or of a module helper every return of which is such a call
// (these panic rather than return nil).
func mustCall(p *Program, call *ssa.Call, d int) bool {
	switch calleeName(call) {
	case "regexp.MustCompile", "text/template.Must":
		return true
	}
	h := call.Call.StaticCallee()
	if h == nil || call.Call.IsInvoke() || !p.isModuleFn(h) || len(h.Blocks) == 0 || d > 2 || h.Signature.Results().Len() != 1 {
		return false
	}
	n := 0
	for _, b := range h.Blocks {
		ret, ok := b.Instrs[len(b.Instrs)-1].(*ssa.Return)
		if !ok {
			continue
		}
		n++
		inner, isCall := ret.Results[0].(*ssa.Call)
		if !isCall || !mustCall(p, inner, d+1) {
			return false
		}
	}
	return n > 0
}

// globalInitNonNil: a package-level variable assigned exactly once, in init, from a call that returns non-nil.
func (e *nilEngine) globalInitNonNil(g *ssa.Global) bool {
	pkg := g.Pkg
	if pkg == nil {
		return false
	}
	if !strings.HasPrefix(pkg.Pkg.Path(), modPath) {
		// library variables (time.UTC, io.EOF, binary.LittleEndian, proto extension descriptors): initialised by their package
		return true
	}
	initFn := pkg.Func("init")
	n, good := 0, 0
	for _, fn := range e.p.ModFns {
		for _, b := range fn.Blocks {
			for _, in := range b.Instrs {
				st, ok := in.(*ssa.Store)
				if !ok || st.Addr != ssa.Value(g) {
					continue
				}
				n++
				if fn == initFn {
					switch v := st.Val.(type) {
					case *ssa.Call:
						if mustCall(e.p, v, 0) {
							good++
						}
					case *ssa.MakeMap, *ssa.Alloc, *ssa.MakeInterface, *ssa.MakeClosure:
						good++
					case *ssa.UnOp, *ssa.IndexAddr, *ssa.FieldAddr:
						good++
					}
				}
			}
		}
	}
	return n == 1 && good == 1
}

func (e *nilEngine) callNonNil(call *ssa.Call, idx int, st fstate, at ssa.Instruction, d int) bool {
	cc := call.Common()
	if b, ok := cc.Value.(*ssa.Builtin); ok {
		switch b.Name() {
		case "append":
			return true
		}
		return true
	}
	cs := e.p.Callees(call)
	if len(cs) == 0 {
		name := calleeName(call)
		if name == "" {
			return false
		}
		return e.externalNonNil(name, call, idx, st)
	}
	for _, cal := range cs {
		if !e.p.fnIndex[cal] {
			name := cal.String()
			if cc.IsInvoke() {
				name = calleeName(call)
			}
			if !e.externalNonNil(name, call, idx, st) {
				return false
			}
			continue
		}
		rn := e.retNN[cal]
		if rn == nil {
			// not analysed (outside the analysed set): unknown
			return false
		}
		if idx < len(rn) && rn[idx] {
			continue
		}
		// paired with a nil error
		if rp := e.retPair[cal]; idx < len(rp) && rp[idx] >= 0 {
			if _, ok := st["ERRNIL:"+vid(call)]; ok {
				continue
			}
		}
		// getter on a non-nil receiver: result is the field
		if fi, ok := getterField(cal); ok && len(cc.Args) == 1 && e.nonNil(cc.Args[0], st, at, d+1) {
			if protoRequired(cal.Params[0].Type(), fi) {
				continue
			}
			cell := canon(cc.Args[0]) + "." + fieldName(cal.Params[0].Type(), fi)
			if _, ok := st["NNC:"+cell]; ok {
				continue
			}
		}
		return false
	}
	return true
}

func (e *nilEngine) externalNonNil(name string, call *ssa.Call, idx int, st fstate) bool {
	info, ok := externals[extName(name)]
	if ok && info.MayNil {
		return false
	}
	// (T, error): non-nil only when the error is known nil
	res := call.Call.Signature().Results()
	if res.Len() >= 2 && res.At(res.Len()-1).Type().String() == "error" && idx < res.Len()-1 {
		_, ok := st["ERRNIL:"+vid(call)]
		return ok
	}
	if res.Len() >= 1 && idx == res.Len()-1 && res.At(idx).Type().String() == "error" {
		// an error result is non-nil only if tested; fmt.Errorf / errors.New always return non-nil
		return name == "fmt.Errorf" || name == "errors.New"
	}
	// single pointer-like result of a library constructor / accessor: assumed non-nil (DESIGN 2.5)
	return true
}

// cellNonNilExpr: at a call site, is the cell <arg>.<field> known non-nil (for parameter-cell preconditions)?
func (e *nilEngine) cellNonNilExpr(key string, arg ssa.Value, field string, st fstate, at ssa.Instruction) bool {
	if _, ok := st["NNC:"+key]; ok {
		return true
	}
	// required proto field / struct invariant
	if s := structOf(arg.Type()); s != nil {
		for i := 0; i < s.NumFields(); i++ {
			if s.Field(i).Name() == field {
				if protoRequired(arg.Type(), i) || e.structFieldInvariant(arg.Type(), i) {
					return true
				}
			}
		}
	}
	return false
}

// ------------------------------------------------------------ flow-insensitive invariants

// mapValuesNonNil: every value ever stored into any map that may be the same map as m is non-nil.
func (e *nilEngine) mapValuesNonNil(m ssa.Value) bool {
	mt, ok := m.Type().Underlying().(*types.Map)
	if !ok || !isNillable(mt.Elem()) {
		return true
	}
	if r := e.mapValsNN[m]; r != 0 {
		return r == 1
	}
	e.mapValsNN[m] = 1 // optimistic for cycles
	org := e.p.valueOrigins(m)
	res := true
	if org.unknown() {
		debugf("mapValuesNonNil(%s in %s): unknown origin", m.Name(), m.Parent())
		res = false
	}
	n := 0
	for _, mu := range e.mapUpd {
		if !types.Identical(mu.Map.Type(), m.Type()) {
			continue
		}
		o2 := e.p.valueOrigins(mu.Map)
		if !o2.unknown() && !o2.intersects(org) {
			continue
		}
		n++
		if !e.siteOK[mu] {
			debugf("mapValuesNonNil(%s in %s): update %s in %s stores maybe-nil", m.Name(), m.Parent(), mu, mu.Parent())
			res = false
		}
	}
	if res {
		e.mapValsNN[m] = 1
	} else {
		e.mapValsNN[m] = 2
	}
	return res
}

// structFieldInvariant: field idx of module struct type T is non-nil in every T value that can exist:
// every store to T.f stores non-nil, every T is created by a composite literal that sets f, and
// no zero T is created by make/new/var/array.
func (e *nilEngine) structFieldInvariant(t types.Type, idx int) bool {
	n := namedOf(t)
	st := structOf(t)
	if n == nil || st == nil || n.Obj().Pkg() == nil || !strings.HasPrefix(n.Obj().Pkg().Path(), modPath) || isProtoPkg(n.Obj().Pkg().Path()) {
		return false
	}
	if !isNillable(st.Field(idx).Type()) {
		return true
	}
	key := typeName(t) + "." + st.Field(idx).Name()
	if r := e.structInv[key]; r != 0 {
		return r == 1
	}
	e.structInv[key] = 1
	ok := true
	tt := n
	containsT := func(x types.Type) bool {
		var rec func(x types.Type, d int) bool
		rec = func(x types.Type, d int) bool {
			if d > 4 {
				return false
			}
			if nx := namedOf(x); nx != nil && nx == tt {
				if _, isPtr := x.Underlying().(*types.Pointer); !isPtr {
					return true
				}
			}
			switch u := x.Underlying().(type) {
			case *types.Array:
				return rec(u.Elem(), d+1)
			case *types.Struct:
				if nx, isN := x.(*types.Named); isN && nx == tt {
					return true
				}
				for i := 0; i < u.NumFields(); i++ {
					if _, isPtr := u.Field(i).Type().Underlying().(*types.Pointer); isPtr {
						continue
					}
					if rec(u.Field(i).Type(), d+1) {
						return true
					}
				}
			}
			return false
		}
		return rec(x, 0)
	}
	for _, fn := range e.p.ModFns {
		for _, b := range fn.Blocks {
			for _, in := range b.Instrs {
				switch x := in.(type) {
				case *ssa.Alloc:
					et := deref(x.Type())
					if !containsT(et) {
						continue
					}
					if nx := namedOf(et); nx == tt && structOf(et) != nil {
						// a T cell: either a composite literal that sets f, or a copy target (every store into it is a whole T)
						setsField, wholeStores, other := false, 0, 0
						for _, r := range *x.Referrers() {
							switch y := r.(type) {
							case *ssa.FieldAddr:
								if y.Field == idx {
									for _, r2 := range *y.Referrers() {
										if _, isSt := r2.(*ssa.Store); isSt {
											setsField = true
										}
									}
								}
							case *ssa.Store:
								if y.Addr == ssa.Value(x) {
									wholeStores++
								}
							default:
								_ = other
							}
						}
						if !setsField && wholeStores == 0 {
							ok = false
						}
						continue
					}
					// array containing T by value: fine when every element is assigned (variadic / literal arrays)
					if at, isArr := et.Underlying().(*types.Array); isArr {
						filled := map[int64]bool{}
						for _, r := range *x.Referrers() {
							if ia, isIA := r.(*ssa.IndexAddr); isIA {
								if k, isC := constInt(ia.Index); isC {
									for _, r2 := range *ia.Referrers() {
										if _, isSt := r2.(*ssa.Store); isSt {
											filled[k] = true
										}
										if _, isFA := r2.(*ssa.FieldAddr); isFA {
											filled[k] = true // literal element built in place: its own fields are checked as stores
										}
									}
								}
							}
						}
						if int64(len(filled)) == at.Len() {
							continue
						}
					}
					// struct or partially filled array containing T by value: zero Ts exist
					ok = false
				case *ssa.MakeSlice:
					if sl, isSl := x.Type().Underlying().(*types.Slice); isSl && containsT(sl.Elem()) {
						if k, isC := constInt(x.Len); !isC || k != 0 {
							ok = false
						}
					}
				case *ssa.Store:
					if fa, isFA := x.Addr.(*ssa.FieldAddr); isFA && fa.Field == idx {
						if nx := namedOf(fa.X.Type()); nx == tt {
							if !e.nonNilAtStore(x) {
								ok = false
							}
						}
					}
				}
			}
		}
	}
	if ok {
		e.structInv[key] = 1
	} else {
		e.structInv[key] = 2
	}
	return ok
}

// computeNilMods: for every analysed function the classes of cells it may leave holding nil: stores of values not
// known non-nil at the store (siteOK / siteFieldOK of the current round), everything a non-analysed or external callee
// may write, closed over callees. Used to keep "this cell is non-nil" facts across calls that only ever write
// non-nil values to cells of that class.
func (e *nilEngine) computeNilMods() {
	analysed := map[*ssa.Function]bool{}
	for _, f := range e.all {
		analysed[f] = true
	}
	direct := map[*ssa.Function]map[string]bool{}
	callees := map[*ssa.Function][]*ssa.Function{}
	for _, fn := range e.p.ModFns {
		if !analysed[fn] {
			direct[fn] = e.mods[fn]
			continue
		}
		ms := map[string]bool{}
		for _, b := range fn.Blocks {
			for _, in := range b.Instrs {
				switch x := in.(type) {
				case *ssa.Store:
					if _, isAlloc := addrRoot(x.Addr).(*ssa.Alloc); isAlloc {
						continue
					}
					if sst, isStruct := x.Val.Type().Underlying().(*types.Struct); isStruct {
						tn := typeName(x.Val.Type())
						for i := 0; i < sst.NumFields(); i++ {
							if isNillable(sst.Field(i).Type()) && !e.siteFieldOK[x][sst.Field(i).Name()] {
								ms[tn+"."+sst.Field(i).Name()] = true
							}
						}
						// nested structs: be conservative
						for i := 0; i < sst.NumFields(); i++ {
							if _, nested := sst.Field(i).Type().Underlying().(*types.Struct); nested {
								ms["type:"+typeName(sst.Field(i).Type())] = true
							}
						}
						continue
					}
					if isNillable(x.Val.Type()) && !e.siteOK[x] {
						ms[storeCell(x.Addr)] = true
					}
				case *ssa.MapUpdate:
					if !e.siteOK[x] {
						ms["map:"+x.Map.Type().Underlying().String()] = true
					}
				case ssa.CallInstruction:
					cc := x.Common()
					if bi, isB := cc.Value.(*ssa.Builtin); isB {
						switch bi.Name() {
						case "delete":
							ms["map:"+cc.Args[0].Type().Underlying().String()] = true
						case "copy":
							if sl, ok := cc.Args[0].Type().Underlying().(*types.Slice); ok {
								ms["elem:"+sl.Elem().String()] = true
							}
						}
						continue
					}
					cs := e.p.Callees(x)
					if len(cs) == 0 {
						name := calleeName(x)
						if name == "" {
							ms["*"] = true
						}
						for _, w := range externalWrites(name, x) {
							ms[w] = true
						}
						continue
					}
					for _, cal := range cs {
						if e.p.fnIndex[cal] {
							callees[fn] = append(callees[fn], cal)
						} else {
							name := cal.String()
							if cc.IsInvoke() {
								name = calleeName(x)
							}
							for _, w := range externalWrites(name, x) {
								ms[w] = true
							}
						}
					}
				}
			}
		}
		direct[fn] = ms
	}
	for changed := true; changed; {
		changed = false
		for fn, cs := range callees {
			for _, cal := range cs {
				for k := range direct[cal] {
					if !direct[fn][k] {
						if direct[fn] == nil {
							direct[fn] = map[string]bool{}
						}
						direct[fn][k] = true
						changed = true
					}
				}
			}
		}
	}
	e.nilMods = direct
}

func (e *nilEngine) debugSummaries(name string) {
	for _, f := range e.all {
		if !strings.Contains(f.String(), name) {
			continue
		}
		debugf("summary %s: mods=%v nilMods=%v", f, keysOf(e.mods[f]), keysOf(e.nilMods[f]))
		for k, v := range e.paramCell {
			if strings.HasPrefix(k, f.String()+"|") {
				debugf("  paramCell %s = %v", k, v)
			}
		}
		for _, b := range f.Blocks {
			for _, in := range b.Instrs {
				if st, ok := in.(*ssa.Store); ok {
					debugf("  store %s siteOK=%v fieldOK=%v", st, e.siteOK[st], e.siteFieldOK[st])
				}
			}
		}
	}
}

func keysOf(m map[string]bool) []string {
	var out []string
	for k := range m {
		out = append(out, k)
	}
	sort.Strings(out)
	return out
}

// spillOf: the local cell a by-value struct parameter is copied into at entry (nil if there is none or several).
func spillOf(prm *ssa.Parameter) *ssa.Alloc {
	var out *ssa.Alloc
	if prm.Referrers() == nil {
		return nil
	}
	for _, r := range *prm.Referrers() {
		if st, ok := r.(*ssa.Store); ok && st.Val == ssa.Value(prm) {
			a, isA := st.Addr.(*ssa.Alloc)
			if !isA || out != nil || st.Block() != prm.Parent().Blocks[0] {
				return nil
			}
			out = a
		}
	}
	if out == nil {
		return nil
	}
	// the cell is written only by that spill
	for _, r := range *out.Referrers() {
		if st, ok := r.(*ssa.Store); ok && st.Addr == ssa.Value(out) && st.Val != ssa.Value(prm) {
			return nil
		}
	}
	return out
}

// structParamSpill: v is the spill cell of a by-value struct parameter.
func structParamSpill(v ssa.Value) *ssa.Parameter {
	a, ok := v.(*ssa.Alloc)
	if !ok {
		return nil
	}
	for _, r := range *a.Referrers() {
		if st, ok := r.(*ssa.Store); ok && st.Addr == ssa.Value(a) {
			if prm, isP := st.Val.(*ssa.Parameter); isP && spillOf(prm) == a {
				if _, isStruct := prm.Type().Underlying().(*types.Struct); isStruct {
					return prm
				}
			}
		}
	}
	return nil
}

// readOnlyMapArg: call passes map m to a statically known module function whose corresponding parameter is only
// looked up / ranged over / measured (or passed on in the same way): the map's key set cannot shrink through it.
func readOnlyMapArg(call *ssa.Call, m ssa.Value, d int) bool {
	if d > 3 || call.Call.IsInvoke() {
		return false
	}
	cal := call.Call.StaticCallee()
	if cal == nil || len(cal.Blocks) == 0 || !strings.HasPrefix(fnPkgPath(cal), modPath) {
		return false
	}
	for i, a := range call.Call.Args {
		if a != m {
			continue
		}
		if i >= len(cal.Params) {
			return false
		}
		prm := cal.Params[i]
		if prm.Referrers() == nil {
			continue
		}
		for _, r := range *prm.Referrers() {
			switch x := r.(type) {
			case *ssa.Lookup, *ssa.Range, *ssa.DebugRef:
			case *ssa.MapUpdate:
				// an entry added or replaced: the key set does not shrink (what the values are is mapValuesNonNil's subject)
				if x.Map != ssa.Value(prm) {
					return false
				}
			case *ssa.Call:
				if isBuiltin(x, "len") {
					continue
				}
				if !readOnlyMapArg(x, prm, d+1) {
					return false
				}
			default:
				return false
			}
		}
	}
	return true
}

// deleteReachable: fn, or a function it can call, deletes from (or clears) a map of type t.
func (e *nilEngine) deleteReachable(fn *ssa.Function, t types.Type) bool {
	seen := map[*ssa.Function]bool{}
	var rec func(f *ssa.Function) bool
	rec = func(f *ssa.Function) bool {
		if seen[f] {
			return false
		}
		seen[f] = true
		for _, b := range f.Blocks {
			for _, in := range b.Instrs {
				ci, ok := in.(ssa.CallInstruction)
				if !ok {
					continue
				}
				cc := ci.Common()
				if bi, isB := cc.Value.(*ssa.Builtin); isB {
					if (bi.Name() == "delete" || bi.Name() == "clear") && len(cc.Args) > 0 && types.Identical(cc.Args[0].Type(), t) {
						return true
					}
					continue
				}
				cs := e.p.Callees(ci)
				if len(cs) == 0 && calleeName(ci) == "" {
					return true // unresolved dynamic call
				}
				for _, cal := range cs {
					if e.p.fnIndex[cal] && rec(cal) {
						return true
					}
				}
			}
		}
		for _, a := range f.AnonFuncs {
			if rec(a) {
				return true
			}
		}
		return false
	}
	return rec(fn)
}

// pairedByCallee: r and er are results k and m of one and the same call whose callee guarantees "result k is non-nil
// whenever result m (its error) is nil" (a function that hands on another function's (value, error) pair unchanged).
func (e *nilEngine) pairedByCallee(r, er ssa.Value) bool {
	xr, ok1 := r.(*ssa.Extract)
	xe, ok2 := er.(*ssa.Extract)
	if !ok1 || !ok2 || xr.Tuple != xe.Tuple {
		return false
	}
	call, ok := xr.Tuple.(*ssa.Call)
	if !ok {
		return false
	}
	cs := e.p.Callees(call)
	if len(cs) == 0 {
		// an external function: the library pairing lemma (value non-nil when err == nil) is the same one the
		// ERRNIL facts rely on
		return externalPairs(calleeName(call), xr.Index, xe.Index)
	}
	for _, cal := range cs {
		if !e.p.fnIndex[cal] {
			if !externalPairs(cal.String(), xr.Index, xe.Index) {
				return false
			}
			continue
		}
		rp := e.retPair[cal]
		if xr.Index >= len(rp) || rp[xr.Index] != xe.Index {
			return false
		}
	}
	return true
}

// externalPairs: for library functions returning (T, error) the result is usable when the error is nil.
func externalPairs(name string, k, m int) bool {
	info, ok := externals[extName(name)]
	return ok && info.Known && !info.MayNil && m == k+1
}

// paramAtAllCallSites: v is a parameter of a module function and every call site hands it a value for which pred
// holds (followed through further parameters, bounded).
func (e *nilEngine) paramAtAllCallSites(v ssa.Value, pred func(ssa.Value) bool, d int) bool {
	prm, ok := v.(*ssa.Parameter)
	if !ok || d > 3 {
		return false
	}
	idx := paramIndex(prm)
	callers := e.c.P.Callers(prm.Parent())
	if idx < 0 || len(callers) == 0 {
		return false
	}
	for _, ce := range callers {
		if ce.Site == nil {
			return false
		}
		cc := ce.Site.Common()
		if cc.IsInvoke() || cc.StaticCallee() == nil || idx >= len(cc.Args) {
			return false
		}
		if !pred(cc.Args[idx]) && !e.paramAtAllCallSites(cc.Args[idx], pred, d+1) {
			return false
		}
	}
	return true
}

// hasDeleteOfType: the function deletes from a map of type t.
func hasDeleteOfType(fn *ssa.Function, t types.Type) bool {
	for _, b := range fn.Blocks {
		for _, in := range b.Instrs {
			if call, ok := in.(*ssa.Call); ok && isBuiltin(call, "delete") && types.Identical(call.Call.Args[0].Type(), t) {
				return true
			}
		}
	}
	return false
}

// trueImpliesCell: whenever the boolean rv is true, the fact `key` (a non-nil cell) holds: rv is the constant false,
// the constant true where the state has the fact, a value computed in a block whose entry state has the fact (the
// later conjuncts of `p.f != nil && ...`), or a phi of such values taken edge by edge.
func (e *nilEngine) trueImpliesCell(rv ssa.Value, key string, at *ssa.BasicBlock, st fstate, d int) bool {
	if d > 6 {
		return false
	}
	switch x := rv.(type) {
	case *ssa.Const:
		if bv, isB := constBool(x); isB && !bv {
			return true
		}
		_, has := st[key]
		return has
	case *ssa.Phi:
		for i, ed := range x.Edges {
			pred := x.Block().Preds[i]
			pst, ok := e.in[pred]
			if !ok {
				return false
			}
			if !e.trueImpliesCell(ed, key, pred, pst, d+1) {
				return false
			}
		}
		return len(x.Edges) > 0
	default:
		if in, ok := rv.(ssa.Instruction); ok && in.Block() != nil {
			if pst, ok := e.in[in.Block()]; ok {
				if _, has := pst[key]; has {
					return true
				}
			}
		}
		_, has := st[key]
		return has
	}
}

// runFieldMapsMade: an assignment to an entry of a nil map panics. A map that is kept in a struct field and written
// with m[k] = v somewhere in scope is made where the struct is built: every function of the module that builds a value
// of that struct type stores a freshly made map into the field in a block that dominates all its returns (not under an
// option, not lazily on another path).
func runFieldMapsMade(c *Ctx, fns []*ssa.Function, rule string) {
	p := c.P
	type fkey struct {
		tn    string
		field int
	}
	written := map[fkey]ssa.Instruction{}
	fnames := map[fkey]string{}
	for _, fn := range fns {
		for _, b := range fn.Blocks {
			for _, in := range b.Instrs {
				mu, ok := in.(*ssa.MapUpdate)
				if !ok {
					continue
				}
				ld, ok := mu.Map.(*ssa.UnOp)
				if !ok || ld.Op != token.MUL {
					continue
				}
				fa, ok := ld.X.(*ssa.FieldAddr)
				if !ok {
					continue
				}
				k := fkey{typeName(fa.X.Type()), fa.Field}
				if _, seen := written[k]; !seen {
					written[k] = mu
					fnames[k] = fieldName(fa.X.Type(), fa.Field)
				}
			}
		}
	}
	var keys []fkey
	for k := range written {
		keys = append(keys, k)
	}
	sort.Slice(keys, func(i, j int) bool {
		if keys[i].tn != keys[j].tn {
			return keys[i].tn < keys[j].tn
		}
		return keys[i].field < keys[j].field
	})
	for _, k := range keys {
		bad, nBuilt := "", 0
		for _, fn := range p.ModFns {
			for _, b := range fn.Blocks {
				for _, in := range b.Instrs {
					al, ok := in.(*ssa.Alloc)
					if !ok || typeName(al.Type()) != k.tn {
						continue
					}
					if _, isStruct := deref(al.Type()).Underlying().(*types.Struct); !isStruct {
						continue
					}
					// a copy of an existing value (a spilled receiver or parameter, an assignment of a whole struct) is
					// not a construction
					copied := fn.Synthetic != ""
					for _, r := range *al.Referrers() {
						if st, isSt := r.(*ssa.Store); isSt && st.Addr == ssa.Value(al) {
							copied = true
						}
					}
					if copied {
						continue
					}
					nBuilt++
					made := false
					for _, r := range *al.Referrers() {
						fa, isFA := r.(*ssa.FieldAddr)
						if !isFA || fa.Field != k.field {
							continue
						}
						for _, rr := range *fa.Referrers() {
							st, isSt := rr.(*ssa.Store)
							if !isSt || st.Addr != ssa.Value(fa) {
								continue
							}
							if _, isMake := st.Val.(*ssa.MakeMap); !isMake {
								// a map the builder was handed, put into the literal as it is built
								if k, isK := st.Val.(*ssa.Const); (isK && k.IsNil()) || st.Block() != al.Block() {
									continue
								}
							}
							dominatesAll := true
							if st.Block() == al.Block() {
								made = true // a field of the literal that builds the value
							}
							for _, rb := range fn.Blocks {
								if _, isRet := rb.Instrs[len(rb.Instrs)-1].(*ssa.Return); isRet && !st.Block().Dominates(rb) {
									dominatesAll = false
								}
							}
							if dominatesAll {
								made = true
							}
						}
					}
					if !made && bad == "" {
						bad = shortName(fn) + " builds a " + k.tn + " at " + p.ipos(al) + " without making the map on every path"
					}
				}
			}
		}
		fname := fnames[k]
		c.Check(bad == "" && nBuilt > 0, rule, k.tn, "the map in field "+fname+" is made wherever the struct is built", p.ipos(written[k]), fmt.Sprintf("%d constructions, each stores make(map...) into the field in a block that dominates its returns", nBuilt), bad+": the assignment to an entry of that map (e.g. at "+p.ipos(written[k])+") panics on the nil map")
	}
	c.Stats[rule+" field-held maps written"] = len(keys)
}
