package main

// PHASE: a collection of the result is not reordered once addresses of its elements are held. ParseStatic runs the
// actions of its file table in order (the action of a row, then its post-step, then the next row: rule A5). A sort of
// result.X moves the element values; pointers &result.X[i] taken in an earlier phase (id maps, references stored in
// other entities) then point at other entities than the ones they were taken for.

import (
	"fmt"
	"go/ast"
	"go/token"
	"sort"
	"strings"

	"golang.org/x/tools/go/ssa"
)

// staticPhases: phase number of every closure of ParseStatic that is an action (2*row) or a post-step (2*row+1) of the
// file table, and of every function reached from it (the smallest phase it is reached in).
func staticPhases(c *Ctx) map[*ssa.Function]int {
	ps := c.anchor("gtfs:ParseStatic")
	if ps == nil {
		return nil
	}
	// the table literal: the composite literal ranged over in ParseStatic whose elements contain function literals
	var rowsLit *ast.CompositeLit
	if syn, ok := ps.Syntax().(*ast.FuncDecl); ok {
		ast.Inspect(syn, func(n ast.Node) bool {
			rs, ok := n.(*ast.RangeStmt)
			if !ok {
				return true
			}
			if cl := rangedTableLiteral(syn, rs); cl != nil && rowsLit == nil {
				rowsLit = cl
			}
			return true
		})
	}
	if rowsLit == nil {
		return nil
	}
	rowOf := func(pos token.Pos) int {
		for i, el := range rowsLit.Elts {
			if el.Pos() <= pos && pos < el.End() {
				return i
			}
		}
		return -1
	}
	out := map[*ssa.Function]int{}
	var assign func(f *ssa.Function, ph int, d int)
	assign = func(f *ssa.Function, ph int, d int) {
		if d > 6 || f == nil || !c.P.isModuleFn(f) {
			return
		}
		if old, ok := out[f]; ok && old <= ph {
			return
		}
		out[f] = ph
		for _, b := range f.Blocks {
			for _, in := range b.Instrs {
				if call, ok := in.(ssa.CallInstruction); ok {
					for _, cal := range c.P.Callees(call) {
						assign(cal, ph, d+1)
					}
				}
			}
		}
		for _, an := range f.AnonFuncs {
			assign(an, ph, d+1)
		}
	}
	for _, an := range ps.AnonFuncs {
		fl, ok := an.Syntax().(*ast.FuncLit)
		if !ok {
			continue
		}
		r := rowOf(fl.Pos())
		if r < 0 {
			continue
		}
		ph := 2 * r
		if an.Signature.Params().Len() == 0 {
			ph++
		}
		assign(an, ph, 0)
	}
	return out
}

func runSortAfterAddress(c *Ctx, rule string) {
	p := c.P
	phases := staticPhases(c)
	if phases == nil {
		c.Undecided(rule, "gtfs.ParseStatic", "phases of the file table", "-", "the file table of ParseStatic was not found")
		return
	}
	// result field of a `*Static`-typed load: "Static.X"
	resultField := func(v ssa.Value) string {
		ld, ok := v.(*ssa.UnOp)
		if !ok || ld.Op != token.MUL {
			return ""
		}
		fa, ok := ld.X.(*ssa.FieldAddr)
		if !ok || typeName(deref(fa.X.Type())) != "gtfs.Static" {
			return ""
		}
		return fieldName(fa.X.Type(), fa.Field)
	}
	type site struct {
		in    ssa.Instruction
		phase int
	}
	sorts := map[string][]site{}
	takes := map[string][]site{}
	var fns []*ssa.Function
	for f := range phases {
		fns = append(fns, f)
	}
	sort.Slice(fns, func(i, j int) bool { return fns[i].Pos() < fns[j].Pos() })
	for _, f := range fns {
		ph := phases[f]
		for _, b := range f.Blocks {
			for _, in := range b.Instrs {
				switch x := in.(type) {
				case *ssa.Call:
					if isSortCall(calleeName(x)) {
						if fld := resultField(sortTarget(x)); fld != "" {
							sorts[fld] = append(sorts[fld], site{x, ph})
						}
					}
				case *ssa.IndexAddr:
					fld := resultField(x.X)
					if fld == "" {
						continue
					}
					// the element's address is kept: stored, put into a map, or handed on
					kept := false
					for _, r := range *x.Referrers() {
						switch u := r.(type) {
						case *ssa.MapUpdate:
							kept = kept || u.Value == ssa.Value(x)
						case *ssa.Store:
							kept = kept || u.Val == ssa.Value(x)
						case *ssa.Call:
							kept = true
						case *ssa.Phi:
							kept = true
						}
					}
					if kept {
						takes[fld] = append(takes[fld], site{x, ph})
					}
				}
			}
		}
	}
	var flds []string
	for f := range sorts {
		flds = append(flds, f)
	}
	sort.Strings(flds)
	n := 0
	for _, fld := range flds {
		for _, s := range sorts[fld] {
			n++
			bad := ""
			for _, t := range takes[fld] {
				// in the same function: the address can be taken before the sort runs (it need not be taken on every
				// path: a loop body that runs zero times for an empty collection does not dominate what follows it)
				if t.phase < s.phase || (t.phase == s.phase && t.in.Parent() == s.in.Parent() && (instrBefore(t.in, s.in) || (t.in.Block() != s.in.Block() && canReach(t.in.Block(), s.in.Block())))) {
					bad = p.ipos(t.in)
				}
			}
			c.Check(bad == "", rule, shortName(s.in.Parent()), "sort of result."+fld+" precedes every address taken of its elements", p.ipos(s.in),
				fmt.Sprintf("no element address of result.%s is kept in a phase before this sort (%d places take one later)", fld, len(takes[fld])),
				"result."+fld+" is sorted after the address of one of its elements was kept at "+bad+": the pointer now refers to whichever element the sort moved there ("+strings.ToLower(fld)+" referenced by id resolve to the wrong entity)")
		}
	}
	if n == 0 {
		c.Proved(rule, "gtfs.ParseStatic", "no result collection is sorted in place", "-", "no sort call has a field of the result as its target")
	}
}

// ---------------------------------------------------------------- C04: every expressed association is recorded

// runLinkAll: inside the entity loop of ParseRealtime the link tables are updated under `trip != nil && vehicle != nil`
// (whatever else). No path of one trip around the loop on which both are known non-nil may return to the loop head
// without passing those updates: an early `continue` between the merge and the link step loses the association.
func runLinkAll(c *Ctx) {
	p := c.P
	pr := c.anchor("gtfs:ParseRealtime")
	if pr == nil {
		return
	}
	fname := shortName(pr)
	n := 0
	for _, l := range naturalLoops(pr) {
		// link updates: MapUpdates in the loop whose block is guarded by two non-nil tests of pointer-typed loop values
		type linkSite struct {
			blk  *ssa.BasicBlock
			subj []ssa.Value
		}
		var links []linkSite
		for blk := range l.Blocks {
			hasMU := false
			for _, in := range blk.Instrs {
				if _, ok := in.(*ssa.MapUpdate); ok {
					hasMU = true
				}
			}
			if !hasMU {
				continue
			}
			var subj []ssa.Value
			for _, ce := range dominatingConds(blk) {
				if ce.Composite || ce.If == nil || !l.Blocks[ce.If.Block()] {
					continue
				}
				cond, val := normalizeCond(ce.Cond, ce.Val)
				bo, ok := cond.(*ssa.BinOp)
				if !ok || !isNilConst(bo.Y) {
					continue
				}
				if (bo.Op == token.NEQ && val) || (bo.Op == token.EQL && !val) {
					tn := typeName(deref(bo.X.Type()))
					if tn == "gtfs.Trip" || tn == "gtfs.Vehicle" {
						subj = append(subj, bo.X)
					}
				}
			}
			hasT, hasV := false, false
			for _, s := range subj {
				if typeName(deref(s.Type())) == "gtfs.Trip" {
					hasT = true
				} else {
					hasV = true
				}
			}
			if hasT && hasV {
				links = append(links, linkSite{blk, subj})
			}
		}
		if len(links) == 0 {
			continue
		}
		paths := iterationPaths(l)
		// the link step may have alternatives (identified vehicle / id-less vehicle): a path has to pass one of them
		linkBlk := map[*ssa.BasicBlock]bool{}
		subjSet := map[ssa.Value]bool{}
		var first *ssa.BasicBlock
		for _, ls := range links {
			linkBlk[ls.blk] = true
			for _, sv := range ls.subj {
				subjSet[sv] = true
			}
			if first == nil || ls.blk.Index < first.Index {
				first = ls.blk
			}
		}
		n++
		bad := ""
		for _, pf := range paths {
			if !pf.back {
				continue
			}
			// both subjects known non-nil on the path (by operand identity: go/ssa does not share equal comparisons)
			known := map[ssa.Value]bool{}
			contra := false
			for _, f := range pf.facts {
				cond, val := normalizeCond(f.ce.Cond, f.ce.Val)
				bo, ok := cond.(*ssa.BinOp)
				if !ok || !isNilConst(bo.Y) {
					continue
				}
				nonNil := (bo.Op == token.NEQ && val) || (bo.Op == token.EQL && !val)
				if prev, seen := known[bo.X]; seen && prev != nonNil {
					contra = true
				}
				known[bo.X] = nonNil
			}
			if contra {
				continue
			}
			all := true
			for sv := range subjSet {
				if !known[sv] {
					all = false
				}
			}
			if !all {
				continue
			}
			on := false
			for _, b := range pf.blocks {
				if linkBlk[b] {
					on = true
				}
			}
			if !on {
				bad = p.pos(lastPos(pf.blocks[len(pf.blocks)-1]))
			}
		}
		c.Check(bad == "", "LINK", fname, "every entity that yields a trip and a vehicle records their association", p.pos(first.Instrs[0].Pos()),
			fmt.Sprintf("every path around the entity loop with both a trip and a vehicle passes one of the %d link-table updates", len(links)), "a path around the entity loop on which the entity yields both a trip and a vehicle returns to the loop head (near "+bad+") without recording their association: the trip and the vehicle end up unlinked, depending on entity order")
	}
	if n == 0 {
		c.Undecided("LINK", fname, "every entity that yields a trip and a vehicle records their association", p.pos(pr.Pos()), "no link-table update guarded by `trip != nil && vehicle != nil` was found in a loop of ParseRealtime")
	}
}
