package main

// Function values: the functions a function-typed value can be, resolved per call site of the enclosing function.
// This is the small piece of higher-order reasoning the rules need for helpers such as indexByID(items, idOf):
// a function-typed parameter is looked up at every call site of its function (one level per step, bounded depth).
// nil means "not resolvable": callers then keep their conservative answer.

import (
	"golang.org/x/tools/go/ssa"
)

func (c *Ctx) funcValues(v ssa.Value, d int) []*ssa.Function {
	if d > 4 {
		return nil
	}
	switch x := v.(type) {
	case *ssa.Function:
		return []*ssa.Function{x}
	case *ssa.MakeClosure:
		if f, ok := x.Fn.(*ssa.Function); ok {
			return []*ssa.Function{f}
		}
	case *ssa.ChangeType:
		return c.funcValues(x.X, d+1)
	case *ssa.Phi:
		var out []*ssa.Function
		for _, e := range x.Edges {
			fs := c.funcValues(e, d+1)
			if fs == nil {
				return nil
			}
			out = append(out, fs...)
		}
		return out
	case *ssa.FreeVar:
		// the variable captured where the closure is made
		cl := x.Parent()
		idx := -1
		for i, fv := range cl.FreeVars {
			if fv == x {
				idx = i
			}
		}
		if idx < 0 || cl.Parent() == nil {
			return nil
		}
		var out []*ssa.Function
		n := 0
		for _, b := range cl.Parent().Blocks {
			for _, in := range b.Instrs {
				if mc, ok := in.(*ssa.MakeClosure); ok && mc.Fn == ssa.Value(cl) && idx < len(mc.Bindings) {
					n++
					fs := c.funcValues(mc.Bindings[idx], d+1)
					if fs == nil {
						return nil
					}
					out = append(out, fs...)
				}
			}
		}
		if n == 0 {
			return nil
		}
		return out
	case *ssa.UnOp:
		// a captured variable is a cell: its stores decide
		if al, ok := x.X.(*ssa.Alloc); ok {
			var out []*ssa.Function
			for _, sv := range cellStores(al) {
				fs := c.funcValues(sv, d+1)
				if fs == nil {
					return nil
				}
				out = append(out, fs...)
			}
			return out
		}
		if fv, ok := x.X.(*ssa.FreeVar); ok {
			return c.funcValues(fv, d+1)
		}
	case *ssa.Alloc:
		var out []*ssa.Function
		for _, sv := range cellStores(x) {
			fs := c.funcValues(sv, d+1)
			if fs == nil {
				return nil
			}
			out = append(out, fs...)
		}
		return out
	case *ssa.Parameter:
		fn := x.Parent()
		idx := -1
		for i, pa := range fn.Params {
			if pa == x {
				idx = i
			}
		}
		if idx < 0 {
			return nil
		}
		callers := c.P.Callers(fn)
		if len(callers) == 0 {
			return nil
		}
		var out []*ssa.Function
		for _, e := range callers {
			if e.Site == nil {
				return nil
			}
			cc := e.Site.Common()
			if cc.IsInvoke() || cc.StaticCallee() == nil || len(cc.Args) != len(fn.Params) {
				return nil // reached through a value or an interface: the argument cannot be lined up
			}
			fs := c.funcValues(cc.Args[idx], d+1)
			if fs == nil {
				return nil
			}
			out = append(out, fs...)
		}
		return out
	}
	return nil
}

// fieldSelectorOf: fn(x) returns x.<field> (x a struct or a pointer to one) on its only path, and does nothing else.
// Returns the field's name, "" otherwise.
func fieldSelectorOf(fn *ssa.Function) string {
	if fn == nil || len(fn.Blocks) != 1 || len(fn.Params) != 1 || len(fn.FreeVars) != 0 {
		return ""
	}
	blk := fn.Blocks[0]
	ret, ok := blk.Instrs[len(blk.Instrs)-1].(*ssa.Return)
	if !ok || len(ret.Results) != 1 {
		return ""
	}
	for _, in := range blk.Instrs {
		switch in.(type) {
		case *ssa.Return, *ssa.FieldAddr, *ssa.Field, *ssa.UnOp, *ssa.DebugRef:
		default:
			return ""
		}
	}
	switch r := ret.Results[0].(type) {
	case *ssa.UnOp:
		if fa, ok := r.X.(*ssa.FieldAddr); ok && fa.X == ssa.Value(fn.Params[0]) {
			return fieldName(fa.X.Type(), fa.Field)
		}
	case *ssa.Field:
		if r.X == ssa.Value(fn.Params[0]) {
			return fieldName(r.X.Type(), r.Field)
		}
	}
	return ""
}

// keyThroughFuncValue: v is `f(arg)` with f a function value that can only be field selectors of one field: the
// canonical form of arg followed by that field ("" if v is not of that form).
func (c *Ctx) keyThroughFuncValue(v ssa.Value) string {
	call, ok := v.(*ssa.Call)
	if !ok || call.Call.IsInvoke() || call.Call.StaticCallee() != nil || len(call.Call.Args) != 1 {
		return ""
	}
	fs := c.funcValues(call.Call.Value, 0)
	field := ""
	for _, f := range fs {
		n := fieldSelectorOf(f)
		if n == "" || (field != "" && n != field) {
			return ""
		}
		field = n
	}
	if field == "" {
		return ""
	}
	return "*(" + canon(call.Call.Args[0]) + "." + field + ")"
}
