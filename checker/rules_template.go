package main

// E8 / C20: the CSV export templates are source files of the repository; their parse
// trees are analysed together with the Go code that executes them.

import (
	"fmt"
	"go/ast"
	"go/token"
	"go/types"
	"os"
	"path/filepath"
	"sort"
	"strings"
	"text/template/parse"
	"unicode"

	"golang.org/x/tools/go/ssa"
)

type tmplInfo struct {
	varName  string // tripsCsv
	srcVar   string // tripsCsvTmpl
	file     string // trips.csv.tmpl
	text     string
	tree     *parse.Tree
	parseErr error
	declPos  token.Pos
}

var templateBuiltins = map[string]any{
	"and": 0, "call": 0, "html": 0, "index": 0, "slice": 0, "js": 0, "len": 0, "not": 0, "or": 0, "print": 0,
	"printf": 0, "println": 0, "urlquery": 0, "eq": 0, "ge": 0, "gt": 0, "le": 0, "lt": 0, "ne": 0,
}

// collectTemplates finds, in package journal: //go:embed string variables, the funcMap
// literal's keys and the template variables built by template.New(..).Funcs(funcMap).Parse(<embed var>).
func collectTemplates(c *Ctx) (tmpls []*tmplInfo, funcs map[string]*ast.FuncLit, ok bool) {
	pk := c.P.ByPath[pkgPathOf("journal")]
	if pk == nil {
		c.Undecided("ANCHOR", "journal", "resolve", "-", "UNRESOLVED ANCHOR package journal")
		return nil, nil, false
	}
	embeds := map[string]string{} // var -> file
	funcs = map[string]*ast.FuncLit{}
	dir := ""
	// the package's plain functions, for a funcMap entry or a template constructor that names one
	decls := map[string]*ast.FuncDecl{}
	for _, f := range pk.Syntax {
		for _, d := range f.Decls {
			if fd, ok := d.(*ast.FuncDecl); ok && fd.Recv == nil && fd.Body != nil {
				decls[fd.Name.Name] = fd
			}
		}
	}
	for _, f := range pk.Syntax {
		fname := c.P.Fset.Position(f.Pos()).Filename
		dir = filepath.Dir(fname)
		for _, d := range f.Decls {
			gd, isGen := d.(*ast.GenDecl)
			if !isGen || gd.Tok != token.VAR {
				continue
			}
			for _, sp := range gd.Specs {
				vs := sp.(*ast.ValueSpec)
				doc := vs.Doc
				if doc == nil {
					doc = gd.Doc
				}
				if doc != nil {
					for _, cm := range doc.List {
						if strings.HasPrefix(cm.Text, "//go:embed ") && len(vs.Names) == 1 {
							embeds[vs.Names[0].Name] = strings.TrimSpace(strings.TrimPrefix(cm.Text, "//go:embed "))
						}
					}
				}
				for i, n := range vs.Names {
					if i >= len(vs.Values) {
						continue
					}
					switch v := vs.Values[i].(type) {
					case *ast.CompositeLit:
						// funcMap literal
						if sel, ok := v.Type.(*ast.SelectorExpr); ok && sel.Sel.Name == "FuncMap" {
							for _, el := range v.Elts {
								kv := el.(*ast.KeyValueExpr)
								if bl, ok := kv.Key.(*ast.BasicLit); ok {
									name := strings.Trim(bl.Value, "\"")
									fl, _ := kv.Value.(*ast.FuncLit)
									if id, isId := kv.Value.(*ast.Ident); isId && fl == nil {
										if fd := decls[id.Name]; fd != nil {
											fl = &ast.FuncLit{Type: fd.Type, Body: fd.Body} // a named function of the package
										}
									}
									funcs[name] = fl
								}
							}
						}
					case *ast.CallExpr:
						// template.Must(template.New(..).Funcs(..).Parse(X))
						src := findParseArg(v)
						if src == "" {
							// built by a helper of the package that parses one of its parameters: helper(name, <embed var>)
							if id, isId := v.Fun.(*ast.Ident); isId {
								if fd := decls[id.Name]; fd != nil {
									if prm := findParseArg(fd.Body); prm != "" {
										k := 0
										for _, fld := range fd.Type.Params.List {
											for _, nm := range fld.Names {
												if nm.Name == prm && k < len(v.Args) {
													if aid, ok := v.Args[k].(*ast.Ident); ok {
														src = aid.Name
													}
												}
												k++
											}
										}
									}
								}
							}
						}
						if src != "" {
							tmpls = append(tmpls, &tmplInfo{varName: n.Name, srcVar: src, declPos: n.Pos()})
						}
					}
				}
			}
		}
	}
	fm := map[string]any{}
	for k, v := range templateBuiltins {
		fm[k] = v
	}
	for k := range funcs {
		fm[k] = 0
	}
	for _, t := range tmpls {
		t.file = embeds[t.srcVar]
		if t.file == "" {
			t.parseErr = fmt.Errorf("template source %s is not a //go:embed variable", t.srcVar)
			continue
		}
		b, err := os.ReadFile(filepath.Join(dir, t.file))
		if err != nil {
			t.parseErr = err
			continue
		}
		t.text = string(b)
		trees, err := parse.Parse(t.file, t.text, "", "", fm)
		if err != nil {
			t.parseErr = err
			continue
		}
		t.tree = trees[t.file]
	}
	return tmpls, funcs, true
}

func findParseArg(e ast.Node) string {
	var out string
	ast.Inspect(e, func(n ast.Node) bool {
		call, ok := n.(*ast.CallExpr)
		if !ok {
			return true
		}
		if sel, ok := call.Fun.(*ast.SelectorExpr); ok && sel.Sel.Name == "Parse" && len(call.Args) == 1 {
			if id, ok := call.Args[0].(*ast.Ident); ok {
				out = id.Name
			}
		}
		return true
	})
	return out
}

func snakeCase(s string) string {
	var out []rune
	rs := []rune(s)
	for i, r := range rs {
		if unicode.IsUpper(r) {
			if i > 0 && (unicode.IsLower(rs[i-1]) || (i+1 < len(rs) && unicode.IsLower(rs[i+1]) && unicode.IsUpper(rs[i-1]))) {
				out = append(out, '_')
			}
			out = append(out, unicode.ToLower(r))
		} else {
			out = append(out, r)
		}
	}
	return string(out)
}

type cellInfo struct {
	fn     string   // helper function name or ""
	chain  []string // field chain
	viaVar string   // "$trip" when the chain starts at a variable
	desc   string
}

func analyseCell(a *parse.ActionNode) (cellInfo, string) {
	var ci cellInfo
	ci.desc = a.String()
	if a.Pipe == nil || len(a.Pipe.Decl) > 0 || len(a.Pipe.Cmds) != 1 {
		return ci, "cell is not a single command"
	}
	cmd := a.Pipe.Cmds[0]
	args := cmd.Args
	readField := func(n parse.Node) bool {
		switch x := n.(type) {
		case *parse.FieldNode:
			ci.chain = x.Ident
			return true
		case *parse.VariableNode:
			ci.viaVar = x.Ident[0]
			ci.chain = x.Ident[1:]
			return len(x.Ident) > 1
		}
		return false
	}
	switch len(args) {
	case 1:
		if !readField(args[0]) {
			return ci, "cell is not a field reference"
		}
	case 2:
		id, ok := args[0].(*parse.IdentifierNode)
		if !ok {
			return ci, "cell is not `Helper .Field`"
		}
		ci.fn = id.Ident
		if !readField(args[1]) {
			return ci, "helper argument is not a field reference"
		}
	default:
		return ci, "cell has more than one argument"
	}
	return ci, ""
}

// fieldType resolves a field chain on a struct type; a trailing method name (e.g. Unix) is returned separately.
func resolveChain(t types.Type, chain []string) (field string, ft types.Type, method string, err string) {
	cur := t
	for i, name := range chain {
		st := structOf(cur)
		found := false
		if st != nil {
			for k := 0; k < st.NumFields(); k++ {
				if st.Field(k).Name() == name {
					cur = st.Field(k).Type()
					field = name
					found = true
					break
				}
			}
		}
		if found {
			continue
		}
		// method?
		if i == len(chain)-1 {
			ms := types.NewMethodSet(cur)
			for k := 0; k < ms.Len(); k++ {
				if ms.At(k).Obj().Name() == name {
					return field, cur, name, ""
				}
			}
		}
		return field, cur, "", fmt.Sprintf("%s is neither a field nor a method of %s", name, cur)
	}
	return field, cur, "", ""
}

func expectedFormatter(ft types.Type) (helper, method, what string) {
	ft = types.Unalias(ft)
	if isTimeTime(ft) {
		return "", "Unix", "time.Time as .Unix"
	}
	if p, ok := ft.Underlying().(*types.Pointer); ok {
		et := types.Unalias(p.Elem())
		if isTimeTime(et) {
			return "NullableUnix", "", "*time.Time through NullableUnix"
		}
		if b, ok := et.Underlying().(*types.Basic); ok && b.Kind() == types.String {
			return "NullableString", "", "*string through NullableString"
		}
		return "?", "", "no formatter rule for " + ft.String()
	}
	if n, ok := ft.(*types.Named); ok && n.Obj().Name() == "DirectionID" {
		return "FormatDirectionID", "", "DirectionID through FormatDirectionID"
	}
	if b, ok := ft.Underlying().(*types.Basic); ok {
		if b.Kind() == types.String || b.Info()&types.IsInteger != 0 {
			return "", "", "bare " + b.Name()
		}
	}
	return "?", "", "no formatter rule for " + ft.String()
}

func runTemplates(c *Ctx) {
	tmpls, funcs, ok := collectTemplates(c)
	if !ok {
		return
	}
	jp := c.P.ByPath[pkgPathOf("journal")]
	tripT := jp.Types.Scope().Lookup("Trip")
	stT := jp.Types.Scope().Lookup("StopTime")
	if tripT == nil || stT == nil {
		c.Undecided("ANCHOR", "journal:Trip/StopTime", "resolve", "-", "UNRESOLVED ANCHOR journal.Trip / journal.StopTime")
		return
	}
	if len(tmpls) != 2 {
		c.Undecided("T0", "journal", "template variables", "-", fmt.Sprintf("expected 2 templates built with Parse(<embedded source>), found %d", len(tmpls)))
	}
	c.Stats["templates"] = len(tmpls)
	c.Stats["funcMap entries"] = len(funcs)
	for _, t := range tmpls {
		fn := "journal:" + t.file
		pos := c.P.pos(t.declPos)
		if t.parseErr != nil {
			c.Violated("T0", fn, "parses", pos, "template does not parse with the declared functions (template.Must panics at init): "+t.parseErr.Error())
			continue
		}
		c.Proved("T0", fn, "parses", pos, "template parses with funcMap "+fmt.Sprint(len(funcs))+" functions: template.Must cannot panic")
		analyseCsvTemplate(c, t, fn, pos, tripT.Type(), stT.Type(), funcs)
	}
	// ExportToCsv wiring and helper tables
	checkExportWiring(c, tmpls)
	checkHelpers(c)
}

func analyseCsvTemplate(c *Ctx, t *tmplInfo, fn, pos string, tripT, stT types.Type, funcs map[string]*ast.FuncLit) {
	root := t.tree.Root.Nodes
	if len(root) < 2 {
		c.Violated("T1", fn, "shape", pos, "template is not `header` followed by a range")
		return
	}
	hdr, ok := root[0].(*parse.TextNode)
	if !ok {
		c.Violated("T1", fn, "header", pos, "template does not start with a literal header line")
		return
	}
	header := string(hdr.Text)
	if !strings.HasSuffix(header, "\n") || strings.Count(header, "\n") != 1 {
		c.Violated("T1", fn, "header", pos, fmt.Sprintf("header must be exactly one line terminated by a newline, got %q", header))
		return
	}
	cols := strings.Split(strings.TrimSuffix(header, "\n"), ",")
	c.Proved("T1", fn, "header", pos, fmt.Sprintf("%d columns: %s", len(cols), strings.Join(cols, ",")))
	rng, ok := root[1].(*parse.RangeNode)
	if !ok {
		c.Violated("T1", fn, "outer range", pos, "header is not followed by a range over the trips")
		return
	}
	for _, n := range root[2:] {
		if tn, ok := n.(*parse.TextNode); !ok || strings.TrimSpace(string(tn.Text)) != "" || len(tn.Text) != 0 {
			if ok && len(tn.Text) == 0 {
				continue
			}
			c.Violated("T1", fn, "trailing output", pos, fmt.Sprintf("output after the rows: %q", n.String()))
		}
	}
	if rng.ElseList != nil {
		c.Violated("T1", fn, "range else", pos, "range has an else branch: rows invented for an empty journal")
	}
	if !isDot(rng.Pipe) {
		c.Violated("T1", fn, "outer range subject", pos, "outer range does not iterate over the data passed to Execute (.)")
	}
	outerVar := ""
	if len(rng.Pipe.Decl) == 1 {
		outerVar = rng.Pipe.Decl[0].Ident[0]
	} else if len(rng.Pipe.Decl) > 1 {
		c.Violated("T1", fn, "outer range variables", pos, "outer range declares index and element variables")
	}
	body := rng.List.Nodes
	rowNodes := body
	elemT := tripT
	nested := false
	// nested range over .StopTimes ?
	var inner *parse.RangeNode
	for _, n := range body {
		if r, ok := n.(*parse.RangeNode); ok {
			inner = r
		}
	}
	if inner != nil {
		nested = true
		for _, n := range body {
			switch x := n.(type) {
			case *parse.RangeNode:
			case *parse.TextNode:
				if len(x.Text) != 0 {
					c.Violated("T1", fn, "text between the ranges", pos, fmt.Sprintf("literal output %q between the trip range and the stop-time range", string(x.Text)))
				}
			default:
				c.Violated("T1", fn, "node between the ranges", pos, "unexpected "+n.String()+" in the trip range")
			}
		}
		if inner.ElseList != nil {
			c.Violated("T1", fn, "inner range else", pos, "inner range has an else branch")
		}
		ok := false
		if inner.Pipe != nil && len(inner.Pipe.Cmds) == 1 && len(inner.Pipe.Cmds[0].Args) == 1 && len(inner.Pipe.Decl) == 0 {
			if f, isF := inner.Pipe.Cmds[0].Args[0].(*parse.FieldNode); isF && len(f.Ident) == 1 && f.Ident[0] == "StopTimes" {
				ok = true
			}
		}
		c.Check(ok, "T1", fn, "inner range subject", pos, "rows range over .StopTimes of each trip, in order", "inner range does not iterate over .StopTimes of the current trip")
		rowNodes = inner.List.Nodes
		elemT = stT
	}
	// the row: Action ("," Action)* "\n"
	var cells []*parse.ActionNode
	okShape := true
	why := ""
	expectSep := false
	for i, n := range rowNodes {
		switch x := n.(type) {
		case *parse.ActionNode:
			if expectSep {
				okShape, why = false, "two cells without a separator"
			}
			cells = append(cells, x)
			expectSep = true
		case *parse.TextNode:
			txt := string(x.Text)
			last := i == len(rowNodes)-1
			switch {
			case txt == "" && !expectSep:
			case txt == "," && expectSep && !last:
				expectSep = false
			case txt == "\n" && expectSep && last:
			default:
				okShape, why = false, fmt.Sprintf("literal %q inside the row (cells must be separated by exactly ',' and the row terminated by exactly one newline)", txt)
			}
		default:
			okShape, why = false, "row contains "+n.String()+" (if/with/break/template nodes filter or reshape rows)"
		}
	}
	if len(rowNodes) == 0 {
		okShape, why = false, "empty row"
	} else if tn, ok := rowNodes[len(rowNodes)-1].(*parse.TextNode); !ok || string(tn.Text) != "\n" {
		okShape, why = false, "row is not terminated by exactly one newline"
	}
	c.Check(okShape, "T2", fn, "row shape", pos, fmt.Sprintf("%d single-action cells separated by ',' and terminated by one newline", len(cells)), why)
	c.Check(len(cells) == len(cols), "T2", fn, "cell count", pos, "as many cells as header columns", fmt.Sprintf("%d cells for %d header columns", len(cells), len(cols)))
	if len(cells) != len(cols) {
		return
	}
	for i, cell := range cells {
		col := cols[i]
		ci, bad := analyseCell(cell)
		key := "column " + col
		if bad != "" {
			c.Violated("T3", fn, key, pos, bad+": "+ci.desc)
			continue
		}
		baseT := elemT
		if ci.viaVar != "" {
			if !nested || ci.viaVar != outerVar {
				c.Violated("T3", fn, key, pos, "cell refers to variable "+ci.viaVar+" which is not the trip variable of the outer range")
				continue
			}
			baseT = tripT
		}
		field, ft, method, err := resolveChain(baseT, ci.chain)
		if err != "" {
			c.Violated("T3", fn, key, pos, err)
			continue
		}
		wantHelper, wantMethod, what := expectedFormatter(ft)
		var probs []string
		if snakeCase(field) != col && !(col == "track" && field == "Track") {
			probs = append(probs, fmt.Sprintf("column %q shows field %s (%q expected by the header name)", col, field, snakeCase(field)))
		}
		if nested && i == 0 && (ci.viaVar == "" || field != "TripUID") {
			probs = append(probs, "stop-time rows must be keyed by the trip's TripUID ($trip.TripUID)")
		}
		if wantHelper == "?" {
			probs = append(probs, what)
		} else {
			if ci.fn != wantHelper {
				probs = append(probs, fmt.Sprintf("field %s of type %s must be rendered %s; cell is %s", field, ft, what, ci.desc))
			}
			if method != wantMethod {
				probs = append(probs, fmt.Sprintf("field %s of type %s must be rendered %s; cell is %s", field, ft, what, ci.desc))
			}
		}
		if ci.fn != "" {
			if _, ok := funcs[ci.fn]; !ok {
				probs = append(probs, "helper "+ci.fn+" is not in funcMap")
			}
		}
		if len(probs) > 0 {
			c.Violated("T3", fn, key, pos, strings.Join(probs, "; "))
		} else {
			c.Proved("T3", fn, key, pos, fmt.Sprintf("%s <- %s (%s)", col, strings.Join(ci.chain, "."), what))
		}
	}
}

func isDot(p *parse.PipeNode) bool {
	if p == nil || len(p.Cmds) != 1 || len(p.Cmds[0].Args) != 1 {
		return false
	}
	_, ok := p.Cmds[0].Args[0].(*parse.DotNode)
	return ok
}

// checkExportWiring: ExportToCsv executes tripsCsv into TripsCsv and stopTimesCsv into StopTimesCsv, both over journal.Trips.
func checkExportWiring(c *Ctx, tmpls []*tmplInfo) {
	f := c.anchor("journal:(*Journal).ExportToCsv")
	if f == nil {
		return
	}
	fname := shortName(f)
	byVar := map[string]*tmplInfo{}
	for _, t := range tmpls {
		byVar[t.varName] = t
	}
	// template engine: every Execute on a template in the export's region is text/template's
	region := c.regionOf(f)
	for _, g := range region {
		for _, b := range g.Blocks {
			for _, in := range b.Instrs {
				if call, ok := in.(*ssa.Call); ok {
					n := calleeName(call)
					if n != "(*text/template.Template).Execute" && (strings.HasSuffix(n, "template.Template).Execute") || strings.HasSuffix(n, "template.Template).ExecuteTemplate")) {
						c.Violated("T4", fname, "template engine", c.P.ipos(call), "the export is rendered with "+n+", not text/template: values are escaped or rendered differently, ids and tracks are no longer verbatim")
					}
				}
			}
		}
	}
	// which (template, data) pairs can produce the bytes stored into each field: through buffers, phis and helper results
	type origin struct{ tmplVar, data string }
	type env struct {
		m      map[*ssa.Parameter]ssa.Value
		parent *env
	}
	var resolve func(v ssa.Value, e *env, d int) ssa.Value
	resolve = func(v ssa.Value, e *env, d int) ssa.Value {
		for d < 6 {
			prm, ok := v.(*ssa.Parameter)
			if !ok || e == nil {
				break
			}
			a, ok := e.m[prm]
			if !ok {
				break
			}
			v, e = a, e.parent
			d++
		}
		return v
	}
	var origins func(v ssa.Value, e *env, d int) ([]origin, bool)
	origins = func(v ssa.Value, e *env, d int) ([]origin, bool) {
		if d > 6 {
			return nil, false
		}
		switch x := v.(type) {
		case *ssa.Const:
			if x.Value == nil {
				return nil, true // nil bytes on an error path
			}
			return nil, false
		case *ssa.Phi:
			var out []origin
			for _, ed := range x.Edges {
				o, ok := origins(ed, e, d+1)
				if !ok {
					return nil, false
				}
				out = append(out, o...)
			}
			return out, true
		case *ssa.Extract:
			if call, ok := x.Tuple.(*ssa.Call); ok {
				return originsOfCall(c, call, x.Index, e, d, origins, func(m map[*ssa.Parameter]ssa.Value) *env { return &env{m, e} })
			}
			return nil, false
		case *ssa.Call:
			if calleeName(x) == "(*bytes.Buffer).Bytes" {
				buf := x.Call.Args[0]
				var out []origin
				for _, b := range x.Parent().Blocks {
					for _, in := range b.Instrs {
						ex, ok := in.(*ssa.Call)
						if !ok || calleeName(ex) != "(*text/template.Template).Execute" {
							continue
						}
						if mi, ok := ex.Call.Args[1].(*ssa.MakeInterface); !ok || mi.X != buf {
							continue
						}
						o := origin{}
						if ld, ok := resolve(ex.Call.Args[0], e, 0).(*ssa.UnOp); ok {
							if g, ok := ld.X.(*ssa.Global); ok {
								o.tmplVar = g.Name()
							}
						}
						if mi, ok := ex.Call.Args[2].(*ssa.MakeInterface); ok {
							o.data = canon(resolve(mi.X, e, 0))
						}
						out = append(out, o)
					}
				}
				return out, len(out) > 0
			}
			return originsOfCall(c, x, 0, e, d, origins, func(m map[*ssa.Parameter]ssa.Value) *env { return &env{m, e} })
		}
		return nil, false
	}
	want := map[string]string{"TripsCsv": "trips.csv.tmpl", "StopTimesCsv": "stop_times.csv.tmpl"}
	fieldVal := map[string]ssa.Value{}
	for _, fs := range collectFieldStores(region, "journal.CsvExport") {
		fieldVal[fs.field] = fs.store.Val
	}
	var fields []string
	for field := range want {
		fields = append(fields, field)
	}
	sort.Strings(fields)
	for _, field := range fields {
		file := want[field]
		ok := false
		det := "CsvExport." + field + " is not filled from a buffer a template was executed into"
		if v := fieldVal[field]; v != nil {
			os, resolved := origins(v, nil, 0)
			if resolved && len(os) > 0 {
				ok = true
				for _, o := range os {
					ti := byVar[o.tmplVar]
					if ti == nil || ti.file != file || !strings.HasSuffix(o.data, ".Trips)") {
						ok = false
						tf := "?"
						if ti != nil {
							tf = ti.file
						}
						det = fmt.Sprintf("CsvExport.%s is rendered from template %s over %s (expected %s over journal.Trips)", field, tf, o.data, file)
					}
				}
			}
		}
		c.Check(ok, "T4", fname, "CsvExport."+field, c.P.pos(f.Pos()), "executes "+file+" over journal.Trips into this field", det)
	}
}

// originsOfCall: the origins of result idx of a same-module helper, with the helper's parameters bound to the call's
// arguments.
func originsOfCall[O any, E any](c *Ctx, call *ssa.Call, idx int, e E, d int, origins func(ssa.Value, E, int) ([]O, bool), mk func(map[*ssa.Parameter]ssa.Value) E) ([]O, bool) {
	cal := call.Call.StaticCallee()
	if cal == nil || call.Call.IsInvoke() || !c.P.isModuleFn(cal) || len(cal.Blocks) == 0 {
		return nil, false
	}
	m := map[*ssa.Parameter]ssa.Value{}
	for k, a := range call.Call.Args {
		if k < len(cal.Params) {
			m[cal.Params[k]] = a
		}
	}
	ne := mk(m)
	var out []O
	n := 0
	for _, b := range cal.Blocks {
		ret, ok := b.Instrs[len(b.Instrs)-1].(*ssa.Return)
		if !ok || idx >= len(ret.Results) {
			continue
		}
		n++
		o, ok := origins(ret.Results[idx], ne, d+1)
		if !ok {
			return nil, false
		}
		out = append(out, o...)
	}
	return out, n > 0
}

// checkHelpers: nullable helpers return "" exactly on the nil edge; FormatDirectionID is the
// inverse of the static direction decoder with blank for unspecified.
func checkHelpers(c *Ctx) {
	closures := c.funcMapClosures()
	var nullableStr, nullableUnix, fmtDir *ssa.Function
	for _, cl := range closures {
		if len(cl.Params) != 1 {
			continue
		}
		pt := types.Unalias(cl.Params[0].Type())
		if p, ok := pt.Underlying().(*types.Pointer); ok {
			if isTimeTime(types.Unalias(p.Elem())) {
				nullableUnix = cl
			} else if b, ok := p.Elem().Underlying().(*types.Basic); ok && b.Kind() == types.String {
				nullableStr = cl
			}
		} else if n, ok := pt.(*types.Named); ok && n.Obj().Name() == "DirectionID" {
			fmtDir = cl
		}
	}
	checkNullable := func(f *ssa.Function, name string, valueOK func(v ssa.Value, param ssa.Value) bool, what string) {
		if f == nil {
			c.Undecided("T5", "journal.funcMap", name, "-", "helper "+name+" not found by its parameter type")
			return
		}
		// the registered closure may only hand its argument to a helper of the module (a generic "value or zero"): the
		// helper is then what is checked
		for hop := 0; hop < 2 && len(f.Blocks) == 1; hop++ {
			var only *ssa.Call
			n := 0
			for _, in := range f.Blocks[0].Instrs {
				switch x := in.(type) {
				case *ssa.Call:
					only = x
					n++
				case *ssa.Return, *ssa.DebugRef:
				default:
					n += 2
				}
			}
			ret, isRet := f.Blocks[0].Instrs[len(f.Blocks[0].Instrs)-1].(*ssa.Return)
			if n != 1 || !isRet || len(ret.Results) != 1 || ret.Results[0] != ssa.Value(only) || len(only.Call.Args) != 1 || only.Call.Args[0] != ssa.Value(f.Params[0]) {
				break
			}
			h := only.Call.StaticCallee()
			if h == nil || len(h.Blocks) == 0 || len(h.Params) != 1 || h.Pkg == nil && h.Origin() == nil {
				break
			}
			owner := h
			if h.Origin() != nil {
				owner = h.Origin()
			}
			if !c.P.isModuleFn(owner) && !c.P.isModuleFn(h) {
				break
			}
			f = h
		}
		tb, err := extractTable(f)
		if err != nil {
			c.Undecided("T5", shortName(f), name+" table", c.P.pos(f.Pos()), err.Error())
			return
		}
		param := f.Params[0]
		okNil, okVal := false, false
		for _, r := range tb.rows {
			if len(r.conds) != 1 || r.conds[0].subj != param.Name() || r.conds[0].konst != "nil" {
				c.Violated("T5", shortName(f), name+" conditions", c.P.pos(f.Pos()), "helper branches on something other than the nil test of its argument: "+condsString(r.conds))
				return
			}
			isNil := !r.conds[0].neg
			if isNil {
				okNil = r.results[0] == "const:\"\""
			} else {
				okVal = valueOK(r.vals[0], param)
			}
		}
		c.Check(okNil, "T5", shortName(f), name+" nil -> empty cell", c.P.pos(f.Pos()), "returns \"\" on the nil edge", name+" does not render an absent value as an empty cell")
		c.Check(okVal, "T5", shortName(f), name+" value", c.P.pos(f.Pos()), what, name+" does not render a present value as "+what)
	}
	checkNullable(nullableStr, "NullableString", func(v ssa.Value, param ssa.Value) bool {
		ld, ok := v.(*ssa.UnOp)
		return ok && ld.Op == token.MUL && ld.X == param
	}, "the string itself (verbatim)")
	checkNullable(nullableUnix, "NullableUnix", func(v ssa.Value, param ssa.Value) bool {
		call, ok := v.(*ssa.Call)
		if !ok {
			return false
		}
		// the decimal text of t.Unix(), however it is spelled
		if n := calleeName(call); n == "strconv.FormatInt" || n == "strconv.Itoa" {
			if n == "strconv.FormatInt" {
				if base, isK := constInt(call.Call.Args[1]); !isK || base != 10 {
					return false
				}
			}
			if u, isCall := stripConv(call.Call.Args[0]).(*ssa.Call); isCall && calleeName(u) == "(time.Time).Unix" {
				if ld, ok := u.Call.Args[0].(*ssa.UnOp); ok && ld.X == param {
					return true
				}
			}
			return false
		}
		if calleeName(call) != "fmt.Sprintf" {
			return false
		}
		if f, ok := constString(call.Call.Args[0]); !ok || f != "%d" {
			return false
		}
		// the single variadic argument derives from (time.Time).Unix(*param)
		found := false
		var walk func(v ssa.Value, d int)
		walk = func(v ssa.Value, d int) {
			if d > 10 || v == nil {
				return
			}
			switch x := v.(type) {
			case *ssa.Call:
				if calleeName(x) == "(time.Time).Unix" {
					if ld, ok := x.Call.Args[0].(*ssa.UnOp); ok && ld.X == param {
						found = true
					}
				}
			case *ssa.Slice:
				walk(x.X, d+1)
			case *ssa.Alloc:
				for _, r := range *x.Referrers() {
					if ia, ok := r.(*ssa.IndexAddr); ok {
						for _, r2 := range *ia.Referrers() {
							if st, ok := r2.(*ssa.Store); ok {
								walk(st.Val, d+1)
							}
						}
					}
				}
			case *ssa.MakeInterface:
				walk(x.X, d+1)
			}
		}
		walk(call.Call.Args[1], 0)
		return found
	}, "decimal Unix seconds (fmt %d of t.Unix())")

	// FormatDirectionID vs parseDirectionID_GTFSStatic
	dec := c.anchor("gtfs:parseDirectionID_GTFSStatic")
	if fmtDir == nil {
		c.Undecided("T5", "journal.funcMap", "FormatDirectionID", "-", "helper FormatDirectionID not found by its parameter type")
		return
	}
	if dec == nil {
		return
	}
	et, err1 := extractTable(fmtDir)
	dt, err2 := extractTable(dec)
	if err1 != nil || err2 != nil {
		c.Undecided("T5", shortName(fmtDir), "FormatDirectionID table", c.P.pos(fmtDir.Pos()), fmt.Sprint(err1, err2))
		return
	}
	em, edef, e1 := et.pairs(fmtDir.Params[0].Name(), 0)
	dm, ddef, e2 := dt.pairs(dec.Params[0].Name(), 0)
	if e1 != nil || e2 != nil {
		c.Undecided("T5", shortName(fmtDir), "FormatDirectionID table", c.P.pos(fmtDir.Pos()), fmt.Sprint(e1, e2))
		return
	}
	// inverse: for every decoder row "d" -> K, encoder K -> "d"; encoder default "" ; decoder default (unspecified) must map to ""
	var probs []string
	for k, v := range dm {
		enumKey := strings.TrimPrefix(v, "const:")
		if got := em[enumKey]; got != "const:"+k {
			probs = append(probs, fmt.Sprintf("decoder maps %s to %s but the export renders %s as %s", k, v, v, got))
		}
	}
	if edef != "const:\"\"" {
		probs = append(probs, "unspecified direction is not rendered as an empty cell (default row returns "+edef+")")
	}
	if got, ok := em[strings.TrimPrefix(ddef, "const:")]; ok && got != "const:\"\"" {
		probs = append(probs, "the decoder's default value is rendered as "+got)
	}
	if len(em) != len(dm) {
		probs = append(probs, fmt.Sprintf("export table has %d rows, decoder table %d", len(em), len(dm)))
	}
	c.Check(len(probs) == 0, "T5", shortName(fmtDir), "FormatDirectionID inverse of the static decoder", c.P.pos(fmtDir.Pos()),
		"table "+et.String()+" inverts "+dt.String(), strings.Join(probs, "; "))
}
