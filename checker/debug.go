package main

import (
	"fmt"
	"os"
	"sort"

	"golang.org/x/tools/go/ssa"
)

func dumpExternals(p *Program) {
	seen := map[string][]string{}
	for _, fn := range p.ModFns {
		if isProtoPkg(fnPkgPath(fn)) {
			continue
		}
		for _, b := range fn.Blocks {
			for _, in := range b.Instrs {
				call, ok := in.(ssa.CallInstruction)
				if !ok {
					continue
				}
				cc := call.Common()
				if _, isB := cc.Value.(*ssa.Builtin); isB {
					continue
				}
				if f := cc.StaticCallee(); f != nil && p.fnIndex[f] {
					continue
				}
				name := calleeName(call)
				if cc.IsInvoke() {
					// module interface?
					if n := namedOf(cc.Value.Type()); n != nil && n.Obj().Pkg() != nil && len(n.Obj().Pkg().Path()) >= len(modPath) && n.Obj().Pkg().Path()[:len(modPath)] == modPath {
						continue
					}
				}
				if name == "" {
					name = "<dynamic> " + cc.Value.Type().String()
				}
				seen[name] = append(seen[name], shortName(fn))
			}
		}
	}
	var ks []string
	for k := range seen {
		ks = append(ks, k)
	}
	sort.Strings(ks)
	for _, k := range ks {
		fmt.Printf("%-70s %d  e.g. %s\n", k, len(seen[k]), seen[k][0])
	}
}

func debugf(format string, a ...any) {
	if os.Getenv("GTFSDEBUG") != "" {
		fmt.Fprintf(os.Stderr, "DEBUG "+format+"\n", a...)
	}
}
