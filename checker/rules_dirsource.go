package main

// C19: iterator protocol of the directory-backed feed source, decided on the CFG.

import (
	"fmt"
	"go/token"
	"go/types"
	"strings"

	"golang.org/x/tools/go/ssa"
)

// acyclicPaths enumerates the paths from `start` that end at a block without successors (return/panic)
// or that come back to `start` (loop continue). visit receives the block sequence and whether it looped.
func acyclicPaths(start *ssa.BasicBlock, visit func(blocks []*ssa.BasicBlock, looped bool)) int {
	n := 0
	var rec func(b *ssa.BasicBlock, path []*ssa.BasicBlock, on map[*ssa.BasicBlock]bool)
	rec = func(b *ssa.BasicBlock, path []*ssa.BasicBlock, on map[*ssa.BasicBlock]bool) {
		if n > 50000 {
			return
		}
		path = append(path, b)
		if len(b.Succs) == 0 {
			n++
			visit(append([]*ssa.BasicBlock{}, path...), false)
			return
		}
		on[b] = true
		for _, s := range b.Succs {
			if s == start {
				n++
				visit(append([]*ssa.BasicBlock{}, path...), true)
				continue
			}
			if on[s] {
				continue // inner cycle: not followed
			}
			rec(s, path, on)
		}
		delete(on, b)
	}
	rec(start, nil, map[*ssa.BasicBlock]bool{})
	return n
}

// edgeTaken returns the branch condition and outcome taken when leaving path[i]; `after` is the
// block following the last path element (the loop header for a path that loops back), or nil.
func edgeTaken(path []*ssa.BasicBlock, i int, after *ssa.BasicBlock) (cond ssa.Value, val bool, ok bool) {
	b := path[i]
	iff, isIf := b.Instrs[len(b.Instrs)-1].(*ssa.If)
	if !isIf {
		return nil, false, false
	}
	var next *ssa.BasicBlock
	if i+1 < len(path) {
		next = path[i+1]
	} else {
		next = after
	}
	if next == nil {
		return nil, false, false
	}
	if b.Succs[0] == next && b.Succs[1] != next {
		cnd, v := normalizeCond(iff.Cond, true)
		return cnd, v, true
	}
	if b.Succs[1] == next && b.Succs[0] != next {
		cnd, v := normalizeCond(iff.Cond, false)
		return cnd, v, true
	}
	return nil, false, false
}

func runDirSource(c *Ctx) {
	p := c.P
	next := c.anchor("journal:(*DirectoryGtfsrtSource).Next")
	ctor := c.anchor("journal:NewDirectoryGtfsrtSource")
	if next != nil {
		dirNext(c, next)
	}
	if ctor != nil {
		dirCtor(c, ctor)
	}
	// CLI wiring: the journal command builds the journal from the directory source and exports it
	cmdPkg := p.SSAPkg[pkgPathOf("cmd")]
	if cmdPkg == nil {
		c.Undecided("DIR", "cmd", "journal command wiring", "-", "package cmd not found")
		return
	}
	bj := c.anchor("journal:BuildJournal")
	found := false
	for _, fn := range p.ModFns {
		if fnPkgPath(fn) != pkgPathOf("cmd") {
			continue
		}
		for _, b := range fn.Blocks {
			for _, in := range b.Instrs {
				call, ok := in.(*ssa.Call)
				if !ok || staticCallee(call) != bj || bj == nil {
					continue
				}
				// first argument: MakeInterface(Extract0(NewDirectoryGtfsrtSource(...)))
				src := call.Call.Args[0]
				if mi, ok := src.(*ssa.MakeInterface); ok {
					src = mi.X
				}
				okSrc := false
				if ex, ok := src.(*ssa.Extract); ok && ex.Index == 0 {
					if cc, ok := ex.Tuple.(*ssa.Call); ok && staticCallee(cc) == ctor {
						okSrc = true
					}
				}
				found = true
				c.Check(okSrc, "DIR", shortName(fn), "journal command feeds BuildJournal from the directory source", p.ipos(call),
					"BuildJournal(source, ...) with source = NewDirectoryGtfsrtSource(path)", "the CLI journal command does not build the journal from NewDirectoryGtfsrtSource")
			}
		}
	}
	if !found {
		c.Undecided("DIR", "cmd", "journal command wiring", "-", "no call of journal.BuildJournal in package cmd")
	}
}

// filesField: the source's list of pending file names: its one []string field (whatever it is called).
func filesField(t types.Type) string {
	if f := fieldOfType(t, "[]string"); f != "" {
		return f
	}
	return "fileNames"
}

func isFileNamesAddr(v ssa.Value, recv ssa.Value) bool {
	fa, ok := v.(*ssa.FieldAddr)
	return ok && fa.X == recv && fieldName(fa.X.Type(), fa.Field) == filesField(fa.X.Type())
}

func isLoadOfFileNames(v ssa.Value, recv ssa.Value) bool {
	ld, ok := v.(*ssa.UnOp)
	return ok && ld.Op == token.MUL && isFileNamesAddr(ld.X, recv)
}

func dirNext(c *Ctx, fn *ssa.Function) {
	p := c.P
	fname := shortName(fn)
	pos := p.pos(fn.Pos())
	recv := fn.Params[0]
	loops := naturalLoops(fn)
	if len(loops) != 1 {
		c.Undecided("DIR", fname, "loop structure", pos, fmt.Sprintf("expected one retry loop, found %d", len(loops)))
		return
	}
	l := loops[0]
	bodyB := newBinder(c)
	bodyB.showBodies = true
	// a fallible step: a call whose last result is an error
	errIndex := func(call *ssa.Call) int {
		t, ok := call.Type().(*types.Tuple)
		if !ok || t.Len() < 2 || t.At(t.Len()-1).Type().String() != "error" {
			return -1
		}
		return t.Len() - 1
	}
	// ... or a helper of the module that answers (parsed message, ok): ok is true exactly for the successful parse of
	// the bytes read from the path it is given
	okHelpers := map[*ssa.Function]bool{}
	okIndex := func(call *ssa.Call) int {
		h := call.Call.StaticCallee()
		if h == nil || call.Call.IsInvoke() || !c.P.isModuleFn(h) || len(h.Blocks) == 0 {
			return -1
		}
		good, seen := okHelpers[h]
		if !seen {
			good = readAndParseHelper(c, h)
			okHelpers[h] = good
		}
		if !good {
			return -1
		}
		return 1
	}
	popHelpers := map[*ssa.Function]bool{}
	isPop := func(call *ssa.Call) bool {
		h := call.Call.StaticCallee()
		if h == nil || call.Call.IsInvoke() || !c.P.isModuleFn(h) || len(h.Blocks) == 0 || len(call.Call.Args) != 1 || call.Call.Args[0] != ssa.Value(recv) {
			return false
		}
		good, seen := popHelpers[h]
		if !seen {
			good = popFrontHelper(h)
			popHelpers[h] = good
		}
		return good
	}
	isTake := func(call *ssa.Call) bool {
		h := call.Call.StaticCallee()
		if h == nil || call.Call.IsInvoke() || !c.P.isModuleFn(h) || len(call.Call.Args) == 0 || call.Call.Args[0] != ssa.Value(recv) {
			return false
		}
		f, ok := takeFrontHelper(h)
		return ok && f == filesField(recv.Type())
	}
	nPaths := 0
	var problems []string
	sawReturnValue, sawSkip, sawReturnNil := false, false, false
	nPaths = acyclicPaths(l.Header, func(path []*ssa.BasicBlock, looped bool) {
		var removals, frontReadsBeforeRemoval, otherStores int
		var emptyTest string // "", "true", "false"
		removed := false
		var frontVal ssa.Value
		failed, succeeded := map[*ssa.Call]bool{}, map[*ssa.Call]bool{}
		var steps []*ssa.Call
		var pops []*ssa.Call // calls of a validated "take the front name" helper on this path
		for i, b := range path {
			for _, in := range b.Instrs {
				switch x := in.(type) {
				case *ssa.UnOp:
					if x.Op == token.MUL {
						if ia, ok := x.X.(*ssa.IndexAddr); ok && isLoadOfFileNames(ia.X, recv) {
							if k, isC := constInt(ia.Index); isC && k == 0 && !removed {
								frontReadsBeforeRemoval++
								frontVal = x
							} else {
								problems = append(problems, p.ipos(x)+": element of the list of names read other than the front element before its removal")
							}
						}
					}
				case *ssa.Store:
					if isFileNamesAddr(x.Addr, recv) {
						sl, ok := x.Val.(*ssa.Slice)
						one := int64(-1)
						if ok && sl.Low != nil {
							one, _ = constInt(sl.Low)
						}
						if ok && isLoadOfFileNames(sl.X, recv) && one == 1 && sl.High == nil && sl.Max == nil {
							removals++
							removed = true
						} else {
							otherStores++
						}
					}
				case *ssa.Call:
					if errIndex(x) >= 0 || okIndex(x) >= 0 {
						steps = append(steps, x)
					}
					if isPop(x) {
						pops = append(pops, x)
					}
					if isTake(x) {
						// the unguarded form: takes the front name, so one must be known to be left
						if emptyTest != "false" {
							problems = append(problems, p.ipos(x)+": the front name is taken without a test that one is left")
						}
						if removed {
							problems = append(problems, p.ipos(x)+": a second name is taken on one trip through the loop")
						}
						removals++
						removed = true
						frontReadsBeforeRemoval++
						frontVal = x
					}
				}
			}
			var after *ssa.BasicBlock
			if looped {
				after = l.Header
			}
			if cond, val, ok := edgeTaken(path, i, after); ok {
				if un, isNot := cond.(*ssa.UnOp); isNot && un.Op == token.NOT {
					cond, val = un.X, !val
				}
				if ex, isEx := cond.(*ssa.Extract); isEx {
					if cc, isCall := ex.Tuple.(*ssa.Call); isCall && isPop(cc) && ex.Index == 1 {
						// the helper answers ok exactly when a name was left, and has then removed it
						if val {
							emptyTest = "false"
							removals++
							removed = true
							frontReadsBeforeRemoval++
							for _, r := range *cc.Referrers() {
								if e0, isE0 := r.(*ssa.Extract); isE0 && e0.Index == 0 {
									frontVal = e0
								}
							}
						} else {
							emptyTest = "true"
						}
					}
					if cc, isCall := ex.Tuple.(*ssa.Call); isCall && errIndex(cc) < 0 && ex.Index == okIndex(cc) {
						if val {
							succeeded[cc] = true
						} else {
							failed[cc] = true
						}
					}
				}
				if bo, isB := cond.(*ssa.BinOp); isB {
					// emptiness test
					if lc, isCall := bo.X.(*ssa.Call); isCall && isBuiltin(lc, "len") && isLoadOfFileNames(lc.Call.Args[0], recv) {
						if k, isC := constInt(bo.Y); isC && k == 0 && (bo.Op == token.EQL || bo.Op == token.NEQ) {
							if (bo.Op == token.EQL) == val {
								emptyTest = "true"
							} else {
								emptyTest = "false"
							}
						}
						// len > 0 / len >= 1 (names are left) and len <= 0 / len < 1 (none is)
						if k, isC := constInt(bo.Y); isC {
							left, isCmp := false, false
							switch {
							case (bo.Op == token.GTR && k == 0) || (bo.Op == token.GEQ && k == 1):
								left, isCmp = true, true
							case (bo.Op == token.LEQ && k == 0) || (bo.Op == token.LSS && k == 1):
								left, isCmp = false, true
							}
							if isCmp {
								if left == val {
									emptyTest = "false"
								} else {
									emptyTest = "true"
								}
							}
						}
					}
					// error tests
					if ex, isEx := bo.X.(*ssa.Extract); isEx && isNilConst(bo.Y) {
						if cc, ok := ex.Tuple.(*ssa.Call); ok && ex.Index == errIndex(cc) {
							if (bo.Op == token.NEQ) == val {
								failed[cc] = true
							} else {
								succeeded[cc] = true
							}
						}
					}
				}
			}
		}
		last := path[len(path)-1]
		var ret *ssa.Return
		if !looped {
			ret, _ = last.Instrs[len(last.Instrs)-1].(*ssa.Return)
			if ret == nil {
				problems = append(problems, p.pos(last.Instrs[0].Pos())+": path ends in a panic")
				return
			}
		}
		desc := fmt.Sprintf("path[empty=%s failed=%d ok=%d looped=%v]", emptyTest, len(failed), len(succeeded), looped)
		if otherStores > 0 {
			problems = append(problems, desc+": the list of names is assigned something other than list[1:]")
		}
		if emptyTest == "" {
			problems = append(problems, desc+": the path does not test whether file names remain")
			return
		}
		if emptyTest == "true" {
			if ret == nil || !isNilConst(ret.Results[0]) {
				problems = append(problems, desc+": with no file names left the stream must end (return nil)")
			} else {
				sawReturnNil = true
			}
			if removals > 0 {
				problems = append(problems, desc+": removes an element although none is left")
			}
			return
		}
		// non-empty
		if removals != 1 {
			problems = append(problems, fmt.Sprintf("%s: %d front removals on one trip through the loop (each file must be consumed exactly once)", desc, removals))
		}
		if frontReadsBeforeRemoval < 1 {
			problems = append(problems, desc+": the front file name is not read before it is removed")
		}
		if ret != nil && isNilConst(ret.Results[0]) {
			problems = append(problems, desc+": the stream ends (return nil) although file names remain: a bad file must be skipped, not end the stream")
			return
		}
		if looped {
			if len(failed) == 0 {
				problems = append(problems, desc+": a file is dropped although reading and parsing it did not fail (the loop continues without returning it)")
			} else {
				sawSkip = true
			}
			return
		}
		// a value is returned: nothing failed on the way, and the value is the parse of the bytes read from the front file
		if len(failed) > 0 {
			problems = append(problems, desc+": a value is returned although a step failed")
			return
		}
		okVal := false
		if ex, ok := ret.Results[0].(*ssa.Extract); ok && ex.Index == 0 {
			if fc, ok := ex.Tuple.(*ssa.Call); ok && succeeded[fc] {
				e := bodyB.bind(ret.Results[0])
				derives := frontVal != nil
				if derives {
					derives = false
					for _, a := range fc.Call.Args {
						if derivedFrom(a, map[ssa.Value]bool{frontVal: true}, true) {
							derives = true
						}
					}
				}
				// the bytes parsed are the bytes read: ParseRealtime(os.ReadFile(<path from the front name>)#0, ...)#0
				if derives && (strings.Contains(e, "ParseRealtime(os.ReadFile(") || okIndex(fc) >= 0) {
					okVal = true
				}
			}
		}
		if !okVal {
			problems = append(problems, desc+": the value returned is not the successful parse of the bytes just read from the front file")
		} else {
			sawReturnValue = true
		}
	})
	c.Stats["DIR Next paths enumerated"] = nPaths
	if !sawReturnNil {
		problems = append(problems, "no path ends the stream on an empty list")
	}
	if !sawReturnValue {
		problems = append(problems, "no path returns a parsed file")
	}
	if !sawSkip {
		problems = append(problems, "no path skips a file that cannot be read or parsed")
	}
	// both failures are noticed: the error that decides the skip is os.ReadFile's or ParseRealtime's, wherever the two
	// calls are made (in Next itself or in a helper that hands their errors on)
	readSeen, parseSeen := false, false
	for _, g := range c.regionOf(fn) {
		for _, b := range g.Blocks {
			for _, in := range b.Instrs {
				call, ok := in.(*ssa.Call)
				if !ok {
					continue
				}
				name := calleeName(call)
				if name != "os.ReadFile" && name != modPath+".ParseRealtime" {
					continue
				}
				noticed := false
				for _, r := range *call.Referrers() {
					ex, isEx := r.(*ssa.Extract)
					if !isEx || ex.Index != 1 {
						continue
					}
					for _, r2 := range *ex.Referrers() {
						switch y := r2.(type) {
						case *ssa.BinOp:
							if isNilConst(y.Y) || isNilConst(y.X) {
								noticed = true
							}
						case *ssa.Return:
							noticed = true // handed on to the caller, which tests it (checked on the paths above)
							_ = y
						}
					}
				}
				if name == "os.ReadFile" {
					readSeen = noticed
				} else {
					parseSeen = noticed
				}
			}
		}
	}
	if !readSeen {
		problems = append(problems, "the error of os.ReadFile is not looked at: an unreadable file is not skipped")
	}
	if !parseSeen {
		problems = append(problems, "the error of ParseRealtime is not looked at: an unparseable file is not skipped")
	}
	c.Check(len(problems) == 0, "DIR", fname, "iterator protocol", pos,
		fmt.Sprintf("all %d paths through the retry loop: empty list -> end; otherwise exactly one front removal after reading the front name, a failed read or parse continues, success returns the parse of that file", nPaths),
		strings.Join(dedup(problems), "; "))
	// G4: the loop is a consumer loop: every trip around it removes one element (established above) and it exits on empty
	c.Check(len(problems) == 0, "G4", fname, "retry loop terminates", pos, "consumer loop: each iteration shortens the list by one, exit on empty", "loop variant (one removal per iteration, exit on empty) not established")
}

// popFrontHelper: h(src) (name, ok): loop-free; on the path where len(src.names) == 0 it answers ok == false and touches
// nothing; on the other it reads names[0], stores names[1:] into the field (once) and answers (that name, true).
func popFrontHelper(h *ssa.Function) bool {
	if h.Signature.Results().Len() != 2 || len(h.Params) != 1 || len(naturalLoops(h)) > 0 {
		return false
	}
	recv := h.Params[0]
	okAll, sawEmpty, sawTake := true, false, false
	enumPaths(h, func(path []*ssa.BasicBlock) {
		empty := ""
		removals := 0
		var front ssa.Value
		var joined *ssa.Call
		for i, b := range path {
			for _, in := range b.Instrs {
				switch x := in.(type) {
				case *ssa.UnOp:
					if ia, ok := x.X.(*ssa.IndexAddr); ok && x.Op == token.MUL && isLoadOfFileNames(ia.X, recv) {
						if k, isC := constInt(ia.Index); isC && k == 0 && removals == 0 {
							front = x
						} else {
							okAll = false
						}
					}
				case *ssa.Store:
					if isFileNamesAddr(x.Addr, recv) {
						sl, ok := x.Val.(*ssa.Slice)
						one := int64(-1)
						if ok && sl.Low != nil {
							one, _ = constInt(sl.Low)
						}
						if ok && isLoadOfFileNames(sl.X, recv) && one == 1 && sl.High == nil && sl.Max == nil {
							removals++
						} else {
							okAll = false
						}
					}
				case *ssa.Call:
					if calleeName(x) == "path/filepath.Join" {
						joined = x // the name put behind the directory: what the caller opens (checked there)
						continue
					}
					if !isBuiltin(x, "len") {
						okAll = false
					}
				}
			}
			if i+1 < len(path) {
				if iff, isIf := b.Instrs[len(b.Instrs)-1].(*ssa.If); isIf {
					if bo, isB := iff.Cond.(*ssa.BinOp); isB {
						if lc, isCall := bo.X.(*ssa.Call); isCall && isBuiltin(lc, "len") && isLoadOfFileNames(lc.Call.Args[0], recv) {
							if k, isC := constInt(bo.Y); isC && k == 0 && (bo.Op == token.EQL || bo.Op == token.NEQ) {
								taken := b.Succs[0] == path[i+1]
								if (bo.Op == token.EQL) == taken {
									empty = "true"
								} else {
									empty = "false"
								}
							}
						}
					}
				}
			}
		}
		last := path[len(path)-1]
		ret, isRet := last.Instrs[len(last.Instrs)-1].(*ssa.Return)
		if !isRet || empty == "" {
			okAll = false
			return
		}
		flag, isC := ret.Results[1].(*ssa.Const)
		if !isC {
			okAll = false
			return
		}
		fv, _ := constBool(flag)
		if empty == "true" {
			sawEmpty = true
			if fv || removals != 0 {
				okAll = false
			}
			return
		}
		sawTake = true
		answersFront := ret.Results[0] == front
		if joined != nil && ret.Results[0] == ssa.Value(joined) && front != nil {
			// filepath.Join(dir, front): the front name is the last element handed to Join
			if sl, isSl := joined.Call.Args[0].(*ssa.Slice); isSl {
				if arr, isAlloc := sl.X.(*ssa.Alloc); isAlloc {
					n := int64(-1)
					if at, isArr := deref(arr.Type()).Underlying().(*types.Array); isArr {
						n = at.Len()
					}
					for _, r := range *arr.Referrers() {
						if ia, isIA := r.(*ssa.IndexAddr); isIA {
							if k, isK := constInt(ia.Index); isK && k == n-1 {
								for _, rr := range *ia.Referrers() {
									if st, isSt := rr.(*ssa.Store); isSt && st.Val == front {
										answersFront = true
									}
								}
							}
						}
					}
				}
			}
		}
		if !fv || removals != 1 || front == nil || !answersFront {
			okAll = false
		}
	})
	return okAll && sawEmpty && sawTake
}

// readAndParseHelper: h(path) (msg, ok): every returned tuple has a constant ok; with ok == true the message is the
// result of ParseRealtime applied to the bytes os.ReadFile returned for a path derived from h's parameter, and the
// return is dominated by the success edges of both error tests; with ok == false the return is dominated by the
// failure edge of one of the two (so no readable, parseable file is reported as bad).
func readAndParseHelper(c *Ctx, h *ssa.Function) bool {
	res := h.Signature.Results()
	if res.Len() != 2 || len(h.Params) == 0 {
		return false
	}
	if bt, ok := res.At(1).Type().Underlying().(*types.Basic); !ok || bt.Kind() != types.Bool {
		return false
	}
	if len(naturalLoops(h)) > 0 {
		return false
	}
	params := map[ssa.Value]bool{}
	for _, pa := range h.Params {
		params[pa] = true
	}
	errEdge := func(blk *ssa.BasicBlock, call *ssa.Call, wantFail bool) bool {
		for _, ce := range dominatingConds(blk) {
			bo, ok := ce.Cond.(*ssa.BinOp)
			if !ok || !isNilConst(bo.Y) {
				continue
			}
			ex, ok := bo.X.(*ssa.Extract)
			if !ok || ex.Tuple != ssa.Value(call) || ex.Index != 1 {
				continue
			}
			fails := (bo.Op == token.NEQ) == ce.Val
			if fails == wantFail {
				return true
			}
		}
		return false
	}
	sawTrue := false
	for _, blk := range h.Blocks {
		ret, ok := blk.Instrs[len(blk.Instrs)-1].(*ssa.Return)
		if !ok {
			continue
		}
		for _, r := range ret.Results {
			if phi, isPhi := r.(*ssa.Phi); isPhi && phi.Block() == blk {
				return false // merged returns: not the plain early-return form
			}
		}
		k, isC := ret.Results[1].(*ssa.Const)
		if !isC {
			return false
		}
		okv, _ := constBool(k)
		var read, parse *ssa.Call
		for _, b2 := range h.Blocks {
			for _, in := range b2.Instrs {
				if call, isCall := in.(*ssa.Call); isCall {
					switch calleeName(call) {
					case "os.ReadFile":
						read = call
					case modPath + ".ParseRealtime":
						parse = call
					}
				}
			}
		}
		if read == nil || parse == nil {
			return false
		}
		if okv {
			ex, isEx := ret.Results[0].(*ssa.Extract)
			if !isEx || ex.Tuple != ssa.Value(parse) || ex.Index != 0 {
				return false
			}
			bytesArg, isEx2 := parse.Call.Args[0].(*ssa.Extract)
			if !isEx2 || bytesArg.Tuple != ssa.Value(read) || bytesArg.Index != 0 {
				return false
			}
			if !derivedFrom(read.Call.Args[0], params, true) {
				return false
			}
			if !errEdge(blk, read, false) || !errEdge(blk, parse, false) {
				return false
			}
			sawTrue = true
		} else if !errEdge(blk, read, true) && !errEdge(blk, parse, true) {
			return false
		}
	}
	return sawTrue
}

func dedup(s []string) []string {
	seen := map[string]bool{}
	var out []string
	for _, x := range s {
		if !seen[x] {
			seen[x] = true
			out = append(out, x)
		}
	}
	return out
}

func dirCtor(c *Ctx, fn *ssa.Function) {
	p := c.P
	fname := shortName(fn)
	pos := p.pos(fn.Pos())
	var readDir *ssa.Call
	for _, b := range fn.Blocks {
		for _, in := range b.Instrs {
			if call, ok := in.(*ssa.Call); ok && calleeName(call) == "os.ReadDir" {
				readDir = call
			}
		}
	}
	if readDir == nil {
		c.Undecided("DIR", fname, "listing", pos, "os.ReadDir call not found")
		return
	}
	loops := naturalLoops(fn)
	var problems []string
	var theLoop *Loop
	var src ssa.Value
	for _, l := range loops {
		// a range over the listing
		for b := range l.Blocks {
			for _, in := range b.Instrs {
				if ia, ok := in.(*ssa.IndexAddr); ok {
					if ex, ok := ia.X.(*ssa.Extract); ok && ex.Tuple == ssa.Value(readDir) && ex.Index == 0 {
						if ok, _ := isRangeIndexOver(ia.Index, ia.X); ok {
							theLoop = l
						}
					}
				}
			}
		}
	}
	if theLoop == nil {
		if dirCtorViaHelper(c, fn, readDir) {
			return
		}
		c.Violated("DIR", fname, "every entry listed", pos, "no range loop over the directory listing")
		return
	}
	// every trip through the body appends the entry's Name() exactly once to the list of names: either directly to the
	// source's field, or to a local slice that is later stored into that field
	var acc *ssa.Phi     // local-slice form: the loop-carried slice
	var filled ssa.Value // indexed-fill form with a local slice
	for _, in := range theLoop.Header.Instrs {
		if phi, ok := in.(*ssa.Phi); ok && shortType(phi.Type()) == "[]string" {
			acc = phi
		}
	}
	nPaths := acyclicPaths(theLoop.Header, func(path []*ssa.BasicBlock, looped bool) {
		if !looped {
			return // loop exit path
		}
		appends := 0
		for _, b := range path {
			for _, in := range b.Instrs {
				switch x := in.(type) {
				case *ssa.Store:
					// indexed fill: list[i] = entry.Name() with i the loop's own index and list made with the listing's length
					if ia, isIA := x.Addr.(*ssa.IndexAddr); isIA && shortType(deref(ia.Type())) == "string" {
						listing := ssa.Value(nil)
						for _, r := range *readDir.Referrers() {
							if ex, ok := r.(*ssa.Extract); ok && ex.Index == 0 {
								listing = ex
							}
						}
						if r, _ := isRangeIndexOver(ia.Index, listing); r && listing != nil {
							if owner, ok := madeWithLenOf(ia.X, listing); ok {
								if hasNameCall(x.Val) {
									appends++
									if owner != nil {
										src = owner
									} else {
										filled = ia.X
									}
								} else {
									problems = append(problems, p.ipos(x)+": stored value is not the entry's Name()")
								}
							} else {
								problems = append(problems, p.ipos(x)+": the list that is filled by index was not made with the listing's length")
							}
						}
						continue
					}
					fa, ok := x.Addr.(*ssa.FieldAddr)
					if !ok || fieldName(fa.X.Type(), fa.Field) != filesField(fa.X.Type()) || typeName(fa.X.Type()) != "journal.DirectoryGtfsrtSource" {
						continue
					}
					if isAppendOf(x.Val, x.Addr) {
						if hasNameCall(appendedElem(x.Val)) {
							appends++
							src = fa.X
						} else {
							problems = append(problems, p.ipos(x)+": appended value is not the entry's Name()")
						}
					} else {
						problems = append(problems, p.ipos(x)+": the list of names is assigned something other than append(list, name)")
					}
				case *ssa.Call:
					if acc != nil && isBuiltin(x, "append") && shortType(x.Type()) == "[]string" && reachesPhi(x.Call.Args[0], acc, theLoop, 0) {
						// must be the value carried to the next iteration
						carried := false
						for _, ed := range acc.Edges {
							if ed == ssa.Value(x) {
								carried = true
							}
						}
						if !carried {
							problems = append(problems, p.ipos(x)+": an appended list is dropped")
						}
						if hasNameCall(appendedElem(x)) {
							appends++
						} else {
							problems = append(problems, p.ipos(x)+": appended value is not the entry's Name()")
						}
					}
				}
			}
		}
		if appends != 1 {
			problems = append(problems, fmt.Sprintf("a trip through the listing loop appends %d names (an entry is skipped or duplicated)", appends))
		}
	})
	_ = nPaths
	c.Check(len(problems) == 0, "DIR", fname, "every entry listed", pos, "each directory entry's Name() is appended exactly once", strings.Join(dedup(problems), "; "))
	// the list is sorted after the loop, before every successful return, and what the source keeps is that sorted list.
	// The list is one backing array under several names: the loop-carried local slice, the slice filled by index, and
	// the source's field once one of these was stored there (sort.Strings sorts in place).
	isFieldAddr := func(v ssa.Value) bool {
		fa, ok := v.(*ssa.FieldAddr)
		return ok && typeName(fa.X.Type()) == "journal.DirectoryGtfsrtSource" && fieldName(fa.X.Type(), fa.Field) == filesField(fa.X.Type())
	}
	var isList func(v ssa.Value, d int) bool
	isList = func(v ssa.Value, d int) bool {
		if d > 4 || v == nil {
			return false
		}
		if ld, ok := v.(*ssa.UnOp); ok && ld.Op == token.MUL && isFieldAddr(ld.X) {
			return true
		}
		if filled != nil && v == filled {
			return true
		}
		if acc != nil && v == ssa.Value(acc) {
			return true
		}
		if phi, ok := v.(*ssa.Phi); ok {
			n := 0
			for _, ed := range phi.Edges {
				if isNilConst(ed) {
					continue
				}
				if !isList(ed, d+1) {
					return false
				}
				n++
			}
			return n > 0
		}
		return false
	}
	var sortCall *ssa.Call
	for _, b := range fn.Blocks {
		if theLoop.Blocks[b] {
			continue
		}
		for _, in := range b.Instrs {
			if call, ok := in.(*ssa.Call); ok && calleeName(call) == "sort.Strings" && isList(call.Call.Args[0], 0) {
				sortCall = call
			}
		}
	}
	// after the loop: the sort cannot be followed by another trip through the loop, and no path from the loop to a
	// successful return goes around it
	okSort := sortCall != nil && !canReach(sortCall.Block(), theLoop.Header)
	if okSort {
		var keeps []*ssa.Store // stores of the list into the source's field, outside the loop
		for _, b := range fn.Blocks {
			for _, in := range b.Instrs {
				st, ok := in.(*ssa.Store)
				if !ok || !isFieldAddr(st.Addr) {
					continue
				}
				if theLoop.Blocks[b] && isAppendOf(st.Val, st.Addr) {
					continue // the append form, checked above
				}
				if isList(st.Val, 0) {
					keeps = append(keeps, st)
				} else if theLoop.Blocks[b] || canReach(theLoop.Header, b) {
					okSort = false // during or after the listing loop the source is given some other list
				}
				// (a store that can only run before the loop is the initialisation of the field)
			}
		}
		for _, b := range fn.Blocks {
			ret, isRet := b.Instrs[len(b.Instrs)-1].(*ssa.Return)
			if !isRet || isNilConst(ret.Results[0]) {
				continue
			}
			if !(dominatesInstr(sortCall, ret) || !canReachAvoiding(theLoop.Header, b, sortCall.Block()) || sortCall.Block() == b) {
				okSort = false
			}
			if sortCall.Block() == b && !dominatesInstr(sortCall, ret) {
				okSort = false
			}
			if src == nil {
				// local-slice form: the list reaches the source on every path from the loop to this return
				kept := false
				for _, st := range keeps {
					if dominatesInstr(st, ret) || (st.Block() != b && !canReachAvoiding(theLoop.Header, b, st.Block())) {
						kept = true
					}
				}
				if !kept {
					// or the source object is built from the list (composite literal stored before the return)
					okSort = false
				}
			}
		}
	}
	c.Check(okSort, "DIR", fname, "names sorted before the source is returned", pos, "sort.Strings(names) dominates every successful return, the source keeps that list and nothing reorders it afterwards", "file names are not sorted lexicographically on every path to the successful return")
}

// dirCtorViaHelper: the constructor hands the listing to a helper of the module that returns the sorted names, and
// keeps what it returns. The helper ranges over its parameter, appends every entry's Name() exactly once on every trip
// to one loop-carried local list, sorts that list after the loop and returns it; the constructor stores the call's
// result into the source's list of names before every successful return and sorts / reorders nothing afterwards.
// Emits the two obligations of the in-line form and answers true when the code has this shape.
func dirCtorViaHelper(c *Ctx, fn *ssa.Function, readDir *ssa.Call) bool {
	p := c.P
	fname := shortName(fn)
	pos := p.pos(fn.Pos())
	var listing ssa.Value
	for _, r := range *readDir.Referrers() {
		if ex, ok := r.(*ssa.Extract); ok && ex.Index == 0 {
			listing = ex
		}
	}
	if listing == nil || listing.Referrers() == nil {
		return false
	}
	var hcall *ssa.Call
	var h *ssa.Function
	var prm *ssa.Parameter
	for _, r := range *listing.Referrers() {
		call, ok := r.(*ssa.Call)
		if !ok || call.Call.IsInvoke() {
			continue
		}
		g := call.Call.StaticCallee()
		if g == nil || !p.isModuleFn(g) || len(g.Blocks) == 0 || len(g.Params) != len(call.Call.Args) || g.Signature.Results().Len() != 1 || shortType(g.Signature.Results().At(0).Type()) != "[]string" {
			continue
		}
		for i, a := range call.Call.Args {
			if a == listing {
				hcall, h, prm = call, g, g.Params[i]
			}
		}
	}
	if h == nil {
		return false
	}
	var problems []string
	loops := naturalLoops(h)
	var theLoop *Loop
	for _, l := range loops {
		for b := range l.Blocks {
			for _, in := range b.Instrs {
				if ia, ok := in.(*ssa.IndexAddr); ok && ia.X == ssa.Value(prm) {
					if ok, _ := isRangeIndexOver(ia.Index, ia.X); ok {
						theLoop = l
					}
				}
			}
		}
	}
	if theLoop == nil || len(loops) != 1 {
		return false
	}
	var acc *ssa.Phi
	for _, in := range theLoop.Header.Instrs {
		if phi, ok := in.(*ssa.Phi); ok && shortType(phi.Type()) == "[]string" {
			acc = phi
		}
	}
	if acc == nil {
		return false
	}
	acyclicPaths(theLoop.Header, func(path []*ssa.BasicBlock, looped bool) {
		if !looped {
			return
		}
		appends := 0
		for _, b := range path {
			for _, in := range b.Instrs {
				if x, ok := in.(*ssa.Call); ok && isBuiltin(x, "append") && shortType(x.Type()) == "[]string" && reachesPhi(x.Call.Args[0], acc, theLoop, 0) {
					carried := false
					for _, ed := range acc.Edges {
						if ed == ssa.Value(x) {
							carried = true
						}
					}
					if !carried {
						problems = append(problems, p.ipos(x)+": an appended list is dropped")
					}
					if hasNameCall(appendedElem(x)) {
						appends++
					} else {
						problems = append(problems, p.ipos(x)+": appended value is not the entry's Name()")
					}
				}
			}
		}
		if appends != 1 {
			problems = append(problems, fmt.Sprintf("a trip through the listing loop appends %d names (an entry is skipped or duplicated)", appends))
		}
	})
	// the accumulator starts empty
	for i, ed := range acc.Edges {
		if theLoop.Blocks[theLoop.Header.Preds[i]] {
			continue
		}
		if !isNilConst(ed) {
			if ms, ok := ed.(*ssa.MakeSlice); !ok || func() bool { k, isC := constInt(ms.Len); return !isC || k != 0 }() {
				problems = append(problems, "the list of names does not start empty")
			}
		}
	}
	c.Check(len(problems) == 0, "DIR", fname, "every entry listed", pos, "each directory entry's Name() is appended exactly once (in "+h.Name()+")", strings.Join(dedup(problems), "; "))
	// sorted after the loop, and what is returned is that list
	var sortCall *ssa.Call
	for _, b := range h.Blocks {
		if theLoop.Blocks[b] {
			continue
		}
		for _, in := range b.Instrs {
			if call, ok := in.(*ssa.Call); ok && calleeName(call) == "sort.Strings" && call.Call.Args[0] == ssa.Value(acc) {
				sortCall = call
			}
		}
	}
	okSort := sortCall != nil && !canReach(sortCall.Block(), theLoop.Header)
	if okSort {
		for _, b := range h.Blocks {
			ret, isRet := b.Instrs[len(b.Instrs)-1].(*ssa.Return)
			if !isRet {
				continue
			}
			if ret.Results[0] != ssa.Value(acc) || !dominatesInstr(sortCall, ret) {
				okSort = false
			}
		}
	}
	// the constructor keeps the result: stored into the field before every successful return, nothing else stored there
	// afterwards and no other sort of it
	if okSort {
		var keep *ssa.Store
		for _, b := range fn.Blocks {
			for _, in := range b.Instrs {
				switch x := in.(type) {
				case *ssa.Store:
					fa, ok := x.Addr.(*ssa.FieldAddr)
					if !ok || typeName(fa.X.Type()) != "journal.DirectoryGtfsrtSource" || fieldName(fa.X.Type(), fa.Field) != filesField(fa.X.Type()) {
						continue
					}
					if x.Val == ssa.Value(hcall) {
						keep = x
					} else if canReach(hcall.Block(), b) {
						okSort = false
					}
				case *ssa.Call:
					if n := calleeName(x); (isSortCall(n) || n == "sort.Strings") && canReach(hcall.Block(), b) {
						okSort = false
					}
				}
			}
		}
		if keep == nil {
			okSort = false
		} else {
			for _, b := range fn.Blocks {
				ret, isRet := b.Instrs[len(b.Instrs)-1].(*ssa.Return)
				if !isRet || isNilConst(ret.Results[0]) {
					continue
				}
				if !dominatesInstr(keep, ret) {
					okSort = false
				}
			}
		}
	}
	c.Check(okSort, "DIR", fname, "names sorted before the source is returned", pos, "sort.Strings(names) in "+h.Name()+" dominates its return of that list; the constructor keeps the result before every successful return and nothing reorders it afterwards", "file names are not sorted lexicographically on every path to the successful return")
	return true
}

func hasNameCall(v ssa.Value) bool {
	found := false
	var walk func(v ssa.Value, d int)
	walk = func(v ssa.Value, d int) {
		if v == nil || d > 8 {
			return
		}
		switch x := v.(type) {
		case *ssa.Call:
			if x.Call.IsInvoke() && x.Call.Method.Name() == "Name" {
				found = true
			}
		case *ssa.Slice:
			walk(x.X, d+1)
		case *ssa.Alloc:
			for _, r := range *x.Referrers() {
				if ia, ok := r.(*ssa.IndexAddr); ok {
					for _, r2 := range *ia.Referrers() {
						if st, ok := r2.(*ssa.Store); ok {
							walk(st.Val, d+1)
						}
					}
				}
			}
		}
	}
	walk(v, 0)
	return found
}

// runUnmarshalDiscipline: side obligation of lemma L-req and of the directory source's skip-on-error protocol:
// realtime bytes are decoded only by proto.Unmarshal (which rejects messages that miss required fields), and a
// decoding error makes ParseRealtime return an error.
func runUnmarshalDiscipline(c *Ctx) {
	p := c.P
	pr := c.anchor("gtfs:ParseRealtime")
	var other []string
	var unmarshal *ssa.Call
	for _, fn := range p.ModFns {
		pk := fnPkgPath(fn)
		if isProtoPkg(pk) || strings.Contains(pk, "/internal/") {
			continue
		}
		for _, b := range fn.Blocks {
			for _, in := range b.Instrs {
				switch x := in.(type) {
				case *ssa.Call:
					name := calleeName(x)
					if name == "google.golang.org/protobuf/proto.Unmarshal" {
						if fn == pr {
							unmarshal = x
						}
						continue
					}
					if strings.Contains(name, "UnmarshalOptions") || strings.Contains(name, "prototext.") || strings.Contains(name, "protojson.") || strings.HasSuffix(name, ".UnmarshalMerge") {
						other = append(other, shortName(fn)+" calls "+trimMod(name)+" at "+p.ipos(x))
					}
				case *ssa.Store:
					if fa, ok := x.Addr.(*ssa.FieldAddr); ok && strings.HasSuffix(typeName(fa.X.Type()), "UnmarshalOptions") {
						other = append(other, shortName(fn)+" configures proto.UnmarshalOptision."+fieldName(fa.X.Type(), fa.Field)+" at "+p.ipos(x))
					}
				}
			}
		}
	}
	c.Check(len(other) == 0, "UNMARSHAL", "module", "feeds are decoded only by proto.Unmarshal", "-", "no UnmarshalOptions / AllowPartial / text or JSON decoding: messages missing required fields are rejected", "messages can be decoded leniently ("+strings.Join(other, "; ")+"): required fields may be nil (lemma L-req) and files that do not parse as GTFS-realtime are no longer skipped")
	if pr == nil {
		return
	}
	ok := false
	if unmarshal != nil {
		// the error is tested and its non-nil edge returns (nil, non-nil error)
		for _, r := range *unmarshal.Referrers() {
			bo, isBo := r.(*ssa.BinOp)
			if !isBo || !isNilConst(bo.Y) {
				continue
			}
			for _, r2 := range *bo.Referrers() {
				iff, isIf := r2.(*ssa.If)
				if !isIf {
					continue
				}
				errBlock := iff.Block().Succs[0]
				if bo.Op == token.EQL {
					errBlock = iff.Block().Succs[1]
				}
				if ret, isRet := errBlock.Instrs[len(errBlock.Instrs)-1].(*ssa.Return); isRet && isNilConst(ret.Results[0]) && !isNilConst(ret.Results[1]) {
					ok = true
				}
			}
		}
	}
	// ... and nothing is answered without having decoded: every return with a nil error comes after the call
	if unmarshal != nil {
		early := ""
		for _, blk := range pr.Blocks {
			ret, isRet := blk.Instrs[len(blk.Instrs)-1].(*ssa.Return)
			if !isRet || len(ret.Results) != 2 || !isNilConst(ret.Results[1]) {
				continue
			}
			if !dominatesInstr(unmarshal, ret) {
				early = p.ipos(ret)
			}
		}
		c.Check(early == "", "UNMARSHAL", shortName(pr), "no answer without decoding", p.pos(pr.Pos()), "every return with a nil error is dominated by the call of proto.Unmarshal", "the return at "+early+" answers a message without an error before proto.Unmarshal has run: input that is not a feed message (an empty file) is reported as a feed")
	}
	c.Check(ok, "UNMARSHAL", shortName(pr), "a message that does not decode is an error", p.pos(pr.Pos()), "proto.Unmarshal's error leads to `return nil, err`", "ParseRealtime does not report a decoding failure as an error: corrupt files would be journaled as empty feeds")
}

// madeWithLenOf: slice value s is make([]T, len(listing)) -- directly, or as the only value ever stored into the
// field of a local object it is loaded from (then that object is returned as owner).
func madeWithLenOf(s, listing ssa.Value) (owner ssa.Value, ok bool) {
	isMake := func(v ssa.Value) bool {
		ms, ok := v.(*ssa.MakeSlice)
		if !ok {
			return false
		}
		l, ok := lenOf(ms.Len)
		return ok && l == listing
	}
	if isMake(s) {
		return nil, true
	}
	ld, isLd := s.(*ssa.UnOp)
	if !isLd || ld.Op != token.MUL {
		return nil, false
	}
	fa, isFA := ld.X.(*ssa.FieldAddr)
	if !isFA {
		return nil, false
	}
	al, isAl := fa.X.(*ssa.Alloc)
	if !isAl {
		return nil, false
	}
	n := 0
	for _, r := range *al.Referrers() {
		fa2, ok := r.(*ssa.FieldAddr)
		if !ok || fa2.Field != fa.Field {
			continue
		}
		for _, r2 := range *fa2.Referrers() {
			if st, ok := r2.(*ssa.Store); ok && st.Addr == ssa.Value(fa2) {
				n++
				if !isMake(st.Val) {
					return nil, false
				}
			}
		}
	}
	return al, n > 0
}

// takeFrontHelper: h(src) T: loop-free; on every path it reads element 0 of one slice field of its pointer parameter
// and then stores field[1:] into that field, exactly once, and stores nothing else into it. It is the unguarded form
// of popFrontHelper: the caller must know the list to be non-empty (checked where it is called, and by the bounds
// rule inside the helper). Returns the field's name.
func takeFrontHelper(h *ssa.Function) (string, bool) {
	if h == nil || len(h.Blocks) == 0 || len(h.Params) == 0 || len(naturalLoops(h)) > 0 {
		return "", false
	}
	recv := h.Params[0]
	if _, isPtr := recv.Type().Underlying().(*types.Pointer); !isPtr {
		return "", false
	}
	field := ""
	okAll, nPaths := true, 0
	isField := func(addr ssa.Value) (string, bool) {
		fa, ok := addr.(*ssa.FieldAddr)
		if !ok || fa.X != ssa.Value(recv) {
			return "", false
		}
		if _, isSl := deref(fa.Type()).Underlying().(*types.Slice); !isSl {
			return "", false
		}
		return fieldName(fa.X.Type(), fa.Field), true
	}
	isLoadOf := func(v ssa.Value, f string) bool {
		ld, ok := v.(*ssa.UnOp)
		if !ok || ld.Op != token.MUL {
			return false
		}
		g, ok := isField(ld.X)
		return ok && g == f
	}
	enumPaths(h, func(path []*ssa.BasicBlock) {
		nPaths++
		removals, frontRead := 0, false
		for _, b := range path {
			for _, in := range b.Instrs {
				switch x := in.(type) {
				case *ssa.UnOp:
					if ia, ok := x.X.(*ssa.IndexAddr); ok && x.Op == token.MUL {
						if ld, isLd := ia.X.(*ssa.UnOp); isLd {
							if f, isF := isField(ld.X); isF {
								if k, isC := constInt(ia.Index); isC && k == 0 && removals == 0 && (field == "" || field == f) {
									field, frontRead = f, true
								}
							}
						}
					}
				case *ssa.Store:
					f, isF := isField(x.Addr)
					if !isF {
						continue
					}
					sl, ok := x.Val.(*ssa.Slice)
					one := int64(-1)
					if ok && sl.Low != nil {
						one, _ = constInt(sl.Low)
					}
					if ok && (field == "" || field == f) && isLoadOf(sl.X, f) && one == 1 && sl.High == nil && sl.Max == nil && frontRead {
						field = f
						removals++
					} else {
						okAll = false
					}
				}
			}
		}
		if removals != 1 {
			okAll = false
		}
	})
	return field, okAll && nPaths > 0 && field != ""
}
