package main

// C02: wire table (A3), zone provenance, units, nil-preserving converters.

import (
	"fmt"
	"go/token"
	"go/types"
	"regexp"
	"regexp/syntax"
	"sort"
	"strings"

	"golang.org/x/tools/go/ssa"
)

type wireRow struct {
	field  string   // "gtfs.TripID.RouteID"
	leaves []string // proto leaves ("TripDescriptor.RouteId")
	calls  []string // transformers allowed between the wire field and the struct field
	must   []string // substrings the expression must contain
}

// DESIGN Appendix A.3, transcribed from gtfs-realtime.proto (not from the code).
var wireOracle = []wireRow{
	{"gtfs.Realtime.CreatedAt", []string{"FeedHeader.Timestamp"}, []string{"time.Unix", "time.Time.In", clsZone}, []string{"time.Time.In(time.Unix("}},
	{"gtfs.TripID.ID", []string{"TripDescriptor.TripId"}, nil, nil},
	{"gtfs.TripID.RouteID", []string{"TripDescriptor.RouteId"}, nil, nil},
	{"gtfs.TripID.DirectionID", []string{"TripDescriptor.DirectionId"}, []string{"(*uint32)→(gtfs.DirectionID)"}, nil},
	{"gtfs.TripID.ScheduleRelationship", []string{"TripDescriptor.ScheduleRelationship"}, nil, nil},
	{"gtfs.TripID.HasStartTime", []string{"TripDescriptor.StartTime"}, []string{"(*string)→(bool,time.Duration)"}, nil},
	{"gtfs.TripID.StartTime", []string{"TripDescriptor.StartTime"}, []string{"(*string)→(bool,time.Duration)"}, nil},
	{"gtfs.TripID.HasStartDate", []string{"TripDescriptor.StartDate"}, []string{"(*string)→(bool,time.Time)", clsZone}, nil},
	{"gtfs.TripID.StartDate", []string{"TripDescriptor.StartDate"}, []string{"(*string)→(bool,time.Time)", clsZone}, []string{"{" + clsZone + "}("}},
	{"gtfs.StopTimeUpdate.StopSequence", []string{"TripUpdate_StopTimeUpdate.StopSequence"}, nil, nil},
	{"gtfs.StopTimeUpdate.StopID", []string{"TripUpdate_StopTimeUpdate.StopId"}, nil, nil},
	{"gtfs.StopTimeUpdate.Arrival", []string{"TripUpdate_StopTimeUpdate.Arrival"}, []string{"(*proto.TripUpdate_StopTimeEvent)→(*gtfs.StopTimeEvent)"}, nil},
	{"gtfs.StopTimeUpdate.Departure", []string{"TripUpdate_StopTimeUpdate.Departure"}, []string{"(*proto.TripUpdate_StopTimeEvent)→(*gtfs.StopTimeEvent)"}, nil},
	{"gtfs.StopTimeUpdate.ScheduleRelationship", []string{"TripUpdate_StopTimeUpdate.ScheduleRelationship"}, nil, nil},
	{"gtfs.StopTimeUpdate.NyctTrack", []string{"TripUpdate.StopTimeUpdate"}, []string{"GetTrack"}, []string{"GetTrack(param:<gtfs.ParseRealtimeOptions>.Extension,"}},
	{"gtfs.StopTimeEvent.Time", []string{"TripUpdate_StopTimeEvent.Time"}, []string{"time.Unix", "time.Time.In", clsZone}, []string{"time.Time.In(time.Unix(", "{" + clsZone + "}("}},
	{"gtfs.StopTimeEvent.Delay", []string{"TripUpdate_StopTimeEvent.Delay"}, nil, []string{"* const:1000000000"}},
	{"gtfs.StopTimeEvent.Uncertainty", []string{"TripUpdate_StopTimeEvent.Uncertainty"}, nil, nil},
	{"gtfs.VehicleID.ID", []string{"VehicleDescriptor.Id"}, nil, nil},
	{"gtfs.VehicleID.Label", []string{"VehicleDescriptor.Label"}, nil, nil},
	{"gtfs.VehicleID.LicensePlate", []string{"VehicleDescriptor.LicensePlate"}, nil, nil},
	{"gtfs.Vehicle.Position", nil, []string{"(*proto.VehiclePosition)→(*gtfs.Position)"}, []string{"{(*proto.VehiclePosition)→(*gtfs.Position)}(param:<proto.VehiclePosition>)"}},
	{"gtfs.Vehicle.CurrentStopSequence", []string{"VehiclePosition.CurrentStopSequence"}, nil, nil},
	{"gtfs.Vehicle.StopID", []string{"VehiclePosition.StopId"}, nil, nil},
	{"gtfs.Vehicle.CurrentStatus", []string{"VehiclePosition.CurrentStatus"}, nil, nil},
	{"gtfs.Vehicle.Timestamp", []string{"VehiclePosition.Timestamp"}, []string{"(*uint64)→(*time.Time)", clsZone}, []string{"{" + clsZone + "}("}},
	{"gtfs.Vehicle.CongestionLevel", []string{"VehiclePosition.CongestionLevel"}, nil, nil},
	{"gtfs.Vehicle.OccupancyStatus", []string{"VehiclePosition.OccupancyStatus"}, nil, nil},
	{"gtfs.Vehicle.OccupancyPercentage", []string{"VehiclePosition.OccupancyPercentage"}, nil, nil},
	{"gtfs.Position.Latitude", []string{"Position.Latitude"}, nil, nil},
	{"gtfs.Position.Longitude", []string{"Position.Longitude"}, nil, nil},
	{"gtfs.Position.Bearing", []string{"Position.Bearing"}, nil, nil},
	{"gtfs.Position.Odometer", []string{"Position.Odometer"}, nil, nil},
	{"gtfs.Position.Speed", []string{"Position.Speed"}, nil, nil},
	{"gtfs.Alert.ID", nil, nil, []string{"param:<string>"}},
	{"gtfs.Alert.Cause", []string{"Alert.Cause"}, nil, nil},
	{"gtfs.Alert.Effect", []string{"Alert.Effect"}, nil, nil},
	{"gtfs.Alert.Header", []string{"Alert.HeaderText"}, []string{"(*proto.TranslatedString)→([]gtfs.AlertText)"}, nil},
	{"gtfs.Alert.Description", []string{"Alert.DescriptionText"}, []string{"(*proto.TranslatedString)→([]gtfs.AlertText)"}, nil},
	{"gtfs.Alert.URL", []string{"Alert.Url"}, []string{"(*proto.TranslatedString)→([]gtfs.AlertText)"}, nil},
	{"gtfs.AlertActivePeriod.StartsAt", []string{"TimeRange.Start"}, []string{"(*uint64)→(*time.Time)", clsZone}, []string{"{" + clsZone + "}("}},
	{"gtfs.AlertActivePeriod.EndsAt", []string{"TimeRange.End"}, []string{"(*uint64)→(*time.Time)", clsZone}, []string{"{" + clsZone + "}("}},
	{"gtfs.AlertInformedEntity.AgencyID", []string{"EntitySelector.AgencyId"}, nil, nil},
	{"gtfs.AlertInformedEntity.StopID", []string{"EntitySelector.StopId"}, nil, nil},
	{"gtfs.AlertText.Text", []string{"TranslatedString_Translation.Text"}, nil, nil},
	{"gtfs.AlertText.Language", []string{"TranslatedString_Translation.Language"}, nil, nil},
}

// fields with several legitimate stores (selector value and synthesised fallback entities)
var wireMulti = map[string][]wireRow{
	"gtfs.AlertInformedEntity.RouteID": {
		{"", []string{"EntitySelector.RouteId"}, nil, nil},
		{"", []string{"EntitySelector.Trip"}, []string{"append", "(*proto.TripDescriptor)→(*gtfs.TripID)", "(*proto.TripDescriptor)→(gtfs.TripID)"}, nil}, // fallback: the trip descriptor's route id
		{"", nil, []string{"append", "(gtfs._)→([]string)"}, nil}, // the keys of the fallback table, possibly handed out (sorted) by a method of it
	},
	"gtfs.AlertInformedEntity.RouteType": {
		{"", []string{"EntitySelector.RouteType"}, []string{"(*int32)→(gtfs.RouteType)"}, nil},
		{"", nil, nil, []string{"const:10000"}},
	},
	"gtfs.AlertInformedEntity.DirectionID": {
		{"", []string{"EntitySelector.DirectionId"}, []string{"(*uint32)→(gtfs.DirectionID)"}, nil},
		{"", nil, nil, []string{"const:"}},
		{"", nil, []string{"(gtfs._,string)→(gtfs.DirectionID)", "(gtfs._)→([]string)"}, nil}, // the fallback table asked for a route's direction (what it answers is the FALLBACK rules' subject)
	},
	"gtfs.AlertInformedEntity.TripID": {
		{"", []string{"EntitySelector.Trip"}, []string{"(*proto.TripDescriptor)→(*gtfs.TripID)"}, nil},
		{"", nil, nil, []string{"const:nil"}},
	},
}

// clsZone: the helper that resolves the configured timezone (opts.Timezone or UTC), whatever it is called.
const clsZone = "()→(*time.Location)"

func matchWire(b *binder, expr string, row wireRow) string {
	var leaves []string
	for _, l := range leavesOf(expr) {
		if strings.HasPrefix(l, "proto:") {
			leaves = append(leaves, strings.TrimPrefix(l, "proto:"))
		}
	}
	sort.Strings(leaves)
	want := append([]string{}, row.leaves...)
	sort.Strings(want)
	if strings.Join(leaves, ",") != strings.Join(want, ",") {
		return fmt.Sprintf("wire field(s) %v reach it; gtfs-realtime.proto binds it to %v", leaves, want)
	}
	allowedCalls := row.calls
	if strings.Contains(expr, "=>{") {
		for _, a := range row.calls {
			if a == "(*uint64)→(*time.Time)" {
				// the optional-timestamp converter spelled out: what it does is time.Unix(..).In(zone)
				allowedCalls = append(append([]string{}, row.calls...), "time.Unix", "time.Time.In")
			}
		}
	}
	for _, cl := range callsOf(expr) {
		if b.classOf[cl] == clsZone {
			continue // the zone helper only supplies context (which zone), checked by the ZONE rules
		}
		if !b.classAllowed(cl, allowedCalls) {
			if bodyShown(expr, cl) {
				continue // a helper of the module whose result is spelled out next to the call: the body is what is matched
			}
			return "value passes through " + cl + " " + b.classOf[cl] + ", which is not an allowed transformer for this field"
		}
	}
	for _, m := range row.must {
		if !b.containsForm(expr, m) {
			return "expected form " + m + " not found"
		}
	}
	if unconditionalRows[row.field] && strings.HasPrefix(expr, "phi(") {
		// the parts of a trip identifier are what their converters answer, on every path: a part that is decoded only
		// when another part is present merges identifiers that differ in it
		return "the field takes its converter's answer only on some paths (" + clip(expr, 80) + "): whether it is decoded depends on something else than its own wire field"
	}
	return ""
}

// unconditionalRows: fields whose store is the converter's result on every path (no merge with a constant).
var unconditionalRows = map[string]bool{
	"gtfs.TripID.HasStartTime": true, "gtfs.TripID.StartTime": true, "gtfs.TripID.HasStartDate": true, "gtfs.TripID.StartDate": true,
}

// bodyShown: every call of cl in expr is rendered as cl(args)=>{body}.
func bodyShown(expr, cl string) bool {
	n := 0
	for from := 0; ; {
		i := strings.Index(expr[from:], cl+"(")
		if i < 0 {
			break
		}
		i += from
		from = i + len(cl) + 1
		if i > 0 {
			if ch := expr[i-1]; ch == '_' || ch == '.' || ch == '$' || (ch >= '0' && ch <= '9') || (ch >= 'a' && ch <= 'z') || (ch >= 'A' && ch <= 'Z') {
				continue
			}
		}
		depth := 0
		j := i + len(cl)
		for ; j < len(expr); j++ {
			if expr[j] == '(' {
				depth++
			} else if expr[j] == ')' {
				depth--
				if depth == 0 {
					break
				}
			}
		}
		if j >= len(expr) || !strings.HasPrefix(expr[j+1:], "=>{") {
			return false
		}
		n++
	}
	return n > 0
}

func realtimeFns(c *Ctx) []*ssa.Function {
	fns, _ := c.scope(c.anchors("gtfs:ParseRealtime"), scopeOpts{})
	var out []*ssa.Function
	for _, f := range fns {
		if fnPkgPath(f) == modPath {
			out = append(out, f)
		}
	}
	return out
}

func runWireTable(c *Ctx) {
	p := c.P
	fns := realtimeFns(c)
	b := newBinder(c)
	fnSet := map[*ssa.Function]bool{}
	for _, f := range fns {
		fnSet[f] = true
	}
	types := map[string]bool{}
	rows := map[string]wireRow{}
	for _, r := range wireOracle {
		rows[r.field] = r
		types[r.field[:strings.LastIndex(r.field, ".")]] = true
	}
	for f := range wireMulti {
		types[f[:strings.LastIndex(f, ".")]] = true
	}
	seen := map[string]bool{}
	var tns []string
	for t := range types {
		tns = append(tns, t)
	}
	sort.Strings(tns)
	for _, tn := range tns {
		for _, fs := range collectFieldStores(fns, tn) {
			key := tn + "." + fs.field
			expr := b.bind(fs.store.Val)
			if strings.Contains(expr, "param:<time.Location>") {
				// the zone arrives as a parameter: say which zone the callers pass
				expr = b.bindInContextT(fs.fn, fs.store.Val, fnSet, 0, "*time.Location")
			}
			fname := shortName(fs.fn)
			if multi, ok := wireMulti[key]; ok {
				seen[key] = true
				okAny := false
				var whys []string
				for _, r := range multi {
					why := matchWire(b, expr, r)
					if why == "" {
						okAny = true
					}
					whys = append(whys, why)
				}
				c.Check(okAny, "A3", fname, key, p.ipos(fs.store), key+" <- "+clip(expr, 120), strings.Join(whys, " | ")+" (expression: "+clip(expr, 200)+")")
				continue
			}
			r, ok := rows[key]
			if !ok {
				continue
			}
			// the accumulators' merge stores and the literal flags are handled by other rules
			seen[key] = true
			why := matchWire(b, expr, r)
			if why != "" && strings.Contains(expr, "param:<proto.") {
				// the wire message arrives as a parameter of a helper: say what the callers pass
				for _, prm := range fs.fn.Params {
					if pt := shortType(prm.Type()); strings.HasPrefix(pt, "*proto.") && why != "" {
						if e2 := b.bindInContextT(fs.fn, fs.store.Val, fnSet, 0, pt); matchWire(b, e2, r) == "" {
							expr, why = e2, ""
						} else if e2 != expr {
							why += " [as the callers see it: " + clip(e2, 200) + ": " + matchWire(b, e2, r) + "]"
						}
					}
				}
			}
			if why != "" && strings.Contains(expr, "param:<") {
				// other context (the options' extension, the zone) handed down as parameters too
				direct := map[*ssa.Function]bool{}
				for _, e := range p.Callers(fs.fn) {
					if fnSet[e.Caller] {
						direct[e.Caller] = true
					}
				}
				for _, within := range []map[*ssa.Function]bool{direct, fnSet} {
					if why == "" {
						break
					}
					if e3 := b.bindInContextT(fs.fn, fs.store.Val, within, 0, ""); e3 != expr && matchWire(b, e3, r) == "" {
						expr, why = e3, ""
					}
				}
			}
			if why == "" && unconditionalRows[key] {
				for _, ce := range dominatingConds(fs.store.Block()) {
					bo, isB := ce.Cond.(*ssa.BinOp)
					if isB && (isNilConst(bo.X) || isNilConst(bo.Y)) {
						other := bo.X
						if isNilConst(bo.X) {
							other = bo.Y
						}
						if _, isPrm := other.(*ssa.Parameter); isPrm {
							continue // the descriptor itself is absent
						}
					}
					why = "the field is stored only under " + clip(b.bind(ce.Cond), 80) + ": whether this part of the identifier is decoded depends on something else than its own wire field (identifiers that differ in it merge)"
				}
			}
			timeRow := false
			for _, a := range r.calls {
				if a == "time.Unix" || a == "(*uint64)→(*time.Time)" {
					timeRow = true
				}
			}
			if why != "" && timeRow {
				// a small helper of the module between the wire field and the stored value (a method of the options
				// that converts a timestamp in their zone): match what it returns in terms of its arguments. Only for
				// the rows of instants, whose conversion is pinned down by the ZONE and UNITS rules (time.Unix is handed
				// the wire number and 0, the result is put in the options' zone, absent stays absent); everywhere else a
				// helper of an unknown class stays a violation
				bb := newBinder(c)
				bb.showBodies = true
				if e4 := bb.bind(fs.store.Val); e4 != expr && strings.Contains(e4, "=>{") && matchWire(bb, e4, r) == "" {
					expr, why = e4, ""
				}
			}
			c.Check(why == "", "A3", fname, key, p.ipos(fs.store), key+" <- "+clip(expr, 120), why+" (expression: "+clip(expr, 200)+")")
		}
	}
	// what the wire orders stays in wire order: the only collections the realtime parser sorts are the ones it builds
	// from maps (Realtime.Trips, Realtime.Vehicles) and lists of route ids; stop time updates, informed entities, active
	// periods and texts are transcribed in the order sent (a stop time update without stop_sequence has no sort key)
	{
		var sorted []string
		nSort := 0
		for _, fn := range fns {
			for _, blk := range fn.Blocks {
				for _, in := range blk.Instrs {
					call, ok := in.(*ssa.Call)
					if !ok || !isSortCall(calleeName(call)) {
						continue
					}
					nSort++
					t := sortTarget(call).Type()
					elem := sliceElemName(t)
					switch elem {
					case "gtfs.Trip", "gtfs.Vehicle", "string":
					default:
						if calleeName(call) == "sort.Strings" {
							continue
						}
						sorted = append(sorted, shortType(t)+" at "+p.ipos(call))
					}
				}
			}
		}
		c.Check(len(sorted) == 0, "A3", "gtfs", "wire order is kept", "-", fmt.Sprintf("%d sort calls in the realtime parser, all on map-built outputs or id lists", nSort), "the realtime parser sorts a collection whose order is the sender's: "+strings.Join(sorted, "; "))
	}
	for _, r := range wireOracle {
		if !seen[r.field] {
			c.Violated("A3", "gtfs", r.field, "-", r.field+" is never assigned by the realtime parser: wire field(s) "+strings.Join(r.leaves, ",")+" are dropped")
		}
	}
	for f := range wireMulti {
		if !seen[f] {
			c.Violated("A3", "gtfs", f, "-", f+" is never assigned by the realtime parser")
		}
	}
	// IsEntityInMessage literals
	lit := map[string]string{}
	for _, tn := range []string{"gtfs.Trip", "gtfs.Vehicle"} {
		for _, fs := range collectFieldStores(fns, tn) {
			if fs.field == "IsEntityInMessage" {
				lit[shortName(fs.fn)+"|"+tn] = b.bind(fs.store.Val)
			}
		}
	}
	wantLit := map[string]string{
		"gtfs.parseTripUpdate|gtfs.Trip": "const:true", "gtfs.parseTripUpdate|gtfs.Vehicle": "const:false",
		"gtfs.parseVehicle|gtfs.Trip": "const:false", "gtfs.parseVehicle|gtfs.Vehicle": "const:true",
		"gtfs.parseAlert|gtfs.Trip": "const:false",
	}
	var ks []string
	for k := range wantLit {
		ks = append(ks, k)
	}
	sort.Strings(ks)
	for _, k := range ks {
		c.Check(lit[k] == wantLit[k], "A3", strings.Split(k, "|")[0], "in-message flag of "+strings.Split(k, "|")[1], "-", "flag is "+wantLit[k], fmt.Sprintf("IsEntityInMessage is %q here, it must be %s (only the entity's own kind is 'in the message')", lit[k], wantLit[k]))
	}
}

// runZoneProvenance: every instant built from the wire is expressed in opts.timezoneOrUTC().
func runZoneProvenance(c *Ctx) {
	p := c.P
	fns := realtimeFns(c)
	b := newBinder(c)
	var zoneOKd func(z ssa.Value, fn *ssa.Function, d int) (bool, string)
	zoneOK := func(z ssa.Value, fn *ssa.Function) (bool, string) { return zoneOKd(z, fn, 0) }
	zoneOKd = func(z ssa.Value, fn *ssa.Function, d int) (bool, string) {
		expr := b.bind(z)
		if b.headClass(expr) == clsZone {
			return true, expr
		}
		// a variable captured by a closure is a cell holding what was assigned to it once
		if in := unwrapCell(expr); in != expr && b.headClass(in) == clsZone {
			return true, in
		}
		// a parameter: every caller passes timezoneOrUTC(...)
		if prm, ok := z.(*ssa.Parameter); ok {
			idx := -1
			for i, q := range fn.Params {
				if q == prm {
					idx = i
				}
			}
			callers := p.Callers(fn)
			if len(callers) == 0 {
				return false, "no callers"
			}
			for _, e := range callers {
				args := e.Site.Common().Args
				if idx >= len(args) {
					return false, "caller " + shortName(e.Caller) + " passes nothing"
				}
				if b.headClass(b.bind(args[idx])) == clsZone {
					continue
				}
				// handed down through the caller's own parameter
				if _, isPrm := args[idx].(*ssa.Parameter); isPrm && d < 3 && e.Caller != nil {
					if ok, _ := zoneOKd(args[idx], e.Caller, d+1); ok {
						continue
					}
				}
				return false, "caller " + shortName(e.Caller) + " passes " + clip(b.bind(args[idx]), 80)
			}
			return true, "parameter fed with timezoneOrUTC() by every caller"
		}
		return false, expr
	}
	n := 0
	for _, fn := range fns {
		for _, blk := range fn.Blocks {
			for _, in := range blk.Instrs {
				call, ok := in.(*ssa.Call)
				if !ok {
					continue
				}
				switch calleeName(call) {
				case "time.Unix":
					n++
					// the result is used only as the receiver of .In(zone)
					okUse := true
					var zone ssa.Value
					for _, r := range *call.Referrers() {
						switch u := r.(type) {
						case *ssa.DebugRef:
						case *ssa.Call:
							if calleeName(u) == "(time.Time).In" && u.Call.Args[0] == ssa.Value(call) {
								zone = u.Call.Args[1]
							} else {
								okUse = false
							}
						default:
							okUse = false
						}
					}
					ok2, why := false, "the instant is used without .In(zone)"
					if okUse && zone != nil {
						ok2, why = zoneOK(zone, fn)
					}
					// the instant is the number on the wire: seconds = the (converted) wire value itself, nanoseconds = 0; no
					// arithmetic, no choice between readings (a "this must be milliseconds" heuristic changes valid seconds)
					{
						sec := call.Call.Args[0]
						for {
							cv, isConv := sec.(*ssa.Convert)
							if !isConv {
								break
							}
							sec = cv.X
						}
						whyU := ""
						switch sec.(type) {
						case *ssa.BinOp:
							whyU = "the seconds are computed (" + canon(sec) + ")"
						case *ssa.Phi:
							whyU = "the seconds are chosen between several readings of the wire value"
						}
						if k, isK := constInt(call.Call.Args[1]); !isK || k != 0 {
							whyU = "the nanoseconds are not the constant 0"
						}
						c.Check(whyU == "", "ZONE", shortName(fn), "time.Unix is handed the wire number", p.ipos(call), "seconds = the wire value, nanoseconds = 0", whyU+": the parsed instant is not the one on the wire for every value")
					}
					c.Check(ok2, "ZONE", shortName(fn), "time.Unix expressed in the configured zone", p.ipos(call), "only used as time.Unix(..).In(opts.timezoneOrUTC())", "a Unix timestamp is not converted to the configured timezone: "+why)
				case "time.Date":
					n++
					ok2, why := zoneOK(call.Call.Args[7], fn)
					c.Check(ok2, "ZONE", shortName(fn), "time.Date in the configured zone", p.ipos(call), "location argument is opts.timezoneOrUTC()", "a civil date is not built in the configured timezone: "+why)
				case "time.Now", "time.Since":
					c.Violated("ZONE", shortName(fn), "clock read", p.ipos(call), "the realtime parser reads the clock: a fabricated time can replace a wire value")
				}
			}
		}
	}
	// the options every parsing function works with carry the caller's Timezone: whatever copy or default object is
	// substituted for the caller's options (e.g. to fill in the extension) keeps that field
	nOpts := 0
	for _, fn := range fns {
		for _, blk := range fn.Blocks {
			for _, in := range blk.Instrs {
				call, ok := in.(ssa.CallInstruction)
				if !ok {
					continue
				}
				for _, a := range call.Common().Args {
					if shortType(a.Type()) != "*gtfs.ParseRealtimeOptions" {
						continue
					}
					st := structOf(a.Type())
					idx := -1
					for i := 0; st != nil && i < st.NumFields(); i++ {
						if st.Field(i).Name() == "Timezone" {
							idx = i
						}
					}
					if idx < 0 {
						continue
					}
					nOpts++
					fb := newBinder(c)
					fb.useSite = in
					e := fb.fieldRef(a, idx, 0)
					c.Check(e == "param:<gtfs.ParseRealtimeOptions>.Timezone", "ZONE", shortName(fn), "options passed on keep the caller's timezone", p.ipos(in), "Timezone of the options handed to "+trimMod(calleeName(call))+" is the caller's", "the options object handed to "+trimMod(calleeName(call))+" does not always carry the caller's Timezone (it can be "+clip(e, 120)+"): timestamps are then expressed in UTC although a timezone was configured")
				}
			}
		}
	}
	c.Stats["ZONE options hand-offs"] = nOpts
	c.Stats["ZONE time constructions"] = n
	// timezoneOrUTC: opts.Timezone when set, UTC otherwise
	for _, f := range fnsByClass(fns, clsZone) {
		tb, err := extractTable(f)
		ok := err == nil && len(tb.rows) == 2
		if ok {
			for _, r := range tb.rows {
				if len(r.conds) != 1 || !strings.HasSuffix(r.conds[0].subj, ".Timezone)") || r.conds[0].konst != "nil" {
					ok = false
					continue
				}
				if r.conds[0].neg { // Timezone != nil
					if !strings.HasSuffix(r.results[0], ".Timezone)") {
						ok = false
					}
				} else if !strings.Contains(r.results[0], "time.UTC") {
					ok = false
				}
			}
		}
		desc := ""
		if tb != nil {
			desc = tb.String()
		}
		c.Check(ok, "ZONE", shortName(f), "timezone option resolution", p.pos(f.Pos()), "opts.Timezone when non-nil, time.UTC otherwise", "timezoneOrUTC is not {Timezone != nil -> Timezone; else UTC}: "+desc)
	}
}

// runUnits: start time polynomial, start date construction, direction table, nil-preserving converters.
func runUnits(c *Ctx) {
	p := c.P
	if f := c.anchor("gtfs:parseStartTime"); f != nil {
		ok, why := false, "no successful return"
		// the (flag, duration) pairs the function can return: results merged by phis in the returning block are taken
		// edge by edge, so that the duration is read where the flag is true
		type pair struct{ flag, dur ssa.Value }
		var pairs []pair
		for _, blk := range f.Blocks {
			ret, isRet := blk.Instrs[len(blk.Instrs)-1].(*ssa.Return)
			if !isRet || len(ret.Results) != 2 {
				continue
			}
			// the flag is the boolean result, whichever position it has
			fi, di := 0, 1
			if shortType(f.Signature.Results().At(1).Type()) == "bool" && shortType(f.Signature.Results().At(0).Type()) != "bool" {
				fi, di = 1, 0
			}
			p0, isPhi0 := ret.Results[fi].(*ssa.Phi)
			p1, isPhi1 := ret.Results[di].(*ssa.Phi)
			if isPhi0 && p0.Block() == blk {
				for i, e := range p0.Edges {
					dv := ret.Results[di]
					if isPhi1 && p1.Block() == blk {
						dv = p1.Edges[i]
					}
					pairs = append(pairs, pair{e, dv})
				}
			} else {
				pairs = append(pairs, pair{ret.Results[fi], ret.Results[di]})
			}
		}
		for _, pr := range pairs {
			if k, isC := pr.flag.(*ssa.Const); isC {
				if bv, _ := constBool(k); !bv {
					continue
				}
			}
			poly, perr := polyOf(pr.dur, 0)
			if perr == "" {
				// elements of a local array stand for what was stored in them
				res := map[string]int64{}
				for atom, cf := range poly {
					if strings.HasPrefix(atom, "piece[") {
						var k int64
						fmt.Sscanf(atom, "piece[%d]", &k)
						if e := regionArrayCell(c, f, k); e != "" {
							atom = e
						}
					}
					res[atom] += cf
				}
				poly = res
			}
			if perr != "" {
				why = perr
				continue
			}
			var coefs []string
			for atom, cf := range poly {
				coefs = append(coefs, fmt.Sprintf("%d*%s", cf, atom))
			}
			sort.Strings(coefs)
			got := strings.Join(coefs, " + ")
			want := map[int64]string{3600 * 1e9: "[const(1)]", 60 * 1e9: "[const(2)]", 1e9: "[const(3)]"}
			ok = len(poly) == 3
			for atom, cf := range poly {
				grp, known := want[cf]
				if !known || !strings.Contains(atom, grp) || !strings.Contains(atom, "Atoi(") {
					ok = false
				}
			}
			why = "start time is " + got + "; expected 3600e9*Atoi(m[1]) + 60e9*Atoi(m[2]) + 1e9*Atoi(m[3])"
		}
		c.Check(ok, "UNITS", shortName(f), "HH:MM:SS start time as a duration", p.pos(f.Pos()), "(3600*h + 60*m + s) * time.Second from the three regexp groups", why)
	}
	runStartAcceptance(c, "UNITS")
	if f := c.anchor("gtfs:parseStartDate"); f != nil {
		b := newBinder(c)
		b.showBodies = true // the groups may be converted by a helper
		ok, why := false, "no time.Date call"
		var dateBlocks []*ssa.BasicBlock
		for _, g := range c.regionOf(f) {
			if g == f || strings.HasPrefix(fnPkgPath(g), modPath) && !isProtoPkg(fnPkgPath(g)) {
				dateBlocks = append(dateBlocks, g.Blocks...)
			}
		}
		for _, blk := range dateBlocks {
			for _, in := range blk.Instrs {
				call, isCall := in.(*ssa.Call)
				if !isCall || calleeName(call) != "time.Date" {
					continue
				}
				a := call.Call.Args
				exprs := []string{b.bind(a[0]), b.bind(a[1]), b.bind(a[2])}
				for i := 0; i < 3; i++ {
					// an element of a small array of numbers that a helper filled: what was stored there
					v := a[i]
					for {
						if cv, isConv := v.(*ssa.Convert); isConv {
							v = cv.X
							continue
						}
						if ct, isCT := v.(*ssa.ChangeType); isCT {
							v = ct.X
							continue
						}
						break
					}
					if k, isElem := constArrayElem(v); isElem {
						if e := regionArrayCell(c, f, k); e != "" {
							exprs[i] = strings.ReplaceAll(strings.ReplaceAll(e, "const(", "const:"), ")]", "]")
						}
					}
				}
				ok = strings.Contains(exprs[0], "[const:1]") && strings.Contains(exprs[1], "[const:2]") && strings.Contains(exprs[2], "[const:3]")
				for i := 3; i <= 6; i++ {
					if k, isC := constInt(a[i]); !isC || k != 0 {
						ok = false
					}
				}
				why = fmt.Sprintf("time.Date(%s, %s, %s, ...)", clip(exprs[0], 60), clip(exprs[1], 60), clip(exprs[2], 60))
			}
		}
		c.Check(ok, "UNITS", shortName(f), "YYYYMMDD start date at local midnight", p.pos(f.Pos()), "time.Date(year=group1, month=group2, day=group3, 0, 0, 0, 0, zone)", "start date is not built as midnight of (group1, group2, group3): "+why)
	}
	runDirectionTable(c, "UNITS")
	// nil-preserving converters: nil in <=> nil out
	for _, spec := range []string{"gtfs:convertOptionalTimestamp", "gtfs:parseOptionalTripDescriptor", "gtfs:convertVehiclePosition", "gtfs:parseVehicleDescriptor"} {
		f := c.anchor(spec)
		if f != nil {
			checkNilPreserving(c, f)
		}
	}
	if tu := c.anchor("gtfs:parseTripUpdate"); tu != nil {
		for _, cl := range tu.AnonFuncs {
			if len(cl.Params) == 1 && cl.Signature.Results().Len() == 1 {
				checkNilPreserving(c, cl)
			}
		}
	}
}

// checkNilPreserving: a converter *T -> *U returns nil when its argument is nil, and returns nil only when the argument
// (or, for descriptors, everything in it) is absent.
func checkNilPreserving(c *Ctx, f *ssa.Function) {
	p := c.P
	fname := shortName(f)
	tb, err := c.extractTableComposed(f, 0) // the decision may sit in a (value, ok) helper
	if err != nil {
		tb, err = extractTableCut(f)
	}
	if err != nil {
		c.Undecided("UNITS", fname, "absent stays absent", p.pos(f.Pos()), err.Error())
		return
	}
	pn := f.Params[0].Name()
	for _, prm := range f.Params {
		// the argument that is converted: not the options, the zone or the extension the converter is a method of / is handed
		switch typeName(prm.Type()) {
		case "gtfs.ParseRealtimeOptions", "time.Location", "extensions.Extension":
			continue
		}
		pn = prm.Name()
		break
	}
	nilIn, ok := false, true
	why := ""
	for _, r := range tb.rows {
		argNil := false
		for _, a := range r.conds {
			if !a.opaque && a.subj == pn && a.konst == "nil" && !a.neg {
				argNil = true
			}
			// a nil-safe generated getter on the argument yields nil for a nil argument: its nil outcome includes that case
			if !a.opaque && a.konst == "nil" && !a.neg && strings.HasPrefix(a.subj, "call:Get") && strings.HasSuffix(a.subj, "("+pn+")") {
				argNil = true
			}
		}
		isNilOut := r.results[0] == "const:nil"
		if argNil {
			nilIn = true
			if !isNilOut {
				ok, why = false, "returns a non-nil value for a nil argument (a fabricated value replaces an absent field)"
			}
			continue
		}
		if isNilOut {
			// acceptable only when an inner presence test failed (e.g. position absent, descriptor entirely empty)
			inner := false
			for _, a := range r.conds {
				if (!a.opaque && a.konst == "nil" && !a.neg && a.subj != pn) || strings.Contains(a.subj, "==") || (a.opaque && !a.neg) {
					inner = true
				}
				if !a.opaque && !a.neg && a.subj != pn {
					inner = true
				}
			}
			if !inner {
				ok, why = false, "returns nil although the argument is present (under "+condsString(r.conds)+")"
			}
		}
	}
	c.Check(ok && nilIn, "UNITS", fname, "absent stays absent", p.pos(f.Pos()), "nil argument gives nil; a present argument gives a value", why+" table: "+clip(tb.String(), 300))
}

// localArrayCell: what the k-th element of the function's local array holds when it is read after the loops that fill
// it: the value stored by `arr[k] = v`, or by `arr[i] = v(i)` in a loop whose i visits 0..n-1 (n > k), with i replaced
// by k. "" when there is not exactly one such store.
func localArrayCell(f *ssa.Function, k int64) string {
	var found []string
	for _, b := range f.Blocks {
		for _, in := range b.Instrs {
			st, ok := in.(*ssa.Store)
			if !ok {
				continue
			}
			ia, ok := st.Addr.(*ssa.IndexAddr)
			if !ok || isLocalArrayAlloc(ia.X) == nil {
				continue
			}
			if c, isC := constInt(ia.Index); isC {
				if c == k {
					found = append(found, descr(st.Val))
				}
				continue
			}
			if n, isR := rangeIndexConst(ia.Index); isR && k < n {
				e := strings.ReplaceAll(descr(st.Val), descr(ia.Index), fmt.Sprintf("const(%d)", k))
				found = append(found, foldConstSums(e))
			}
		}
	}
	if len(found) != 1 {
		return ""
	}
	return found[0]
}

var constSumRe = regexp.MustCompile(`const\((\d+)\)\+const\((\d+)\)`)

func foldConstSums(e string) string {
	for i := 0; i < 8; i++ {
		m := constSumRe.FindStringSubmatchIndex(e)
		if m == nil {
			return e
		}
		var a, b int64
		fmt.Sscanf(e[m[2]:m[3]], "%d", &a)
		fmt.Sscanf(e[m[4]:m[5]], "%d", &b)
		e = e[:m[0]] + fmt.Sprintf("const(%d)", a+b) + e[m[1]:]
	}
	return e
}

// unwrapCell: cell(&(X)) -> X (a captured variable with a single assignment, as the binder renders it).
func unwrapCell(e string) string {
	for strings.HasPrefix(e, "cell(&(") && strings.HasSuffix(e, "))") && !strings.Contains(e, " | ") {
		e = e[len("cell(&(") : len(e)-2]
	}
	return e
}

// regionArrayCell: what element k of the one local array of numbers holds that the function or a helper it reaches
// fills (constant-index stores, or a loop over the array's indices); "" unless exactly one function has such an array.
func regionArrayCell(c *Ctx, f *ssa.Function, k int64) string {
	var found []string
	seen := map[*ssa.Function]bool{}
	for _, g := range append([]*ssa.Function{f}, c.regionOf(f)...) {
		if seen[g] || len(g.Blocks) == 0 {
			continue
		}
		seen[g] = true
		if e := localArrayCell(g, k); e != "" {
			found = append(found, e)
		}
	}
	if len(found) != 1 {
		return ""
	}
	return found[0]
}

// constArrayElem: v is element k (a constant) of an array value or of an array variable.
func constArrayElem(v ssa.Value) (int64, bool) {
	switch x := v.(type) {
	case *ssa.Index:
		if _, isArr := x.X.Type().Underlying().(*types.Array); isArr {
			return constInt(x.Index)
		}
	case *ssa.UnOp:
		if ia, ok := x.X.(*ssa.IndexAddr); ok && x.Op == token.MUL {
			if _, isArr := deref(ia.X.Type()).Underlying().(*types.Array); isArr {
				return constInt(ia.Index)
			}
		}
	}
	return 0, false
}

// extraRejections: on the paths of f that answer false in result flagIdx, some branch outcome is something other than
// a nil test of a parameter, a nil test of a regexp match, or the false answer of a helper of the module for which the
// same holds. Returns a description of the first such test ("" if none).
func extraRejections(c *Ctx, f *ssa.Function, flagIdx int, depth int) string {
	if depth > 2 || len(f.Blocks) == 0 || len(naturalLoops(f)) > 0 {
		if len(naturalLoops(f)) > 0 {
			return ""
		}
		return ""
	}
	p := c.P
	bad := ""
	enumPaths(f, func(path []*ssa.BasicBlock) {
		if bad != "" {
			return
		}
		last := path[len(path)-1]
		ret, ok := last.Instrs[len(last.Instrs)-1].(*ssa.Return)
		if !ok || flagIdx >= len(ret.Results) {
			return
		}
		if bv, isC := constBool(ret.Results[flagIdx]); !isC || bv {
			return
		}
		for i := range path {
			cond, val, ok := edgeTaken(path, i, nil)
			if !ok {
				continue
			}
			for {
				u, isNot := cond.(*ssa.UnOp)
				if !isNot || u.Op != token.NOT {
					break
				}
				cond, val = u.X, !val
			}
			switch x := cond.(type) {
			case *ssa.BinOp:
				if isNilConst(x.Y) || isNilConst(x.X) {
					other := x.X
					if isNilConst(x.X) {
						other = x.Y
					}
					if presenceOperand(other) {
						continue // presence of the argument / of the match
					}
					bad = "the nil test at " + p.ipos(x) + " (of something that is neither the argument nor the pattern match: a parser with rules of its own decides)"
					break
				}
				bad = "the comparison at " + p.ipos(x)
			case *ssa.Extract:
				if call, isCall := x.Tuple.(*ssa.Call); isCall {
					if h := staticCallee(call); h != nil && p.isModuleFn(h) && len(h.Blocks) > 0 {
						if !val {
							if hb := extraRejections(c, h, x.Index, depth+1); hb != "" {
								bad = hb
							}
						}
						continue
					}
				}
				bad = "the test at " + p.ipos(x)
			case *ssa.Call:
				if h := staticCallee(x); h != nil && p.isModuleFn(h) && len(h.Blocks) > 0 && h.Signature.Results().Len() == 1 {
					if !val {
						if hb := extraRejections(c, h, 0, depth+1); hb != "" {
							bad = hb
						}
					}
					continue
				}
				bad = "the test at " + p.ipos(x)
			default:
				if in, isIn := cond.(ssa.Instruction); isIn {
					bad = "the test at " + p.ipos(in)
				}
			}
			if bad != "" {
				return
			}
		}
	})
	return bad
}

// presenceOperand: the operand of a nil test that asks "is there a value" / "did the pattern match": a parameter (or
// its spill), the result of a regexp method, or the error of a strconv conversion of a matched group.
func presenceOperand(v ssa.Value) bool {
	for i := 0; i < 6; i++ {
		switch x := v.(type) {
		case *ssa.Parameter:
			return true
		case *ssa.UnOp:
			if x.Op == token.MUL {
				if al, isAlloc := x.X.(*ssa.Alloc); isAlloc {
					for _, r := range *al.Referrers() {
						if st, isSt := r.(*ssa.Store); isSt && st.Addr == ssa.Value(al) {
							if _, isParam := st.Val.(*ssa.Parameter); isParam {
								return true
							}
						}
					}
				}
			}
			return false
		case *ssa.Extract:
			v = x.Tuple
		case *ssa.Phi:
			for _, e := range x.Edges {
				if !presenceOperand(e) {
					return false
				}
			}
			return true
		case *ssa.Call:
			name := calleeName(x)
			return strings.HasPrefix(name, "(*regexp.Regexp).") || strings.HasPrefix(name, "strconv.")
		default:
			return false
		}
	}
	return false
}

// runStartAcceptance: see the comment inside; shared by C02 (UNITS) and the properties that rely on the trip
// identifier being transcribed for every well-formed value (C04, C07: two runs of one trip that start after 24:00:00
// must stay two trips).
func runStartAcceptance(c *Ctx, rule string) {
	p := c.P
	// a start time / start date is rejected only when it is absent or does not match the pattern: no further test of
	// the numbers (hours past 23 are valid: a trip of the previous service day) decides that the value is dropped
	for _, spec := range []string{"gtfs:parseStartTime", "gtfs:parseStartDate"} {
		f := c.anchor(spec)
		if f == nil {
			continue
		}
		flagIdx := -1
		for i := 0; i < f.Signature.Results().Len(); i++ {
			if bt, ok := f.Signature.Results().At(i).Type().Underlying().(*types.Basic); ok && bt.Kind() == types.Bool {
				flagIdx = i
			}
		}
		if flagIdx < 0 {
			continue
		}
		bad := extraRejections(c, f, flagIdx, 0)
		// ... and "no value" comes with the zero value: the identifier is a map key, and TripID.Less does not look at a
		// start time / date that is flagged absent -- a non-zero value under a false flag makes two keys of one
		// identifier (they do not merge, and they tie in the sort)
		zbad := ""
		for _, blk := range f.Blocks {
			ret, isRet := blk.Instrs[len(blk.Instrs)-1].(*ssa.Return)
			if !isRet || len(ret.Results) != 2 {
				continue
			}
			vi := 1 - flagIdx
			type pair struct{ flag, val ssa.Value }
			pairs := []pair{{ret.Results[flagIdx], ret.Results[vi]}}
			if fp, isPhi := ret.Results[flagIdx].(*ssa.Phi); isPhi && fp.Block() == blk {
				pairs = nil
				for i, e := range fp.Edges {
					v := ret.Results[vi]
					if vp, isVP := v.(*ssa.Phi); isVP && vp.Block() == blk {
						v = vp.Edges[i]
					}
					pairs = append(pairs, pair{e, v})
				}
			}
			for _, pr := range pairs {
				bv, isC := constBool(pr.flag)
				if !isC {
					// a computed flag (`match != nil`): every non-zero value that can be handed back was made where the
					// flag's condition is known to hold
					okComputed := true
					var leaves func(v ssa.Value, from *ssa.BasicBlock, d int)
					leaves = func(v ssa.Value, from *ssa.BasicBlock, d int) {
						if d > 6 {
							okComputed = false
							return
						}
						if ph, isPhi := v.(*ssa.Phi); isPhi {
							for i, e := range ph.Edges {
								leaves(e, ph.Block().Preds[i], d+1)
							}
							return
						}
						if isZeroValue(v) {
							return
						}
						holds := false
						for _, ce := range dominatingConds(from) {
							cnd, val := ce.Cond, ce.Val
							for {
								u, isNot := cnd.(*ssa.UnOp)
								if !isNot || u.Op != token.NOT {
									break
								}
								cnd, val = u.X, !val
							}
							if canon(cnd) == canon(pr.flag) && val {
								holds = true
							}
						}
						if !holds {
							okComputed = false
						}
					}
					leaves(pr.val, blk, 0)
					if !okComputed {
						zbad = "the flag returned at " + p.ipos(ret) + " is computed (" + canon(pr.flag) + ") and the value handed back with it is not confined to where it holds, so a value can come together with `absent`"
					}
					continue
				}
				if bv {
					continue
				}
				zero := isZeroValue(pr.val)
				if ph, isPhi := pr.val.(*ssa.Phi); isPhi && !zero {
					zero = true
					for _, e := range ph.Edges {
						if !isZeroValue(e) {
							zero = false
						}
					}
				}
				if !zero {
					zbad = "the value returned with `absent` at " + p.ipos(ret) + " is " + canon(pr.val) + ", not the zero value"
				}
			}
		}
		c.Check(zbad == "", rule, shortName(f), "an absent value is the zero value", p.pos(f.Pos()), "every return with a false flag hands back the zero value, and every flag is a constant", zbad+": identifiers that both say `no value` differ as map keys (two entries for one trip, tied in the sort)")
		if rule == "TIDZ" {
			// determinism only needs the key / comparator agreement, not the acceptance rule
			continue
		}
		c.Check(bad == "", rule, shortName(f), "a value is dropped only when absent or not matching the pattern", p.pos(f.Pos()), "every path that answers `no value` took the nil test of the argument or of the pattern match, and nothing else", "a well-formed value is dropped by a further test: "+bad+" (a start time of 24:00:00 or later is valid and identifies another trip than the same id without start time)")
	}
	if rule == "TIDZ" {
		return
	}
	// the texts accepted as start time / start date are exactly HH:MM:SS and YYYYMMDD (oracle: gtfs-realtime.proto)
	for _, pr := range []struct{ spec, want, what string }{
		{"gtfs:parseStartTime", `^([0-9]{2}):([0-9]{2}):([0-9]{2})$`, "start_time is HH:MM:SS"},
		{"gtfs:parseStartDate", `^([0-9]{4})([0-9]{2})([0-9]{2})$`, "start_date is YYYYMMDD"},
	} {
		f := c.anchor(pr.spec)
		if f == nil {
			continue
		}
		got, found := "", false
		for _, g := range c.regionOf(f) {
			for _, blk := range g.Blocks {
				for _, in := range blk.Instrs {
					for _, op := range in.Operands(nil) {
						if gl, ok := (*op).(*ssa.Global); ok && shortType(deref(gl.Type())) == "*regexp.Regexp" {
							if pat, ok := c.globalRegexpPattern(gl); ok {
								got, found = pat, true
							}
						}
					}
				}
			}
		}
		okPat := false
		if found {
			rx, e1 := syntax.Parse(got, syntax.Perl)
			want, e2 := syntax.Parse(pr.want, syntax.Perl)
			okPat = e1 == nil && e2 == nil && rx.Simplify().String() == want.Simplify().String()
		}
		c.Check(okPat, rule, shortName(f), pr.what, p.pos(f.Pos()), "the accepted texts are those of "+pr.want, "the pattern that decides which texts are accepted is "+got+", not "+pr.want+": well-formed values are dropped or malformed ones accepted")
	}
}

// sliceElemName: the element type of a slice type as typeName prints it, with a leading * for pointer elements ("" if
// t is not a slice).
func sliceElemName(t types.Type) string {
	sl, ok := t.Underlying().(*types.Slice)
	if !ok {
		return ""
	}
	elem := typeName(sl.Elem())
	if _, isPtr := sl.Elem().Underlying().(*types.Pointer); isPtr {
		elem = "*" + elem
	}
	return elem
}

// runPlainGetters: the nil-safe getters of the realtime types (Get<Field> on *T, T a struct with a pointer field
// <Field>) are what the journal, the hasher and the callers of the library read the parsed message through. Each
// answers the value its field points to, or the zero value when there is none, and writes nothing: a getter that
// fills in parts of the answer from elsewhere, or stores into its receiver, changes what every reader of the field
// sees without the parser having changed.
func runPlainGetters(c *Ctx, rule string) {
	p := c.P
	n := 0
	for _, fn := range p.ModFns {
		if fn.Signature.Recv() == nil || len(fn.Blocks) == 0 || len(fn.Params) != 1 || fn.Signature.Results().Len() != 1 || !strings.HasPrefix(fn.Name(), "Get") || fnPkgPath(fn) != pkgPathOf("gtfs") {
			continue
		}
		pt, isPtr := fn.Signature.Recv().Type().Underlying().(*types.Pointer)
		if !isPtr {
			continue
		}
		st, isStruct := pt.Elem().Underlying().(*types.Struct)
		if !isStruct {
			continue
		}
		fieldIdx := -1
		for i := 0; i < st.NumFields(); i++ {
			if st.Field(i).Name() == strings.TrimPrefix(fn.Name(), "Get") {
				fieldIdx = i
			}
		}
		if fieldIdx < 0 {
			continue
		}
		fpt, fieldIsPtr := st.Field(fieldIdx).Type().Underlying().(*types.Pointer)
		if !fieldIsPtr || !types.Identical(fpt.Elem(), fn.Signature.Results().At(0).Type()) {
			continue
		}
		n++
		recv := fn.Params[0]
		bad := ""
		for _, b := range fn.Blocks {
			for _, in := range b.Instrs {
				switch x := in.(type) {
				case *ssa.Store:
					root := x.Addr
					for {
						if fa, ok := root.(*ssa.FieldAddr); ok {
							root = fa.X
							continue
						}
						if ia, ok := root.(*ssa.IndexAddr); ok {
							root = ia.X
							continue
						}
						break
					}
					if al, isAlloc := root.(*ssa.Alloc); isAlloc && !al.Heap {
						if root == x.Addr {
							continue // a spilled local
						}
					}
					if bad == "" {
						bad = "it stores at " + p.ipos(x)
					}
				case *ssa.MapUpdate:
					if bad == "" {
						bad = "it updates a map at " + p.ipos(x)
					}
				case *ssa.Call:
					if bad == "" {
						bad = "it calls " + calleeName(x) + " at " + p.ipos(x)
					}
				}
			}
		}
		seen := map[ssa.Value]bool{}
		var leaf func(v ssa.Value)
		leaf = func(v ssa.Value) {
			if seen[v] || bad != "" {
				return
			}
			seen[v] = true
			switch x := v.(type) {
			case *ssa.Const:
			case *ssa.Phi:
				for _, e := range x.Edges {
					leaf(e)
				}
			case *ssa.UnOp:
				if x.Op != token.MUL {
					bad = "it answers " + x.String()
					return
				}
				switch a := x.X.(type) {
				case *ssa.Alloc:
					// the zero value: a composite literal with no stores
					for _, r := range *a.Referrers() {
						if _, isLoad := r.(*ssa.UnOp); isLoad {
							continue
						}
						if _, isDbg := r.(*ssa.DebugRef); isDbg {
							continue
						}
						bad = "the value it answers when the field is nil is not the zero value (" + r.String() + " at " + p.ipos(r) + ")"
						return
					}
				case *ssa.UnOp:
					fa, isFA := a.X.(*ssa.FieldAddr)
					if a.Op != token.MUL || !isFA || fa.X != ssa.Value(recv) || fa.Field != fieldIdx {
						bad = "it answers " + x.String() + " at " + p.ipos(x) + ", which is not what the field points to"
					}
				default:
					bad = "it answers " + x.String() + " at " + p.ipos(x)
				}
			default:
				bad = "it answers " + v.String()
				if in, isIn := v.(ssa.Instruction); isIn {
					bad += " at " + p.ipos(in)
				}
			}
		}
		for _, b := range fn.Blocks {
			if ret, isRet := b.Instrs[len(b.Instrs)-1].(*ssa.Return); isRet {
				leaf(ret.Results[0])
			}
		}
		c.Check(bad == "", rule, shortName(fn), "the getter answers what its field points to, or the zero value, and writes nothing", p.pos(fn.Pos()), "every answer is *"+st.Field(fieldIdx).Name()+" of the receiver or the zero value; no store, map update or call", bad+": readers of the parsed message (the journal, the hasher) see something else than what the parser stored")
	}
	c.Stats[rule+" getters"] = n
}

// runDirectionTable: the realtime direction decoder is absent -> Unspecified, 0 -> False, anything else -> True.
func runDirectionTable(c *Ctx, rule string) {
	p := c.P
	if f := c.anchor("gtfs:parseDirectionID_GTFSRealtime"); f != nil {
		tb, err := c.extractTableComposed(f, 0)
		ok := err == nil
		var probs []string
		if ok {
			pn := f.Params[0].Name()
			got := map[string]string{}
			for _, r := range tb.rows {
				got[condsString(r.conds)] = r.results[0]
			}
			want := map[string]string{
				pn + "==nil":                     c.constOf("gtfs", "DirectionID_Unspecified"),
				pn + "!=nil && *(" + pn + ")==0": c.constOf("gtfs", "DirectionID_False"),
				pn + "!=nil && *(" + pn + ")!=0": c.constOf("gtfs", "DirectionID_True"),
			}
			for k, v := range want {
				if got[k] != v {
					probs = append(probs, fmt.Sprintf("[%s] -> %s (expected %s)", k, got[k], v))
				}
			}
			if len(got) != len(want) {
				probs = append(probs, "table has "+fmt.Sprint(len(got))+" rows: "+tb.String())
			}
		} else {
			probs = append(probs, err.Error())
		}
		c.Check(len(probs) == 0, rule, shortName(f), "direction table nil/0/else", p.pos(f.Pos()), "absent -> Unspecified, 0 -> False, otherwise True", strings.Join(probs, "; "))
	}
}

// runEveryElementTranscribed: the repeated wire fields that have no filter in the property -- the translations of a
// text, the stop time updates of a trip, the active periods of an alert -- yield one element each: in the loop over
// such a field every trip around the loop passes the append (no `continue` around it for a "duplicate" or an "empty"
// element).
func runEveryElementTranscribed(c *Ctx, rule string) {
	p := c.P
	fields := map[string]bool{"Translation": true, "StopTimeUpdate": true, "ActivePeriod": true}
	getters := map[string]bool{"GetTranslation": true, "GetStopTimeUpdate": true, "GetActivePeriod": true}
	isRepeated := func(v ssa.Value) string {
		switch x := v.(type) {
		case *ssa.Call:
			name := calleeName(x)
			short := name[strings.LastIndex(name, ".")+1:]
			if getters[short] && strings.Contains(name, "/proto.") {
				return strings.TrimPrefix(short, "Get")
			}
		case *ssa.UnOp:
			if fa, ok := x.X.(*ssa.FieldAddr); ok && x.Op == token.MUL && strings.HasPrefix(shortType(fa.X.Type()), "*proto.") {
				if f := fieldName(fa.X.Type(), fa.Field); fields[f] {
					return f
				}
			}
		}
		return ""
	}
	n := 0
	for _, fn := range realtimeFns(c) {
		for _, l := range naturalLoops(fn) {
			what := ""
			hasAppend := false
			for b := range l.Blocks {
				for _, in := range b.Instrs {
					switch x := in.(type) {
					case *ssa.IndexAddr:
						if f := isRepeated(x.X); f != "" {
							what = f
						}
					case *ssa.Call:
						if isBuiltin(x, "append") {
							hasAppend = true
						}
					}
				}
			}
			if what == "" || !hasAppend {
				continue
			}
			n++
			skipped := false
			nP := pathsWithin(l.Header, l, func(path []*ssa.BasicBlock, back bool) {
				if !back {
					return
				}
				has := false
				for _, pb := range path {
					for _, in := range pb.Instrs {
						if call, isC := in.(*ssa.Call); isC && isBuiltin(call, "append") {
							has = true
						}
					}
				}
				if !has {
					skipped = true
				}
			})
			c.Check(!skipped && nP > 0, rule, shortName(fn), "every element of "+what+" is transcribed", p.pos(l.Header.Instrs[0].Pos()), fmt.Sprintf("all %d trips around the loop pass the append", nP), "some trip around the loop over "+what+" goes past the append: an element that is on the wire is missing from the result")
		}
	}
	c.Stats[rule+" repeated-field loops"] = n
}

// isZeroValue: a zero constant, or the load of a local that nothing was stored into.
func isZeroValue(v ssa.Value) bool {
	switch x := v.(type) {
	case *ssa.Const:
		return x.Value == nil || x.IsNil() || x.Value.ExactString() == "0"
	case *ssa.UnOp:
		if al, isAlloc := x.X.(*ssa.Alloc); isAlloc && x.Op == token.MUL {
			for _, r := range *al.Referrers() {
				if _, isLoad := r.(*ssa.UnOp); !isLoad {
					if _, isDbg := r.(*ssa.DebugRef); !isDbg {
						return false
					}
				}
			}
			return true
		}
	}
	return false
}
