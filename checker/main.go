// gtfscheck: repository-specific static analyser for jamespfennell/gtfs.
//
//	gtfscheck -property C05 -tier quick|thorough [-replay file] [-repo /repo]
//
// Every run loads the repository's current working tree (go/packages), builds
// go/ssa and a call graph, runs the rule set of the property, and decides each
// rule instance (obligation) from the source alone.  No repository code is
// executed.
package main

import (
	"encoding/json"
	"flag"
	"fmt"
	"os"
	"path/filepath"
	"runtime/debug"
	"sort"
	"strconv"
	"strings"
	"time"
)

type PropSpec struct {
	ID          string
	Explain     string   // what is decided / what is not
	Assumptions []string // trusted base
	Rules       []Rule
}

type Rule struct {
	Name string
	Doc  string
	Run  func(c *Ctx)
	// MinInstances: the rule must produce at least this many obligations on the
	// repository (a rule that matches nothing proves nothing). Set to about 70% of
	// the count confirmed by hand: a refactoring that merges two sites into one
	// must not trip it, losing a third of the sites must.
	MinInstances int
}

var registry = map[string]*PropSpec{}

func register(p *PropSpec) { registry[p.ID] = p }

var commonAssumptions = []string{
	"the Go type checker and go/ssa construction (golang.org/x/tools v0.29.0) represent the source faithfully",
	"the standard library, google.golang.org/protobuf and golang.org/x/text behave as documented (lemma tables in DESIGN.md 2.4)",
	"module code uses no unsafe, cgo or reflection-based mutation (imports are checked on every run)",
	"_test.go files are not call sites of internal functions",
}

func main() {
	prop := flag.String("property", "", "property id (C01..C20) or 'all'")
	tier := flag.String("tier", "", "quick|thorough (default: $VERIF_TIER or quick)")
	replay := flag.String("replay", "", "replay file: re-analyse that one obligation and print the diagnosis")
	repo := flag.String("repo", "/repo", "repository working tree to analyse")
	list := flag.Bool("list", false, "list obligations")
	dump := flag.String("dump", "", "debug dumps: externals")
	flag.Parse()
	if *dump != "" {
		p, err := loadProgram(LoadOpts{Dir: *repo})
		if err != nil {
			fmt.Println(err)
			os.Exit(2)
		}
		switch *dump {
		case "externals":
			dumpExternals(p)
		case "classes":
			c := newCtx(p, "dump", "quick")
			fns, _ := c.scope(c.allEntryRoots(), scopeOpts{})
			for _, f := range fns {
				fmt.Printf("%-60s %s\n", shortName(f), sigClass(f))
			}
		case "bindings":
			c := newCtx(p, "dump", "quick")
			b := newBinder(c, resultCarriers...)
			fns, _ := c.scope(c.allEntryRoots(), scopeOpts{})
			for _, tn := range flag.Args() {
				for _, fs := range collectFieldStores(fns, tn) {
					fmt.Printf("%-28s %-22s %s\n", shortName(fs.fn), tn+"."+fs.field, b.bind(fs.store.Val))
				}
			}
		}
		return
	}
	if *tier == "" {
		*tier = os.Getenv("VERIF_TIER")
	}
	if *tier != "thorough" {
		*tier = "quick"
	}
	os.Unsetenv("GOWORK")
	if *replay != "" {
		b, err := os.ReadFile(*replay)
		if err != nil {
			fmt.Println("cannot read replay file:", err)
			os.Exit(2)
		}
		var r struct {
			Property string
			Key      string
		}
		if err := json.Unmarshal(b, &r); err != nil {
			fmt.Println("bad replay file:", err)
			os.Exit(2)
		}
		*prop = r.Property
		os.Exit(runProperty(*repo, r.Property, *tier, r.Key, true))
	}
	if *prop == "" {
		fmt.Println("usage: gtfscheck -property Cxx [-tier quick|thorough]")
		os.Exit(2)
	}
	if *prop == "all" {
		rc := 0
		for _, id := range sortedKeys(registry) {
			if r := runProperty(*repo, id, *tier, "", *list); r != 0 {
				rc = r
			}
		}
		os.Exit(rc)
	}
	os.Exit(runProperty(*repo, *prop, *tier, "", *list))
}

type config struct {
	name   string
	goarch string
	tags   string
}

func runProperty(repo, id, tier, onlyKey string, verbose bool) (rc int) {
	t0 := time.Now()
	spec := registry[id]
	if spec == nil {
		fmt.Printf("unknown or unclaimed property %s\n", id)
		return 2
	}
	seed, _ := strconv.Atoi(os.Getenv("VERIF_SEED"))
	evPath := filepath.Join(verifDir(), "evidence", id+".json")
	fail := func(msg string) int {
		// analyser failure: the property cannot be vouched for -> the check fails
		rp := filepath.Join(verifDir(), "evidence", "replay", id, "analyser-failure.json")
		writeJSON(rp, map[string]any{"property": id, "key": "ANALYSER|" + id + "|failure", "detail": msg})
		fmt.Printf("ANALYSER FAILURE property=%s: %s\n", id, msg)
		fmt.Printf("VIOLATION property=%s replay=%s\n", id, rp)
		writeJSON(evPath, evidence{PropertyID: id, Tier: tier, Seed: seed, Level: "other",
			Coverage:    map[string]any{"explanation": "analyser failure: " + msg, "obligations": 0, "discharged": 0},
			Assumptions: commonAssumptions, WallS: time.Since(t0).Seconds(), Violations: 1})
		return 1
	}
	defer func() {
		if r := recover(); r != nil {
			rc = fail(fmt.Sprintf("panic in analyser: %v\n%s", r, debug.Stack()))
		}
	}()

	configs := []config{{name: "default"}}
	if tier == "thorough" {
		configs = append(configs, config{name: "GOARCH=386", goarch: "386"}, config{name: "tags=verif", tags: "verif"})
	}
	findings, err := loadFindings(filepath.Join(verifDir(), "known-findings.txt"))
	if err != nil {
		return fail(err.Error())
	}
	open := map[string]Finding{}
	for _, f := range findings {
		if f.Kind == "open" && f.Prop == id {
			open[f.Key] = f
		}
	}

	// positive controls: every generic rule must fire on its known-bad fixture
	if msg := runControls(spec); msg != "" {
		return fail("positive control failed: " + msg)
	}

	type cfgResult struct {
		name string
		ctx  *Ctx
	}
	var results []cfgResult
	for _, cf := range configs {
		p, err := loadProgramCached(LoadOpts{Dir: repo, GOARCH: cf.goarch, Tags: cf.tags})
		if err != nil {
			return fail(fmt.Sprintf("[%s] %v", cf.name, err))
		}
		if len(p.Pkgs) < 10 {
			return fail(fmt.Sprintf("[%s] only %d module packages loaded", cf.name, len(p.Pkgs)))
		}
		if msg := checkImports(p); msg != "" {
			return fail(msg)
		}
		c := newCtx(p, id, tier)
		for _, r := range spec.Rules {
			before := len(c.Obls)
			r.Run(c)
			n := len(c.Obls) - before
			if n < r.MinInstances {
				c.Undecided(r.Name, "-", "instance count", "-", fmt.Sprintf("rule %s matched %d instances, at least %d expected: anchors moved or the rule no longer sees the code it was written for", r.Name, n, r.MinInstances))
			}
		}
		results = append(results, cfgResult{cf.name, c})
		if tier == "thorough" && cf.name == "default" {
			thoroughExtras(c)
		}
	}

	// merge: the default configuration is the reference; other configurations
	// contribute only their failures (prefixed with the configuration)
	main := results[0].ctx
	all := append([]*Obligation{}, main.Obls...)
	for _, r := range results[1:] {
		for _, o := range r.ctx.Obls {
			if o.Status != Proved && o.Exception == "" {
				if prev, ok := main.seen[o.Key()]; ok && prev.Status == o.Status {
					continue // same failure as in the default configuration
				}
				cp := *o
				cp.Construct = o.Construct + " [" + r.name + "]"
				all = append(all, &cp)
			}
		}
		main.Stats["obligations["+r.name+"]"] = len(r.ctx.Obls)
	}

	stats := map[string]*ruleStat{}
	var failures []*Obligation
	discharged := 0
	assumed := 0
	for _, o := range all {
		rs := stats[o.Rule]
		if rs == nil {
			rs = &ruleStat{}
			stats[o.Rule] = rs
		}
		rs.Instances++
		switch {
		case o.Exception != "":
			rs.Assumed++
			assumed++
		case o.Status == Proved:
			rs.Proved++
			discharged++
		case o.Status == Violated:
			rs.Violated++
			failures = append(failures, o)
		default:
			rs.Undecided++
			failures = append(failures, o)
		}
	}
	sort.SliceStable(failures, func(i, j int) bool { return failures[i].Key() < failures[j].Key() })

	replayDir := filepath.Join(verifDir(), "evidence", "replay", id)
	os.RemoveAll(replayDir)
	nViol, nKnown := 0, 0
	var knownLines []string
	for i, o := range failures {
		if onlyKey != "" && o.Key() != onlyKey {
			continue
		}
		if f, ok := open[o.Key()]; ok {
			nKnown++
			line := fmt.Sprintf("KNOWN-FINDING: property=%s key=%s %s (%s) %s", id, o.Key(), f.What, o.Pos, o.StatusS)
			knownLines = append(knownLines, line)
			fmt.Println(line)
			continue
		}
		nViol++
		rp := filepath.Join(replayDir, fmt.Sprintf("%03d.json", i))
		writeJSON(rp, map[string]any{"property": id, "key": o.Key(), "rule": o.Rule, "func": o.Func, "construct": o.Construct,
			"pos": o.Pos, "status": o.StatusS, "detail": o.Detail, "path": o.Path})
		fmt.Printf("%s %s at %s\n    rule %s in %s: %s\n    %s\n", o.StatusS, id, o.Pos, o.Rule, o.Func, o.Construct, o.Detail)
		if o.Path != "" {
			fmt.Printf("    reached via: %s\n", o.Path)
		}
		fmt.Printf("VIOLATION property=%s replay=%s\n", id, rp)
	}
	if onlyKey != "" && nViol == 0 {
		fmt.Printf("replay: obligation %q no longer fails\n", onlyKey)
	}

	// evidence
	var samples []any
	perRule := map[string]int{}
	for _, o := range all {
		if perRule[o.Rule] < 3 {
			perRule[o.Rule]++
			samples = append(samples, o)
		}
	}
	var exc []any
	for _, o := range all {
		if o.Exception != "" {
			exc = append(exc, map[string]string{"key": o.Key(), "reason": o.Exception, "pos": o.Pos})
		}
	}
	ruleDocs := map[string]string{}
	for _, r := range spec.Rules {
		ruleDocs[r.Name] = r.Doc
	}
	fnCount := len(main.P.ModFns)
	cov := map[string]any{
		"explanation":                      spec.Explain,
		"obligations":                      len(all),
		"discharged":                       discharged,
		"reviewed_exceptions":              exc,
		"failed":                           len(failures),
		"known_findings":                   knownLines,
		"rules":                            stats,
		"rule_docs":                        ruleDocs,
		"samples":                          samples,
		"packages_loaded":                  len(main.P.Pkgs),
		"module_functions":                 fnCount,
		"configurations":                   configNames(configs),
		"checker_cmd":                      fmt.Sprintf("gtfscheck -property %s -tier %s", id, tier),
		"stats":                            main.Stats,
		"notes":                            main.Notes,
		"evaluations":                      len(all),
		"distinct_nontrivial":              len(main.seen),
		"rule":                             "one evaluation per obligation = rule instance discovered in the current source (keyed rule|function|construct); distinct = distinct keys",
		"exhaustive":                       true,
		"known_findings_file":              "known-findings.txt",
		"obligations_not_covered_by_claim": assumed,
	}
	ev := evidence{PropertyID: id, Tier: tier, Seed: seed, Level: "other", Coverage: cov,
		Assumptions: append(append([]string{}, commonAssumptions...), spec.Assumptions...),
		WallS:       time.Since(t0).Seconds(), Violations: nViol}
	if onlyKey == "" {
		if err := writeJSON(evPath, ev); err != nil {
			fmt.Println("cannot write evidence:", err)
			return 1
		}
	}
	if verbose {
		for _, o := range all {
			fmt.Printf("  %-9s %s  @%s  %s%s\n", o.StatusS, o.Key(), o.Pos, o.How, o.Detail)
		}
	}
	fmt.Printf("%s [%s]: %d obligations, %d discharged, %d reviewed exceptions, %d known findings, %d violations (%.1fs)\n",
		id, tier, len(all), discharged, assumed, nKnown, nViol, time.Since(t0).Seconds())
	if nViol > 0 {
		return 1
	}
	return 0
}

func configNames(cs []config) []string {
	var s []string
	for _, c := range cs {
		s = append(s, c.name)
	}
	return s
}

// checkImports enforces the "no unsafe / cgo / reflect" assumption on module code
// (generated protobuf code is exempt: it is part of the protobuf runtime).
func checkImports(p *Program) string {
	for _, pk := range p.Pkgs {
		if isProtoPkg(pk.PkgPath) {
			continue
		}
		for imp := range pk.Imports {
			if imp == "unsafe" || imp == "C" || imp == "reflect" {
				return fmt.Sprintf("package %s imports %q: the analyser's memory model no longer applies", pk.PkgPath, imp)
			}
		}
	}
	return ""
}

func thoroughExtras(c *Ctx) {
	// reachability cross-check etc. are added by rule files through this hook
	for _, f := range thoroughHooks {
		f(c)
	}
}

var thoroughHooks []func(c *Ctx)

func trimPos(s string) string { return strings.TrimSpace(s) }

// loadProgramCached shares one loaded program between the properties of a "-property all" run
// (development use; registered commands run one property per process).
var progCache = map[LoadOpts]*Program{}

func loadProgramCached(o LoadOpts) (*Program, error) {
	if p, ok := progCache[o]; ok {
		return p, nil
	}
	p, err := loadProgram(o)
	if err == nil {
		progCache[o] = p
	}
	return p, err
}
