package main

func init() {
	register(&PropSpec{
		ID: "C02",
		Explain: "The value round trip is not decidable statically; decided are its structural necessary conditions for every message and timezone option: " +
			"(A3) wire table: every surfaced field of Trip/TripID/StopTimeUpdate/StopTimeEvent/Vehicle/VehicleID/Position/Alert/AlertActivePeriod/AlertInformedEntity/AlertText is bound (backward provenance) to exactly the gtfs-realtime.proto field the reference names, through only the allowed transformers; the in-message flags are the documented literals; " +
			"(ZONE) every time.Unix result is used only as the receiver of .In(opts.timezoneOrUTC()), every time.Date takes that zone, timezoneOrUTC is {Timezone set -> Timezone; else UTC}, no clock is read; " +
			"(UNITS) start time is (3600h+60m+s) seconds from the three regexp groups, start date is midnight of (group1, group2, group3), delay is scaled by time.Second, direction is nil/0/else -> Unspecified/False/True, every *T -> *U converter maps nil to nil and present to present; " +
			"(MERGE/GUARD/UNIQ, shared with C07/C04) one Trip per descriptor and one Vehicle per identifier, each entity parser yields a trip/vehicle whenever the wire carries one; whether an optional wire field is present is decided by its pointer, never by comparing its value with the zero value (an explicit zero is present); (G7) no package-level state. " +
			"Not decided: numeric ranges, protobuf decoding, DST arithmetic of the time package. In the timestamp converters time.Unix receives the wire number as seconds (no arithmetic, no merge) and the constant 0 as nanoseconds. The hooks of the no-op extension look at nothing and answer constants, so without an extension every entity is transcribed. (ELEMS) every element of translations, stop time updates and active periods is appended on every trip around its loop.",
		Rules: []Rule{
			{Name: "ELEMS", Doc: "every element of the repeated wire fields that have no filter (translations, stop time updates, active periods) is transcribed: no trip around their loops goes past the append", MinInstances: 2, Run: func(c *Ctx) { runEveryElementTranscribed(c, "ELEMS") }},
			{Name: "NOEXT", Doc: "the hooks of the no-op extension look at nothing and answer constants: without an extension every entity is transcribed", MinInstances: 4, Run: func(c *Ctx) { runNoExtensionIsInert(c, "NOEXT") }},
			{Name: "SCAN", Doc: "a loop that does something for each element is not left early (no break out of a processing loop)", MinInstances: 1, Run: func(c *Ctx) { runFullScan(c, realtimeFns(c), "SCAN") }},
			{Name: "A3", Doc: "wire table against gtfs-realtime.proto", MinInstances: 35, Run: runWireTable},
			{Name: "LOOPVAR", Doc: "no pointer to a per-loop (go 1.18) iteration variable is kept in the result", MinInstances: 0, Run: func(c *Ctx) { runLoopVarAlias(c, realtimeFns(c), "LOOPVAR") }},
			{Name: "ZONE", Doc: "instants are expressed in the configured zone", MinInstances: 3, Run: runZoneProvenance},
			{Name: "UNITS", Doc: "units, direction table, absent stays absent", MinInstances: 4, Run: runUnits},
			{Name: "MERGE", Doc: "one entry per descriptor, flagged by its own entity", MinInstances: 7, Run: runMergeRules},
			{Name: "GUARD", Doc: "entity parsers return nil only for absent wire fields", MinInstances: 2, Run: runParserGuards},
			{Name: "G7", Doc: "no package-level state in the realtime parser", MinInstances: 35, Run: func(c *Ctx) {
				fns, reach := c.scope(c.anchors("gtfs:ParseRealtime"), scopeOpts{})
				runG7(c, "G7", parseTaintRoots(c), fns, reach, TGlobal, "a package-level cache makes the result depend on earlier parses (e.g. on the timezone of an earlier call)")
			}},
		},
	})
}
