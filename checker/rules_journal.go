package main

// C14 / C15: structural necessary conditions of the journal builder (history semantics themselves are not decided).

import (
	"fmt"
	"go/token"
	"sort"
	"strings"

	"golang.org/x/tools/go/ssa"
)

// unconditionalStores: field -> bound expression, for the stores to fields of recv's struct that execute on every
// path from entry to every return (after an optional early-return guard block given by `from`).
func storesOnAllPaths(fn *ssa.Function, recv ssa.Value, from *ssa.BasicBlock) (all map[string]*ssa.Store, some map[string]*ssa.Store) {
	all = map[string]*ssa.Store{}
	some = map[string]*ssa.Store{}
	first := true
	var rec func(b *ssa.BasicBlock, seen map[string]*ssa.Store, on map[*ssa.BasicBlock]bool)
	rec = func(b *ssa.BasicBlock, seen map[string]*ssa.Store, on map[*ssa.BasicBlock]bool) {
		if on[b] {
			return
		}
		on[b] = true
		defer delete(on, b)
		cur := map[string]*ssa.Store{}
		for k, v := range seen {
			cur[k] = v
		}
		for _, in := range b.Instrs {
			if st, ok := in.(*ssa.Store); ok {
				if fa, ok := st.Addr.(*ssa.FieldAddr); ok && fa.X == recv {
					f := fieldName(fa.X.Type(), fa.Field)
					cur[f] = st
					some[f] = st
				}
			}
		}
		if len(b.Succs) == 0 {
			if _, isRet := b.Instrs[len(b.Instrs)-1].(*ssa.Return); isRet {
				if first {
					for k, v := range cur {
						all[k] = v
					}
					first = false
				} else {
					for k := range all {
						if _, ok := cur[k]; !ok {
							delete(all, k)
						}
					}
				}
			}
			return
		}
		for _, s := range b.Succs {
			rec(s, cur, on)
		}
	}
	rec(from, map[string]*ssa.Store{}, map[*ssa.BasicBlock]bool{})
	return
}

func markOnce(c *Ctx, spec string) {
	p := c.P
	f := c.anchor(spec)
	if f == nil {
		return
	}
	fname := shortName(f)
	n := 0
	for _, b := range f.Blocks {
		for _, in := range b.Instrs {
			st, ok := in.(*ssa.Store)
			if !ok {
				continue
			}
			fa, ok := st.Addr.(*ssa.FieldAddr)
			if !ok || fa.X != ssa.Value(f.Params[0]) || fieldName(fa.X.Type(), fa.Field) != "MarkedPast" {
				continue
			}
			n++
			guarded := false
			for _, ce := range dominatingConds(b) {
				if bo, ok := ce.Cond.(*ssa.BinOp); ok && isNilConst(bo.Y) && canon(bo.X) == "*("+canon(fa)+")" {
					if (bo.Op == token.EQL && ce.Val) || (bo.Op == token.NEQ && !ce.Val) {
						guarded = true
					}
				}
			}
			// value: address of the feed-time parameter's copy
			okVal := false
			if a, isAlloc := st.Val.(*ssa.Alloc); isAlloc {
				for _, sv := range cellStores(a) {
					if prm, isP := sv.(*ssa.Parameter); isP && prm == f.Params[1] {
						okVal = true
					}
				}
			}
			c.Check(guarded && okVal, "MARK", fname, "marked past only once, with the feed's time", p.ipos(st), "MarkedPast = &feedCreatedAt only on the MarkedPast == nil edge", "an entry that is already marked past can be re-stamped (the time of the first feed that no longer reported it is lost), or the stamp is not the feed's time")
		}
	}
	if n == 0 {
		c.Violated("MARK", fname, "marks past", p.pos(f.Pos()), "markPast never sets MarkedPast")
	}
}

func runJournalStopTimes(c *Ctx) {
	p := c.P
	markOnce(c, "journal:(*StopTime).markPast")
	markOnce(c, "journal:(*Trip).markPast")
	b := newBinder(c)
	// J2: StopTime.update assigns every field, from the update
	if f := c.anchor("journal:(*StopTime).update"); f != nil {
		fname := shortName(f)
		all, _ := storesOnAllPaths(f, f.Params[0], f.Blocks[0])
		want := map[string][]string{
			"StopID":        {"param:stopTimeUpdate"},
			"ArrivalTime":   {"GetArrival(param:stopTimeUpdate).Time"},
			"DepartureTime": {"GetDeparture(param:stopTimeUpdate).Time"},
			"Track":         {"param:stopTimeUpdate.NyctTrack"},
			"LastObserved":  {"param:feedCreatedAt"},
			"MarkedPast":    {"const:nil"},
		}
		st := structOf(f.Params[0].Type())
		for i := 0; i < st.NumFields(); i++ {
			field := st.Field(i).Name()
			s, ok := all[field]
			if !ok {
				c.Violated("UPD", fname, "StopTime."+field+" refreshed by every update", p.pos(f.Pos()), "an update leaves StopTime."+field+" at its previous value on some path: the entry no longer carries this update's data")
				continue
			}
			expr := b.bind(s.Val)
			okB := true
			for _, w := range want[field] {
				if !strings.Contains(expr, w) {
					okB = false
				}
			}
			if _, known := want[field]; !known {
				c.Note("StopTime.%s has no binding oracle (unchecked): %s", field, clip(expr, 80))
				continue
			}
			c.Check(okB, "UPD", fname, "StopTime."+field+" refreshed by every update", p.ipos(s), field+" <- "+clip(expr, 80), fmt.Sprintf("StopTime.%s is taken from %s (expected %v)", field, clip(expr, 100), want[field]))
		}
	}
	// J3: Trip.update applies the partition
	tu := c.anchor("journal:(*Trip).update")
	stUpdate := c.anchor("journal:(*StopTime).update")
	stMark := c.anchor("journal:(*StopTime).markPast")
	cp := c.anchor("journal:createPartition")
	if tu == nil || stUpdate == nil || stMark == nil || cp == nil {
		return
	}
	fname := shortName(tu)
	loops := naturalLoops(tu)
	type loopUse struct {
		over string // past | updated | new
		l    *Loop
	}
	var uses []loopUse
	for _, l := range loops {
		for _, in := range l.Header.Instrs {
			if bo, ok := in.(*ssa.BinOp); ok && bo.Op == token.LSS {
				if lx, ok := lenOf(bo.Y); ok {
					s := canon(lx)
					for _, f := range []string{"past", "updated", "new"} {
						if strings.HasSuffix(s, "."+f+")") {
							uses = append(uses, loopUse{f, l})
						}
					}
				}
			}
		}
	}
	byField := map[string]*Loop{}
	for _, u := range uses {
		byField[u.over] = u.l
	}
	callOnAllTrips := func(l *Loop, callee *ssa.Function, argOK func(call *ssa.Call) bool) (bool, int) {
		ok := true
		n := pathsWithin(l.Header, l, func(path []*ssa.BasicBlock, back bool) {
			if !back {
				return
			}
			has := false
			for _, b := range path {
				for _, in := range b.Instrs {
					if call, isCall := in.(*ssa.Call); isCall && staticCallee(call) == callee && argOK(call) {
						has = true
					}
				}
			}
			if !has {
				ok = false
			}
		})
		return ok, n
	}
	if l := byField["past"]; l != nil {
		ok, n := callOnAllTrips(l, stMark, func(call *ssa.Call) bool {
			ia, isIA := call.Call.Args[0].(*ssa.IndexAddr)
			return isIA && strings.HasSuffix(canon(ia.X), ".past)") && call.Call.Args[1] == ssa.Value(tu.Params[2])
		})
		// nothing else touches the elements of p.past
		clean := true
		for b := range l.Blocks {
			for _, in := range b.Instrs {
				if st, isSt := in.(*ssa.Store); isSt {
					if _, isAlloc := addrRoot(st.Addr).(*ssa.Alloc); !isAlloc {
						clean = false
					}
				}
			}
		}
		c.Check(ok && clean && n > 0, "PART", fname, "entries before the update's first stop are only marked past", p.pos(l.Header.Instrs[0].Pos()), "every element of p.past gets markPast(feed time) and nothing else", "an entry that precedes the update's first stop is modified other than by marking it past, or is not marked on some path")
	} else {
		c.Violated("PART", fname, "entries before the update's first stop are only marked past", p.pos(tu.Pos()), "no loop over p.past")
	}
	if l := byField["updated"]; l != nil {
		ok, n := callOnAllTrips(l, stUpdate, func(call *ssa.Call) bool {
			return strings.HasSuffix(canon(call.Call.Args[0]), ".existing)") && strings.HasSuffix(canon(call.Call.Args[1]), ".update)") && call.Call.Args[2] == ssa.Value(tu.Params[2])
		})
		c.Check(ok && n > 0, "PART", fname, "every aligned entry is refreshed from its update", p.pos(l.Header.Instrs[0].Pos()), "existing.update(update, feed time) on every trip around the loop over p.updated", "an aligned entry can be left without StopTime.update on some path (a fast path that skips it also skips clearing MarkedPast and the other fields)")
	} else {
		c.Violated("PART", fname, "every aligned entry is refreshed from its update", p.pos(tu.Pos()), "no loop over p.updated")
	}
	if l := byField["new"]; l != nil {
		ok, n := callOnAllTrips(l, stUpdate, func(call *ssa.Call) bool {
			ia, isIA := call.Call.Args[1].(*ssa.IndexAddr)
			if !isIA || !strings.HasSuffix(canon(ia.X), ".new)") {
				return false
			}
			r, _ := isRangeIndexOver(ia.Index, ia.X)
			return r || rangeIndexSeq(ia.Index) != nil
		})
		// and appended at the tail
		tail := false
		for b := range l.Blocks {
			for _, in := range b.Instrs {
				if st, isSt := in.(*ssa.Store); isSt && isAppendOf(st.Val, st.Addr) && strings.HasSuffix(canon(st.Addr), ".StopTimes") {
					tail = true
				}
			}
		}
		c.Check(ok && tail && n > 0, "PART", fname, "stops not yet in the journal are appended in update order", p.pos(l.Header.Instrs[0].Pos()), "for i in p.new: a fresh StopTime updated from p.new[i] is appended at the tail", "new stop times are not appended one per remaining update, in order, at the tail")
	} else {
		c.Violated("PART", fname, "stops not yet in the journal are appended in update order", p.pos(tu.Pos()), "no loop over p.new")
	}
	// trim bound
	okTrim := false
	for _, blk := range tu.Blocks {
		for _, in := range blk.Instrs {
			if st, ok := in.(*ssa.Store); ok && strings.HasSuffix(canon(st.Addr), ".StopTimes") {
				if sl, ok := st.Val.(*ssa.Slice); ok && sl.Low == nil && sl.High != nil {
					d := descr(sl.High)
					if d == "len(p.past)+len(p.updated)" && canon(sl.X) == "*("+canon(st.Addr)+")" {
						okTrim = true
					}
				}
			}
		}
	}
	c.Check(okTrim, "PART", fname, "list trimmed to past + aligned entries", p.pos(tu.Pos()), "trip.StopTimes = trip.StopTimes[:len(p.past)+len(p.updated)]", "the list is trimmed to something other than len(p.past)+len(p.updated): passed stops can be dropped or stale entries kept")
	// the partition comes from createPartition(trip.StopTimes, update's StopTimeUpdates)
	okCall := false
	for _, blk := range tu.Blocks {
		for _, in := range blk.Instrs {
			if call, ok := in.(*ssa.Call); ok && staticCallee(call) == cp {
				a0, a1 := b.bind(call.Call.Args[0]), b.bind(call.Call.Args[1])
				okCall = strings.HasSuffix(a0, "param:trip.StopTimes") && strings.HasSuffix(a1, "param:tripUpdate.StopTimeUpdates")
			}
		}
	}
	c.Check(okCall, "PART", fname, "partition of the journal's list against this update", p.pos(tu.Pos()), "createPartition(trip.StopTimes, tripUpdate.StopTimeUpdates)", "the partition is not computed from the trip's current list and this update's stop time updates")
	// J4: createPartition
	runPartitionShape(c, cp, b)
}

func runPartitionShape(c *Ctx, cp *ssa.Function, b *binder) {
	p := c.P
	fname := shortName(cp)
	stopTimes, updates := cp.Params[0], cp.Params[1]
	loops := naturalLoops(cp)
	// search loop: full range over stopTimes, the only data condition is StopID == first update's stop id
	var search *Loop
	var searchIdx ssa.Value
	for _, l := range loops {
		for b2 := range l.Blocks {
			for _, in := range b2.Instrs {
				if ia, ok := in.(*ssa.IndexAddr); ok && ia.X == ssa.Value(stopTimes) {
					if r, _ := isRangeIndexOver(ia.Index, stopTimes); r {
						search, searchIdx = l, ia.Index
					}
				}
			}
		}
	}
	if search == nil {
		c.Violated("PART", fname, "first updated stop searched in the whole list", p.pos(cp.Pos()), "no range loop over the whole stopTimes list: the alignment point is searched in only part of the journal (entries before it would be dropped)")
	} else {
		nConds := 0
		okCond := false
		for b2 := range search.Blocks {
			iff, ok := b2.Instrs[len(b2.Instrs)-1].(*ssa.If)
			if !ok || b2 == search.Header {
				continue
			}
			nConds++
			if bo, ok := iff.Cond.(*ssa.BinOp); ok && bo.Op == token.EQL {
				l, r := b.bind(bo.X), b.bind(bo.Y)
				if (strings.HasSuffix(l, ".StopID") && strings.Contains(r, "param:updates[const:0]")) || (strings.HasSuffix(r, ".StopID") && strings.Contains(l, "param:updates[const:0]")) {
					okCond = true
				}
			}
		}
		c.Check(okCond && nConds == 1, "PART", fname, "first updated stop searched in the whole list", p.pos(search.Header.Instrs[0].Pos()), "range over all of stopTimes, match on StopID == the update's first stop id only", "the search for the update's first stop skips entries or uses another criterion (e.g. only entries not yet marked past): if the stop is already in the list, entries before it can be dropped")
	}
	// past = stopTimes[:idx] with idx from the search
	okPast := false
	for _, fs := range collectFieldStores([]*ssa.Function{cp}, "journal.partition") {
		if fs.field != "past" {
			continue
		}
		if sl, ok := fs.store.Val.(*ssa.Slice); ok && sl.X == ssa.Value(stopTimes) && sl.Low == nil && sl.High != nil {
			if phi, ok := sl.High.(*ssa.Phi); ok {
				for _, ed := range phi.Edges {
					if ed == searchIdx {
						okPast = true
					}
				}
			}
		}
	}
	c.Check(okPast, "PART", fname, "past = entries before the first updated stop", p.pos(cp.Pos()), "p.past = stopTimes[:index of the first updated stop]", "p.past is not the prefix before the matched stop")
	// new = updates[updateIndex:]
	okNew := false
	for _, fs := range collectFieldStores([]*ssa.Function{cp}, "journal.partition") {
		if fs.field == "new" {
			if sl, ok := fs.store.Val.(*ssa.Slice); ok && sl.X == ssa.Value(updates) && sl.High == nil && sl.Low != nil {
				okNew = true
			}
		}
	}
	c.Check(okNew, "PART", fname, "new = updates not aligned to an existing entry", p.pos(cp.Pos()), "p.new = updates[number aligned:]", "p.new is not the tail of the updates after the aligned ones")
	// updated pairs: existing = &stopTimes[first+i], update = &updates[k], k advancing by one per pair
	okPair := false
	for _, fs := range collectFieldStores([]*ssa.Function{cp}, "journal.updated") {
		if fs.field == "existing" {
			if ia, ok := fs.store.Val.(*ssa.IndexAddr); ok && ia.X == ssa.Value(stopTimes) {
				okPair = true
			}
		}
	}
	c.Check(okPair, "PART", fname, "aligned pairs point into the journal's own list", p.pos(cp.Pos()), "updated.existing = &stopTimes[i]", "aligned entries are copies, not the journal's own entries: in-place updates are lost")
}

// ---------------------------------------------------------------- C15

func runJournalTrips(c *Ctx) {
	p := c.P
	b := newBinder(c)
	bj := c.anchor("journal:BuildJournal")
	tu := c.anchor("journal:(*Trip).update")
	tm := c.anchor("journal:(*Trip).markPast")
	if bj == nil || tu == nil || tm == nil {
		return
	}
	fname := shortName(bj)
	// K1: UID sibling agreement
	var uidExprs []string
	for _, fn := range []*ssa.Function{bj, tu} {
		for _, blk := range fn.Blocks {
			for _, in := range blk.Instrs {
				call, ok := in.(*ssa.Call)
				if !ok {
					continue
				}
				name := calleeName(call)
				if strings.HasSuffix(name, ".buildTripUID") || name == "fmt.Sprintf" {
					e := b.bind(call)
					if strings.Contains(e, "StartDate") || strings.Contains(e, "buildTripUID") {
						// normalise the parameter name
						e = strings.ReplaceAll(e, "&(param:tripUpdate)", "T")
						e = strings.ReplaceAll(e, "param:tripUpdate", "T")
						for _, nm := range []string{"&param:feedMessage.Trips[", "param:feedMessage.Trips["} {
							_ = nm
						}
						uidExprs = append(uidExprs, shortName(fn)+": "+e)
					}
				}
			}
		}
	}
	// both construction sites must pass (StartDate.Add(StartTime), ID.ID) of the same trip update to the same helper / format
	norm := func(s string) string {
		i := strings.Index(s, ": ")
		s = s[i+2:]
		// replace whatever denotes the trip update by T
		for _, pat := range []string{"range(", "deref(", "cell("} {
			_ = pat
		}
		return s
	}
	okUID := len(uidExprs) == 2
	if okUID {
		a, bb := norm(uidExprs[0]), norm(uidExprs[1])
		shape := func(s string) string {
			// keep only the structure: function names and field names
			var out []string
			for _, tok := range strings.FieldsFunc(s, func(r rune) bool { return strings.ContainsRune("(),&[]#+ ", r) }) {
				if i := strings.LastIndex(tok, "."); i >= 0 && strings.Contains(tok, "ID") || strings.Contains(tok, "Start") || strings.Contains(tok, "buildTripUID") || strings.Contains(tok, "Add") {
					if i := strings.Index(tok, ".ID"); i >= 0 {
						tok = tok[i:]
					} else if i := strings.Index(tok, ".Start"); i >= 0 {
						tok = tok[i:]
					}
					out = append(out, tok)
				}
			}
			return strings.Join(out, " ")
		}
		okUID = shape(a) == shape(bb) && strings.Contains(a, ".ID.StartDate") && strings.Contains(a, ".ID.StartTime") && strings.Contains(a, ".ID.ID")
		if !okUID {
			c.Note("UID expressions: %v / shapes %q vs %q", uidExprs, shape(a), shape(bb))
		}
	}
	c.Check(okUID, "UID", "journal", "trip UID built identically where it is looked up and where it is recorded", "-", "both sites build it from (StartDate.Add(StartTime), ID.ID) with the same helper", fmt.Sprintf("the UID used as the map key and the UID recorded in the entry are built differently: %v", uidExprs))
	if f := c.anchor("journal:buildTripUID"); f != nil {
		ok := false
		for _, blk := range f.Blocks {
			for _, in := range blk.Instrs {
				if call, isCall := in.(*ssa.Call); isCall && calleeName(call) == "fmt.Sprintf" {
					if s, isS := constString(call.Call.Args[0]); isS && s == "%d%s" {
						e := b.bind(call.Call.Args[1])
						ok = strings.Contains(e, "time.Time.Unix(param:startTime)") && strings.Contains(e, "param:tripID")
					}
				}
			}
		}
		c.Check(ok, "UID", shortName(f), "UID = unix start + trip id without its origin-time prefix", p.pos(f.Pos()), "Sprintf(\"%d%s\", startTime.Unix(), tripID[6:] or tripID)", "the UID format changed")
	}
	// K2: every trip update of a feed reaches update-or-create, and is recorded as active
	loops := naturalLoops(bj)
	var tripLoop, vanishLoop, feedLoop *Loop
	for _, l := range loops {
		for blk := range l.Blocks {
			for _, in := range blk.Instrs {
				if call, ok := in.(*ssa.Call); ok {
					switch staticCallee(call) {
					case tu:
						if tripLoop == nil || len(l.Blocks) < len(tripLoop.Blocks) {
							tripLoop = l
						}
					case tm:
						if vanishLoop == nil || len(l.Blocks) < len(vanishLoop.Blocks) {
							vanishLoop = l
						}
					}
					if call.Call.IsInvoke() && call.Call.Method.Name() == "Next" {
						if feedLoop == nil || len(l.Blocks) > len(feedLoop.Blocks) {
							feedLoop = l
						}
					}
				}
			}
		}
	}
	if tripLoop == nil || vanishLoop == nil || feedLoop == nil {
		c.Violated("ACCT", fname, "per-feed accounting loops", p.pos(bj.Pos()), "the loop over a feed's trips (calling Trip.update), the loop marking vanished trips, or the feed loop was not found")
		return
	}
	okAll := true
	why := ""
	n := pathsWithin(tripLoop.Header.Succs[0], tripLoop, func(path []*ssa.BasicBlock, back bool) {
		if !back {
			return
		}
		upd, active := false, false
		for _, blk := range path {
			for _, in := range blk.Instrs {
				switch x := in.(type) {
				case *ssa.Call:
					if staticCallee(x) == tu {
						upd = true
					}
				case *ssa.MapUpdate:
					if x.Map.Type().String() == "map[string]bool" {
						if k, isC := constBool(x.Value); isC && k {
							active = true
						}
					}
				}
			}
		}
		if !upd {
			okAll, why = false, "a trip update of the feed can be skipped before it is applied (a pre-filter or early continue in the per-trip loop)"
		}
		if !active {
			okAll, why = false, "a trip present in the feed is not recorded as active: it will be marked past although it is still reported"
		}
	})
	c.Check(okAll && n > 0, "ACCT", fname, "every trip of a feed is applied and recorded as present", p.pos(tripLoop.Header.Instrs[0].Pos()), fmt.Sprintf("all %d paths through the per-trip loop call Trip.update and set newActiveTrips[uid]", n), why)
	// create path: fresh entries start the counters at -1 and are stored under the uid
	okCreate := false
	for blk := range tripLoop.Blocks {
		for _, in := range blk.Instrs {
			if mu, ok := in.(*ssa.MapUpdate); ok && strings.HasSuffix(mu.Map.Type().String(), "journal.Trip") {
				if a, isAlloc := mu.Value.(*ssa.Alloc); isAlloc {
					// guarded by !ok of the lookup under the same key
					for _, ce := range dominatingConds(blk) {
						if ex, isEx := ce.Cond.(*ssa.Extract); isEx && ex.Index == 1 && !ce.Val {
							if lk, isLk := ex.Tuple.(*ssa.Lookup); isLk && lk.X == mu.Map && lk.Index == mu.Key {
								okCreate = true
							}
						}
					}
					_ = a
				}
			}
		}
	}
	c.Check(okCreate, "ACCT", fname, "one entry per UID, created only when absent", p.pos(tripLoop.Header.Instrs[0].Pos()), "trips[uid] = &trip only on the !ok edge of trips[uid]", "an existing journal entry can be replaced by a fresh one (its history is lost) or entries are created under another key")
	// K3: vanished trips
	var rng *ssa.Range
	for _, in := range vanishLoop.Header.Instrs {
		if nx, ok := in.(*ssa.Next); ok {
			rng, _ = nx.Iter.(*ssa.Range)
		}
	}
	okVanish := rng != nil
	whyV := "the loop marking vanished trips does not range over the previous feed's active set"
	if okVanish {
		// skip iff newActiveTrips[uid]; markPast(createdAt) otherwise; createdAt = feedMessage.CreatedAt
		okSkip, okMark := false, false
		for blk := range vanishLoop.Blocks {
			if iff, isIf := blk.Instrs[len(blk.Instrs)-1].(*ssa.If); isIf && blk != vanishLoop.Header {
				if lk, isLk := iff.Cond.(*ssa.Lookup); isLk && lk.X.Type().String() == "map[string]bool" && lk.X != rng.X {
					okSkip = true
				}
			}
			for _, in := range blk.Instrs {
				if call, isCall := in.(*ssa.Call); isCall && staticCallee(call) == tm {
					e := b.bind(call.Call.Args[1])
					if strings.HasSuffix(e, ".CreatedAt") {
						okMark = true
					}
					// only on the not-present edge
					present := false
					for _, ce := range dominatingConds(blk) {
						if lk, isLk := ce.Cond.(*ssa.Lookup); isLk && !ce.Val && lk.X != rng.X {
							present = true
						}
					}
					if !present {
						okMark = false
					}
				}
			}
		}
		okVanish = okSkip && okMark
		whyV = "a trip of the previous feed is not marked past exactly when it is absent from the current feed, with the current feed's time"
		// activeTrips replaced each feed: the ranged map is a phi at the feed loop's header fed by the per-feed map
		if phi, isPhi := rng.X.(*ssa.Phi); !isPhi || phi.Block() != feedLoop.Header {
			okVanish, whyV = false, "the set of trips present in the previous feed is not replaced after each feed (a single reused set or a time comparison cannot tell a skipped update from a vanished trip)"
		} else {
			fresh := false
			for i, ed := range phi.Edges {
				if feedLoop.Blocks[phi.Block().Preds[i]] {
					if mk, isMk := ed.(*ssa.MakeMap); isMk && feedLoop.Blocks[mk.Block()] {
						fresh = true
					}
				}
			}
			if !fresh {
				okVanish, whyV = false, "the previous-feed set is not the fresh per-feed set built while applying the feed"
			}
		}
	}
	c.Check(okVanish, "ACCT", fname, "trips missing from a feed are marked past with that feed's time", p.pos(vanishLoop.Header.Instrs[0].Pos()), "for uid in previous feed's set: skip iff present now, else trips[uid].markPast(feed.CreatedAt); the set is replaced each feed", whyV)
	// K4: selection
	var selLoop *Loop
	for _, l := range loops {
		if feedLoop.Blocks[l.Header] {
			continue
		}
		for _, in := range l.Header.Instrs {
			if nx, ok := in.(*ssa.Next); ok {
				if r, ok := nx.Iter.(*ssa.Range); ok && strings.HasSuffix(r.X.Type().String(), "journal.Trip") {
					selLoop = l
				}
			}
		}
	}
	if selLoop == nil {
		c.Violated("ACCT", fname, "selection by window and assignment", p.pos(bj.Pos()), "no loop over the journal's trips after the feeds were applied")
	} else {
		var conds []string
		for blk := range selLoop.Blocks {
			if blk == selLoop.Header {
				continue
			}
			if iff, ok := blk.Instrs[len(blk.Instrs)-1].(*ssa.If); ok {
				conds = append(conds, b.bind(iff.Cond))
			}
		}
		sort.Strings(conds)
		// normalise the entry being tested to X
		x := ""
		for _, cd := range conds {
			if strings.HasSuffix(cd, ".IsAssigned") && !strings.Contains(cd, "(") || strings.HasSuffix(cd, ".IsAssigned") {
				x = strings.TrimSuffix(cd, ".IsAssigned")
			}
		}
		if x != "" {
			for i := range conds {
				conds[i] = strings.ReplaceAll(conds[i], x, "X")
			}
		}
		sort.Strings(conds)
		want := []string{
			"time.Time.Before(X.StartTime,param:startTime)",
			"time.Time.Before(param:endTime,X.StartTime)",
			"X.IsAssigned",
		}
		sort.Strings(want)
		c.Check(strings.Join(conds, " ; ") == strings.Join(want, " ; "), "ACCT", fname, "selection by window and assignment", p.pos(selLoop.Header.Instrs[0].Pos()), "skip exactly on StartTime before start, end before StartTime, or never assigned", fmt.Sprintf("selection conditions are %v (expected %v)", conds, want))
	}
	// K5: Trip.update
	runTripUpdateShape(c, tu, b)
	// K6: Trip.markPast visits every stop time
	okAllStops := false
	for _, l := range naturalLoops(tm) {
		pathsOK := true
		n := pathsWithin(l.Header, l, func(path []*ssa.BasicBlock, back bool) {
			if !back {
				return
			}
			has := false
			for _, blk := range path {
				for _, in := range blk.Instrs {
					if call, ok := in.(*ssa.Call); ok && strings.HasSuffix(calleeName(call), "StopTime).markPast") {
						has = true
					}
				}
			}
			if !has {
				pathsOK = false
			}
		})
		// loop bound: i < len(trip.StopTimes) from 0
		for _, in := range l.Header.Instrs {
			if bo, ok := in.(*ssa.BinOp); ok && bo.Op == token.LSS {
				if lx, ok := lenOf(bo.Y); ok && strings.HasSuffix(canon(lx), ".StopTimes)") {
					if phi, ok := bo.X.(*ssa.Phi); ok {
						for _, ed := range phi.Edges {
							if k, isC := constInt(ed); isC && k == 0 && pathsOK && n > 0 {
								okAllStops = true
							}
						}
					}
				}
			}
		}
	}
	c.Check(okAllStops, "ACCT", shortName(tm), "marking a trip past marks all its stops", p.pos(tm.Pos()), "for i := 0; i < len(StopTimes); i++ { StopTimes[i].markPast(t) }", "marking a trip past does not visit every stop time")
}

func runTripUpdateShape(c *Ctx, tu *ssa.Function, b *binder) {
	p := c.P
	fname := shortName(tu)
	// early return before any store on IsAssigned && Vehicle == nil
	entry := tu.Blocks[0]
	var guardRet *ssa.BasicBlock
	var body *ssa.BasicBlock
	okGuard := false
	// walk the short-circuit: entry tests trip.IsAssigned, then tripUpdate.Vehicle == nil
	seenStores := false
	for _, in := range entry.Instrs {
		if _, ok := in.(*ssa.Store); ok {
			seenStores = true
		}
	}
	for _, blk := range tu.Blocks {
		if ret, ok := blk.Instrs[len(blk.Instrs)-1].(*ssa.Return); ok && len(blk.Instrs) == 1 {
			_ = ret
			conds := dominatingConds(blk)
			a, v := false, false
			for _, ce := range conds {
				e := b.bind(ce.Cond)
				if strings.HasSuffix(e, "param:trip.IsAssigned") && ce.Val {
					a = true
				}
				if bo, ok := ce.Cond.(*ssa.BinOp); ok && isNilConst(bo.Y) && strings.HasSuffix(b.bind(bo.X), "param:tripUpdate.Vehicle") && ((bo.Op == token.EQL && ce.Val) || (bo.Op == token.NEQ && !ce.Val)) {
					v = true
				}
			}
			if a && v {
				guardRet = blk
				okGuard = true
			}
		}
	}
	// no store is executed before the guard
	if okGuard {
		for _, blk := range tu.Blocks {
			if blk.Dominates(guardRet) && blk != guardRet {
				for _, in := range blk.Instrs {
					if st, ok := in.(*ssa.Store); ok {
						if _, isAlloc := addrRoot(st.Addr).(*ssa.Alloc); !isAlloc {
							okGuard = false
						}
					}
				}
			}
		}
	}
	c.Check(okGuard && !seenStores, "ACCT", fname, "an update without a vehicle does not alter an assigned trip", p.pos(tu.Pos()), "return before any store when trip.IsAssigned && tripUpdate.Vehicle == nil", "an assigned trip's recorded data can be altered by an update that lacks a vehicle")
	// the block where the real work starts: the successor of the guard test that is not the return
	for _, blk := range tu.Blocks {
		hasStore := false
		for _, in := range blk.Instrs {
			if st, ok := in.(*ssa.Store); ok {
				if fa, ok := st.Addr.(*ssa.FieldAddr); ok && fa.X == ssa.Value(tu.Params[0]) {
					hasStore = true
				}
			}
		}
		if hasStore && (body == nil || blk.Dominates(body)) {
			body = blk
		}
	}
	if body == nil {
		c.Violated("ACCT", fname, "bookkeeping fields", p.pos(tu.Pos()), "Trip.update stores nothing")
		return
	}
	all, _ := storesOnAllPaths(tu, tu.Params[0], body)
	want := map[string][]string{
		"TripUID":      {"param:tripUpdate.ID.ID", "param:tripUpdate.ID.StartDate", "param:tripUpdate.ID.StartTime"},
		"TripID":       {"param:tripUpdate.ID.ID"},
		"RouteID":      {"param:tripUpdate.ID.RouteID"},
		"DirectionID":  {"param:tripUpdate.ID.DirectionID"},
		"StartTime":    {"time.Time.Add(param:tripUpdate.ID.StartDate,param:tripUpdate.ID.StartTime)"},
		"VehicleID":    {"GetVehicle(param:tripUpdate)", "GetID(", ".ID"},
		"IsAssigned":   {"param:tripUpdate.Vehicle"},
		"LastObserved": {"param:feedCreatedAt"},
		"MarkedPast":   {"const:nil"},
		"NumUpdates":   {"(param:trip.NumUpdates + const:1)"},
	}
	var fields []string
	for f := range want {
		fields = append(fields, f)
	}
	sort.Strings(fields)
	for _, f := range fields {
		s, ok := all[f]
		if !ok {
			c.Violated("ACCT", fname, "Trip."+f+" recorded by every applied update", p.pos(tu.Pos()), "an applied update leaves Trip."+f+" unchanged on some path")
			continue
		}
		e := b.bind(s.Val)
		okB := true
		for _, w := range want[f] {
			if !strings.Contains(e, w) {
				okB = false
			}
		}
		c.Check(okB, "ACCT", fname, "Trip."+f+" recorded by every applied update", p.ipos(s), f+" <- "+clip(e, 90), fmt.Sprintf("Trip.%s is taken from %s (expected to involve %v)", f, clip(e, 120), want[f]))
	}
}
