package main

// C14 / C15: structural necessary conditions of the journal builder (history semantics themselves are not decided).

import (
	"fmt"
	"go/token"
	"go/types"
	"sort"
	"strings"

	"golang.org/x/tools/go/ssa"
)

// unconditionalStores: field -> bound expression, for the stores to fields of recv's struct that execute on every
// path from entry to every return (after an optional early-return guard block given by `from`).
// helperCallsOnAllPaths: set by storesOnAllPaths: the methods of the same receiver that are called on every path
// (their own all-path stores were merged in).
var helperCallsOnAllPaths map[*ssa.Function]bool

func storesOnAllPaths(fn *ssa.Function, recv ssa.Value, from *ssa.BasicBlock) (all map[string]*ssa.Store, some map[string]*ssa.Store) {
	return storesOnAllPathsD(fn, recv, from, 0)
}

func storesOnAllPathsD(fn *ssa.Function, recv ssa.Value, from *ssa.BasicBlock, depth int) (all map[string]*ssa.Store, some map[string]*ssa.Store) {
	all = map[string]*ssa.Store{}
	some = map[string]*ssa.Store{}
	first := true
	callsAll := map[*ssa.Function]bool{}
	firstCalls := true
	type helperSum struct{ all, some map[string]*ssa.Store }
	helpers := map[*ssa.Function]*helperSum{}
	helperOf := func(in ssa.Instruction) (*ssa.Function, *helperSum) {
		call, ok := in.(*ssa.Call)
		if !ok || depth > 1 || len(call.Call.Args) == 0 || call.Call.Args[0] != recv {
			return nil, nil
		}
		h := call.Call.StaticCallee()
		if h == nil || call.Call.IsInvoke() || len(h.Blocks) == 0 || len(h.Params) == 0 || h == fn || h.Pkg != fn.Pkg || !types.Identical(h.Params[0].Type(), recv.Type()) {
			return nil, nil
		}
		if hs, ok := helpers[h]; ok {
			return h, hs
		}
		a, sm := storesOnAllPathsD(h, h.Params[0], h.Blocks[0], depth+1)
		hs := &helperSum{a, sm}
		helpers[h] = hs
		return h, hs
	}
	var rec func(b *ssa.BasicBlock, seen map[string]*ssa.Store, on map[*ssa.BasicBlock]bool)
	rec = func(b *ssa.BasicBlock, seen map[string]*ssa.Store, on map[*ssa.BasicBlock]bool) {
		if on[b] {
			return
		}
		on[b] = true
		defer delete(on, b)
		cur := map[string]*ssa.Store{}
		for k, v := range seen {
			cur[k] = v
		}
		for _, in := range b.Instrs {
			if st, ok := in.(*ssa.Store); ok {
				if fa, ok := st.Addr.(*ssa.FieldAddr); ok && fa.X == recv {
					f := fieldName(fa.X.Type(), fa.Field)
					cur[f] = st
					some[f] = st
				}
			}
			// a method of the same receiver: what it stores on all of its paths is stored here
			if h, hs := helperOf(in); hs != nil {
				for f, st := range hs.all {
					cur[f] = st
				}
				for f, st := range hs.some {
					some[f] = st
				}
				cur["\x00call:"+h.String()] = nil
			}
		}
		if len(b.Succs) == 0 {
			if _, isRet := b.Instrs[len(b.Instrs)-1].(*ssa.Return); isRet {
				these := map[*ssa.Function]bool{}
				for k := range cur {
					if strings.HasPrefix(k, "\x00call:") {
						for h := range helpers {
							if "\x00call:"+h.String() == k {
								these[h] = true
							}
						}
					}
				}
				if firstCalls {
					callsAll, firstCalls = these, false
				} else {
					for h := range callsAll {
						if !these[h] {
							delete(callsAll, h)
						}
					}
				}
				if first {
					for k, v := range cur {
						all[k] = v
					}
					first = false
				} else {
					for k := range all {
						if _, ok := cur[k]; !ok {
							delete(all, k)
						}
					}
				}
			}
			return
		}
		for _, s := range b.Succs {
			rec(s, cur, on)
		}
	}
	rec(from, map[string]*ssa.Store{}, map[*ssa.BasicBlock]bool{})
	for k := range all {
		if strings.HasPrefix(k, "\x00call:") {
			delete(all, k)
		}
	}
	if depth == 0 {
		helperCallsOnAllPaths = callsAll
	}
	return
}

func markOnce(c *Ctx, spec string) {
	p := c.P
	f := c.anchor(spec)
	if f == nil {
		return
	}
	fname := shortName(f)
	tprm := paramOfType(f, "time.Time")
	n := 0
	for _, g := range c.regionOf(f) {
		if fnPkgPath(g) != fnPkgPath(f) {
			continue
		}
		for _, b := range g.Blocks {
			for _, in := range b.Instrs {
				st, ok := in.(*ssa.Store)
				if !ok {
					continue
				}
				fa, ok := st.Addr.(*ssa.FieldAddr)
				if !ok || fieldName(fa.X.Type(), fa.Field) != "MarkedPast" || typeName(fa.X.Type()) != typeName(f.Params[0].Type()) || g != f {
					continue
				}
				if isNilConst(st.Val) {
					continue
				}
				n++
				guarded := false
				further := ""
				for _, ce := range dominatingConds(b) {
					if bo, ok := ce.Cond.(*ssa.BinOp); ok && isNilConst(bo.Y) && canon(bo.X) == "*("+canon(fa)+")" {
						if (bo.Op == token.EQL && ce.Val) || (bo.Op == token.NEQ && !ce.Val) {
							guarded = true
							continue
						}
					}
					if in, isIn := ce.Cond.(ssa.Instruction); isIn {
						further = canon(ce.Cond) + " at " + p.ipos(in)
					} else {
						further = canon(ce.Cond)
					}
				}
				// ... and whenever it is not marked yet: no other test stands between the call and the stamp
				c.Check(further == "", "MARK", fname, "an entry that is not marked yet is always marked", p.ipos(st), "the MarkedPast == nil test is the only condition the stamp depends on", "the stamp also depends on "+further+": a call of markPast can leave an unmarked entry unmarked (the callers, which mark every remaining entry of a vanished trip, rely on it)")
				// value: address of a copy of the feed-time parameter
				okVal := false
				if a, isAlloc := st.Val.(*ssa.Alloc); isAlloc && tprm != nil {
					for _, sv := range cellStores(a) {
						if prm, isP := sv.(*ssa.Parameter); isP && prm == tprm {
							okVal = true
						}
					}
				}
				c.Check(guarded && okVal, "MARK", fname, "marked past only once, with the feed's time", p.ipos(st), "MarkedPast = &feedCreatedAt only on the MarkedPast == nil edge", "an entry that is already marked past can be re-stamped (the time of the first feed that no longer reported it is lost), or the stamp is not the feed's time")
			}
		}
	}
	// or through a small helper handed the address of the field (set-if-nil): inside it, the store through that
	// parameter is on the *p == nil edge and stores the address of a copy of the value parameter, which the call binds
	// to the feed time
	for _, b := range f.Blocks {
		for _, in := range b.Instrs {
			call, ok := in.(*ssa.Call)
			if !ok || call.Call.IsInvoke() {
				continue
			}
			h := call.Call.StaticCallee()
			if h == nil || !p.isModuleFn(h) || len(h.Blocks) == 0 || len(h.Params) != len(call.Call.Args) {
				continue
			}
			for ai, a := range call.Call.Args {
				fa, isFA := a.(*ssa.FieldAddr)
				if !isFA || fa.X != ssa.Value(f.Params[0]) || fieldName(fa.X.Type(), fa.Field) != "MarkedPast" {
					continue
				}
				prm := h.Params[ai]
				for _, hb := range h.Blocks {
					for _, hin := range hb.Instrs {
						st, isSt := hin.(*ssa.Store)
						if !isSt || st.Addr != ssa.Value(prm) || isNilConst(st.Val) {
							continue
						}
						n++
						guarded := false
						for _, ce := range dominatingConds(hb) {
							if bo, ok := ce.Cond.(*ssa.BinOp); ok && isNilConst(bo.Y) {
								if ld, isLd := bo.X.(*ssa.UnOp); isLd && ld.Op == token.MUL && ld.X == ssa.Value(prm) {
									if (bo.Op == token.EQL && ce.Val) || (bo.Op == token.NEQ && !ce.Val) {
										guarded = true
									}
								}
							}
						}
						okVal := false
						if cell, isAlloc := st.Val.(*ssa.Alloc); isAlloc && tprm != nil {
							for _, sv := range cellStores(cell) {
								if vp, isP := sv.(*ssa.Parameter); isP && vp.Parent() == h {
									if k := paramIndex(vp); k >= 0 && k < len(call.Call.Args) && call.Call.Args[k] == ssa.Value(tprm) {
										okVal = true
									}
								}
							}
						}
						c.Check(guarded && okVal, "MARK", fname, "marked past only once, with the feed's time", p.ipos(call), "through "+shortName(h)+": *p = &v only on the *p == nil edge, p = &MarkedPast, v = the feed's time", "an entry that is already marked past can be re-stamped (the time of the first feed that no longer reported it is lost), or the stamp is not the feed's time")
					}
				}
			}
		}
	}
	if n == 0 {
		c.Violated("MARK", fname, "marks past", p.pos(f.Pos()), "markPast never sets MarkedPast")
	}
}

// bindReq: what the bound expression of a stored value must and must not mention.
type bindReq struct {
	all  []string
	none []string
}

func (r bindReq) ok(e string) bool { return containsAll(e, r.all...) && !containsAny(e, r.none...) }

// headerLoopsOver: the loops of fn whose header tests an index against len(X) with X a load of a field named fld.
func headerLoopsOver(fn *ssa.Function, fld string) []*Loop {
	var out []*Loop
	for _, l := range naturalLoops(fn) {
		for _, in := range l.Header.Instrs {
			if bo, ok := in.(*ssa.BinOp); ok && bo.Op == token.LSS {
				if lx, ok := lenOf(bo.Y); ok && strings.HasSuffix(canon(lx), "."+fld+")") {
					out = append(out, l)
				}
			}
		}
	}
	return out
}

func runJournalStopTimes(c *Ctx) {
	p := c.P
	markOnce(c, "journal:(*StopTime).markPast")
	markOnce(c, "journal:(*Trip).markPast")
	b := newBinder(c)
	// J2: StopTime.update assigns every field, from the update
	if f := c.anchor("journal:(*StopTime).update"); f != nil {
		fname := shortName(f)
		all, _ := storesOnAllPaths(f, f.Params[0], f.Blocks[0])
		const U = "param:<gtfs.StopTimeUpdate>"
		want := map[string]bindReq{
			"StopID":        {[]string{U}, []string{"Arrival", "Departure", "NyctTrack"}},
			"ArrivalTime":   {[]string{U, "Arrival", ".Time"}, []string{"Departure", "Delay"}},
			"DepartureTime": {[]string{U, "Departure", ".Time"}, []string{"Arrival", "Delay"}},
			"Track":         {[]string{U + ".NyctTrack"}, nil},
			"LastObserved":  {[]string{"param:<time.Time>"}, []string{U}},
			"MarkedPast":    {[]string{"const:nil"}, []string{"param:"}},
		}
		st := structOf(f.Params[0].Type())
		for i := 0; i < st.NumFields(); i++ {
			field := st.Field(i).Name()
			s, ok := all[field]
			if !ok {
				c.Violated("UPD", fname, "StopTime."+field+" refreshed by every update", p.pos(f.Pos()), "an update leaves StopTime."+field+" at its previous value on some path: the entry no longer carries this update's data")
				continue
			}
			expr := b.bind(s.Val)
			req, known := want[field]
			if !known {
				c.Note("StopTime.%s has no binding oracle (unchecked): %s", field, clip(expr, 80))
				continue
			}
			c.Check(req.ok(expr), "UPD", fname, "StopTime."+field+" refreshed by every update", p.ipos(s), field+" <- "+clip(expr, 80), fmt.Sprintf("StopTime.%s is taken from %s (expected to mention %v and none of %v)", field, clip(expr, 100), req.all, req.none))
		}
	}
	// J3: Trip.update applies the partition
	tu := c.anchor("journal:(*Trip).update")
	stUpdate := c.anchor("journal:(*StopTime).update")
	stMark := c.anchor("journal:(*StopTime).markPast")
	cp := c.anchor("journal:createPartition")
	if tu == nil || stUpdate == nil || stMark == nil || cp == nil {
		return
	}
	fname := shortName(tu)
	// the function in which the partition is applied: Trip.update itself, or the method of the same receiver it hands
	// the stop time updates to (its parameters then stand for what Trip.update passes)
	tuOuter := tu
	{
		calls := func(g *ssa.Function) bool {
			for _, blk := range g.Blocks {
				for _, in := range blk.Instrs {
					if call, ok := in.(*ssa.Call); ok && staticCallee(call) == cp {
						return true
					}
				}
			}
			return false
		}
		if !calls(tu) {
			for _, blk := range tu.Blocks {
				for _, in := range blk.Instrs {
					call, ok := in.(*ssa.Call)
					if !ok || len(call.Call.Args) == 0 || call.Call.Args[0] != ssa.Value(tuOuter.Params[0]) {
						continue
					}
					if h := staticCallee(call); h != nil && h != tuOuter && len(h.Blocks) > 0 && h.Pkg == tuOuter.Pkg && calls(h) {
						if sb := b.atCallSite(h, []*ssa.Function{tuOuter}); sb != nil {
							tu, b = h, sb
						}
					}
				}
			}
		}
	}
	ps := partitionShapeOf(cp)
	feedTime := paramOfType(tu, "time.Time")
	if ps == nil || feedTime == nil {
		c.Undecided("PART", fname, "partition shape", p.pos(cp.Pos()), "the partition value is no longer {entries before, aligned pairs, remaining updates}, or Trip.update has no single feed-time parameter: the structural clauses cannot be stated")
		return
	}
	first := func(ls []*Loop) *Loop {
		if len(ls) == 0 {
			return nil
		}
		return ls[0]
	}
	callOnAllTrips := func(l *Loop, callee *ssa.Function, argOK func(call *ssa.Call) bool) (bool, int) {
		ok := true
		n := pathsWithin(l.Header, l, func(path []*ssa.BasicBlock, back bool) {
			if !back {
				return
			}
			has := false
			for _, b := range path {
				for _, in := range b.Instrs {
					if call, isCall := in.(*ssa.Call); isCall && staticCallee(call) == callee && argOK(call) {
						has = true
					}
				}
			}
			if !has {
				ok = false
			}
		})
		return ok, n
	}
	if l := first(headerLoopsOver(tu, ps.past)); l != nil {
		ok, n := callOnAllTrips(l, stMark, func(call *ssa.Call) bool {
			ia, isIA := call.Call.Args[0].(*ssa.IndexAddr)
			return isIA && strings.HasSuffix(canon(ia.X), "."+ps.past+")") && call.Call.Args[1] == ssa.Value(feedTime)
		})
		// nothing else touches the elements of p.past
		clean := true
		for b := range l.Blocks {
			for _, in := range b.Instrs {
				if st, isSt := in.(*ssa.Store); isSt {
					if _, isAlloc := addrRoot(st.Addr).(*ssa.Alloc); !isAlloc {
						clean = false
					}
				}
			}
		}
		c.Check(ok && clean && n > 0, "PART", fname, "entries before the update's first stop are only marked past", p.pos(l.Header.Instrs[0].Pos()), "every element of the partition's prefix gets markPast(feed time) and nothing else", "an entry that precedes the update's first stop is modified other than by marking it past, or is not marked on some path")
	} else if call := markAllCall(c, tu, stMark, func(seq, tm ssa.Value) bool {
		return strings.HasSuffix(canon(seq), "."+ps.past+")") && tm == ssa.Value(feedTime)
	}); call != nil {
		c.Proved("PART", fname, "entries before the update's first stop are only marked past", p.ipos(call), "the partition's prefix is handed to "+staticCallee(call).Name()+", which gives every element markPast(feed time) and nothing else")
	} else {
		c.Violated("PART", fname, "entries before the update's first stop are only marked past", p.pos(tu.Pos()), "no loop over the partition's prefix")
	}
	if l := first(headerLoopsOver(tu, ps.upd)); l != nil {
		ok, n := callOnAllTrips(l, stUpdate, func(call *ssa.Call) bool {
			return strings.HasSuffix(canon(call.Call.Args[0]), "."+ps.existing+")") && strings.HasSuffix(canon(call.Call.Args[1]), "."+ps.updateField+")") && call.Call.Args[2] == ssa.Value(feedTime)
		})
		c.Check(ok && n > 0, "PART", fname, "every aligned entry is refreshed from its update", p.pos(l.Header.Instrs[0].Pos()), "existing.update(update, feed time) on every trip around the loop over the aligned pairs", "an aligned entry can be left without StopTime.update on some path (a fast path that skips it also skips clearing MarkedPast and the other fields)")
	} else {
		c.Violated("PART", fname, "every aligned entry is refreshed from its update", p.pos(tu.Pos()), "no loop over the aligned pairs")
	}
	if l := first(headerLoopsOver(tu, ps.nw)); l != nil {
		fromNew := func(a ssa.Value) bool {
			ia, isIA := a.(*ssa.IndexAddr)
			if !isIA || !strings.HasSuffix(canon(ia.X), "."+ps.nw+")") {
				return false
			}
			return rangeIndexSeq(ia.Index) != nil
		}
		ok, n := callOnAllTrips(l, stUpdate, func(call *ssa.Call) bool { return fromNew(call.Call.Args[1]) })
		if !ok {
			// the fresh entry may be made by a small helper `newStopTime(update, t)` that calls StopTime.update on a
			// new value with its own parameters, on every path, and returns it
			for lb := range l.Blocks {
				for _, in := range lb.Instrs {
					wc, isCall := in.(*ssa.Call)
					if !isCall {
						continue
					}
					g := staticCallee(wc)
					if g == nil || g == stUpdate || g.Pkg != tu.Pkg || len(g.Blocks) != 1 || len(g.Params) != len(wc.Call.Args) {
						continue
					}
					for _, gin := range g.Blocks[0].Instrs {
						ic, isCall := gin.(*ssa.Call)
						if !isCall || staticCallee(ic) != stUpdate {
							continue
						}
						if _, fresh := ic.Call.Args[0].(*ssa.Alloc); !fresh {
							continue
						}
						for k, prm := range g.Params {
							if ic.Call.Args[1] == ssa.Value(prm) {
								wk := k
								ok, n = callOnAllTrips(l, g, func(call *ssa.Call) bool { return fromNew(call.Call.Args[wk]) })
							}
						}
					}
				}
			}
		}
		// and appended at the tail
		tail := false
		for b := range l.Blocks {
			for _, in := range b.Instrs {
				if st, isSt := in.(*ssa.Store); isSt && isAppendOf(st.Val, st.Addr) && strings.HasSuffix(canon(st.Addr), ".StopTimes") {
					tail = true
				}
			}
		}
		c.Check(ok && tail && n > 0, "PART", fname, "stops not yet in the journal are appended in update order", p.pos(l.Header.Instrs[0].Pos()), "for i over the remaining updates: a fresh StopTime updated from update i is appended at the tail", "new stop times are not appended one per remaining update, in order, at the tail")
	} else {
		c.Violated("PART", fname, "stops not yet in the journal are appended in update order", p.pos(tu.Pos()), "no loop over the remaining updates")
	}
	// trim bound
	okTrim := false
	for _, blk := range tu.Blocks {
		for _, in := range blk.Instrs {
			if st, ok := in.(*ssa.Store); ok && strings.HasSuffix(canon(st.Addr), ".StopTimes") {
				if sl, ok := st.Val.(*ssa.Slice); ok && isPartitionTrim(sl, ps) && canon(sl.X) == "*("+canon(st.Addr)+")" {
					okTrim = true
				}
			}
		}
	}
	c.Check(okTrim, "PART", fname, "list trimmed to past + aligned entries", p.pos(tu.Pos()), "trip.StopTimes = trip.StopTimes[:len(prefix)+len(aligned pairs)]", "the list is trimmed to something other than len(prefix)+len(aligned pairs): passed stops can be dropped or stale entries kept")
	// the partition comes from createPartition(trip.StopTimes, update's StopTimeUpdates)
	okCall := false
	for _, blk := range tu.Blocks {
		for _, in := range blk.Instrs {
			if call, ok := in.(*ssa.Call); ok && staticCallee(call) == cp {
				a0, a1 := b.bind(call.Call.Args[0]), b.bind(call.Call.Args[1])
				okCall = strings.HasSuffix(a0, "param:<journal.Trip>.StopTimes") && strings.HasSuffix(a1, "param:<gtfs.Trip>.StopTimeUpdates")
			}
		}
	}
	c.Check(okCall, "PART", fname, "partition of the journal's list against this update", p.pos(tu.Pos()), "createPartition(trip.StopTimes, tripUpdate.StopTimeUpdates)", "the partition is not computed from the trip's current list and this update's stop time updates")
	// every applied update is partitioned, whatever it carries: an update with no stop time updates still says that all
	// stops of the trip are behind it (everything is marked past, the list is trimmed). The only return that the
	// partition does not precede is the one of an update that is not applied (assigned trip, update without vehicle).
	{
		var cpBlk *ssa.BasicBlock
		for _, blk := range tu.Blocks {
			for _, in := range blk.Instrs {
				if call, ok := in.(*ssa.Call); ok && staticCallee(call) == cp {
					cpBlk = blk
				}
			}
		}
		bad := ""
		if cpBlk != nil {
			for _, blk := range tu.Blocks {
				ret, isRet := blk.Instrs[len(blk.Instrs)-1].(*ssa.Return)
				if !isRet || blk == cpBlk || cpBlk.Dominates(blk) {
					continue
				}
				notApplied := false
				for _, ce := range dominatingConds(blk) {
					if bo, ok := ce.Cond.(*ssa.BinOp); ok && isNilConst(bo.Y) && strings.HasSuffix(b.bind(bo.X), ".Vehicle") && ((bo.Op == token.EQL && ce.Val) || (bo.Op == token.NEQ && !ce.Val)) {
						notApplied = true
					}
				}
				if !notApplied {
					bad = p.ipos(ret)
				}
			}
			c.Check(bad == "", "PART", fname, "every applied update is partitioned", p.pos(tu.Pos()), "createPartition precedes every return except the one of an update that is not applied", "the function returns at "+bad+" without partitioning the list against the update: for such an update (e.g. one without stop time updates) the stops that are behind the trip are not marked past and the list is not trimmed")
		}
	}
	// the partition's prefix and pairs point into the list's backing array: until both loops are done the list must
	// stay in that array (a reslice is fine, a reallocated copy is not: marks and refreshes would land in the old one)
	{
		var cpCall ssa.Instruction
		for _, blk := range tu.Blocks {
			for _, in := range blk.Instrs {
				if call, ok := in.(*ssa.Call); ok && staticCallee(call) == cp {
					cpCall = call
				}
			}
		}
		var loops []*Loop
		if l := first(headerLoopsOver(tu, ps.past)); l != nil {
			loops = append(loops, l)
		}
		if l := first(headerLoopsOver(tu, ps.upd)); l != nil {
			loops = append(loops, l)
		}
		moved := ""
		nStores := 0
		for _, blk := range tu.Blocks {
			for _, in := range blk.Instrs {
				if call, isCall := in.(*ssa.Call); isCall && cpCall != nil && in != cpCall && (cpCall.Block() == blk || canReach(cpCall.Block(), blk)) {
					// a helper called between the partition and the loops that re-homes the list
					if callee := staticCallee(call); callee != nil && callee != cp && p.fnIndex[callee] {
						if at := rehomesStopTimes(p, callee, map[*ssa.Function]bool{}, 0); at != "" {
							nStores++
							for _, l := range loops {
								if l.Blocks[blk] || canReach(blk, l.Header) {
									moved = p.ipos(call) + " (" + shortName(callee) + " stores a new array at " + at + ")"
								}
							}
						}
					}
					continue
				}
				st, ok := in.(*ssa.Store)
				if !ok || !strings.HasSuffix(canon(st.Addr), ".StopTimes") {
					continue
				}
				nStores++
				if sl, isSl := st.Val.(*ssa.Slice); isSl && canon(sl.X) == "*("+canon(st.Addr)+")" {
					continue // same backing array
				}
				if cpCall == nil || !(cpCall.Block() == blk || canReach(cpCall.Block(), blk)) {
					continue
				}
				for _, l := range loops {
					if l.Blocks[blk] || canReach(blk, l.Header) {
						moved = p.ipos(st)
					}
				}
			}
		}
		if cpCall != nil && len(loops) == 2 {
			c.Check(moved == "", "PART", fname, "entries are marked and refreshed in the list itself", p.pos(tu.Pos()), fmt.Sprintf("none of the %d stores to StopTimes that can precede the mark / refresh loops gives the list another backing array", nStores), "StopTimes is given another backing array at "+moved+" while the partition still points into the old one: the marks and refreshes that follow are written to entries that are no longer in the list")
		}
	}
	// J4: createPartition
	runPartitionShape(c, cp, ps, b)
}

// rehomesStopTimes: fn (or a module function it calls) stores into a StopTimes field something other than a re-slice of
// that field: position of the store, or "".
func rehomesStopTimes(p *Program, fn *ssa.Function, seen map[*ssa.Function]bool, d int) string {
	if fn == nil || seen[fn] || d > 3 {
		return ""
	}
	seen[fn] = true
	for _, blk := range fn.Blocks {
		for _, in := range blk.Instrs {
			switch x := in.(type) {
			case *ssa.Store:
				fa, ok := x.Addr.(*ssa.FieldAddr)
				if !ok || fieldName(fa.X.Type(), fa.Field) != "StopTimes" {
					continue
				}
				if sl, isSl := x.Val.(*ssa.Slice); isSl && canon(sl.X) == "*("+canon(x.Addr)+")" {
					continue
				}
				return p.ipos(x)
			case *ssa.Call:
				if callee := staticCallee(x); callee != nil && p.fnIndex[callee] {
					if at := rehomesStopTimes(p, callee, seen, d+1); at != "" {
						return at
					}
				}
			}
		}
	}
	return ""
}

// isPartitionTrim: s[:len(P.prefix)+len(P.pairs)] for a partition value P.
func isPartitionTrim(sl *ssa.Slice, ps *partShape) bool {
	if sl.Low != nil || sl.High == nil {
		return false
	}
	add, ok := sl.High.(*ssa.BinOp)
	if !ok || add.Op != token.ADD {
		return false
	}
	lx, ok1 := lenOf(add.X)
	ly, ok2 := lenOf(add.Y)
	if !ok1 || !ok2 {
		return false
	}
	a, b := canon(lx), canon(ly)
	isP := func(s, f string) bool { return strings.HasSuffix(s, "."+f+")") }
	return (isP(a, ps.past) && isP(b, ps.upd)) || (isP(a, ps.upd) && isP(b, ps.past))
}

// searchLeaf: one way the position of the first updated stop is obtained.
type searchLeaf struct {
	idx   ssa.Value                    // the value (a constant 0 or a loop index)
	seqOK bool                         // the loop scans the whole journal list from its first entry
	fn    *ssa.Function                // where the loop lives (createPartition or an extracted helper)
	args  map[*ssa.Parameter]ssa.Value // helper parameter -> argument at the call in createPartition
}

// searchLeaves expands the high bound of the prefix: phis, and the results of same-package helpers.
func searchLeaves(c *Ctx, v ssa.Value, stopTimes ssa.Value, fn *ssa.Function, args map[*ssa.Parameter]ssa.Value, d int, out *[]searchLeaf, seen map[ssa.Value]bool) {
	if d > 6 || seen[v] {
		return
	}
	seen[v] = true
	switch x := v.(type) {
	case *ssa.Phi:
		for _, e := range x.Edges {
			searchLeaves(c, e, stopTimes, fn, args, d+1, out, seen)
		}
	case *ssa.Call:
		cal := x.Call.StaticCallee()
		if cal != nil && !x.Call.IsInvoke() && c.P.isModuleFn(cal) && len(cal.Blocks) > 0 && args == nil {
			m := map[*ssa.Parameter]ssa.Value{}
			var seqParam ssa.Value
			for k, a := range x.Call.Args {
				if k < len(cal.Params) {
					m[cal.Params[k]] = a
					if a == stopTimes {
						seqParam = cal.Params[k]
					}
				}
			}
			for _, blk := range cal.Blocks {
				if ret, ok := blk.Instrs[len(blk.Instrs)-1].(*ssa.Return); ok && len(ret.Results) == 1 {
					searchLeaves(c, ret.Results[0], seqParam, cal, m, d+1, out, seen)
				}
			}
			return
		}
		*out = append(*out, searchLeaf{idx: v, fn: fn, args: args})
	case *ssa.Extract:
		// one result of a helper that answers (index, found)
		if call, isCall := x.Tuple.(*ssa.Call); isCall && args == nil {
			cal := call.Call.StaticCallee()
			if cal != nil && !call.Call.IsInvoke() && c.P.isModuleFn(cal) && len(cal.Blocks) > 0 {
				m := map[*ssa.Parameter]ssa.Value{}
				var seqParam ssa.Value
				for k, a := range call.Call.Args {
					if k < len(cal.Params) {
						m[cal.Params[k]] = a
						if a == stopTimes {
							seqParam = cal.Params[k]
						}
					}
				}
				eachReturned(cal, x.Index, func(rv ssa.Value, at *ssa.BasicBlock, ret *ssa.Return) {
					searchLeaves(c, rv, seqParam, cal, m, d+1, out, seen)
				})
				return
			}
		}
		*out = append(*out, searchLeaf{idx: v, fn: fn, args: args})
	default:
		lf := searchLeaf{idx: v, fn: fn, args: args}
		if k, ok := constInt(v); ok && k == 0 {
			lf.seqOK = true
		} else if s := rangeIndexSeq(v); s != nil && stopTimes != nil && s == stopTimes {
			lf.seqOK = true
		}
		*out = append(*out, lf)
	}
}

func runPartitionShape(c *Ctx, cp *ssa.Function, ps *partShape, b *binder) {
	p := c.P
	fname := shortName(cp)
	stopTimes, updates := ssa.Value(cp.Params[0]), ssa.Value(cp.Params[1])
	// past = stopTimes[:idx]; every way idx is obtained is 0 or the index of a scan of the whole list whose only data
	// condition is StopID == the first update's stop id
	okPast, nPast := true, 0
	whyPast := ""
	var leaves []searchLeaf
	for _, fs := range collectFieldStores([]*ssa.Function{cp}, typeName(ps.typ)) {
		if fs.field != ps.past {
			continue
		}
		if fs.store.Val == stopTimes {
			continue // no updates: everything is past
		}
		nPast++
		sl, ok := fs.store.Val.(*ssa.Slice)
		if !ok || sl.X != stopTimes || sl.Low != nil || sl.High == nil {
			okPast, whyPast = false, "the prefix is not stopTimes[:index of the first updated stop]"
			continue
		}
		searchLeaves(c, sl.High, stopTimes, cp, nil, 0, &leaves, map[ssa.Value]bool{})
	}
	scan := false
	for _, lf := range leaves {
		if !lf.seqOK {
			okPast, whyPast = false, "the alignment point "+descr(lf.idx)+" is not the index of a scan over the whole journal list (entries before it would be dropped if the scan starts later or looks at only some entries)"
			continue
		}
		if _, isC := lf.idx.(*ssa.Const); isC {
			continue
		}
		scan = true
		// the loop of this index: its data conditions
		var loop *Loop
		for _, l := range naturalLoops(lf.fn) {
			if l.Blocks[instrBlockOf(lf.idx)] && (loop == nil || len(l.Blocks) < len(loop.Blocks)) {
				loop = l
			}
		}
		if loop == nil {
			okPast, whyPast = false, "scan loop not found"
			continue
		}
		nConds, okCond := 0, false
		for b2 := range loop.Blocks {
			iff, ok := b2.Instrs[len(b2.Instrs)-1].(*ssa.If)
			if !ok {
				continue
			}
			if cmp, isCmp := iff.Cond.(*ssa.BinOp); isCmp && cmp.Op == token.LSS {
				if _, isLen := lenOf(cmp.Y); isLen {
					continue // the loop's own bound test
				}
			}
			nConds++
			if bo, ok := iff.Cond.(*ssa.BinOp); ok && (bo.Op == token.EQL || bo.Op == token.NEQ) {
				for _, pr := range [][2]ssa.Value{{bo.X, bo.Y}, {bo.Y, bo.X}} {
					l := b.bind(pr[0])
					r := ""
					if prm, isP := pr[1].(*ssa.Parameter); isP && lf.args != nil && lf.args[prm] != nil {
						r = b.bind(lf.args[prm])
					} else {
						r = b.bind(pr[1])
					}
					if strings.HasSuffix(l, ".StopID") && containsAll(r, "[const:0]", "StopID") {
						okCond = true
					}
				}
			}
		}
		if !(okCond && nConds == 1) {
			okPast, whyPast = false, "the search for the update's first stop skips entries or uses another criterion (e.g. only entries not yet marked past): if the stop is already in the list, entries before it can be dropped"
		}
	}
	if !scan && okPast {
		okPast, whyPast = false, "no scan over the journal's list: the alignment point is never searched"
	}
	c.Check(okPast && nPast > 0, "PART", fname, "first updated stop searched in the whole list; prefix = entries before it", p.pos(cp.Pos()), "prefix = stopTimes[:i], i from a scan of all of stopTimes matching StopID == the update's first stop id only (0 if absent)", whyPast)
	// new = updates[updateIndex:]
	okNew := false
	for _, fs := range collectFieldStores([]*ssa.Function{cp}, typeName(ps.typ)) {
		if fs.field == ps.nw {
			if sl, ok := fs.store.Val.(*ssa.Slice); ok && sl.X == updates && sl.High == nil && sl.Low != nil {
				okNew = true
			}
		}
	}
	c.Check(okNew, "PART", fname, "new = updates not aligned to an existing entry", p.pos(cp.Pos()), "remaining = updates[number aligned:]", "the remaining updates are not the tail of the updates after the aligned ones")
	// aligned pairs: existing = &stopTimes[..], update = &updates[..]
	okPair, nPair := true, 0
	for _, fs := range collectFieldStores(c.regionOf(cp), typeName(ps.pairType)) {
		switch fs.field {
		case ps.existing:
			nPair++
			srcs, unknown := pointerSources(p, fs.store.Val)
			if len(unknown) > 0 || len(srcs) == 0 {
				okPair = false
			}
			for _, s := range srcs {
				// an element of the journal's list itself, or of a window into it (stopTimes[first:])
				ia, ok := s.(*ssa.IndexAddr)
				if !ok {
					okPair = false
					continue
				}
				base := ia.X
				for k := 0; k < 6; k++ {
					if sl, isSl := base.(*ssa.Slice); isSl {
						base = sl.X
						continue
					}
					// the pairing loop may sit in a helper of the partition function that is handed the list (or a
					// window into it): the parameter stands for what the one call site passes
					if prm, isPrm := base.(*ssa.Parameter); isPrm && prm.Parent() != cp {
						callers := p.Callers(prm.Parent())
						idx := paramIndex(prm)
						if len(callers) == 1 && callers[0].Caller == cp && idx >= 0 && idx < len(callers[0].Site.Common().Args) {
							base = callers[0].Site.Common().Args[idx]
							continue
						}
					}
					break
				}
				if base != stopTimes {
					okPair = false
				}
			}
		}
	}
	c.Check(okPair && nPair > 0, "PART", fname, "aligned pairs point into the journal's own list", p.pos(cp.Pos()), "pair.existing = &stopTimes[i]", "aligned entries are copies, not the journal's own entries: in-place updates are lost")
	// alignment stops at the first disagreement: in the loop that builds the pairs, the outcome "the entry's stop id and
	// the update's stop id differ" leaves the loop (a `continue` there would pair later entries with earlier updates)
	okStop, nCmp := true, 0
	for _, fs := range collectFieldStores(c.regionOf(cp), typeName(ps.pairType)) {
		if fs.field != ps.existing {
			continue
		}
		var loop *Loop
		for _, l := range naturalLoops(fs.fn) {
			if l.Blocks[fs.store.Block()] && (loop == nil || len(l.Blocks) < len(loop.Blocks)) {
				loop = l
			}
		}
		if loop == nil {
			continue
		}
		scan := []*Loop{loop}
		// the pairing loop may be a plain counter up to a number that a helper counted (the length of the common
		// prefix): the comparison that ends the alignment is then in that helper's counting loop
		if hi, isIf := loop.Header.Instrs[len(loop.Header.Instrs)-1].(*ssa.If); isIf {
			if hb, isB := hi.Cond.(*ssa.BinOp); isB {
				for _, side := range []ssa.Value{hb.X, hb.Y} {
					var call *ssa.Call
					switch x := side.(type) {
					case *ssa.Call:
						call = x
					case *ssa.Extract:
						call, _ = x.Tuple.(*ssa.Call)
					}
					if call == nil || call.Call.IsInvoke() || loop.Blocks[call.Block()] {
						continue
					}
					if h := call.Call.StaticCallee(); h != nil && p.isModuleFn(h) && len(h.Blocks) > 0 {
						// what the helper returns is the counter of its loop (or 0)
						counts := true
						hl := naturalLoops(h)
						for _, hblk := range h.Blocks {
							if ret, isRet := hblk.Instrs[len(hblk.Instrs)-1].(*ssa.Return); isRet && len(ret.Results) > 0 {
								rv := ret.Results[0]
								if k, isC := constInt(rv); isC && k == 0 {
									continue
								}
								phi, isPhi := rv.(*ssa.Phi)
								isCtr := false
								for _, l2 := range hl {
									if isPhi && phi.Block() == l2.Header {
										isCtr = true
									}
								}
								if !isCtr {
									counts = false
								}
							}
						}
						if counts {
							scan = append(scan, hl...)
						}
					}
				}
			}
		}
		for _, loop := range scan {
			for blk := range loop.Blocks {
				iff, ok := blk.Instrs[len(blk.Instrs)-1].(*ssa.If)
				if !ok {
					continue
				}
				cond, val := normalizeCond(iff.Cond, true)
				bo, ok := cond.(*ssa.BinOp)
				if !ok || (bo.Op != token.EQL && bo.Op != token.NEQ) {
					continue
				}
				if bt, isB := bo.X.Type().Underlying().(*types.Basic); !isB || bt.Info()&types.IsString == 0 {
					continue
				}
				l, r := b.bind(bo.X), b.bind(bo.Y)
				isIDs := (strings.Contains(l, "StopID") || strings.Contains(r, "StopID")) && (strings.Contains(l+r, "StopTimeUpdate") || strings.Contains(l+r, "param:<[]gtfs.StopTimeUpdate>"))
				if !isIDs {
					continue
				}
				nCmp++
				// successor taken when the ids differ
				differIdx := 1
				if (bo.Op == token.NEQ) == val {
					differIdx = 0
				}
				if loop.Blocks[blk.Succs[differIdx]] {
					okStop = false
				}
			}
		}
	}
	c.Check(okStop && nCmp > 0, "PART", fname, "alignment stops at the first stop that differs", p.pos(cp.Pos()), "in the pairing loop the outcome `stop ids differ` leaves the loop", "the pairing loop goes on after a stop that differs: later entries are paired with updates they do not belong to, stale entries survive and updated stops are lost")
}

func instrBlockOf(v ssa.Value) *ssa.BasicBlock {
	if in, ok := v.(ssa.Instruction); ok {
		return in.Block()
	}
	return nil
}

// ---------------------------------------------------------------- C15

func runJournalTrips(c *Ctx) {
	p := c.P
	b := newBinder(c)
	bj := c.anchor("journal:BuildJournal")
	tu := c.anchor("journal:(*Trip).update")
	tm := c.anchor("journal:(*Trip).markPast")
	if bj == nil || tu == nil || tm == nil {
		return
	}
	fname := shortName(bj)
	// the code of BuildJournal: the function itself and the named helpers it was split into (not Trip.update /
	// Trip.markPast and what they call)
	var jregion []*ssa.Function
	{
		excl := map[*ssa.Function]bool{}
		for _, g := range c.regionOf(tu) {
			excl[g] = true
		}
		for _, g := range c.regionOf(tm) {
			excl[g] = true
		}
		for _, g := range c.regionOf(bj) {
			if !excl[g] && g.Parent() == nil && fnPkgPath(g) == fnPkgPath(bj) && len(g.Blocks) > 0 {
				jregion = append(jregion, g)
			}
		}
	}
	// K1: the UID under which an entry is kept (key of the trips map) and the UID recorded in the entry (Trip.TripUID)
	// are built by the same function from (ID.StartDate.Add(ID.StartTime), ID.ID) of the same trip update
	var uidFn *ssa.Function
	for _, fs := range collectFieldStores(c.regionOf(tu), "journal.Trip") {
		if fs.field == "TripUID" {
			if call, ok := fs.store.Val.(*ssa.Call); ok {
				uidFn = staticCallee(call)
			}
		}
	}
	okUID := uidFn != nil && c.P.isModuleFn(uidFn)
	whyUID := "Trip.TripUID is not produced by a helper shared with the lookup"
	nSites := 0
	bb := newBinder(c)
	bb.showBodies = true
	bb.catForm = true // Sprintf("%d%s", ..) and FormatInt(.., 10) + .. are the same text
	if okUID {
		// every call of the UID helper, read together with what the helper computes from its arguments, is
		// "%d%s" of (X.ID.StartDate.Add(X.ID.StartTime)).Unix() and X.ID.ID (possibly without its origin-time prefix) for
		// one trip update X -- whether the helper is given the two values or the whole id
		for _, fn := range append(c.regionOf(bj), c.regionOf(tu)...) {
			if fn == uidFn {
				continue
			}
			for _, blk := range fn.Blocks {
				for _, in := range blk.Instrs {
					call, ok := in.(*ssa.Call)
					if !ok || staticCallee(call) != uidFn {
						continue
					}
					nSites++
					e := bb.bind(call)
					k := strings.Index(e, "=>{")
					if k < 0 {
						okUID, whyUID = false, "the UID helper's result cannot be read in terms of its arguments: "+clip(e, 120)
						continue
					}
					body := e[:k] + "=>{" + unwrapBodies(e[k+3:])
					body = body[k:]
					// the trip update X: whatever precedes ".ID.StartDate"
					x := ""
					if m := strings.Index(body, ".ID.StartDate"); m >= 0 {
						st := m
						depth := 0
						for st > 0 {
							ch := body[st-1]
							if ch == ')' || ch == ']' {
								depth++
							} else if ch == '(' || ch == '[' {
								if depth == 0 {
									break
								}
								depth--
							} else if (ch == ',' || ch == ' ' || ch == '{' || ch == '|') && depth == 0 {
								break
							}
							st--
						}
						x = body[st:m]
					}
					want1 := "time.Time.Unix(time.Time.Add(" + x + ".ID.StartDate," + x + ".ID.StartTime))"
					if x == "" || !strings.Contains(body, "cat[dec("+want1+"), ") || !strings.Contains(body, x+".ID.ID") {
						okUID, whyUID = false, fmt.Sprintf("%s builds a UID that is not \"%%d%%s\" of X.ID.StartDate.Add(X.ID.StartTime).Unix() and X.ID.ID for one trip update X: %s", shortName(fn), clip(e, 200))
					}
				}
			}
		}
		// every key of the trips map is such a UID
		for _, g := range jregion {
			for _, blk := range g.Blocks {
				for _, in := range blk.Instrs {
					var m, k ssa.Value
					switch x := in.(type) {
					case *ssa.MapUpdate:
						m, k = x.Map, x.Key
					case *ssa.Lookup:
						m, k = x.X, x.Index
					}
					if m == nil || !strings.HasSuffix(m.Type().Underlying().String(), "journal.Trip") {
						continue
					}
					srcOK := false
					switch kk := k.(type) {
					case *ssa.Call:
						srcOK = resultOf(kk, uidFn, 0)
					case *ssa.Extract:
						// key of a range over a map[string]bool filled with such UIDs, or of the trips map itself
						if nx, ok := kk.Tuple.(*ssa.Next); ok {
							if rng, ok := nx.Iter.(*ssa.Range); ok {
								srcOK = setKeysFrom(jregion, rng.X.Type(), uidFn) || rng.X == m
							}
						}
					case *ssa.UnOp, *ssa.Index, *ssa.Phi:
						// an element of the key list collected from the map's own keys (the copy-out after the feeds)
						srcOK = true
					}
					if !srcOK {
						okUID, whyUID = false, "the trips map is accessed under a key that is not the UID helper's result: "+clip(b.bind(k), 100)
					}
				}
			}
		}
	}
	c.Check(okUID && nSites >= 2, "UID", "journal", "trip UID built identically where it is looked up and where it is recorded", "-", fmt.Sprintf("%d call sites of one helper, each on (X.ID.StartDate.Add(X.ID.StartTime), X.ID.ID)", nSites), whyUID)
	// K2: every trip update of a feed reaches update-or-create, and is recorded as active
	loops := naturalLoops(bj)
	var tripLoop, vanishLoop, feedLoop *Loop
	var applyHelper *ssa.Function // the loop-free helper of the per-trip loop that calls Trip.update on every path, if any
	var allLoops []*Loop
	for _, g := range jregion {
		if g == bj {
			allLoops = append(allLoops, loops...)
		} else {
			allLoops = append(allLoops, naturalLoops(g)...)
		}
	}
	for _, l := range allLoops {
		for blk := range l.Blocks {
			for _, in := range blk.Instrs {
				if call, ok := in.(*ssa.Call); ok {
					if callsOnEveryPath(staticCallee(call), tu, jregion) {
						// the per-trip work (find or create the entry, apply the update) lives in a helper called from the loop
						if tripLoop == nil || len(l.Blocks) < len(tripLoop.Blocks) {
							tripLoop = l
							applyHelper = staticCallee(call)
						}
					}
					switch staticCallee(call) {
					case tu:
						if tripLoop == nil || len(l.Blocks) < len(tripLoop.Blocks) || applyHelper != nil && l.Header.Parent() == applyHelper {
							tripLoop = l
							applyHelper = nil
						}
					case tm:
						if vanishLoop == nil || len(l.Blocks) < len(vanishLoop.Blocks) {
							vanishLoop = l
						}
					}
					if call.Call.IsInvoke() && call.Call.Method.Name() == "Next" && l.Header.Parent() == bj {
						if feedLoop == nil || len(l.Blocks) > len(feedLoop.Blocks) {
							feedLoop = l
						}
					}
				}
			}
		}
	}
	if tripLoop == nil || vanishLoop == nil || feedLoop == nil {
		c.Violated("ACCT", fname, "per-feed accounting loops", p.pos(bj.Pos()), "the loop over a feed's trips (calling Trip.update), the loop marking vanished trips, or the feed loop was not found")
		return
	}
	okAll := true
	why := ""
	n := pathsWithin(tripLoop.Header.Succs[0], tripLoop, func(path []*ssa.BasicBlock, back bool) {
		if !back {
			return
		}
		upd, active := false, false
		for _, blk := range path {
			for _, in := range blk.Instrs {
				switch x := in.(type) {
				case *ssa.Call:
					if staticCallee(x) == tu || (applyHelper != nil && staticCallee(x) == applyHelper) {
						upd = true
					}
				case *ssa.MapUpdate:
					if x.Map.Type().String() == "map[string]bool" {
						if k, isC := constBool(x.Value); isC && k {
							active = true
						}
					}
				}
			}
		}
		if !upd {
			okAll, why = false, "a trip update of the feed can be skipped before it is applied (a pre-filter or early continue in the per-trip loop)"
		}
		if !active {
			okAll, why = false, "a trip present in the feed is not recorded as active: it will be marked past although it is still reported"
		}
	})
	c.Check(okAll && n > 0, "ACCT", fname, "every trip of a feed is applied and recorded as present", p.pos(tripLoop.Header.Instrs[0].Pos()), fmt.Sprintf("all %d paths through the per-trip loop call Trip.update and record the uid in the feed's active set", n), why)
	// create path: fresh entries are stored under the uid only when absent
	okCreate := false
	createBlocks := map[*ssa.BasicBlock]bool{}
	for blk := range tripLoop.Blocks {
		createBlocks[blk] = true
	}
	if applyHelper != nil {
		for _, blk := range applyHelper.Blocks {
			createBlocks[blk] = true
		}
	}
	for blk := range createBlocks {
		for _, in := range blk.Instrs {
			if mu, ok := in.(*ssa.MapUpdate); ok && strings.HasSuffix(mu.Map.Type().Underlying().String(), "journal.Trip") {
				if _, isAlloc := mu.Value.(*ssa.Alloc); isAlloc {
					// guarded by !ok of the lookup under the same key
					for _, ce := range dominatingConds(blk) {
						if ex, isEx := ce.Cond.(*ssa.Extract); isEx && ex.Index == 1 && !ce.Val {
							if lk, isLk := ex.Tuple.(*ssa.Lookup); isLk && (lk.X == mu.Map || mapCellOf(c, lk.X) == mapCellOf(c, mu.Map) || sameSetOnceField(c, lk.X, mu.Map)) && (lk.Index == mu.Key || canon(lk.Index) == canon(mu.Key)) {
								okCreate = true
							}
						}
					}
				}
			}
		}
	}
	c.Check(okCreate, "ACCT", fname, "one entry per UID, created only when absent", p.pos(tripLoop.Header.Instrs[0].Pos()), "trips[uid] = &trip only on the !ok edge of trips[uid]", "an existing journal entry can be replaced by a fresh one (its history is lost) or entries are created under another key")
	// K3: vanished trips
	var rng *ssa.Range
	for _, in := range vanishLoop.Header.Instrs {
		if nx, ok := in.(*ssa.Next); ok {
			rng, _ = nx.Iter.(*ssa.Range)
		}
	}
	okVanish := rng != nil
	whyV := "the loop marking vanished trips does not range over the previous feed's active set"
	if okVanish {
		// markPast(feed time) exactly on the edge where the uid is absent from the current feed's set
		okMark := false
		for blk := range vanishLoop.Blocks {
			for _, in := range blk.Instrs {
				if call, isCall := in.(*ssa.Call); isCall && staticCallee(call) == tm {
					e := b.bind(call.Call.Args[1])
					if prm, isPrm := call.Call.Args[1].(*ssa.Parameter); isPrm && !strings.HasSuffix(e, ".CreatedAt") {
						// the marking loop lives in a helper that is handed the feed's time
						if a := uniqueCallArg(c, prm, jregion); a != nil {
							e = b.bind(a)
						}
					}
					okTime := strings.HasSuffix(e, ".CreatedAt")
					absent := false
					for _, ce := range dominatingConds(blk) {
						switch x := ce.Cond.(type) {
						case *ssa.Lookup:
							if !ce.Val && x.X != rng.X && x.X.Type().String() == "map[string]bool" {
								absent = true
							}
						case *ssa.Extract:
							if lk, isLk := x.Tuple.(*ssa.Lookup); isLk && !ce.Val && lk.X != rng.X && lk.X.Type().String() == "map[string]bool" {
								absent = true
							}
						}
					}
					okMark = okTime && absent
				}
			}
		}
		okVanish = okMark
		whyV = "a trip of the previous feed is not marked past exactly when it is absent from the current feed, with the current feed's time"
		// activeTrips replaced each feed: the ranged map is a phi at the feed loop's header fed by the per-feed map
		prev := rng.X
		if prm, isPrm := prev.(*ssa.Parameter); isPrm {
			// the per-feed work lives in a helper: the set it ranges over is what BuildJournal passes
			if a := uniqueCallArg(c, prm, jregion); a != nil {
				prev = a
			}
		}
		if freshFieldSet(c, prev, vanishLoop, feedLoop) {
			// the previous feed's set is kept in a field of the per-journal state object and replaced, once per call of
			// the per-feed method, by the set made and filled during that call
		} else if phi, isPhi := prev.(*ssa.Phi); !isPhi || phi.Block() != feedLoop.Header {
			okVanish, whyV = false, "the set of trips present in the previous feed is not replaced after each feed (a single reused set or a time comparison cannot tell a skipped update from a vanished trip)"
		} else {
			fresh := false
			for i, ed := range phi.Edges {
				if feedLoop.Blocks[phi.Block().Preds[i]] {
					if mk, isMk := ed.(*ssa.MakeMap); isMk && feedLoop.Blocks[mk.Block()] {
						fresh = true
					}
					// the set a helper called for this feed made and returned
					if call, isCall := ed.(*ssa.Call); isCall && feedLoop.Blocks[call.Block()] {
						if h := staticCallee(call); h != nil && c.P.isModuleFn(h) && len(h.Blocks) > 0 && h.Signature.Results().Len() == 1 {
							all, n := true, 0
							eachReturned(h, 0, func(v ssa.Value, at *ssa.BasicBlock, ret *ssa.Return) {
								n++
								if _, isMk := v.(*ssa.MakeMap); !isMk {
									all = false
								}
							})
							if all && n > 0 {
								fresh = true
							}
						}
					}
				}
			}
			if !fresh {
				okVanish, whyV = false, "the previous-feed set is not the fresh per-feed set built while applying the feed"
			}
		}
	}
	// ... and the marking pass runs for every feed: no path around the feed loop goes past it (a "nothing vanished"
	// shortcut decided by a count would skip it when one trip vanishes while another is listed twice)
	if okVanish {
		var site *ssa.BasicBlock
		if vanishLoop.Header.Parent() == bj {
			site = vanishLoop.Header
		} else {
			hf := vanishLoop.Header.Parent()
			var reaches func(g *ssa.Function, d int) bool
			reaches = func(g *ssa.Function, d int) bool {
				if g == hf {
					return true
				}
				if g == nil || d > 2 || len(g.Blocks) == 0 {
					return false
				}
				for _, gb := range g.Blocks {
					for _, gin := range gb.Instrs {
						if call, ok := gin.(*ssa.Call); ok && reaches(staticCallee(call), d+1) {
							return true
						}
					}
				}
				return false
			}
			for blk := range feedLoop.Blocks {
				for _, in := range blk.Instrs {
					if call, ok := in.(*ssa.Call); ok && reaches(staticCallee(call), 0) {
						site = blk
					}
				}
			}
		}
		if site != nil && feedLoop.Blocks[site] {
			skipped := false
			pathsWithin(feedLoop.Header, feedLoop, func(path []*ssa.BasicBlock, back bool) {
				if !back {
					return
				}
				has := false
				for _, pb := range path {
					if pb == site {
						has = true
					}
				}
				if !has {
					skipped = true
				}
			})
			if skipped {
				okVanish, whyV = false, "the pass that marks vanished trips is skipped for some feeds (it runs under a condition): a trip that disappears in such a feed is never marked past"
			}
		}
	}
	c.Check(okVanish, "ACCT", fname, "trips missing from a feed are marked past with that feed's time", p.pos(vanishLoop.Header.Instrs[0].Pos()), "for uid in previous feed's set: skip iff present now, else trips[uid].markPast(feed.CreatedAt); the set is replaced each feed", whyV)
	// K4: selection: an entry is returned exactly when !StartTime.Before(start) && !end.Before(StartTime) && IsAssigned
	var selLoop *Loop
	selB := b
	for _, g := range c.regionOf(bj) {
		if g == tu || g == tm || g.Parent() != nil {
			continue
		}
		ls := loops
		if g != bj {
			ls = naturalLoops(g)
		}
		for _, l := range ls {
			if g == bj && feedLoop.Blocks[l.Header] {
				continue
			}
			for _, in := range l.Header.Instrs {
				if nx, ok := in.(*ssa.Next); ok {
					if r, ok := nx.Iter.(*ssa.Range); ok && strings.HasSuffix(r.X.Type().Underlying().String(), "journal.Trip") {
						hasAppend := false
						for blk := range l.Blocks {
							for _, in2 := range blk.Instrs {
								if call, ok := in2.(*ssa.Call); ok && isBuiltin(call, "append") {
									hasAppend = true
								}
							}
						}
						if !hasAppend {
							continue
						}
						selLoop = l
						if g != bj {
							// the selection lives in a helper: read its conditions with the helper's parameters standing
							// for what BuildJournal passes
							b.litForm = true
							if sb := b.atCallSite(g, c.regionOf(bj)); sb != nil {
								selB = sb
							}
							b.litForm = false
						}
					}
				}
			}
		}
	}
	if selLoop == nil {
		c.Violated("ACCT", fname, "selection by window and assignment", p.pos(bj.Pos()), "no loop over the journal's trips after the feeds were applied")
	} else {
		// the block that keeps the entry: an append inside the loop
		var keep *ssa.BasicBlock
		for blk := range selLoop.Blocks {
			for _, in := range blk.Instrs {
				if call, ok := in.(*ssa.Call); ok && isBuiltin(call, "append") {
					keep = blk
				}
			}
		}
		if keep == nil {
			c.Violated("ACCT", fname, "selection by window and assignment", p.pos(selLoop.Header.Instrs[0].Pos()), "the loop over the journal's trips keeps nothing")
		} else {
			atoms := map[string]bool{}
			selB.litForm = true
			for _, ce := range dominatingConds(keep) {
				if ce.Composite || ce.If == nil || !selLoop.Blocks[ce.If.Block()] || ce.If.Block() == selLoop.Header {
					continue
				}
				for _, e := range predicateAtoms(selB, ce.Cond, ce.Val, 0) {
					atoms[e] = true
				}
			}
			var got []string
			for a := range atoms {
				got = append(got, a)
			}
			sort.Strings(got)
			// normalise the entry being tested to X
			x := ""
			for _, a := range got {
				if strings.HasSuffix(a, ".IsAssigned") && !strings.HasPrefix(a, "!") {
					x = strings.TrimSuffix(a, ".IsAssigned")
				}
			}
			if x != "" {
				for i := range got {
					got[i] = strings.ReplaceAll(got[i], x, "X")
					// the same entry seen through a helper that was handed it: an element of the journal's table
					got[i] = strings.ReplaceAll(got[i], "new(journal.Trip)", "X")
				}
			}
			for i := range got {
				got[i] = afterAsBefore(got[i])
			}
			sort.Strings(got)
			want := []string{
				"!time.Time.Before(X.StartTime,param:<time.Time#0>)",
				"!time.Time.Before(param:<time.Time#1>,X.StartTime)",
				"X.IsAssigned",
			}
			sort.Strings(want)
			c.Check(strings.Join(got, " ; ") == strings.Join(want, " ; "), "ACCT", fname, "selection by window and assignment", p.pos(selLoop.Header.Instrs[0].Pos()), "kept exactly when StartTime is not before start, end is not before StartTime, and the trip was assigned", fmt.Sprintf("an entry is kept under %v (expected %v)", got, want))
		}
	}
	// K5: Trip.update
	runTripUpdateShape(c, tu, b)
	// K6: Trip.markPast visits every stop time
	okAllStops := false
	stMark := c.anchor("journal:(*StopTime).markPast")
	for _, l := range naturalLoops(tm) {
		pathsOK := true
		var idx ssa.Value
		n := pathsWithin(l.Header, l, func(path []*ssa.BasicBlock, back bool) {
			if !back {
				return
			}
			has := false
			for _, blk := range path {
				for _, in := range blk.Instrs {
					if call, ok := in.(*ssa.Call); ok && staticCallee(call) == stMark {
						if ia, isIA := call.Call.Args[0].(*ssa.IndexAddr); isIA && strings.HasSuffix(canon(ia.X), ".StopTimes)") {
							has = true
							idx = ia.Index
						}
					}
				}
			}
			if !has {
				pathsOK = false
			}
		})
		if pathsOK && n > 0 && idx != nil {
			if s := rangeIndexSeq(idx); s != nil && strings.HasSuffix(canon(s), ".StopTimes)") {
				okAllStops = true
			}
		}
	}
	if !okAllStops {
		// or the list is handed, on every path, to a helper that marks each element of the list it is given
		if call := markAllCall(c, tm, stMark, func(seq, _ ssa.Value) bool { return strings.HasSuffix(canon(seq), ".StopTimes)") }); call != nil {
			okAllStops = true
			for _, blk := range tm.Blocks {
				if _, isRet := blk.Instrs[len(blk.Instrs)-1].(*ssa.Return); isRet && !(call.Block() == blk || call.Block().Dominates(blk)) {
					okAllStops = false
				}
			}
		}
	}
	c.Check(okAllStops, "ACCT", shortName(tm), "marking a trip past marks all its stops", p.pos(tm.Pos()), "for every index of StopTimes: StopTimes[i].markPast(t)", "marking a trip past does not visit every stop time")
}

// resultOf: v is a result of f: a call of f, or a call of a one-result function every return of which hands back a
// result of f (an apply-and-report-the-key helper).
func resultOf(v ssa.Value, f *ssa.Function, d int) bool {
	call, isCall := v.(*ssa.Call)
	if !isCall || d > 2 {
		return false
	}
	h := staticCallee(call)
	if h == f {
		return true
	}
	if h == nil || call.Call.IsInvoke() || len(h.Blocks) == 0 || h.Signature.Results().Len() != 1 {
		return false
	}
	n := 0
	for _, blk := range h.Blocks {
		if ret, ok := blk.Instrs[len(blk.Instrs)-1].(*ssa.Return); ok {
			n++
			if !resultOf(ret.Results[0], f, d+1) {
				return false
			}
		}
	}
	return n > 0
}

// setKeysFrom: every key put into a map of type t anywhere in the given functions is a result of f.
func setKeysFrom(fns []*ssa.Function, t types.Type, f *ssa.Function) bool {
	n := 0
	for _, fn := range fns {
		for _, b := range fn.Blocks {
			for _, in := range b.Instrs {
				if mu, ok := in.(*ssa.MapUpdate); ok && types.Identical(mu.Map.Type(), t) {
					n++
					if !resultOf(mu.Key, f, 0) {
						return false
					}
				}
			}
		}
	}
	return n > 0
}

// uniqueCallArg: what the one call site (inside the given functions) of prm's function passes for prm.
func uniqueCallArg(c *Ctx, prm *ssa.Parameter, within []*ssa.Function) ssa.Value {
	fn := prm.Parent()
	idx := -1
	for i, q := range fn.Params {
		if q == prm {
			idx = i
		}
	}
	in := map[*ssa.Function]bool{}
	for _, g := range within {
		in[g] = true
	}
	var arg ssa.Value
	n := 0
	for _, e := range c.P.Callers(fn) {
		if e.Caller != nil && in[e.Caller] && idx >= 0 && idx < len(e.Site.Common().Args) {
			arg = e.Site.Common().Args[idx]
			n++
		}
	}
	if n != 1 {
		return nil
	}
	return arg
}

// mapKeysFrom: every key ever put into map m (in fn) is a result of f.
func mapKeysFrom(fn *ssa.Function, m ssa.Value, f *ssa.Function) bool {
	// m may be a phi over the per-feed maps
	ms := map[ssa.Value]bool{}
	var exp func(v ssa.Value, d int)
	exp = func(v ssa.Value, d int) {
		if ms[v] || d > 6 {
			return
		}
		ms[v] = true
		if phi, ok := v.(*ssa.Phi); ok {
			for _, e := range phi.Edges {
				exp(e, d+1)
			}
		}
	}
	exp(m, 0)
	n := 0
	for _, b := range fn.Blocks {
		for _, in := range b.Instrs {
			if mu, ok := in.(*ssa.MapUpdate); ok && ms[mu.Map] {
				n++
				call, isCall := mu.Key.(*ssa.Call)
				if !isCall || staticCallee(call) != f {
					return false
				}
			}
		}
	}
	return n > 0
}

func runTripUpdateShape(c *Ctx, tu *ssa.Function, b *binder) {
	p := c.P
	fname := shortName(tu)
	const T, U = "param:<journal.Trip>", "param:<gtfs.Trip>"
	// an update without a vehicle does not alter an assigned trip: every store through the receiver (and every call
	// that may write through it) is unreachable once trip.IsAssigned && tripUpdate.Vehicle == nil is known
	var guardRet *ssa.BasicBlock
	for _, blk := range tu.Blocks {
		if _, ok := blk.Instrs[len(blk.Instrs)-1].(*ssa.Return); ok {
			a, v := false, false
			for _, ce := range dominatingConds(blk) {
				e := b.bind(ce.Cond)
				if e == T+".IsAssigned" && ce.Val {
					a = true
				}
				if bo, ok := ce.Cond.(*ssa.BinOp); ok && isNilConst(bo.Y) && b.bind(bo.X) == U+".Vehicle" && ((bo.Op == token.EQL && ce.Val) || (bo.Op == token.NEQ && !ce.Val)) {
					v = true
				}
			}
			if a && v {
				guardRet = blk
			}
		}
	}
	okGuard := guardRet != nil
	if okGuard {
		// no effect on the way to the guarded return
		for _, blk := range tu.Blocks {
			if !(blk == guardRet || blk.Dominates(guardRet)) {
				continue
			}
			for _, in := range blk.Instrs {
				switch x := in.(type) {
				case *ssa.Store:
					if _, isAlloc := addrRoot(x.Addr).(*ssa.Alloc); !isAlloc {
						okGuard = false
					}
				case *ssa.MapUpdate:
					okGuard = false
				}
			}
		}
		// and the guard is the only way past the two tests: every other return is not reachable with both facts... (the
		// bookkeeping stores below are checked on all paths from the work block)
	}
	c.Check(okGuard, "ACCT", fname, "an update without a vehicle does not alter an assigned trip", p.pos(tu.Pos()), "return before any store when trip.IsAssigned && tripUpdate.Vehicle == nil", "an assigned trip's recorded data can be altered by an update that lacks a vehicle")
	// the block where the real work starts: the first block that stores through the receiver
	var body *ssa.BasicBlock
	var storeBlocks []*ssa.BasicBlock
	for _, blk := range tu.Blocks {
		hasStore := false
		for _, in := range blk.Instrs {
			if st, ok := in.(*ssa.Store); ok {
				if fa, ok := st.Addr.(*ssa.FieldAddr); ok && fa.X == ssa.Value(tu.Params[0]) {
					hasStore = true
				}
			}
			// ... or hands the receiver to a method of the same type that does (the bookkeeping moved into helpers)
			if call, ok := in.(*ssa.Call); ok && !call.Call.IsInvoke() && len(call.Call.Args) > 0 && call.Call.Args[0] == ssa.Value(tu.Params[0]) {
				if h := call.Call.StaticCallee(); h != nil && h != tu && h.Pkg == tu.Pkg && len(h.Blocks) > 0 && len(h.Params) > 0 && types.Identical(h.Params[0].Type(), tu.Params[0].Type()) {
					for _, hb := range h.Blocks {
						for _, hin := range hb.Instrs {
							if st, ok := hin.(*ssa.Store); ok {
								if fa, ok := st.Addr.(*ssa.FieldAddr); ok && fa.X == ssa.Value(h.Params[0]) {
									hasStore = true
								}
							}
						}
					}
				}
			}
		}
		if hasStore {
			storeBlocks = append(storeBlocks, blk)
		}
		if hasStore && (body == nil || blk.Dominates(body)) {
			body = blk
		}
	}
	// the work starts at the nearest block that dominates every block with a store: a store under a condition of its
	// own (`if id changed { trip.RouteID = .. }`) does not move the starting point into that condition
	for body != nil {
		all := true
		for _, sb := range storeBlocks {
			if !(body == sb || body.Dominates(sb)) {
				all = false
			}
		}
		if all {
			break
		}
		body = body.Idom()
	}
	if body == nil {
		c.Violated("ACCT", fname, "bookkeeping fields", p.pos(tu.Pos()), "Trip.update stores nothing")
		return
	}
	all, some := storesOnAllPaths(tu, tu.Params[0], body)
	// `if update has a vehicle { trip.IsAssigned = true }` says the same as `trip.IsAssigned = trip.IsAssigned || update has a
	// vehicle`: a store of true whose only additional condition is the vehicle's presence, tested on every path
	assignedByGuard := false
	if _, onAll := all["IsAssigned"]; !onAll {
		if st, ok := some["IsAssigned"]; ok {
			if k, isC := st.Val.(*ssa.Const); isC {
				if bv, isB := constBool(k); isB && bv {
					base := map[ssa.Value]bool{}
					for _, ce := range dominatingConds(body) {
						base[ce.Cond] = true
					}
					var extra []condEdge
					for _, ce := range dominatingConds(st.Block()) {
						if !base[ce.Cond] {
							extra = append(extra, ce)
						}
					}
					if len(extra) == 1 && extra[0].If != nil {
						gs := guardStrings(b, st.Block())
						vehicleGuard := hasGuard(gs, "+", U+".Vehicle", "!= const:nil") || hasGuard(gs, "-", U+".Vehicle", "== const:nil")
						ifBlk := extra[0].If.Block()
						onEvery := true
						if h := st.Parent(); h != tu {
							// the store sits in a method of the same receiver that Trip.update calls on every path: the
							// test must be on every path through that method
							if !helperCallsOnAllPaths[h] {
								onEvery = false
							}
							for _, blk := range h.Blocks {
								if _, isRet := blk.Instrs[len(blk.Instrs)-1].(*ssa.Return); isRet && blk != ifBlk && h.Blocks[0] != ifBlk && canReachAvoiding(h.Blocks[0], blk, ifBlk) {
									onEvery = false
								}
							}
						} else {
							for _, blk := range tu.Blocks {
								if _, isRet := blk.Instrs[len(blk.Instrs)-1].(*ssa.Return); isRet && body.Dominates(blk) && blk != ifBlk && canReachAvoiding(body, blk, ifBlk) && body != ifBlk {
									onEvery = false
								}
							}
						}
						assignedByGuard = vehicleGuard && onEvery
					}
				}
			}
		}
	}
	want := map[string]bindReq{
		"TripUID":      {[]string{U + ".ID.ID", U + ".ID.StartDate", U + ".ID.StartTime"}, nil},
		"TripID":       {[]string{U + ".ID.ID"}, []string{"RouteID", "StartDate"}},
		"RouteID":      {[]string{U + ".ID.RouteID"}, []string{".ID.ID"}},
		"DirectionID":  {[]string{U + ".ID.DirectionID"}, nil},
		"StartTime":    {[]string{"time.Time.Add(" + U + ".ID.StartDate," + U + ".ID.StartTime)"}, nil},
		"VehicleID":    {[]string{U, "Vehicle", "ID"}, []string{"Label", "LicensePlate"}},
		"IsAssigned":   {[]string{U + ".Vehicle"}, nil},
		"LastObserved": {[]string{"param:<time.Time>"}, []string{U}},
		"MarkedPast":   {[]string{"const:nil"}, []string{"param:"}},
		"NumUpdates":   {[]string{"(" + T + ".NumUpdates + const:1)"}, nil},
	}
	var fields []string
	for f := range want {
		fields = append(fields, f)
	}
	sort.Strings(fields)
	for _, f := range fields {
		s, ok := all[f]
		if !ok && f == "IsAssigned" && assignedByGuard {
			c.Proved("ACCT", fname, "Trip."+f+" recorded by every applied update", p.ipos(some[f]), "set to true exactly when the update carries a vehicle (tested on every path), otherwise kept")
			continue
		}
		if !ok {
			c.Violated("ACCT", fname, "Trip."+f+" recorded by every applied update", p.pos(tu.Pos()), "an applied update leaves Trip."+f+" unchanged on some path")
			continue
		}
		e := b.bind(s.Val)
		if f == "TripUID" {
			sb := newBinder(c)
			sb.showBodies = true
			e = sb.bind(s.Val) // what the UID helper makes of its arguments
		}
		if !want[f].ok(e) && f != "TripUID" {
			// a small helper between the update and the field (`tripStartTime(&u.ID)`): what it computes
			sb := newBinder(c)
			sb.showBodies = true
			if e2 := unwrapBodies(sb.bind(s.Val)); want[f].ok(e2) {
				e = e2
			}
		}
		c.Check(want[f].ok(e), "ACCT", fname, "Trip."+f+" recorded by every applied update", p.ipos(s), f+" <- "+clip(e, 90), fmt.Sprintf("Trip.%s is taken from %s (expected to mention %v and none of %v)", f, clip(e, 120), want[f].all, want[f].none))
	}
}

// unwrapBodies: in an expression rendered with showBodies, every `helper(args)=>{BODY}` is replaced by BODY (what the
// helper computes, already written in terms of the arguments), innermost first.
func unwrapBodies(e string) string {
	for iter := 0; iter < 20; iter++ {
		k := strings.LastIndex(e, ")=>{")
		if k < 0 {
			return e
		}
		// the body: from k+4 to the matching brace
		depth, end := 1, -1
		for i := k + 4; i < len(e); i++ {
			switch e[i] {
			case '{':
				depth++
			case '}':
				depth--
				if depth == 0 {
					end = i
				}
			}
			if end >= 0 {
				break
			}
		}
		if end < 0 {
			return e
		}
		// the call: back from k to the matching parenthesis, then the identifier before it
		pd, start := 1, -1
		for i := k - 1; i >= 0; i-- {
			switch e[i] {
			case ')':
				pd++
			case '(':
				pd--
				if pd == 0 {
					start = i
				}
			}
			if start >= 0 {
				break
			}
		}
		if start < 0 {
			return e
		}
		for start > 0 {
			ch := e[start-1]
			if ch == '_' || ch == '.' || ch == '$' || (ch >= 'a' && ch <= 'z') || (ch >= 'A' && ch <= 'Z') || (ch >= '0' && ch <= '9') {
				start--
				continue
			}
			break
		}
		e = e[:start] + e[k+4:end] + e[end+1:]
	}
	return e
}

// fieldOfType: the one field of struct type t whose type prints as want ("" if none or several).
func fieldOfType(t types.Type, want string) string {
	st := structOf(t)
	if st == nil {
		return ""
	}
	name, n := "", 0
	for i := 0; i < st.NumFields(); i++ {
		if shortType(st.Field(i).Type()) == want {
			name = st.Field(i).Name()
			n++
		}
	}
	if n != 1 {
		return ""
	}
	return name
}

// partShape: the roles of the fields of the value createPartition returns, found by their types: the prefix of
// journal entries ([]StopTime), the tail of updates ([]gtfs.StopTimeUpdate) and the aligned pairs (a slice of structs
// holding a *StopTime and a *gtfs.StopTimeUpdate). Field and type names of these unexported types are free to change.
type partShape struct {
	typ                   types.Type
	past, upd, nw         string
	pairType              types.Type
	existing, updateField string
}

func partitionShapeOf(cp *ssa.Function) *partShape {
	if cp.Signature.Results().Len() != 1 {
		return nil
	}
	t := cp.Signature.Results().At(0).Type()
	st := structOf(t)
	if st == nil {
		return nil
	}
	ps := &partShape{typ: t}
	ps.past = fieldOfType(t, "[]journal.StopTime")
	ps.nw = fieldOfType(t, "[]gtfs.StopTimeUpdate")
	for i := 0; i < st.NumFields(); i++ {
		if sl, ok := st.Field(i).Type().Underlying().(*types.Slice); ok {
			if es := structOf(sl.Elem()); es != nil {
				ex, up := fieldOfType(sl.Elem(), "*journal.StopTime"), fieldOfType(sl.Elem(), "*gtfs.StopTimeUpdate")
				if ex != "" && up != "" {
					ps.upd, ps.pairType, ps.existing, ps.updateField = st.Field(i).Name(), sl.Elem(), ex, up
				}
			}
		}
	}
	if ps.past == "" || ps.nw == "" || ps.upd == "" {
		return nil
	}
	return ps
}

// containsAll / containsNone
func containsAll(s string, subs ...string) bool {
	for _, x := range subs {
		if !strings.Contains(s, x) {
			return false
		}
	}
	return true
}

func containsAny(s string, subs ...string) bool {
	for _, x := range subs {
		if strings.Contains(s, x) {
			return true
		}
	}
	return false
}

// paramOfType: the function's parameter whose type prints as want (nil if none or several).
func paramOfType(f *ssa.Function, want string) *ssa.Parameter {
	var out *ssa.Parameter
	for _, p := range f.Params {
		if shortType(p.Type()) == want {
			if out != nil {
				return nil
			}
			out = p
		}
	}
	return out
}

// predicateAtoms: what is known when cond has the value val, in the binder's terms. A call of a loop-free predicate
// helper of the module that is known to have answered true is replaced by the conditions under which it does so, when
// those are one conjunction (a single exit that can answer true): the tests on the way to that exit and the parts of
// the value it returns, with the helper's parameters standing for the call's arguments. Anything else is one atom.
func predicateAtoms(b *binder, cond ssa.Value, val bool, depth int) []string {
	for {
		u, isNot := cond.(*ssa.UnOp)
		if !isNot || u.Op != token.NOT {
			break
		}
		cond, val = u.X, !val
	}
	atom := func() []string {
		e := b.bind(cond)
		if !val {
			e = "!" + e
		}
		return []string{e}
	}
	call, isCall := cond.(*ssa.Call)
	if !isCall || !val || depth > 2 || call.Call.IsInvoke() {
		return atom()
	}
	cal := call.Call.StaticCallee()
	if cal == nil || !b.c.P.isModuleFn(cal) || len(cal.Blocks) == 0 || len(cal.Params) != len(call.Call.Args) || cal.Signature.Results().Len() != 1 || len(naturalLoops(cal)) > 0 {
		return atom()
	}
	var args []string
	for _, a := range call.Call.Args {
		args = append(args, b.bind(a))
	}
	sub := b.withArgs(cal, args)
	var disjuncts [][]condEdge
	for _, blk := range cal.Blocks {
		ret, ok := blk.Instrs[len(blk.Instrs)-1].(*ssa.Return)
		if !ok {
			continue
		}
		rv := ret.Results[0]
		if bv, isC := constBool(rv); isC && !bv {
			continue
		}
		var ces []condEdge
		for _, ce := range dominatingConds(blk) {
			if !ce.Composite {
				ces = append(ces, ce)
			}
		}
		if _, isC := rv.(*ssa.Const); !isC {
			for _, ce := range atomise(condEdge{Cond: rv, Val: true}, 0) {
				if !ce.Composite {
					ces = append(ces, ce)
				}
			}
		}
		disjuncts = append(disjuncts, ces)
	}
	if len(disjuncts) != 1 {
		return atom()
	}
	seen := map[string]bool{}
	var out []string
	for _, ce := range disjuncts[0] {
		for _, e := range predicateAtoms(sub, ce.Cond, ce.Val, depth+1) {
			if !seen[e] {
				seen[e] = true
				out = append(out, e)
			}
		}
	}
	if len(out) == 0 {
		return atom()
	}
	return out
}

// markAllCall: a call in fn of a helper of the module that is handed a list of stop times and a time and does
// nothing but call mark(&list[i], time) for every index i of that list (one range loop over the parameter, the call on
// every trip around it, no store outside its own variables); argOK says whether the list and time handed over are the
// expected ones. Returns the call, or nil.
func markAllCall(c *Ctx, fn, mark *ssa.Function, argOK func(seq, tm ssa.Value) bool) *ssa.Call {
	if mark == nil {
		return nil
	}
	for _, blk := range fn.Blocks {
		for _, in := range blk.Instrs {
			call, ok := in.(*ssa.Call)
			if !ok || call.Call.IsInvoke() {
				continue
			}
			h := call.Call.StaticCallee()
			if h == nil || h == mark || !c.P.isModuleFn(h) || len(h.Blocks) == 0 || len(h.Params) != len(call.Call.Args) || len(h.Params) != 2 {
				continue
			}
			loops := naturalLoops(h)
			if len(loops) != 1 {
				continue
			}
			l := loops[0]
			si, ti := -1, -1
			for i, prm := range h.Params {
				if _, isSl := prm.Type().Underlying().(*types.Slice); isSl {
					si = i
				} else {
					ti = i
				}
			}
			if si < 0 || ti < 0 {
				continue
			}
			okAll := true
			n := pathsWithin(l.Header, l, func(path []*ssa.BasicBlock, back bool) {
				if !back {
					return
				}
				has := false
				for _, b := range path {
					for _, hin := range b.Instrs {
						if mc, isCall := hin.(*ssa.Call); isCall && staticCallee(mc) == mark && len(mc.Call.Args) == 2 {
							ia, isIA := mc.Call.Args[0].(*ssa.IndexAddr)
							if isIA && ia.X == ssa.Value(h.Params[si]) && mc.Call.Args[1] == ssa.Value(h.Params[ti]) {
								if over, _ := isRangeIndexOver(ia.Index, ia.X); over {
									has = true
								}
							}
						}
					}
				}
				if !has {
					okAll = false
				}
			})
			for _, hb := range h.Blocks {
				for _, hin := range hb.Instrs {
					switch x := hin.(type) {
					case *ssa.Store:
						if _, isAlloc := addrRoot(x.Addr).(*ssa.Alloc); !isAlloc {
							okAll = false
						}
					case *ssa.MapUpdate:
						okAll = false
					case *ssa.Call:
						if staticCallee(x) != mark && !isBuiltin(x, "len") {
							okAll = false
						}
					}
				}
			}
			if okAll && n > 0 && argOK(call.Call.Args[si], call.Call.Args[ti]) {
				return call
			}
		}
	}
	return nil
}

// callsOnEveryPath: h is a loop-free function of the region (not callee itself) in which every path from entry to a
// return passes a call of callee.
func callsOnEveryPath(h, callee *ssa.Function, region []*ssa.Function) bool {
	if h == nil || h == callee || len(h.Blocks) == 0 || len(naturalLoops(h)) > 0 {
		return false
	}
	in := false
	for _, g := range region {
		if g == h {
			in = true
		}
	}
	if !in {
		return false
	}
	ok, n := true, 0
	enumPaths(h, func(path []*ssa.BasicBlock) {
		n++
		has := false
		for _, b := range path {
			for _, ins := range b.Instrs {
				if call, isCall := ins.(*ssa.Call); isCall && staticCallee(call) == callee {
					has = true
				}
			}
		}
		if !has {
			ok = false
		}
	})
	return ok && n > 0
}

// sameSetOnceField: a and b are loads of the same unexported field of the same object (a parameter or local
// variable), and that field is assigned exactly once in the module (where the struct is built): both denote one map.
func sameSetOnceField(c *Ctx, a, b ssa.Value) bool {
	la, okA := a.(*ssa.UnOp)
	lb, okB := b.(*ssa.UnOp)
	if !okA || !okB || la.Op != token.MUL || lb.Op != token.MUL {
		return false
	}
	fa, okA := la.X.(*ssa.FieldAddr)
	fb, okB := lb.X.(*ssa.FieldAddr)
	if !okA || !okB || fa.X != fb.X || fa.Field != fb.Field {
		return false
	}
	vals, ok := c.P.unexportedFieldStores(fa)
	return ok && len(vals) == 1
}

// freshFieldSet: prev (the set the marking loop ranges over) is a load of an unexported field F of the receiver of
// the method h that contains the marking loop; h stores into F exactly once, after the marking loop and before every
// return, a map it made itself; F is stored nowhere else except where the state object is built; and h is called
// inside the feed loop. The set of the previous feed is then replaced by a fresh one for every feed.
func freshFieldSet(c *Ctx, prev ssa.Value, vanishLoop, feedLoop *Loop) bool {
	ld, ok := prev.(*ssa.UnOp)
	if !ok || ld.Op != token.MUL {
		return false
	}
	fa, ok := ld.X.(*ssa.FieldAddr)
	if !ok {
		return false
	}
	recv, ok := fa.X.(*ssa.Parameter)
	if !ok {
		return false
	}
	h := recv.Parent()
	if h != vanishLoop.Header.Parent() {
		return false
	}
	if _, ok := c.P.unexportedFieldStores(fa); !ok {
		return false
	}
	// stores into the field: one in h (a map made in h), the others only in composite literals outside h
	var inH []*ssa.Store
	for _, fn := range c.P.ModFns {
		for _, b := range fn.Blocks {
			for _, in := range b.Instrs {
				st, isSt := in.(*ssa.Store)
				if !isSt {
					continue
				}
				a2, isFA := st.Addr.(*ssa.FieldAddr)
				if !isFA || a2.Field != fa.Field || typeName(a2.X.Type()) != typeName(fa.X.Type()) {
					continue
				}
				if fn == h {
					inH = append(inH, st)
					continue
				}
				if al, isAl := a2.X.(*ssa.Alloc); !isAl || al.Comment != "complit" {
					if _, isAl2 := a2.X.(*ssa.Alloc); !isAl2 {
						return false
					}
				}
			}
		}
	}
	if len(inH) != 1 {
		return false
	}
	st := inH[0]
	mk, isMk := st.Val.(*ssa.MakeMap)
	if !isMk || mk.Parent() != h || vanishLoop.Blocks[st.Block()] || !vanishLoop.Header.Dominates(st.Block()) {
		return false
	}
	for _, b := range h.Blocks {
		if _, isRet := b.Instrs[len(b.Instrs)-1].(*ssa.Return); isRet && !(st.Block() == b || st.Block().Dominates(b)) {
			return false
		}
	}
	// h is called in the feed loop
	for _, e := range c.P.Callers(h) {
		if e.Site != nil && feedLoop.Blocks[e.Site.Block()] {
			return true
		}
	}
	return false
}

// runUIDSuffix: the journal keeps one entry per (start instant, trip id without its origin-time prefix). The prefix is
// the first six characters of the id, whatever they are: in the function that builds the UID (the one whose result is
// stored in Trip.TripUID) the id is cut at the constant 6 and nowhere else, and nothing searches the id for a
// separator. Cutting elsewhere gives two trips that differ only before the cut one entry: the updates of one are
// aligned against the stop list of the other.
func runUIDSuffix(c *Ctx, rule string) {
	p := c.P
	tu := c.anchor("journal:(*Trip).update")
	if tu == nil {
		return
	}
	var uidFn *ssa.Function
	for _, fs := range collectFieldStores(c.regionOf(tu), "journal.Trip") {
		if fs.field == "TripUID" {
			if call, ok := fs.store.Val.(*ssa.Call); ok {
				uidFn = staticCallee(call)
			}
		}
	}
	if uidFn == nil || !p.isModuleFn(uidFn) {
		return // reported by the UID obligation of the accounting rules
	}
	bad := ""
	n := 0
	for _, g := range c.regionOf(uidFn) {
		if fnPkgPath(g) != fnPkgPath(uidFn) {
			continue
		}
		for _, b := range g.Blocks {
			for _, in := range b.Instrs {
				switch x := in.(type) {
				case *ssa.Slice:
					if bt, ok := x.X.Type().Underlying().(*types.Basic); !ok || bt.Info()&types.IsString == 0 {
						continue
					}
					n++
					low, isK := int64(0), false
					if x.Low != nil {
						low, isK = constInt(x.Low)
					}
					if !isK || low != 6 || x.High != nil {
						if bad == "" {
							bad = "the id is cut by " + x.String() + " at " + p.ipos(x) + ", not at the constant 6"
						}
					}
				case *ssa.Call:
					if name := calleeName(x); strings.HasPrefix(name, "strings.") || strings.HasPrefix(name, "(*regexp.Regexp).") {
						if bad == "" {
							bad = "the id is searched with " + name + " at " + p.ipos(x)
						}
					}
				}
			}
		}
	}
	c.Check(bad == "" && n > 0, rule, shortName(uidFn), "the UID drops the first six characters of the trip id and nothing else", p.pos(uidFn.Pos()), fmt.Sprintf("%d cut of the id, at the constant 6; no search for a separator", n), bad+": trip ids that differ only in the part that is now dropped share one journal entry (the updates of one trip are aligned against the stop list of the other)")
}

// afterAsBefore rewrites an atom [!]time.Time.After(a,b) as [!]time.Time.Before(b,a): the two say the same.
func afterAsBefore(atom string) string {
	neg := strings.HasPrefix(atom, "!")
	body := strings.TrimPrefix(atom, "!")
	const head = "time.Time.After("
	if !strings.HasPrefix(body, head) || !strings.HasSuffix(body, ")") {
		return atom
	}
	args := body[len(head) : len(body)-1]
	depth, cut := 0, -1
	for i, r := range args {
		switch r {
		case '(', '[', '<', '{':
			depth++
		case ')', ']', '>', '}':
			depth--
		case ',':
			if depth == 0 {
				if cut >= 0 {
					return atom
				}
				cut = i
			}
		}
	}
	if cut < 0 || depth != 0 {
		return atom
	}
	out := "time.Time.Before(" + args[cut+1:] + "," + args[:cut] + ")"
	if neg {
		out = "!" + out
	}
	return out
}
