package main

func init() {
	register(&PropSpec{
		ID: "C11",
		Explain: "Decides the service-merging mechanism structurally for every mix of calendar and calendar_dates rows: " +
			"(SVC) services live in one map keyed by service_id and are stored under their own id; the existing entry is looked up by the row's service_id; StartDate/EndDate are assigned the exception's date only for a new service or under date.Before(StartDate) / EndDate.Before(date), and a service first seen in calendar_dates gets both ends on every path; the row's date is appended to AddedDates exactly under exception_type 1 and to RemovedDates under 2, at the tail (file order); other types leave no trace (REJECT); " +
			"the first agency's zone is loaded whenever the agency list is not empty (no other condition on the number of agencies); (A1) weekday flags and dates are bound to their columns with the cell == \"1\" and YYYYMMDD decoders; (TIME) dates are midnight in the first agency's zone or UTC; (A5) calendar before calendar_dates before trips, Services materialised after both; (G6) Static.Services is built once from the map and sorted by id; (G7) no package-level state. " +
			"Not decided: instant arithmetic of time.Time.Before. (ORDER) agencies stay in file order, so the first agency is the first row of agency.txt.",
		Rules: []Rule{
			{Name: "ORDER", Doc: "the first agency is the first row of agency.txt: file-order collections only grow at the tail and are not sorted (per-group sorts, comparators, tail appends)", MinInstances: 8, Run: runStaticOrder},
			{Name: "SVC", Doc: "create-or-extend, exception table, write-back", MinInstances: 5, Run: runServiceRules},
			{Name: "ROWSTATE", Doc: "nothing recorded about one row is still there when the next row is current (a calendar row skipped on a bad date does not decide the fate of the next one)", MinInstances: 1, Run: runRowState},
			{Name: "A1", Doc: "calendar column bindings", MinInstances: 7, Run: func(c *Ctx) { runColumnTable(c, map[string]bool{"gtfs.Service": true}) }},
			{Name: "TIME", Doc: "date layout and zone provenance", MinInstances: 2, Run: runTimeFormulas},
			{Name: "A5", Doc: "phase order", MinInstances: 14, Run: runFileTable},
			{Name: "REJECT", Doc: "rows of other exception types and invalid rows leave no trace", MinInstances: 7, Run: runRejectInert},
			{Name: "G6", Doc: "Services built from the map and sorted by id", MinInstances: 2, Run: func(c *Ctx) { runG6(c, staticParseFns(c)) }},
			{Name: "G7", Doc: "no package-level state", MinInstances: 35, Run: staticGlobalWrites},
		},
	})
	register(&PropSpec{
		ID: "C12",
		Explain: "Behaviour over all presence combinations is not decided; decided are the structural clauses of parseAlert for every alert: " +
			"(ALERT) the informs-something predicate is false exactly when agency, route, known route type, identifiable trip and stop are all absent (extracted decision table); a trip is identifiable exactly by id or by route+direction+start time+start date; selector entities are appended, one per accepted selector and in selector order, only under the predicate; on the identifiable edge every path also appends the trip (built from the selector's descriptor, not-in-message) and otherwise the trip id is cleared; route fallback entities are appended only under !informedRoutes[route] evaluated after the selector loop, the bookkeeping maps only grow, the fallback direction is the single named one; " +
			"(A3) selector fields are bound to their wire fields; (SCAN) the loops of parseAlert that add an entity per element are not left by a break; (ENUM) the decoders into enumerations reached from ParseRealtime answer only with declared constants (a route type outside the table is Unknown); (MERGE) alert trips are merged into Trips; (G6) fallback order does not depend on map iteration. " +
			"Not decided: combinatorics of overlapping selectors beyond these clauses. From the true edge of the informs-something predicate every path to the next selector appends the entity; the direction recorded for a route-only trip descriptor binds to the descriptor's direction_id. (TID) a start time / start date of a selector's trip descriptor is dropped only when absent or not matching its pattern, so identifiable trips stay identifiable. (DIRT) the realtime direction decoder is absent -> unspecified, 0 -> false, anything else -> true.",
		Rules: []Rule{
			{Name: "DIRT", Doc: "the direction of a selector or of its trip descriptor is decoded as absent -> unspecified, 0 -> false, anything else -> true (a decoder that maps other numbers to unspecified loses the direction, and with it the identifiability of the trip)", MinInstances: 1, Run: func(c *Ctx) { runDirectionTable(c, "DIRT") }},
			{Name: "TID", Doc: "whether a selector names an identifiable trip depends on its start time / start date: they are dropped only when absent or not matching their pattern (hours past 23 are valid)", MinInstances: 2, Run: func(c *Ctx) { runStartAcceptance(c, "TID") }},
			{Name: "SCAN", Doc: "a loop that does something for each element is not left early (no break out of a processing loop)", MinInstances: 1, Run: func(c *Ctx) { runFullScan(c, realtimeFns(c), "SCAN") }},
			{Name: "ALERT", Doc: "predicates, append-under-predicate, keep/clear pairing, fallback guard", MinInstances: 7, Run: runAlertRules},
			{Name: "LOOPVAR", Doc: "no pointer to a per-loop (go 1.18) iteration variable is kept in the result: each entity gets its own copy", MinInstances: 0, Run: func(c *Ctx) { runLoopVarAlias(c, realtimeFns(c), "LOOPVAR") }},
			{Name: "A3", Doc: "selector fields bound to wire fields", MinInstances: 35, Run: runWireTable},
			{Name: "ENUM", Doc: "decoders into an enumeration answer only with its declared values (a route type outside the table is Unknown)", MinInstances: 1, Run: func(c *Ctx) { runEnumDecoders(c, realtimeFns(c), "ENUM") }},
			{Name: "MERGE", Doc: "alert trips merged into Trips", MinInstances: 7, Run: runMergeRules},
			{Name: "G6", Doc: "fallback entities in deterministic order", MinInstances: 1, Run: func(c *Ctx) { runG6(c, c.anchors("gtfs:parseAlert", "gtfs:ParseRealtime")) }},
		},
	})
}
