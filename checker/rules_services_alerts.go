package main

// C11 (services) and C12 (alert informed entities): structural clauses.

import (
	"fmt"
	"go/token"
	"sort"
	"strings"

	"golang.org/x/tools/go/ssa"
)

// ---------------------------------------------------------------- C11

func runServiceRules(c *Ctx) {
	p := c.P
	fn := c.anchor("gtfs:parseCalendarDates")
	cal := c.anchor("gtfs:parseCalendar")
	if fn == nil || cal == nil {
		return
	}
	b := newBinder(c, resultCarriers...)
	// SV1: the service map is keyed by the stored service's own id
	for _, f := range []*ssa.Function{fn, cal} {
		n := 0
		for _, blk := range f.Blocks {
			for _, in := range blk.Instrs {
				mu, ok := in.(*ssa.MapUpdate)
				if !ok || typeName(mu.Value.Type()) != "gtfs.Service" {
					continue
				}
				n++
				ld, ok := mu.Value.(*ssa.UnOp)
				okKey := false
				if ok {
					okKey = canon(mu.Key) == "*("+canon(ld.X)+".Id)"
					// or: the very value that was assigned to the stored service's Id before (m[id] = service after service.Id = id)
					if a, isAlloc := ld.X.(*ssa.Alloc); isAlloc && !okKey {
						for _, r := range *a.Referrers() {
							fa, isFA := r.(*ssa.FieldAddr)
							if !isFA || fieldName(fa.X.Type(), fa.Field) != "Id" {
								continue
							}
							for _, r2 := range *fa.Referrers() {
								if st, isSt := r2.(*ssa.Store); isSt && st.Addr == ssa.Value(fa) && st.Val == mu.Key && dominatesInstr(st, mu) {
									okKey = true
								}
							}
						}
					}
				}
				idExpr := b.bind(mu.Key)
				c.Check(okKey && strings.Contains(idExpr, "col:service_id"), "SVC", shortName(f), "service stored under its own service_id", p.ipos(mu), "m[service.Id] = service with Id <- service_id", "a service is stored under a key that is not its own service_id (key "+clip(idExpr, 60)+")")
			}
		}
		if n == 0 {
			c.Violated("SVC", shortName(f), "service write-back", p.pos(f.Pos()), "the function never stores a service into the shared map: its rows are lost")
		}
	}
	fname := shortName(fn)
	// the local service cell
	var svc *ssa.Alloc
	var lookup *ssa.Lookup
	for _, blk := range fn.Blocks {
		for _, in := range blk.Instrs {
			if a, ok := in.(*ssa.Alloc); ok && typeName(deref(a.Type())) == "gtfs.Service" {
				for _, r := range *a.Referrers() {
					if st, ok := r.(*ssa.Store); ok && st.Addr == ssa.Value(a) {
						if ex, ok := st.Val.(*ssa.Extract); ok {
							if lk, ok := ex.Tuple.(*ssa.Lookup); ok {
								svc, lookup = a, lk
							}
						}
					}
				}
			}
		}
	}
	if svc == nil {
		c.Undecided("SVC", fname, "create-or-extend", p.pos(fn.Pos()), "the `service, ok := m[id]` pattern was not found")
		return
	}
	var okFlag ssa.Value
	for _, r := range *lookup.Referrers() {
		if ex, ok := r.(*ssa.Extract); ok && ex.Index == 1 {
			okFlag = ex
		}
	}
	idBind := b.bind(lookup.Index)
	c.Check(strings.Contains(idBind, "col:service_id"), "SVC", fname, "existing service looked up by the row's service_id", p.ipos(lookup), "m[service_id]", "the existing service is looked up under "+clip(idBind, 60))
	// SV4: range extension
	type fstore struct {
		st    *ssa.Store
		field string
		call  *ssa.Call      // the call (in fn) of the helper the store sits in, nil for a store of fn itself
		prm   *ssa.Parameter // the helper's parameter that receives &service
	}
	var stores []fstore
	// helpers that are handed the address of the local service: their stores through that parameter are stores into it
	type svcHelper struct {
		call *ssa.Call
		h    *ssa.Function
		prm  *ssa.Parameter
	}
	var helpers []svcHelper
	for _, blk := range fn.Blocks {
		for _, in := range blk.Instrs {
			if st, ok := in.(*ssa.Store); ok {
				if fa, ok := st.Addr.(*ssa.FieldAddr); ok && fa.X == ssa.Value(svc) {
					stores = append(stores, fstore{st: st, field: fieldName(fa.X.Type(), fa.Field)})
				}
			}
			if call, ok := in.(*ssa.Call); ok && !call.Call.IsInvoke() {
				h := call.Call.StaticCallee()
				if h == nil || !p.isModuleFn(h) || len(h.Blocks) == 0 || len(h.Params) != len(call.Call.Args) || len(naturalLoops(h)) > 0 {
					continue
				}
				for i, a := range call.Call.Args {
					if a == ssa.Value(svc) {
						helpers = append(helpers, svcHelper{call, h, h.Params[i]})
					}
				}
			}
		}
	}
	for _, sh := range helpers {
		for _, blk := range sh.h.Blocks {
			for _, in := range blk.Instrs {
				if st, ok := in.(*ssa.Store); ok {
					if fa, ok := st.Addr.(*ssa.FieldAddr); ok && fa.X == ssa.Value(sh.prm) {
						stores = append(stores, fstore{st: st, field: fieldName(fa.X.Type(), fa.Field), call: sh.call, prm: sh.prm})
					}
				}
			}
		}
	}
	// argOf: a helper's parameter stands for what the call hands it
	argOf := func(call *ssa.Call, v ssa.Value) ssa.Value {
		if call == nil {
			return v
		}
		if prm, ok := v.(*ssa.Parameter); ok {
			if h := call.Call.StaticCallee(); h != nil {
				for i, q := range h.Params {
					if q == prm && i < len(call.Call.Args) {
						return call.Call.Args[i]
					}
				}
			}
		}
		return v
	}
	binderFor := func(call *ssa.Call) *binder {
		if call == nil {
			return b
		}
		var as []string
		for _, a := range call.Call.Args {
			as = append(as, b.bind(a))
		}
		return b.withArgs(call.Call.StaticCallee(), as)
	}
	// The guards are read path by path through one trip around the row loop (a store may be reached under `new ||
	// date.Before(start)`, which is two paths, not one dominating condition).
	var rowLoop *Loop
	for _, l := range naturalLoops(fn) {
		if iff, ok := l.Header.Instrs[len(l.Header.Instrs)-1].(*ssa.If); ok {
			if call, ok := iff.Cond.(*ssa.Call); ok && calleeName(call) == "(*"+modPath+"/csv.File).NextRow" {
				rowLoop = l
			}
		}
	}
	if rowLoop == nil {
		c.Undecided("SVC", fname, "create-or-extend", p.pos(fn.Pos()), "the row loop of parseCalendarDates was not found")
		return
	}
	paths := iterationPaths(rowLoop)
	// factsBefore: the branch outcomes on the path before it enters block blk (nil, false if blk is not on the path)
	factsBefore := func(pf pathFacts, blk *ssa.BasicBlock) ([]condEdge, bool) {
		for i, b2 := range pf.blocks {
			if b2 == blk {
				var out []condEdge
				for _, f := range pf.facts {
					if f.at < i {
						out = append(out, f.ce)
					}
				}
				return out, true
			}
		}
		return nil, false
	}
	// factsAt: the branch outcomes known where the store executes, one list per way of getting there on this trip
	// around the row loop: for a store in a helper, the caller's outcomes before the call followed by the helper's own
	// on each of its paths to the store, with the helper's parameters replaced by the call's arguments
	factsAt := func(pf pathFacts, fs fstore) ([][]condEdge, bool) {
		if fs.call == nil {
			f, on := factsBefore(pf, fs.st.Block())
			if !on {
				return nil, false
			}
			return [][]condEdge{f}, true
		}
		base, on := factsBefore(pf, fs.call.Block())
		if !on {
			return nil, false
		}
		var out [][]condEdge
		enumPaths(fs.call.Call.StaticCallee(), func(path []*ssa.BasicBlock) {
			at := -1
			for i, hb := range path {
				if hb == fs.st.Block() {
					at = i
				}
			}
			if at < 0 {
				return
			}
			facts := append([]condEdge{}, base...)
			for i := 0; i < at; i++ {
				if cond, val, ok := edgeTaken(path, i, nil); ok {
					facts = append(facts, condEdge{Cond: argOf(fs.call, cond), Val: val})
				}
			}
			out = append(out, facts)
		})
		return out, len(out) > 0
	}
	isNewFact := func(ce condEdge) bool {
		cond, val := ce.Cond, ce.Val
		for {
			u, isNot := cond.(*ssa.UnOp)
			if !isNot || u.Op != token.NOT {
				break
			}
			cond, val = u.X, !val
		}
		return cond == okFlag && !val
	}
	for _, fs := range stores {
		if fs.field != "StartDate" && fs.field != "EndDate" {
			continue
		}
		valExpr := binderFor(fs.call).bind(fs.st.Val)
		okVal := strings.Contains(valExpr, "(col:date") && normClass(b.headClass(valExpr)) == normClass("(string)→(time.Time,error)")
		guards := map[string]bool{}
		unguarded := false
		nOn := 0
		var factLists [][]condEdge
		for _, pf := range paths {
			if fl, on := factsAt(pf, fs); on {
				factLists = append(factLists, fl...)
			}
		}
		for _, facts := range factLists {
			nOn++
			g := ""
			for _, ce := range facts {
				if isNewFact(ce) {
					g = "new"
				}
				cond, val := ce.Cond, ce.Val
				if u, isNot := cond.(*ssa.UnOp); isNot && u.Op == token.NOT {
					cond, val = u.X, !val
				}
				if call, isCall := cond.(*ssa.Call); isCall && (calleeName(call) == "(time.Time).Before" || calleeName(call) == "(time.Time).After") && val && g == "" {
					// a.After(b) is b.Before(a)
					first, second := call.Call.Args[0], call.Call.Args[1]
					if calleeName(call) == "(time.Time).After" {
						first, second = second, first
					}
					own := canon(first)
					other := canon(second)
					if fs.field == "StartDate" && isDateVal(argOf(fs.call, first), fn) && strings.HasSuffix(other, ".StartDate)") {
						g = "date.Before(StartDate)"
					}
					if fs.field == "EndDate" && strings.HasSuffix(own, ".EndDate)") && isDateVal(argOf(fs.call, second), fn) {
						g = "EndDate.Before(date)"
					}
				}
			}
			if g == "" {
				unguarded = true
			} else {
				guards[g] = true
			}
		}
		var gl []string
		for g := range guards {
			gl = append(gl, g)
		}
		sort.Strings(gl)
		c.Check(okVal && !unguarded && nOn > 0, "SVC", fname, "range extension of "+fs.field, p.ipos(fs.st), "stores the exception's date, on every path under: "+strings.Join(gl, " or "), fmt.Sprintf("%s is assigned %s without the guard that keeps start <= date <= end (new service, or date before start / end before date)", fs.field, clip(valExpr, 60)))
	}
	// on every path on which the service turned out to be new, both ends are set afterwards
	okBoth, nNew := true, 0
	isExistingFact := func(ce condEdge) bool {
		cond, val := ce.Cond, ce.Val
		for {
			u, isNot := cond.(*ssa.UnOp)
			if !isNot || u.Op != token.NOT {
				break
			}
			cond, val = u.X, !val
		}
		return cond == okFlag && val
	}
	// toldFlag: the helper call is handed the found-flag (or its negation)
	toldFlag := func(call *ssa.Call) bool {
		for _, a := range call.Call.Args {
			v := a
			for {
				u, isNot := v.(*ssa.UnOp)
				if !isNot || u.Op != token.NOT {
					break
				}
				v = u.X
			}
			if v == okFlag {
				return true
			}
		}
		return false
	}
	// setWhenNew: the fields of the service the helper call stores on every one of its paths that is possible for a
	// service that was not found
	setWhenNew := func(sh svcHelper) map[string]bool {
		var common map[string]bool
		enumPaths(sh.h, func(path []*ssa.BasicBlock) {
			for i := range path {
				if cond, val, ok := edgeTaken(path, i, nil); ok && isExistingFact(condEdge{Cond: argOf(sh.call, cond), Val: val}) {
					return // this path is taken for a service that was found
				}
			}
			here := map[string]bool{}
			for _, hb := range path {
				for _, in := range hb.Instrs {
					if st, ok := in.(*ssa.Store); ok {
						if fa, ok := st.Addr.(*ssa.FieldAddr); ok && fa.X == ssa.Value(sh.prm) {
							here[fieldName(fa.X.Type(), fa.Field)] = true
						}
					}
				}
			}
			if common == nil {
				common = here
				return
			}
			for k := range common {
				if !here[k] {
					delete(common, k)
				}
			}
		})
		return common
	}
	for _, pf := range paths {
		newAt := -1
		existing := false
		for _, f := range pf.facts {
			if isNewFact(f.ce) && newAt < 0 {
				newAt = f.at
			}
			if isExistingFact(f.ce) {
				existing = true
			}
		}
		if newAt < 0 {
			// not decided by a branch of the loop itself: the case of a new service is still on this path when a helper
			// is told the flag and decides
			told := false
			for _, blk := range pf.blocks {
				for _, sh := range helpers {
					if sh.call.Block() == blk && toldFlag(sh.call) {
						told = true
					}
				}
			}
			if existing || !told {
				continue
			}
		}
		nNew++
		set := map[string]bool{}
		for i, blk := range pf.blocks {
			if i <= newAt {
				continue
			}
			for _, in := range blk.Instrs {
				if st, ok := in.(*ssa.Store); ok {
					if fa, ok := st.Addr.(*ssa.FieldAddr); ok && fa.X == ssa.Value(svc) {
						set[fieldName(fa.X.Type(), fa.Field)] = true
					}
				}
				for _, sh := range helpers {
					if ssa.Instruction(sh.call) == in {
						for k := range setWhenNew(sh) {
							set[k] = true
						}
					}
				}
			}
		}
		// only paths that write the service back matter: a row rejected later leaves no trace anyway
		writesBack := false
		for i, blk := range pf.blocks {
			if i <= newAt {
				continue
			}
			for _, in := range blk.Instrs {
				if mu, ok := in.(*ssa.MapUpdate); ok && typeName(mu.Value.Type()) == "gtfs.Service" {
					writesBack = true
				}
			}
		}
		if writesBack && (!set["StartDate"] || !set["EndDate"]) {
			okBoth = false
		}
	}
	c.Check(okBoth && nNew > 0, "SVC", fname, "a service first seen in calendar_dates starts and ends on that date", p.pos(fn.Pos()), fmt.Sprintf("on each of the %d paths that find no existing service and store one, both StartDate and EndDate are set", nNew), "for a service without a calendar row some path sets only one of StartDate/EndDate: the other stays the zero time and the range does not cover the exception date")
	// every row that is kept is inside the range afterwards: on each path that writes the service back, the service
	// is new (both ends set, above) or the row's date was compared with both ends (and the end moved where needed, also
	// above). A path that keeps the row without having looked at the range -- "removals do not widen a published range"
	// -- leaves a removed or added date outside [StartDate, EndDate]
	{
		kindOf := func(cond ssa.Value, call0 *ssa.Call) string {
			for {
				u, isNot := cond.(*ssa.UnOp)
				if !isNot || u.Op != token.NOT {
					break
				}
				cond = u.X
			}
			call, isCall := cond.(*ssa.Call)
			if !isCall || calleeName(call) != "(time.Time).Before" && calleeName(call) != "(time.Time).After" {
				return ""
			}
			// a.After(b) is b.Before(a)
			first, second := call.Call.Args[0], call.Call.Args[1]
			if calleeName(call) == "(time.Time).After" {
				first, second = second, first
			}
			own, other := canon(first), canon(second)
			if strings.HasSuffix(other, ".StartDate)") && isDateVal(argOf(call0, first), fn) {
				return "start"
			}
			if strings.HasSuffix(own, ".EndDate)") && isDateVal(argOf(call0, second), fn) {
				return "end"
			}
			return ""
		}
		okLooked, nKept := true, 0
		for _, pf := range paths {
			writesBack := false
			for _, blk := range pf.blocks {
				for _, in := range blk.Instrs {
					if mu, ok := in.(*ssa.MapUpdate); ok && typeName(mu.Value.Type()) == "gtfs.Service" {
						writesBack = true
					}
				}
			}
			if !writesBack {
				continue
			}
			nKept++
			isNew := false
			kinds := map[string]bool{}
			for _, f := range pf.facts {
				if isNewFact(f.ce) {
					isNew = true
				}
				if k := kindOf(f.ce.Cond, nil); k != "" {
					kinds[k] = true
				}
			}
			if isNew {
				continue
			}
			for _, blk := range pf.blocks {
				for _, sh := range helpers {
					if sh.call.Block() != blk {
						continue
					}
					var common map[string]bool
					enumPaths(sh.h, func(path []*ssa.BasicBlock) {
						here := map[string]bool{}
						for i := range path {
							cond, val, ok := edgeTaken(path, i, nil)
							if !ok {
								continue
							}
							if isNewFact(condEdge{Cond: argOf(sh.call, cond), Val: val}) {
								return // the path of a new service
							}
							if k := kindOf(cond, sh.call); k != "" {
								here[k] = true
							}
						}
						if common == nil {
							common = here
							return
						}
						for k := range common {
							if !here[k] {
								delete(common, k)
							}
						}
					})
					for k := range common {
						kinds[k] = true
					}
				}
			}
			if !kinds["start"] || !kinds["end"] {
				okLooked = false
			}
		}
		c.Check(okLooked && nKept > 0, "SVC", fname, "every kept row is compared with the range", p.pos(fn.Pos()), fmt.Sprintf("on each of the %d paths that write a service back it is new, or the row's date was compared with StartDate and with EndDate", nKept), "some path keeps a row of an existing service without comparing its date with the range: an added or removed date can then lie outside [StartDate, EndDate]")
	}
	// SV3: exception table
	for _, want := range []struct{ field, digit string }{{"AddedDates", "1"}, {"RemovedDates", "2"}} {
		n := 0
		for _, fs := range stores {
			if fs.field != want.field {
				continue
			}
			n++
			guarded, nOn := true, 0
			sb := binderFor(fs.call)
			var factLists [][]condEdge
			for _, pf := range paths {
				if fl, on := factsAt(pf, fs); on {
					factLists = append(factLists, fl...)
				}
			}
			for _, facts := range factLists {
				nOn++
				has := false
				for _, ce := range facts {
					cond, val := normalizeCond(ce.Cond, ce.Val)
					bo, ok := cond.(*ssa.BinOp)
					if !ok {
						continue
					}
					eq := (bo.Op == token.EQL && val) || (bo.Op == token.NEQ && !val)
					if s, isS := constString(bo.Y); eq && isS && s == want.digit && (strings.Contains(b.bind(bo.X), "col:exception_type") || strings.Contains(sb.bind(bo.X), "col:exception_type")) {
						has = true
					}
				}
				if !has {
					guarded = false
				}
			}
			okApp := isAppendOf(fs.st.Val, fs.st.Addr) && isDateVal(argOf(fs.call, appendedOne(fs.st.Val)), fn)
			c.Check(guarded && nOn > 0 && okApp, "SVC", fname, want.field+" <- exception_type "+want.digit, p.ipos(fs.st), "the row's date is appended, on every path, under exception_type == \""+want.digit+"\"", "dates are added to "+want.field+" under another exception type, or something other than the row's date is appended")
		}
		if n == 0 {
			c.Violated("SVC", fname, want.field+" <- exception_type "+want.digit, p.pos(fn.Pos()), want.field+" is never filled")
		}
	}
}

// isDateVal: the value is the row's parsed date (Extract #0 of parseTime(col:date...)).
func isDateVal(v ssa.Value, fn *ssa.Function) bool {
	for i := 0; i < 6 && v != nil; i++ {
		switch x := v.(type) {
		case *ssa.Extract:
			if call, ok := x.Tuple.(*ssa.Call); ok && x.Index == 0 && call.Call.StaticCallee() != nil && fnPkgPath(call.Call.StaticCallee()) == modPath && normClass(sigClass(call.Call.StaticCallee())) == normClass("(string)→(time.Time,error)") {
				if rd, ok := call.Call.Args[0].(*ssa.Call); ok {
					if ci, _ := resolveColumn(rd.Call.Args[0], 0); ci != nil && ci.name == "date" {
						return true
					}
				}
			}
			return false
		case *ssa.UnOp:
			v = x.X
		case *ssa.Alloc:
			var sv ssa.Value
			for _, s := range cellStores(x) {
				sv = s
			}
			v = sv
		default:
			return false
		}
	}
	return false
}

func appendedOne(v ssa.Value) ssa.Value {
	call, ok := v.(*ssa.Call)
	if !ok || len(call.Call.Args) < 2 {
		return nil
	}
	sl, ok := call.Call.Args[1].(*ssa.Slice)
	if !ok {
		return nil
	}
	arr, ok := sl.X.(*ssa.Alloc)
	if !ok {
		return nil
	}
	for _, r := range *arr.Referrers() {
		if ia, ok := r.(*ssa.IndexAddr); ok {
			for _, r2 := range *ia.Referrers() {
				if st, ok := r2.(*ssa.Store); ok {
					return st.Val
				}
			}
		}
	}
	return nil
}

// ---------------------------------------------------------------- C12

func runAlertRules(c *Ctx) {
	p := c.P
	fn := c.anchor("gtfs:parseAlert")
	pred := c.anchor("gtfs:alertInformedEntityInformsAtLeastOneEntity")
	uniq := c.anchor("gtfs:tripIDUniquelyIdentifiesTrip")
	if fn == nil || pred == nil || uniq == nil {
		return
	}
	// P1a: the "informs something" predicate: false exactly when all five selectors are absent
	if tb, err := extractTable(pred); err != nil {
		c.Undecided("ALERT", shortName(pred), "predicate table", p.pos(pred.Pos()), err.Error())
	} else {
		var falseRows, trueRows int
		okCover := false
		for _, r := range tb.rows {
			if r.results[0] == "const:false" {
				falseRows++
				subj := map[string]bool{}
				for _, a := range r.conds {
					s := a.subj
					switch {
					case strings.HasSuffix(s, ".AgencyID)") && a.konst == "nil" && !a.neg:
						subj["AgencyID"] = true
					case strings.HasSuffix(s, ".RouteID)") && a.konst == "nil" && !a.neg:
						subj["RouteID"] = true
					case strings.HasSuffix(s, ".StopID)") && a.konst == "nil" && !a.neg:
						subj["StopID"] = true
					case strings.HasSuffix(s, ".RouteType)") && a.konst == strings.TrimPrefix(c.constOf("gtfs", "RouteType_Unknown"), "const:") && !a.neg:
						subj["RouteType"] = true
					case a.opaque && a.neg && strings.Contains(s, "call:") && strings.Contains(s, ".TripID"):
						subj["TripID"] = true
					}
				}
				okCover = len(subj) == 5 && len(r.conds) == 5
			} else if r.results[0] == "const:true" {
				trueRows++
			}
		}
		c.Check(falseRows == 1 && okCover && trueRows >= 5, "ALERT", shortName(pred), "an entity informs something iff agency, route, route type, identifiable trip or stop is present", p.pos(pred.Pos()), "false exactly when all five are absent", "the predicate does not consult exactly {AgencyID, RouteID, RouteType != Unknown, identifiable TripID, StopID}: "+clip(tb.String(), 300))
	}
	// P1b: the identifiability predicate
	if tb, err := extractTable(uniq); err != nil {
		c.Undecided("ALERT", shortName(uniq), "predicate table", p.pos(uniq.Pos()), err.Error())
	} else {
		var trues []string
		for _, r := range tb.rows {
			if r.results[0] != "const:true" {
				continue
			}
			var as []string
			for _, a := range r.conds {
				s := a.String()
				if i := strings.LastIndex(s, "."); i >= 0 {
					s = s[i+1:]
				}
				as = append(as, strings.ReplaceAll(s, ")", ""))
			}
			sort.Strings(as)
			trues = append(trues, strings.Join(as, ","))
		}
		sort.Strings(trues)
		dirUnspec := strings.TrimPrefix(c.constOf("gtfs", "DirectionID_Unspecified"), "const:")
		want := []string{
			`DirectionID!=` + dirUnspec + `,HasStartDate,HasStartTime,ID=="",RouteID!="",tripID!=nil`,
			`ID!="",tripID!=nil`,
		}
		sort.Strings(want)
		c.Check(strings.Join(trues, " | ") == strings.Join(want, " | "), "ALERT", shortName(uniq), "a trip is identifiable by id, or by route+direction+start time+start date", p.pos(uniq.Pos()), "true rows: "+strings.Join(trues, " | "), "identifiability is decided differently: true exactly under "+strings.Join(trues, " | ")+"; expected "+strings.Join(want, " | "))
	}
	fname := shortName(fn)
	loops := naturalLoops(fn)
	// the selector loop: ranges over GetInformedEntity(alert)
	var sel *Loop
	for _, l := range loops {
		for b := range l.Blocks {
			for _, in := range b.Instrs {
				if call, ok := in.(*ssa.Call); ok && staticCallee(call) == pred {
					if sel == nil || len(l.Blocks) < len(sel.Blocks) {
						sel = l
					}
				}
			}
		}
	}
	if sel == nil {
		c.Violated("ALERT", fname, "selector loop", p.pos(fn.Pos()), "the loop over the alert's selectors that applies the predicate was not found")
		return
	}
	isEntAppend := func(call *ssa.Call) bool {
		return isBuiltin(call, "append") && strings.HasSuffix(call.Type().String(), "AlertInformedEntity")
	}
	isTripAppend := func(call *ssa.Call) bool {
		return isBuiltin(call, "append") && call.Type().String() == "[]"+modPath+".Trip"
	}
	// P2: appends inside the selector loop are under the predicate
	n := 0
	for b := range sel.Blocks {
		for _, in := range b.Instrs {
			call, ok := in.(*ssa.Call)
			if !ok || !isEntAppend(call) {
				continue
			}
			n++
			under := false
			for _, ce := range dominatingConds(b) {
				cond, val := ce.Cond, ce.Val
				if u, isNot := cond.(*ssa.UnOp); isNot && u.Op == token.NOT {
					cond, val = u.X, !val
				}
				if cc, isCall := cond.(*ssa.Call); isCall && staticCallee(cc) == pred && val {
					under = true
				}
			}
			c.Check(under, "ALERT", fname, "selector entities appended only when they inform something", p.ipos(call), "append dominated by the predicate's true edge", "an informed entity is appended without passing the informs-something predicate")
			_ = under
		}
	}
	if n != 1 {
		c.Violated("ALERT", fname, "one entity per selector", p.pos(fn.Pos()), fmt.Sprintf("%d appends of selector entities in the selector loop (each accepted selector must be represented by exactly one entity, in order)", n))
	}
	// P3: keep / clear pairing on the identifiability test inside the predicate-true region
	var split *ssa.If
	for b := range sel.Blocks {
		if iff, ok := b.Instrs[len(b.Instrs)-1].(*ssa.If); ok {
			if cc, isCall := iff.Cond.(*ssa.Call); isCall && staticCallee(cc) == uniq {
				// the one that decides keep/clear: dominated by the predicate
				for _, ce := range dominatingConds(b) {
					cond := ce.Cond
					if u, isNot := cond.(*ssa.UnOp); isNot && u.Op == token.NOT {
						cond = u.X
					}
					if pc, isCall := cond.(*ssa.Call); isCall && staticCallee(pc) == pred {
						split = iff
					}
				}
			}
		}
	}
	if split == nil {
		c.Violated("ALERT", fname, "trip id kept iff identifiable", p.pos(fn.Pos()), "no identifiability test after the informs-something predicate")
	} else {
		tb, fb := split.Block().Succs[0], split.Block().Succs[1]
		// true edge: every path until the entity append contains an append to trips of Trip{ID: *tripID}
		okKeep := true
		nPaths := 0
		var walk func(b *ssa.BasicBlock, has bool, seen map[*ssa.BasicBlock]bool)
		walk = func(b *ssa.BasicBlock, has bool, seen map[*ssa.BasicBlock]bool) {
			if seen[b] || !sel.Blocks[b] {
				return
			}
			seen[b] = true
			defer delete(seen, b)
			for _, in := range b.Instrs {
				if call, ok := in.(*ssa.Call); ok {
					if isTripAppend(call) {
						has = true
					}
					if isEntAppend(call) {
						nPaths++
						if !has {
							okKeep = false
						}
						return
					}
				}
			}
			for _, s := range b.Succs {
				walk(s, has, seen)
			}
		}
		walk(tb, false, map[*ssa.BasicBlock]bool{})
		c.Check(okKeep && nPaths > 0, "ALERT", fname, "every identifiable trip of an alert is reported in Trips", p.ipos(split), "on the identifiable edge every path to the entity append also appends the trip", "an entity can keep an identifiable trip id without that trip being appended to the alert's trips (the result's Trips would miss it)")
		// false edge: TripID cleared
		cleared := false
		for _, in := range fb.Instrs {
			if st, ok := in.(*ssa.Store); ok && isNilConst(st.Val) {
				if fa, ok := st.Addr.(*ssa.FieldAddr); ok && fieldName(fa.X.Type(), fa.Field) == "TripID" {
					cleared = true
				}
			}
		}
		c.Check(cleared, "ALERT", fname, "unidentifiable trip ids are removed", p.ipos(split), "TripID = nil on the other edge", "an informed entity keeps a trip id that does not identify a trip")
		// the appended trip: ID <- the selector's descriptor, not in message
		b := newBinder(c)
		for _, fs := range collectFieldStores([]*ssa.Function{fn}, "gtfs.Trip") {
			if fs.field == "ID" {
				expr := b.bind(fs.store.Val)
				c.Check(strings.Contains(expr, "parseOptionalTripDescriptor(proto:EntitySelector.Trip"), "ALERT", fname, "reported trip carries the selector's descriptor", p.ipos(fs.store), "Trip.ID <- the selector's trip descriptor", "the trip reported for an alert is not built from the selector's descriptor: "+clip(expr, 80))
			}
		}
	}
	// P2b: and every selector that informs something is appended: from the predicate's true edge no path around the
	// selector loop goes past the append (a "seen this selector already" guard in between compares a key that leaves
	// something out and drops a selector that differs there)
	for b := range sel.Blocks {
		iff, ok := b.Instrs[len(b.Instrs)-1].(*ssa.If)
		if !ok {
			continue
		}
		cond, neg := iff.Cond, false
		if u, isNot := cond.(*ssa.UnOp); isNot && u.Op == token.NOT {
			cond, neg = u.X, true
		}
		cc, isCall := cond.(*ssa.Call)
		if !isCall || staticCallee(cc) != pred {
			continue
		}
		start := b.Succs[0]
		if neg {
			start = b.Succs[1]
		}
		skipped := false
		nP := pathsWithin(start, sel, func(path []*ssa.BasicBlock, back bool) {
			if !back {
				return
			}
			has := false
			for _, pb := range path {
				for _, in := range pb.Instrs {
					if call, isC := in.(*ssa.Call); isC && isEntAppend(call) {
						has = true
					}
				}
			}
			if !has {
				skipped = true
			}
		})
		c.Check(!skipped && nP > 0, "ALERT", fname, "every selector that informs something is appended", p.ipos(iff), fmt.Sprintf("all %d paths from the predicate's true edge to the next selector append the entity", nP), "a selector that informs something can be skipped after the predicate (a further guard stands between the predicate and the append)")
	}
	// the directions recorded for a route that is informed through route-only trip descriptors are those of the
	// descriptors: the selector's own direction_id does not stand in for a direction the descriptor does not name
	for _, g := range c.regionOf(fn) {
		for _, gb := range g.Blocks {
			for _, in := range gb.Instrs {
				mu, ok := in.(*ssa.MapUpdate)
				if !ok || typeName(mu.Key.Type()) != "gtfs.DirectionID" {
					continue
				}
				e := newBinder(c).bind(mu.Key)
				c.Check(!strings.Contains(e, "EntitySelector.DirectionId"), "ALERT", shortName(g), "fallback directions come from the trip descriptor", p.ipos(mu), "the recorded direction is the descriptor's", "the direction recorded for a route informed through a trip descriptor can be the selector's own direction_id ("+clip(e, 100)+"): a descriptor that names no direction must inform the route without direction")
			}
		}
	}
	// P4: fallback entities (appended outside the selector loop) only for routes not informed explicitly
	var informedRoutes ssa.Value
	for b := range sel.Blocks {
		for _, in := range b.Instrs {
			if mu, ok := in.(*ssa.MapUpdate); ok && mu.Map.Type().String() == "map[string]bool" {
				informedRoutes = mu.Map
				// key is the selector's route id, guarded by RouteId != nil
				bb := newBinder(c)
				okKey := strings.Contains(bb.bind(mu.Key), "proto:EntitySelector.RouteId") && !computedByCall(mu.Key, 0)
				c.Check(okKey, "ALERT", fname, "explicitly informed routes are recorded by the selector's route id", p.ipos(mu), "informedRoutes[*entity.RouteId] = true", "the set of explicitly informed routes is filled from something other than the selector's route id")
			}
		}
	}
	// the set may be kept in an unexported field of a per-alert bookkeeping object and filled by one of its methods,
	// called for every selector: the set is then known by its field
	setField := ""
	fieldKey := func(v ssa.Value) string {
		ld, ok := v.(*ssa.UnOp)
		if !ok || ld.Op != token.MUL {
			return ""
		}
		fa, ok := ld.X.(*ssa.FieldAddr)
		if !ok {
			return ""
		}
		if _, ok := c.P.unexportedFieldStores(fa); !ok {
			return ""
		}
		return typeName(fa.X.Type()) + "." + fieldName(fa.X.Type(), fa.Field)
	}
	if informedRoutes == nil {
		for b := range sel.Blocks {
			for _, in := range b.Instrs {
				cs, ok := in.(*ssa.Call)
				if !ok {
					continue
				}
				g := staticCallee(cs)
				if g == nil || !c.P.isModuleFn(g) || len(g.Blocks) == 0 || fnPkgPath(g) != fnPkgPath(fn) {
					continue
				}
				for _, gb := range g.Blocks {
					for _, gin := range gb.Instrs {
						mu, ok := gin.(*ssa.MapUpdate)
						if !ok || mu.Map.Type().String() != "map[string]bool" || fieldKey(mu.Map) == "" {
							continue
						}
						setField = fieldKey(mu.Map)
						bb := newBinder(c)
						var args []string
						for _, a := range cs.Call.Args {
							args = append(args, bb.bind(a))
						}
						okKey := len(args) == len(g.Params) && strings.Contains(bb.withArgs(g, args).bind(mu.Key), "proto:EntitySelector.RouteId")
						c.Check(okKey, "ALERT", fname, "explicitly informed routes are recorded by the selector's route id", p.ipos(mu), "informedRoutes[*entity.RouteId] = true", "the set of explicitly informed routes is filled from something other than the selector's route id")
					}
				}
			}
		}
	}
	nFallback := 0
	if setField != "" {
		// fallback appends in the bookkeeping object's methods called after the selector loop
		for _, b := range fn.Blocks {
			if sel.Blocks[b] || !sel.Header.Dominates(b) {
				continue
			}
			for _, in := range b.Instrs {
				cs, ok := in.(*ssa.Call)
				if !ok {
					continue
				}
				g := staticCallee(cs)
				if g == nil || !c.P.isModuleFn(g) || len(g.Blocks) == 0 || fnPkgPath(g) != fnPkgPath(fn) {
					continue
				}
				for _, gb := range g.Blocks {
					for _, gin := range gb.Instrs {
						call, ok := gin.(*ssa.Call)
						if !ok || !isEntAppend(call) {
							continue
						}
						nFallback++
						guarded := false
						for _, ce := range dominatingConds(gb) {
							if lk, isLk := ce.Cond.(*ssa.Lookup); isLk && fieldKey(lk.X) == setField && !ce.Val {
								guarded = true
							}
						}
						c.Check(guarded, "ALERT", fname, "route fallback only for routes not informed explicitly", p.ipos(call), "append dominated by !informedRoutes[route], tested after all selectors were seen", "a route-only trip descriptor adds a route entity although the alert may already inform that route explicitly (the test must be made after the selector loop, whatever the selector order)")
					}
				}
			}
		}
	}
	for _, b := range fn.Blocks {
		if sel.Blocks[b] {
			continue
		}
		for _, in := range b.Instrs {
			call, ok := in.(*ssa.Call)
			if !ok || !isEntAppend(call) {
				continue
			}
			// the whole list a helper built from the set of explicitly informed routes, appended in one go: the helper's own
			// appends are the fallback entities (checked below, against its parameter)
			if len(call.Call.Args) == 2 && informedRoutes != nil {
				if hc, isCall := call.Call.Args[1].(*ssa.Call); isCall && !hc.Call.IsInvoke() {
					if g := hc.Call.StaticCallee(); g != nil && c.P.isModuleFn(g) && len(g.Blocks) > 0 && fnPkgPath(g) == fnPkgPath(fn) && hc.Block() == b {
						handsSet := false
						for _, a := range hc.Call.Args {
							if a == informedRoutes {
								handsSet = true
							}
						}
						if handsSet {
							continue
						}
					}
				}
			}
			nFallback++
			guarded := false
			for _, ce := range dominatingConds(b) {
				if lk, isLk := ce.Cond.(*ssa.Lookup); isLk && lk.X == informedRoutes && !ce.Val && informedRoutes != nil {
					// evaluated after the selector loop, for the route being added, under its id as it is (ids are
					// case-sensitive and not trimmed: a folded or trimmed key confuses two routes)
					if !sel.Blocks[lk.Block()] && sel.Header.Dominates(lk.Block()) && !computedByCall(lk.Index, 0) {
						guarded = true
					}
				}
			}
			if !guarded && informedRoutes != nil {
				// or the routes it is appended for were filtered beforehand: the list the route id is taken from only ever
				// receives routes r under !informedRoutes[r], tested after the selector loop
				guarded = fallbackRoutesPrefiltered(fn, sel, informedRoutes)
			}
			c.Check(guarded, "ALERT", fname, "route fallback only for routes not informed explicitly", p.ipos(call), "append dominated by !informedRoutes[route], tested after all selectors were seen", "a route-only trip descriptor adds a route entity although the alert may already inform that route explicitly (the test must be made after the selector loop, whatever the selector order)")
		}
	}
	// the fallback may live in a helper that is called after the selector loop and is handed the set of explicitly
	// informed routes: its appends are guarded by !set[route] of that parameter
	for _, b := range fn.Blocks {
		if sel.Blocks[b] || !sel.Header.Dominates(b) || informedRoutes == nil {
			continue
		}
		for _, in := range b.Instrs {
			cs, ok := in.(*ssa.Call)
			if !ok {
				continue
			}
			g := staticCallee(cs)
			if g == nil || !c.P.isModuleFn(g) || len(g.Blocks) == 0 || fnPkgPath(g) != fnPkgPath(fn) {
				continue
			}
			var setParam ssa.Value
			for j, a := range cs.Call.Args {
				if a == informedRoutes && j < len(g.Params) {
					setParam = g.Params[j]
				}
			}
			for _, gb := range g.Blocks {
				for _, gin := range gb.Instrs {
					call, ok := gin.(*ssa.Call)
					if !ok || !isEntAppend(call) {
						continue
					}
					nFallback++
					guarded := false
					for _, ce := range dominatingConds(gb) {
						if lk, isLk := ce.Cond.(*ssa.Lookup); isLk && setParam != nil && lk.X == setParam && !ce.Val {
							guarded = true
						}
					}
					c.Check(guarded, "ALERT", fname, "route fallback only for routes not informed explicitly", p.ipos(call), "append dominated by !informedRoutes[route], tested after all selectors were seen", "a route-only trip descriptor adds a route entity although the alert may already inform that route explicitly (the test must be made after the selector loop, whatever the selector order)")
				}
			}
		}
	}
	if nFallback == 0 {
		c.Violated("ALERT", fname, "route fallback", p.pos(fn.Pos()), "no fallback entities are produced for route-only trip descriptors")
	}
	// no deletion from the bookkeeping maps (order dependence)
	for _, b := range fn.Blocks {
		for _, in := range b.Instrs {
			if call, ok := in.(*ssa.Call); ok && isBuiltin(call, "delete") {
				c.Violated("ALERT", fname, "bookkeeping maps only grow", p.ipos(call), "entries are deleted from a bookkeeping map while selectors are processed: the outcome depends on selector order")
			}
		}
	}
	// direction of the fallback: a direction is stored only as "False under directions[False]" or "True when
	// directions[False] does not hold (or directions[True] does)"; both constants occur
	b2 := newBinder(c)
	var dirStores []string
	fConst := c.constOf("gtfs", "DirectionID_False")
	tConst := c.constOf("gtfs", "DirectionID_True")
	uConst := c.constOf("gtfs", "DirectionID_Unspecified")
	sawF, sawT, okDir := false, false, true
	for _, fs := range collectFieldStores(c.regionOf(fn), "gtfs.AlertInformedEntity") {
		if fs.field != "DirectionID" || (fs.fn == fn && sel.Blocks[fs.store.Block()]) {
			continue
		}
		alts := storeAlternatives(b2, fs.store.Val)
		if len(alts) == 0 {
			alts = []storeAlt{{nil, b2.bind(fs.store.Val)}}
		}
		base := guardStrings(b2, fs.store.Block())
		for _, alt := range alts {
			gs := append(append([]string{}, base...), alt.guards...)
			dirStores = append(dirStores, alt.val)
			switch alt.val {
			case fConst:
				sawF = true
				if !hasGuard(gs, "+", "lookup(", ","+fConst+")") {
					okDir = false
				}
			case tConst:
				sawT = true
				if !(hasGuard(gs, "-", "lookup(", ","+fConst+")") || hasGuard(gs, "+", "lookup(", ","+tConst+")")) {
					okDir = false
				}
			case uConst:
				// spelled out: unspecified exactly when both directions are informed
				if !(hasGuard(gs, "+", "lookup(", ","+fConst+")") && hasGuard(gs, "+", "lookup(", ","+tConst+")")) {
					okDir = false
				}
			default:
				okDir = false
			}
		}
	}
	okDir = okDir && sawF && sawT
	c.Check(okDir, "ALERT", fname, "fallback direction is the single named direction", p.pos(fn.Pos()), "False is stored under directions[False], True otherwise; the both-directions fallback leaves it unspecified", fmt.Sprintf("fallback direction stores: %v", dirStores))
}

// pathFacts: one acyclic path of one trip around a loop, with the branch outcomes taken along it (at = index of the
// block that ends in the branch).
type pathFact struct {
	ce condEdge
	at int
}
type pathFacts struct {
	blocks []*ssa.BasicBlock
	facts  []pathFact
	back   bool
}

// iterationPaths: the acyclic paths from the loop body's entry to the back edge or out of the loop.
func iterationPaths(l *Loop) []pathFacts {
	var out []pathFacts
	if len(l.Header.Succs) == 0 {
		return nil
	}
	start := l.Header.Succs[0]
	if !l.Blocks[start] && len(l.Header.Succs) > 1 {
		start = l.Header.Succs[1]
	}
	pathsWithin(start, l, func(path []*ssa.BasicBlock, back bool) {
		pf := pathFacts{blocks: path, back: back}
		for i := 0; i+1 < len(path); i++ {
			blk := path[i]
			if iff, ok := blk.Instrs[len(blk.Instrs)-1].(*ssa.If); ok && blk.Succs[0] != blk.Succs[1] {
				pf.facts = append(pf.facts, pathFact{condEdge{Cond: iff.Cond, Val: blk.Succs[0] == path[i+1], If: iff}, i})
			}
		}
		// the branch of the last block (towards the header or out of the loop)
		if n := len(path); n > 0 {
			blk := path[n-1]
			if iff, ok := blk.Instrs[len(blk.Instrs)-1].(*ssa.If); ok && blk.Succs[0] != blk.Succs[1] {
				var next *ssa.BasicBlock
				for _, sc := range blk.Succs {
					if (back && sc == l.Header) || (!back && !l.Blocks[sc]) {
						next = sc
					}
				}
				if next != nil {
					pf.facts = append(pf.facts, pathFact{condEdge{Cond: iff.Cond, Val: blk.Succs[0] == next, If: iff}, n - 1})
				}
			}
		}
		// the same condition value cannot come out both ways within one trip: such a path is not feasible
		seen := map[ssa.Value]bool{}
		for _, f := range pf.facts {
			if v, ok := seen[f.ce.Cond]; ok && v != f.ce.Val {
				return
			}
			seen[f.ce.Cond] = f.ce.Val
		}
		// nor can two spellings of one comparison with a constant (`x != "1"` earlier, `x == "1"` later), and a value
		// cannot equal two different constants
		eqs := map[ssa.Value]map[string]bool{} // subject (the very SSA value) -> constant -> equal?
		for _, f := range pf.facts {
			cond, val := normalizeCond(f.ce.Cond, f.ce.Val)
			bo, ok := cond.(*ssa.BinOp)
			if !ok || (bo.Op != token.EQL && bo.Op != token.NEQ) {
				continue
			}
			k, isC := bo.Y.(*ssa.Const)
			if !isC || k.Value == nil {
				continue
			}
			subj, kc := bo.X, constKey(k)
			eq := (bo.Op == token.EQL) == val
			if eqs[subj] == nil {
				eqs[subj] = map[string]bool{}
			}
			if old, has := eqs[subj][kc]; has && old != eq {
				return
			}
			if eq {
				for other, oeq := range eqs[subj] {
					if other != kc && oeq {
						return
					}
				}
			}
			eqs[subj][kc] = eq
		}
		out = append(out, pf)
	})
	return out
}

// fallbackRoutesPrefiltered: every RouteID stored into an informed entity outside the selector loop is (a copy of) an
// element of one list of route ids, and every append to that list adds a value r in a block that lies after the
// selector loop and is dominated by the outcome !informedRoutes[r].
func fallbackRoutesPrefiltered(fn *ssa.Function, sel *Loop, informedRoutes ssa.Value) bool {
	var lists []ssa.Value
	n := 0
	for _, b := range fn.Blocks {
		if sel.Blocks[b] {
			continue
		}
		for _, in := range b.Instrs {
			st, ok := in.(*ssa.Store)
			if !ok {
				continue
			}
			fa, ok := st.Addr.(*ssa.FieldAddr)
			if !ok || typeName(fa.X.Type()) != "gtfs.AlertInformedEntity" || fieldName(fa.X.Type(), fa.Field) != "RouteID" {
				continue
			}
			n++
			cell, ok := st.Val.(*ssa.Alloc)
			if !ok {
				return false
			}
			for _, sv := range cellStores(cell) {
				ld, ok := sv.(*ssa.UnOp)
				if !ok {
					return false
				}
				ia, ok := ld.X.(*ssa.IndexAddr)
				if !ok {
					return false
				}
				lists = append(lists, ia.X)
			}
		}
	}
	if n == 0 || len(lists) == 0 {
		return false
	}
	seen := map[ssa.Value]bool{}
	nApp := 0
	var chain func(v ssa.Value, d int) bool
	chain = func(v ssa.Value, d int) bool {
		if seen[v] {
			return true
		}
		seen[v] = true
		if d > 30 {
			return false
		}
		switch x := v.(type) {
		case *ssa.Const:
			return x.Value == nil
		case *ssa.MakeSlice:
			k, isC := constInt(x.Len)
			return isC && k == 0
		case *ssa.Phi:
			for _, e := range x.Edges {
				if !chain(e, d+1) {
					return false
				}
			}
			return true
		case *ssa.UnOp:
			if al, ok := x.X.(*ssa.Alloc); ok {
				for _, sv := range cellStores(al) {
					if !chain(sv, d+1) {
						return false
					}
				}
				return true
			}
		case *ssa.Call:
			if !isBuiltin(x, "append") {
				return false
			}
			nApp++
			if sel.Blocks[x.Block()] || !sel.Header.Dominates(x.Block()) {
				return false
			}
			elems := variadicElems(x.Call.Args[1])
			if len(elems) != 1 {
				return false
			}
			okG := false
			for _, ce := range dominatingConds(x.Block()) {
				if lk, isLk := ce.Cond.(*ssa.Lookup); isLk && lk.X == informedRoutes && !ce.Val && lk.Index == elems[0] && !sel.Blocks[lk.Block()] {
					okG = true
				}
			}
			return okG && chain(x.Call.Args[0], d+1)
		}
		return false
	}
	for _, l := range lists {
		if !chain(l, 0) {
			return false
		}
	}
	return nApp > 0
}

// computedByCall: the value is the result of a (non-builtin) function applied to something: a key that went through
// a normalising helper (ToUpper, TrimSpace, a canonical form) is no longer the id as sent.
func computedByCall(v ssa.Value, d int) bool {
	if v == nil || d > 8 {
		return false
	}
	switch x := v.(type) {
	case *ssa.Call:
		if _, isB := x.Call.Value.(*ssa.Builtin); isB {
			return false
		}
		return true
	case *ssa.UnOp:
		return computedByCall(x.X, d+1)
	case *ssa.Phi:
		for _, e := range x.Edges {
			if computedByCall(e, d+1) {
				return true
			}
		}
	case *ssa.Convert:
		return computedByCall(x.X, d+1)
	case *ssa.ChangeType:
		return computedByCall(x.X, d+1)
	case *ssa.BinOp:
		return computedByCall(x.X, d+1) || computedByCall(x.Y, d+1)
	}
	return false
}
