package main

// G4 (every loop has a static variant), G5 (no recursion), init-time constants.

import (
	"fmt"
	"go/constant"
	"go/token"
	"go/types"
	"regexp"
	"sort"
	"strings"

	"golang.org/x/tools/go/ssa"
)

// progress table: calls that consume one unit of a finite input each time they are evaluated
var progressCalls = map[string]string{
	"(*" + modPath + "/csv.File).NextRow":                   "each call consumes one CSV record of a finite file",
	"(" + modPath + "/journal.GtfsrtSource).Next":           "each call consumes one feed of a finite sequence (the property quantifies over finite sequences)",
	"(*" + modPath + "/journal.DirectoryGtfsrtSource).Next": "each call consumes at least one file name of a finite listing",
}

func runG4(c *Ctx, e *nilEngine) {
	p := c.P
	bp := &boundsProver{c: c, e: e, depth: 8}
	nLoops := 0
	for _, f := range e.fns {
		fname := shortName(f)
		loops := naturalLoops(f)
		for li, l := range loops {
			nLoops++
			pos := p.pos(l.Header.Instrs[0].Pos())
			if !l.Header.Instrs[0].Pos().IsValid() {
				pos = p.ipos(l.Header.Instrs[len(l.Header.Instrs)-1])
			}
			kind, why := classifyLoop(c, bp, f, l)
			construct := fmt.Sprintf("loop %d (%s)", li+1, loopDescr(l))
			if kind != "" {
				c.Proved("G4", fname, construct, pos, kind+": "+why)
			} else {
				o := c.Violated("G4", fname, construct, pos, "no termination argument found for this loop: "+why)
				c.applyException(o)
			}
		}
	}
	c.Stats["G4 loops classified"] = nLoops
}

func loopDescr(l *Loop) string {
	// a stable description: the comment of the header block plus what it iterates
	hdr := l.Header.Comment
	for _, in := range l.Header.Instrs {
		switch x := in.(type) {
		case *ssa.Next:
			if r, ok := x.Iter.(*ssa.Range); ok {
				return hdr + " over " + descr(r.X)
			}
		case *ssa.If:
			return hdr + " while " + descr(x.Cond)
		}
	}
	return hdr
}

func classifyLoop(c *Ctx, bp *boundsProver, f *ssa.Function, l *Loop) (string, string) {
	h := l.Header
	// (b) iterator loops
	for _, in := range h.Instrs {
		if nx, ok := in.(*ssa.Next); ok {
			_ = nx
			return "iterator", "range over a finite map or string"
		}
	}
	iff, _ := h.Instrs[len(h.Instrs)-1].(*ssa.If)
	// exit condition may also be in the first body block for `for { if cond { return } ... }`
	condBlocks := []*ssa.BasicBlock{h}
	if iff == nil && len(h.Succs) == 1 && l.Blocks[h.Succs[0]] {
		condBlocks = append(condBlocks, h.Succs[0])
	}
	for _, cb := range condBlocks {
		ci, ok := cb.Instrs[len(cb.Instrs)-1].(*ssa.If)
		if !ok {
			continue
		}
		exits := !l.Blocks[cb.Succs[0]] || !l.Blocks[cb.Succs[1]]
		if !exits {
			continue
		}
		// (a)/(c) counter loops
		if bo, ok := ci.Cond.(*ssa.BinOp); ok {
			if k, why := counterLoop(bp, l, cb, bo); k {
				return "bounded counter", why
			}
			// (e) consumer loop: exit on empty, one removal per trip
			if nc, _ := normalizeCond(bo, true); nc != nil {
				if nbo, isB := nc.(*ssa.BinOp); isB {
					if why, ok := consumerLoop(l, cb, nbo); ok {
						return "consumer", why
					}
				}
			}
			// (d) driver: x != nil where x comes from a progress call
			if isNilConst(bo.Y) {
				if name := progressSource(c, bo.X, l, 0); name != "" {
					return "input driver", progressCalls[name]
				}
			}
			// (f) pointer chase
			if why, ok := chaseLoop(c, f, l, cb, bo); ok {
				return "pointer chase", why
			}
		}
		// (e') consumer loop through a helper: the exit test is the ok of a "take the front element" helper called on
		// every trip (false exactly when the list is empty, otherwise one element was removed)
		{
			cnd := ci.Cond
			if u, isNot := cnd.(*ssa.UnOp); isNot && u.Op == token.NOT {
				cnd = u.X
			}
			if ex, isEx := cnd.(*ssa.Extract); isEx && ex.Index == 1 {
				if call, isCall := ex.Tuple.(*ssa.Call); isCall && l.Blocks[call.Block()] && call.Block().Dominates(cb) {
					if h := call.Call.StaticCallee(); h != nil && !call.Call.IsInvoke() && c.P.isModuleFn(h) && len(h.Blocks) > 0 && popFrontHelper(h) {
						return "consumer", "exits when " + h.Name() + " finds the list empty; otherwise that helper removed one element: the list shrinks on every trip"
					}
				}
			}
		}
		// (d) driver: the condition is the progress call itself
		if name := progressSource(c, ci.Cond, l, 0); name != "" {
			return "input driver", progressCalls[name]
		}
	}
	return "", "not a range loop, bounded counter, input-driven loop, consumer loop or acyclic pointer chase (header: " + loopDescr(l) + ")"
}

// progressSource: the value is (a phi of) results of a progress call evaluated on every trip around the loop.
func progressSource(c *Ctx, v ssa.Value, l *Loop, d int) string {
	if d > 4 {
		return ""
	}
	switch x := v.(type) {
	case *ssa.Call:
		name := calleeName(x)
		if _, ok := progressCalls[name]; ok {
			return name
		}
	case *ssa.Phi:
		// every edge coming from inside the loop must be a progress call made inside the loop
		res := ""
		for i, ed := range x.Edges {
			if !l.Blocks[x.Block().Preds[i]] {
				continue
			}
			n := progressSource(c, ed, l, d+1)
			if n == "" {
				return ""
			}
			if in, ok := ed.(ssa.Instruction); ok && !l.Blocks[in.Block()] {
				return ""
			}
			res = n
		}
		return res
	}
	return ""
}

// counterLoop: cond compares a counter phi (incremented by a positive constant on every back edge) with a
// bound that does not grow inside the loop.
func counterLoop(bp *boundsProver, l *Loop, cb *ssa.BasicBlock, bo *ssa.BinOp) (bool, string) {
	var ctr ssa.Value
	var bound ssa.Value
	switch bo.Op {
	case token.LSS, token.LEQ:
		ctr, bound = bo.X, bo.Y
	case token.GTR, token.GEQ:
		ctr, bound = bo.Y, bo.X
	default:
		return false, ""
	}
	// loop continues while ctr < bound: the true edge must stay in the loop
	if !l.Blocks[cb.Succs[0]] {
		return false, ""
	}
	// counter: phi at the header, or phi+1 (range index form)
	var phi *ssa.Phi
	switch x := ctr.(type) {
	case *ssa.Phi:
		phi = x
	case *ssa.BinOp:
		if p2, ok := x.X.(*ssa.Phi); ok && x.Op == token.ADD {
			if k, ok := constInt(x.Y); ok && k > 0 {
				phi = p2
			}
		}
	}
	if phi == nil || phi.Block() != l.Header {
		return false, ""
	}
	for i, ed := range phi.Edges {
		if !l.Blocks[l.Header.Preds[i]] {
			continue
		}
		// back edge value must be phi + positive constant (possibly the compared value itself)
		add, ok := ed.(*ssa.BinOp)
		if !ok || add.Op != token.ADD || add.X != ssa.Value(phi) {
			return false, ""
		}
		if k, ok := constInt(add.Y); !ok || k <= 0 {
			return false, ""
		}
	}
	// the bound: a constant, a parameter, a value defined outside the loop, or len() of something that does not grow in the loop
	switch b := bound.(type) {
	case *ssa.Const, *ssa.Parameter:
		return true, "counter advances by a positive constant towards a loop-invariant bound"
	case *ssa.Call:
		if lx, ok := lenOf(b); ok {
			if in, isIn := lx.(ssa.Instruction); !isIn || !l.Blocks[in.Block()] {
				return true, "counter advances towards len() of a value fixed before the loop"
			}
			// re-evaluated each trip: the cell must not be written inside the loop
			if ld, ok := lx.(*ssa.UnOp); ok && ld.Op == token.MUL {
				cls := storeCell(ld.X)
				for blk := range l.Blocks {
					for _, in := range blk.Instrs {
						if bp.instrWrites(in, cls) {
							return false, ""
						}
					}
				}
				return true, "counter advances towards len() of a slice that is not reassigned inside the loop"
			}
		} else if !l.Blocks[b.Block()] {
			return true, "counter advances towards a bound computed (by a call) before the loop"
		}
	default:
		if in, ok := bound.(ssa.Instruction); ok && !l.Blocks[in.Block()] {
			return true, "counter advances towards a bound computed before the loop"
		}
	}
	return false, ""
}

func (bp *boundsProver) instrWrites(in ssa.Instruction, cls string) bool {
	switch x := in.(type) {
	case *ssa.Store:
		return storeCell(x.Addr) == cls
	case ssa.CallInstruction:
		if _, isB := x.Common().Value.(*ssa.Builtin); isB {
			return false
		}
		for _, cal := range bp.c.P.Callees(x) {
			if bp.c.P.fnIndex[cal] {
				if modKills(bp.e.mods[cal], cls) {
					return true
				}
			}
		}
	}
	return false
}

// consumerLoop: exit when len(cell) == 0; every trip around the loop stores cell = cell[k:] with k >= 1.
func consumerLoop(l *Loop, cb *ssa.BasicBlock, bo *ssa.BinOp) (string, bool) {
	lx, ok := lenOf(bo.X)
	if !ok {
		return "", false
	}
	if k, ok := constInt(bo.Y); !ok || !((k == 0 && (bo.Op == token.EQL || bo.Op == token.NEQ || bo.Op == token.GTR || bo.Op == token.LEQ)) || (k == 1 && (bo.Op == token.GEQ || bo.Op == token.LSS))) {
		return "", false
	}
	ld, ok := lx.(*ssa.UnOp)
	if !ok || ld.Op != token.MUL {
		return "", false
	}
	cell := canon(ld.X)
	okAll := true
	n := acyclicPaths(l.Header, func(path []*ssa.BasicBlock, looped bool) {
		if !looped {
			return
		}
		shrinks := false
		for _, b := range path {
			for _, in := range b.Instrs {
				// a helper that takes the front element of this very list
				if call, isCall := in.(*ssa.Call); isCall && len(call.Call.Args) > 0 && !call.Call.IsInvoke() {
					if f, isTake := takeFrontHelper(call.Call.StaticCallee()); isTake && canon(call.Call.Args[0])+"."+f == cell {
						shrinks = true
					}
				}
				st, ok := in.(*ssa.Store)
				if !ok || canon(st.Addr) != cell {
					continue
				}
				sl, ok := st.Val.(*ssa.Slice)
				if !ok || sl.Low == nil {
					okAll = false
					continue
				}
				k, isC := constInt(sl.Low)
				if src, isLd := sl.X.(*ssa.UnOp); isLd && canon(src.X) == cell && isC && k >= 1 && sl.High == nil {
					shrinks = true
				} else {
					okAll = false
				}
			}
		}
		if !shrinks {
			okAll = false
		}
	})
	if n == 0 || !okAll {
		return "", false
	}
	return "exits when the slice is empty and every trip around the loop removes at least one element from it", true
}

// chaseLoop: the loop follows one pointer field F (x = x.F) until nil; accepted iff F is acyclic by
// construction: every store to F in the module stores nil or is guarded by a bounded ancestor test.
func chaseLoop(c *Ctx, f *ssa.Function, l *Loop, cb *ssa.BasicBlock, bo *ssa.BinOp) (string, bool) {
	if !isNilConst(bo.Y) {
		return "", false
	}
	ld, ok := bo.X.(*ssa.UnOp)
	if !ok || ld.Op != token.MUL {
		return "", false
	}
	fa, ok := ld.X.(*ssa.FieldAddr)
	if !ok {
		return "", false
	}
	phi, ok := fa.X.(*ssa.Phi)
	if !ok || phi.Block() != l.Header {
		return "", false
	}
	// the back-edge value of the phi is a load of the same field of the phi
	for i, ed := range phi.Edges {
		if !l.Blocks[l.Header.Preds[i]] {
			continue
		}
		l2, ok := ed.(*ssa.UnOp)
		if !ok {
			return "", false
		}
		fa2, ok := l2.X.(*ssa.FieldAddr)
		if !ok || fa2.X != ssa.Value(phi) || fa2.Field != fa.Field {
			return "", false
		}
	}
	cls := typeName(fa.X.Type()) + "." + fieldName(fa.X.Type(), fa.Field)
	ok2, why := fieldAcyclicByConstruction(c, fa.X.Type(), fa.Field)
	if !ok2 {
		return "", false
	}
	_ = cls
	return why, true
}

// fieldAcyclicByConstruction: every store to T.F in the module stores nil, or is dominated by the negative
// outcome of a bounded ancestor test anc(x, y, bound) with the store being x.F = y.
func fieldAcyclicByConstruction(c *Ctx, t interface{ String() string }, field int) (bool, string) {
	p := c.P
	var problems []string
	guarded, n := 0, 0
	for _, fn := range p.ModFns {
		for _, b := range fn.Blocks {
			for _, in := range b.Instrs {
				st, ok := in.(*ssa.Store)
				if !ok {
					continue
				}
				fa, ok := st.Addr.(*ssa.FieldAddr)
				if !ok || fa.Field != field || fa.X.Type().String() != t.String() {
					continue
				}
				n++
				if isNilConst(st.Val) {
					continue
				}
				okGuard := false
				for _, ce := range dominatingConds(b) {
					call, ok := ce.Cond.(*ssa.Call)
					if !ok || ce.Val {
						continue
					}
					cal := staticCallee(call)
					if cal == nil || !p.fnIndex[cal] || len(call.Call.Args) < 2 {
						continue
					}
					if canon(call.Call.Args[0]) != canon(fa.X) || canon(call.Call.Args[1]) != canon(st.Val) {
						continue
					}
					if isBoundedAncestorTest(cal, fa.Field) {
						okGuard = true
					}
				}
				if okGuard {
					guarded++
				} else {
					problems = append(problems, fmt.Sprintf("%s in %s links without an ancestor test", p.ipos(st), shortName(fn)))
				}
			}
		}
	}
	// whole-struct stores copy the field: accepted only for values whose field is nil (fresh literals) — checked
	// structurally: composite literals of the type never set the field to non-nil outside the guarded store (counted above)
	if len(problems) > 0 {
		return false, strings.Join(problems, "; ")
	}
	return true, fmt.Sprintf("follows a field that is acyclic by construction: %d store(s), every non-nil one guarded by a bounded ancestor test", n)
}

// isBoundedAncestorTest: anc(x, y, ...) walks y := y.F with a counter-bounded loop, returns true when it meets x
// or when the bound is exceeded, and false only after reaching nil.
func isBoundedAncestorTest(fn *ssa.Function, field int) bool {
	if len(fn.Params) < 2 || fn.Signature.Results().Len() != 1 {
		return false
	}
	x, y := fn.Params[0], fn.Params[1]
	loops := naturalLoops(fn)
	if len(loops) != 1 {
		return false
	}
	l := loops[0]
	// walker phi: phi(y, walker.F)
	var walker *ssa.Phi
	for _, in := range l.Header.Instrs {
		phi, ok := in.(*ssa.Phi)
		if !ok {
			break
		}
		fromY, fromField := false, false
		for _, ed := range phi.Edges {
			if ed == ssa.Value(y) {
				fromY = true
			} else if ld, ok := ed.(*ssa.UnOp); ok {
				if fa, ok := ld.X.(*ssa.FieldAddr); ok && fa.X == ssa.Value(phi) && fa.Field == field {
					fromField = true
				}
			}
		}
		if fromY && fromField {
			walker = phi
		}
	}
	if walker == nil {
		return false
	}
	// the loop is counter bounded
	bp := &boundsProver{depth: 4}
	bounded := false
	if iff, ok := l.Header.Instrs[len(l.Header.Instrs)-1].(*ssa.If); ok {
		if bo, ok := iff.Cond.(*ssa.BinOp); ok {
			// counterLoop needs mods only for len() bounds; here the bound is a parameter/constant
			if okc, _ := counterLoop(bp, l, l.Header, bo); okc {
				bounded = true
			}
		}
	}
	if !bounded {
		return false
	}
	// returns: false only in a block dominated by walker == nil; true when walker == x; true after the loop
	for _, b := range fn.Blocks {
		ret, ok := b.Instrs[len(b.Instrs)-1].(*ssa.Return)
		if !ok {
			continue
		}
		k, isC := ret.Results[0].(*ssa.Const)
		if !isC {
			return false
		}
		bv, _ := constBool(k)
		if bv {
			continue
		}
		// false: must be dominated by walker == nil
		okNil := false
		for _, ce := range dominatingConds(b) {
			if bo, ok := ce.Cond.(*ssa.BinOp); ok && bo.X == ssa.Value(walker) && isNilConst(bo.Y) {
				if (bo.Op == token.EQL && ce.Val) || (bo.Op == token.NEQ && !ce.Val) {
					okNil = true
				}
			}
		}
		if !okNil {
			return false
		}
	}
	// meets x => true: there is a comparison walker == x whose true edge returns true
	meets := false
	for _, b := range fn.Blocks {
		if iff, ok := b.Instrs[len(b.Instrs)-1].(*ssa.If); ok {
			if bo, ok := iff.Cond.(*ssa.BinOp); ok && bo.Op == token.EQL && ((bo.X == ssa.Value(walker) && bo.Y == ssa.Value(x)) || (bo.X == ssa.Value(x) && bo.Y == ssa.Value(walker))) {
				tb := b.Succs[0]
				if ret, ok := tb.Instrs[len(tb.Instrs)-1].(*ssa.Return); ok {
					if k, ok := ret.Results[0].(*ssa.Const); ok {
						if bv, _ := constBool(k); bv {
							meets = true
						}
					}
				}
			}
		}
	}
	return meets
}

// ------------------------------------------------------------ G5 recursion

func runG5(c *Ctx, e *nilEngine) {
	p := c.P
	p.buildEdges()
	inScope := map[*ssa.Function]bool{}
	for _, f := range e.fns {
		inScope[f] = true
	}
	// Tarjan SCC
	index := 0
	idx := map[*ssa.Function]int{}
	low := map[*ssa.Function]int{}
	on := map[*ssa.Function]bool{}
	var stack []*ssa.Function
	var cycles [][]*ssa.Function
	var strong func(v *ssa.Function)
	strong = func(v *ssa.Function) {
		idx[v] = index
		low[v] = index
		index++
		stack = append(stack, v)
		on[v] = true
		self := false
		for _, ed := range p.outEdges[v] {
			w := ed.Callee
			if !inScope[w] {
				continue
			}
			if w == v {
				self = true
			}
			if _, seen := idx[w]; !seen {
				strong(w)
				if low[w] < low[v] {
					low[v] = low[w]
				}
			} else if on[w] && idx[w] < low[v] {
				low[v] = idx[w]
			}
		}
		if low[v] == idx[v] {
			var comp []*ssa.Function
			for {
				w := stack[len(stack)-1]
				stack = stack[:len(stack)-1]
				on[w] = false
				comp = append(comp, w)
				if w == v {
					break
				}
			}
			if len(comp) > 1 || self {
				cycles = append(cycles, comp)
			}
		}
	}
	for _, f := range e.fns {
		if _, seen := idx[f]; !seen {
			strong(f)
		}
	}
	runSelfFormatting(c)
	if len(cycles) == 0 {
		c.Proved("G5", "module", "no recursion", "-", fmt.Sprintf("the call graph over %d in-scope functions is acyclic", len(e.fns)))
		return
	}
	for _, comp := range cycles {
		var names []string
		for _, f := range comp {
			names = append(names, shortName(f))
		}
		sort.Strings(names)
		c.Violated("G5", names[0], "recursion "+strings.Join(names, " <-> "), p.pos(comp[0].Pos()), "recursive call cycle without a termination argument: "+strings.Join(names, ", "))
	}
}

// runSelfFormatting: recursion that the call graph does not show. A String / Error / GoString method that hands its
// own receiver, as a value of the type that has the method, to a formatting function of fmt or log (directly, through
// the variadic slice, or through a helper of the module that passes its argument on) is called again by the
// formatter for the verbs %v, %s, %q: unbounded recursion, a stack overflow that recover() cannot stop, on the first
// value that takes that path. The library formats its own values in log lines (`%+v` of a row), so the parsers
// reach these methods.
func runSelfFormatting(c *Ctx) {
	p := c.P
	n := 0
	formatterCall := func(call *ssa.Call, argIdx int) bool {
		name := calleeName(call)
		if !strings.HasPrefix(name, "fmt.") && !strings.HasPrefix(name, "log.") && !strings.HasPrefix(name, "(*log.Logger).") {
			return false
		}
		// a constant format without %v, %s, %q (and their flagged forms) does not call the method
		for _, a := range call.Call.Args {
			if k, isK := a.(*ssa.Const); isK && k.Value != nil && k.Value.Kind() == constant.String && strings.Contains(name, "f") {
				f := constant.StringVal(k.Value)
				calls := false
				for i := 0; i < len(f); i++ {
					if f[i] != '%' {
						continue
					}
					j := i + 1
					for j < len(f) && strings.ContainsRune("+-# 0123456789.*[]", rune(f[j])) {
						j++
					}
					if j < len(f) && strings.ContainsRune("vsq", rune(f[j])) {
						calls = true
					}
					i = j
				}
				if !calls {
					return false
				}
			}
		}
		return true
	}
	var reaches func(v ssa.Value, d int, seen map[ssa.Value]bool) string
	reaches = func(v ssa.Value, d int, seen map[ssa.Value]bool) string {
		if v.Referrers() == nil || seen[v] || d > 4 {
			return ""
		}
		seen[v] = true
		for _, r := range *v.Referrers() {
			switch x := r.(type) {
			case *ssa.Call:
				for k, a := range x.Call.Args {
					if a != v {
						continue
					}
					if formatterCall(x, k) {
						return calleeName(x) + " at " + p.ipos(x)
					}
					if h := staticCallee(x); h != nil && p.isModuleFn(h) && len(h.Blocks) > 0 && k < len(h.Params) {
						if w := reaches(h.Params[k], d+1, seen); w != "" {
							return w + " (through " + shortName(h) + ")"
						}
					}
				}
			case *ssa.Store:
				if x.Val != v {
					continue
				}
				// the variadic slice: store into an element of a fresh array that is then sliced
				if ia, isIA := x.Addr.(*ssa.IndexAddr); isIA {
					if al, isAlloc := ia.X.(*ssa.Alloc); isAlloc {
						for _, ar := range *al.Referrers() {
							if sl, isSl := ar.(*ssa.Slice); isSl {
								if w := reaches(sl, d, seen); w != "" {
									return w
								}
							}
						}
					}
				}
			case *ssa.Phi:
				if w := reaches(x, d, seen); w != "" {
					return w
				}
			case *ssa.ChangeInterface:
				if w := reaches(x, d, seen); w != "" {
					return w
				}
			}
		}
		return ""
	}
	for _, fn := range p.ModFns {
		if fn.Signature.Recv() == nil || len(fn.Blocks) == 0 || len(fn.Params) == 0 {
			continue
		}
		switch fn.Name() {
		case "String", "Error", "GoString":
		default:
			continue
		}
		if fn.Signature.Params().Len() != 0 || fn.Signature.Results().Len() != 1 {
			continue
		}
		n++
		recvT := fn.Signature.Recv().Type()
		hasMethod := func(t types.Type) bool {
			ms := p.SSA.MethodSets.MethodSet(t)
			for i := 0; i < ms.Len(); i++ {
				if ms.At(i).Obj().Name() == fn.Name() {
					return true
				}
			}
			return false
		}
		_ = recvT
		bad := ""
		for _, b := range fn.Blocks {
			for _, in := range b.Instrs {
				mi, ok := in.(*ssa.MakeInterface)
				if !ok || !hasMethod(mi.X.Type()) || typeName(mi.X.Type()) != typeName(recvT) {
					continue
				}
				if w := reaches(mi, 0, map[ssa.Value]bool{}); w != "" && bad == "" {
					bad = "a value of its own type (" + typeName(mi.X.Type()) + ") is handed to " + w
				}
			}
		}
		c.Check(bad == "", "G5", shortName(fn), "the method does not format a value of its own type", p.pos(fn.Pos()), "no value of the method's type reaches a fmt / log formatter with a verb that calls the method", bad+": the formatter calls the method again, without bound (stack overflow for the first value that takes this path, e.g. in a `%+v` log line of a parser)")
	}
	c.Stats["G5 formatting methods"] = n
}

// ------------------------------------------------------------ init-time constants

func runInitConstants(c *Ctx) {
	p := c.P
	n := 0
	for _, fn := range p.ModFns {
		if fn.Name() != "init" || fn.Parent() != nil {
			continue
		}
		pk := fnPkgPath(fn)
		if isProtoPkg(pk) || strings.HasSuffix(pk, "/cmd") || strings.HasSuffix(pk, "/performance") {
			continue
		}
		for _, b := range fn.Blocks {
			for _, in := range b.Instrs {
				call, ok := in.(*ssa.Call)
				if !ok {
					continue
				}
				if calleeName(call) != "regexp.MustCompile" {
					continue
				}
				n++
				pat, isC := constString(call.Call.Args[0])
				if !isC {
					c.Undecided("G3", shortName(fn), "regexp.MustCompile(non-constant)", p.ipos(call), "pattern is not a constant: MustCompile may panic at init")
					continue
				}
				_, err := regexp.Compile(pat)
				c.Check(err == nil, "G3", shortName(fn), "regexp.MustCompile("+pat+")", p.ipos(call), "constant pattern compiles", fmt.Sprintf("constant pattern does not compile (init panics): %v", err))
			}
		}
	}
	c.Stats["G3 init-time regexps"] = n
	// templates
	tmpls, funcs, ok := collectTemplates(c)
	if ok {
		for _, t := range tmpls {
			c.Check(t.parseErr == nil, "G3", "journal:"+t.file, "template.Must(Parse)", p.pos(t.declPos), fmt.Sprintf("parses with the %d declared functions", len(funcs)), fmt.Sprintf("template does not parse (init panics): %v", t.parseErr))
		}
	}
}
